//! C15 — determinism and independence of the API path: every front end, 8 threads, 3 processes.
use crate::common::*;
use crate::core::*;

pub struct P;

fn apply_ops(b: &mut fst::raw::Builder<Vec<u8>>, ops: &[Op]) {
    for o in ops {
        let _ = match o {
            Op::Insert(k, v) => b.insert(k, *v),
            Op::Add(k) => b.add(k),
        };
    }
}
fn whole_build(ty: u64, ops: &[Op]) -> Option<Vec<u8>> {
    let mut b = fst::raw::Builder::new_type(Vec::new(), ty).ok()?;
    apply_ops(&mut b, ops);
    b.into_inner().ok()
}
/// accepts `room` bytes, then fails every write
struct FullSink {
    room: usize,
}
impl std::io::Write for FullSink {
    fn write(&mut self, buf: &[u8]) -> std::io::Result<usize> {
        if self.room == 0 {
            return Err(std::io::Error::new(std::io::ErrorKind::Other, "full"));
        }
        let n = buf.len().min(self.room);
        self.room -= n;
        Ok(n)
    }
    fn flush(&mut self) -> std::io::Result<()> {
        Ok(())
    }
}
fn build_after_failed_builds_differs(ty: u64, ops: &[Op], expect: &Vec<u8>) -> Option<String> {
    let n = expect.len();
    // the sink fills up inside the header, right after it, inside the first nodes, in the middle, in the footer
    let mut rooms = vec![0usize, 7, 16, 17, 18, 19, 21, 24, 33, n / 2, n.saturating_sub(21), n.saturating_sub(5), n.saturating_sub(1)];
    rooms.sort();
    rooms.dedup();
    for room in rooms {
        if room >= n {
            continue;
        }
        // run on a fresh thread so that every position starts from a clean per-thread state
        let r: Option<String> = std::thread::scope(|s| {
            s.spawn(move || {
                let failed = match fst::raw::Builder::new_type(FullSink { room }, ty) {
                    Err(_) => true,
                    Ok(mut b) => {
                        let mut any_err = false;
                        for o in ops {
                            let r = match o {
                                Op::Insert(k, v) => b.insert(k, *v),
                                Op::Add(k) => b.add(k),
                            };
                            any_err |= r.is_err();
                        }
                        b.into_inner().is_err() || any_err
                    }
                };
                if !failed {
                    return Some(format!("a sink with room for {} of {} bytes: the build did not fail", room, n));
                }
                for round in 0..2 {
                    if whole_build(ty, ops).as_ref() != Some(expect) {
                        return Some(format!("build number {} after a build whose sink was full after {} of {} bytes", round + 1, room, n));
                    }
                }
                None
            })
            .join()
            .unwrap()
        });
        if r.is_some() {
            return r;
        }
    }
    None
}

/// Thread A (fresh) creates a builder and fills the first part; thread B (fresh) receives it, fills the
/// rest and finishes it, then makes two builds of its own and creates a third builder that goes back to
/// A's side (this thread). Every result must be `expect`. Returns the name of the first one that is not.
fn migrating_builds_differ(ty: u64, ops: &[Op], expect: &Vec<u8>) -> Option<String> {
    use std::sync::mpsc::channel;
    let cuts = [0usize, ops.len() / 2, ops.len()];
    for (ci, &cut) in cuts.iter().enumerate() {
        let (to_b, from_a) = channel::<fst::raw::Builder<Vec<u8>>>();
        let (to_a, from_b) = channel::<fst::raw::Builder<Vec<u8>>>();
        let r: Option<String> = std::thread::scope(|s| {
            let a = s.spawn(move || {
                let mut b = fst::raw::Builder::new_type(Vec::new(), ty).unwrap();
                apply_ops(&mut b, &ops[..cut]);
                to_b.send(b).unwrap();
                // A's own build after handing one away
                whole_build(ty, ops)
            });
            let bth = s.spawn(move || {
                let mut b = from_a.recv().unwrap();
                apply_ops(&mut b, &ops[cut..]);
                let moved = b.into_inner().ok();
                let own1 = whole_build(ty, ops);
                let own2 = whole_build(ty, ops);
                let back = fst::raw::Builder::new_type(Vec::new(), ty).unwrap();
                to_a.send(back).unwrap();
                (moved, own1, own2)
            });
            let a_own = a.join().unwrap();
            let (moved, own1, own2) = bth.join().unwrap();
            let mut back = from_b.recv().unwrap();
            apply_ops(&mut back, ops);
            let back_bytes = back.into_inner().ok();
            let here = whole_build(ty, ops);
            for (name, got) in [("moved A->B", moved), ("B own 1st", own1), ("B own 2nd", own2), ("A own", a_own), ("created on B, finished here", back_bytes), ("own after finishing B's", here)] {
                if got.as_ref() != Some(expect) {
                    return Some(format!("{}, handed over after {} of {} calls", name, cut, ops.len()));
                }
            }
            None
        });
        if r.is_some() {
            return r;
        }
        if ops.is_empty() && ci == 0 {
            break;
        }
    }
    None
}

fn all_paths_bytes(ty: u64, ops: &[Op]) -> Result<Vec<u8>, String> {
    let mut reference: Option<(String, Option<Vec<u8>>)> = None;
    for (sem, fe) in applicable_front_ends(ops, true, ty) {
        let b = exec_build(sem, fe, ty, drows(), dcols(), ops).bytes;
        match &reference {
            None => reference = Some((format!("{}/{}", sem, fe), b)),
            Some((name, r)) => {
                if *r != b {
                    return Err(format!("{}/{} differs from {}", sem, fe, name));
                }
            }
        }
    }
    // sets: stream a union of two or three other sets into a SetBuilder
    if ty == 0 && !ops.is_empty() && ops.iter().all(|o| matches!(o, Op::Add(..))) {
        let ks: Vec<Vec<u8>> = ops.iter().map(|o| o.key().to_vec()).collect();
        let mut parts: Vec<Vec<Vec<u8>>> = vec![vec![], vec![], vec![]];
        for (i, k) in ks.iter().enumerate() {
            parts[i % 3].push(k.clone());
            if i % 5 == 0 {
                parts[(i + 1) % 3].push(k.clone());
            }
        }
        let sets: Vec<fst::Set<Vec<u8>>> = parts.iter().map(|p| fst::Set::from_iter(sort_dedup(p.clone())).unwrap()).collect();
        let mut b = fst::SetBuilder::memory();
        let mut opb = fst::set::OpBuilder::new();
        for s in &sets {
            opb = opb.add(s);
        }
        b.extend_stream(opb.union()).map_err(|e| format!("extend_stream(union): {}", e))?;
        let bytes = b.into_inner().unwrap();
        if Some(&bytes) != reference.as_ref().unwrap().1.as_ref() {
            return Err("SetBuilder::extend_stream(union of sets) differs".into());
        }
    }
    // the streaming entry point Builder::new(W): the bytes a writer holds when the builder is done do not depend
    // on how many bytes it takes per call (short writes are legal), on interruptions, on buffering in front of it,
    // or on whether it commits only on flush - writers lent by &mut and inspected right after finish()
    if let Some((_, Some(r))) = &reference {
        crate::wrap::sink_routes(ty, ops, r)?;
    }
    reference.unwrap().1.ok_or("no fst".to_string())
}

impl Prop for P {
    fn generate(&self, tier: Tier, rng: &mut Rng, stats: &mut Stats) -> Vec<String> {
        let mut cases = vec![];
        let nrand = match tier { Tier::Quick => 200, Tier::Thorough => 3000, Tier::Wide => 800 };
        let sets = crate::c02::standard_keysets(tier, rng, stats, nrand);
        for ks in sets {
            cases.push(build_case("extend", "all", 0, drows(), dcols(), &set_ops(&ks)));
            let p = 1 + rng.below(NPATTERNS as u64 - 1) as usize;
            let vals = value_pattern(p, ks.len(), rng);
            let ty = if rng.chance(1, 6) { rng.next() } else { 0 };
            cases.push(build_case("extend", "all", ty, drows(), dcols(), &map_ops(&with_values(&ks, &vals))));
        }
        // histories with rejected calls (duplicates with smaller / larger values, smaller keys) in between: the bytes
        // must equal those of the accepted sequence alone
        for _ in 0..(nrand / 2).max(60) {
            let ks = random_keyset(rng, 12, 4);
            let vals = value_pattern(5, ks.len(), rng);
            let mut ops = vec![];
            for (i, k) in ks.iter().enumerate() {
                ops.push(Op::Insert(k.clone(), vals[i]));
                match rng.below(5) {
                    0 => ops.push(Op::Insert(k.clone(), vals[i] / 2)),          // duplicate, smaller value
                    1 => ops.push(Op::Insert(k.clone(), vals[i] + 1000)),       // duplicate, larger value
                    2 if i > 0 => ops.push(Op::Insert(ks[i - 1].clone(), 1)),   // out of order
                    _ => {}
                }
            }
            cases.push(build_case("calls", "dirty", 0, drows(), dcols(), &ops));
            stats.bump("histories_with_rejected_calls");
        }
        // key sets large enough that node-cache buckets overflow: front ends that silently used a different
        // cache geometry (or hash) would then emit different bytes
        let big: &[(&str, usize)] = if tier == Tier::Quick { &[("words-10000", 2500), ("wiki-urls-10000", 800)] } else { &[("words-10000", 10_000), ("wiki-urls-10000", 4000)] };
        for (f, n) in big {
            let ks = corpus(f, *n);
            if ks.is_empty() {
                continue;
            }
            cases.push(build_case("extend", "all", 0, drows(), dcols(), &set_ops(&ks)));
            let vals = value_pattern(6, ks.len(), rng);
            cases.push(build_case("extend", "all", 0, drows(), dcols(), &map_ops(&with_values(&ks, &vals))));
            stats.bump("corpus_keysets");
        }
        // many distinct nodes from generated keys (about 20 nodes per key)
        for n in [400usize, 1500] {
            let ks = sort_dedup((0..n).map(|i| format!("{:04}-{:x}-{}", i, (i as u64).wrapping_mul(0x9E3779B97F4A7C15) >> 40, "z".repeat(i % 7)).into_bytes()).collect());
            let vals = value_pattern(6, ks.len(), rng);
            cases.push(build_case("extend", "all", 0, drows(), dcols(), &map_ops(&with_values(&ks, &vals))));
            stats.bump("generated_many_nodes");
        }
        cases
    }
    fn nontrivial(&self, case: &str) -> bool {
        case.matches(',').count() >= 1
    }
    fn execute(&self, case: &str) -> String {
        let p: Vec<&str> = case.split(' ').collect();
        let ty: u64 = p[3].parse().unwrap();
        let ops = parse_ops(p[6]);
        let mut x = String::from("ok");
        if p[2] == "dirty" {
            // single calls incl. rejected ones, on the raw builder and on MapBuilder, vs the accepted calls only
            let dirty_raw = exec_build("calls", "raw", ty, drows(), dcols(), &ops);
            let dirty_map = exec_build("calls", "map", ty, drows(), dcols(), &ops);
            let accepted: Vec<Op> = ops.iter().zip(dirty_raw.results.iter()).filter(|(_, r)| *r == "ok").map(|(o, _)| o.clone()).collect();
            let clean = exec_build("extend", "raw_loop", ty, drows(), dcols(), &accepted);
            if dirty_raw.bytes != clean.bytes {
                x = "raw builder: bytes after rejected calls differ from the accepted sequence alone".into();
            }
            if dirty_map.bytes != clean.bytes {
                x = "MapBuilder: bytes after rejected calls differ from the accepted sequence alone".into();
            }
            let bytes = clean.bytes.unwrap();
            let f = fst::raw::Fst::new(bytes.clone()).unwrap();
            let kvs = f.stream().into_byte_vec();
            return format!("S:r={};c={};len={}\tM:bytes={};bw=na;st=na\tX:{}", dirty_raw.results.join(","), fmt_kvs(&kvs), f.len(), hex(&bytes), x);
        }
        let bytes = match all_paths_bytes(ty, &ops) {
            Ok(b) => b,
            Err(e) => {
                x = e;
                exec_build("extend", "raw_loop", ty, drows(), dcols(), &ops).bytes.unwrap()
            }
        };
        // repeated builds in 8 parallel threads
        let same = std::thread::scope(|s| {
            let hs: Vec<_> = (0..8)
                .map(|i| {
                    let ops = &ops;
                    s.spawn(move || {
                        let fes = applicable_front_ends(ops, true, ty);
                        let (sem, fe) = fes[i % fes.len()];
                        exec_build(sem, fe, ty, drows(), dcols(), ops).bytes
                    })
                })
                .collect();
            hs.into_iter().all(|h| h.join().unwrap().as_ref() == Some(&bytes))
        });
        if !same {
            x = "bytes differ between threads".into();
        }
        // builders that CHANGE threads: created on one thread, filled and finished on another, followed by
        // builds of the receiving thread's own (a builder is Send; whatever per-thread state the crate
        // keeps must not leak from one build into the next)
        if let Some(which) = migrating_builds_differ(ty, &ops, &bytes) {
            x = format!("bytes differ for a builder that changed threads ({})", which);
        }
        crate::common::xcount("c15_migrating_builders");
        // a build on this thread right AFTER builds that failed (the sink stops accepting at some byte, or
        // fails once and then recovers while the caller gives up): whatever a failed build leaves behind
        // in the crate must not show in the next one
        if let Some(which) = build_after_failed_builds_differs(ty, &ops, &bytes) {
            x = format!("bytes differ for a build that follows a failed build on the same thread ({})", which);
        }
        crate::common::xcount("c15_build_after_failed_build");
        let f = fst::raw::Fst::new(bytes.clone()).unwrap();
        let kvs = f.stream().into_byte_vec();
        // E: evictions of this build under the default cache (see core::exec_build_case)
        let e = match exec_build("extend", "raw_loop", ty, drows(), dcols(), &ops).stats {
            Some(s) => s[2].to_string(),
            None => "na".into(),
        };
        format!("S:r=ok;c={};len={}\tM:bytes={};bw=na;st=na\tX:{}\tE:{}", fmt_kvs(&kvs), f.len(), hex(&bytes), x, e)
    }
    fn extras(&self, _tier: Tier, rng: &mut Rng, _stats: &mut Stats) -> Vec<(String, bool, String)> {
        // the Default entry point: Set::default() / Map::default() are the empty sequence built once more
        let default_check = {
            let es = fst::Set::from_iter(Vec::<Vec<u8>>::new()).unwrap();
            let em = fst::Map::from_iter(Vec::<(Vec<u8>, u64)>::new()).unwrap();
            let eb = fst::raw::Builder::memory().into_inner().unwrap();
            let ds = fst::Set::<Vec<u8>>::default();
            let dm = fst::Map::<Vec<u8>>::default();
            let mut bad = vec![];
            if ds.as_fst().as_bytes() != es.as_fst().as_bytes() || ds.as_fst().as_bytes() != &eb[..] {
                bad.push(format!("Set::default() has {} bytes, the builder's empty set {}", ds.as_fst().as_bytes().len(), eb.len()));
            }
            if dm.as_fst().as_bytes() != em.as_fst().as_bytes() || dm.as_fst().as_bytes() != &eb[..] {
                bad.push(format!("Map::default() has {} bytes, the builder's empty map {}", dm.as_fst().as_bytes().len(), eb.len()));
            }
            if ds.contains("") || ds.len() != 0 || !ds.is_empty() || ds.stream().into_bytes().len() != 0 {
                bad.push("Set::default() is not empty (contains / len / stream)".to_string());
            }
            if dm.contains_key("") || dm.len() != 0 || !dm.is_empty() || dm.stream().into_byte_vec().len() != 0 {
                bad.push("Map::default() is not empty (contains_key / len / stream)".to_string());
            }
            ("default_is_the_empty_build".to_string(), bad.is_empty(), if bad.is_empty() { "Set::default() and Map::default() are byte-identical to the builder's empty fst and hold nothing".to_string() } else { format!("failing input: the empty sequence through the Default entry point; {}", bad.join("; ")) })
        };
        let mut first = vec![default_check];
        first.extend(extras_processes(self, rng));
        first
    }
}

fn extras_processes(this: &P, rng: &mut Rng) -> Vec<(String, bool, String)> {
    {
        // separate processes: re-run a sample of cases in three child processes and compare the result lines
        let exe = std::env::current_exe().unwrap();
        let dir = exe.parent().unwrap().join("c15-proc");
        let _ = std::fs::create_dir_all(&dir);
        let mut cases = vec![];
        for _ in 0..40 {
            let ks = random_keyset(rng, 40, 6);
            let vals = value_pattern(6, ks.len(), rng);
            cases.push(build_case("extend", "all", 0, drows(), dcols(), &map_ops(&with_values(&ks, &vals))));
            cases.push(build_case("extend", "all", 0, drows(), dcols(), &set_ops(&ks)));
        }
        // node caches of a few buckets, where nodes compete for cells all the time: which node is evicted - hence
        // the bytes - depends on the bucket function, which must be the same in every process (these lines are
        // executed by the C01 executor, which honours the geometry of the case line)
        let mut tiny = vec![];
        for _ in 0..60 {
            let ks = random_keyset(rng, 40, 6);
            let vals = value_pattern(6, ks.len(), rng);
            let g = *rng.pick(&[(2usize, 1usize), (2, 2), (3, 3), (7, 4), (5, 1)]);
            tiny.push(build_case("extend", "raw_loop", 0, g.0, g.1, &map_ops(&with_values(&ks, &vals))));
            tiny.push(build_case("calls", "raw", 0, g.0, g.1, &set_ops(&ks)));
        }
        let tf = dir.join("tiny.txt");
        std::fs::write(&tf, tiny.join("\n") + "\n").unwrap();
        let tiny_inproc: Vec<String> = tiny.iter().map(|c| exec_build_case(&c["build ".len()..])).collect();
        for i in 0..3 {
            let of = dir.join(format!("tiny{}.txt", i));
            let st = std::process::Command::new(&exe).args(["C01", "exec", tf.to_str().unwrap(), of.to_str().unwrap()]).status();
            if st.map(|s| !s.success()).unwrap_or(true) {
                return vec![("cross_process_determinism".into(), false, "child process failed".into())];
            }
            let got = std::fs::read_to_string(&of).unwrap_or_default();
            let gl: Vec<String> = got.lines().map(|l| l.to_string()).collect();
            if gl != tiny_inproc {
                let _ = std::fs::remove_dir_all(&dir);
                // name the input: the first case whose result line differs between the two processes
                let j = (0..tiny.len()).find(|&j| gl.get(j) != tiny_inproc.get(j)).unwrap_or(0);
                let cut = |t: &str| t.chars().take(600).collect::<String>();
                return vec![("cross_process_determinism".into(), false, format!("a build under a tiny node cache gives other bytes in child process {} than in this process ({} builds compared); failing input: {} ; this process: {} ; child process: {}", i, tiny.len(), cut(&tiny[j]), cut(tiny_inproc.get(j).map(|x| x.as_str()).unwrap_or("-")), cut(gl.get(j).map(|x| x.as_str()).unwrap_or("-"))))];
            }
        }
        let cf = dir.join("cases.txt");
        std::fs::write(&cf, cases.join("\n") + "\n").unwrap();
        let mut outs = vec![];
        for i in 0..3 {
            let of = dir.join(format!("out{}.txt", i));
            let st = std::process::Command::new(&exe).args(["C15", "exec", cf.to_str().unwrap(), of.to_str().unwrap()]).status();
            if st.map(|s| !s.success()).unwrap_or(true) {
                return vec![("cross_process_determinism".into(), false, "child process failed".into())];
            }
            outs.push(std::fs::read_to_string(&of).unwrap_or_default());
        }
        let inproc: Vec<String> = cases.iter().map(|c| this.execute(c)).collect();
        let ok = outs.iter().all(|o| o.lines().map(|l| l.to_string()).collect::<Vec<_>>() == inproc);
        let _ = std::fs::remove_dir_all(&dir);
        let mut detail = format!("{} builds x 3 child processes compared with the in-process result", cases.len());
        if !ok {
            for o in &outs {
                let ol: Vec<&str> = o.lines().collect();
                if let Some(j) = (0..cases.len()).find(|&j| ol.get(j).copied() != inproc.get(j).map(|x| x.as_str())) {
                    detail += &format!("; failing input: {}", cases[j].chars().take(600).collect::<String>());
                    break;
                }
            }
        }
        vec![("cross_process_determinism".into(), ok, detail)]
    }
}
