//! Self-checks (X) of the thin public wrappers of src/map.rs, src/set.rs, src/stream.rs and src/raw/mod.rs
//! (+ the public accessors of raw::Node).  Nothing here is compared with the model directly: every function
//! takes the RAW result that the executor prints into S/M (and that is therefore compared with the Coq
//! specification and model) and checks that the wrapper gives exactly what that raw result implies.
//! Each function records what it ran with `xcount` (-> `selfcheck_*` counters of the evidence file).
use crate::common::*;
use crate::core::Op;
use fst::automaton::Automaton;
use fst::raw::{Fst, Output, Transition};
use fst::{IntoStreamer, Map, Set, Streamer};
use std::borrow::Cow;
use std::collections::HashSet;

pub type Kvs = Vec<(Vec<u8>, u64)>;

/// run a Streamer to its end by hand (`next` until None, then once more: it must stay at None)
macro_rules! drain {
    ($what:expr, $s:expr, $p:pat => $e:expr) => {{
        let mut s = $s;
        let mut out = vec![];
        while let Some($p) = s.next() {
            out.push($e);
        }
        if s.next().is_some() {
            return Err(format!("{}: yields an item again after None", $what));
        }
        out
    }};
}
macro_rules! want {
    ($cond:expr, $($msg:tt)*) => {
        if !($cond) {
            return Err(format!($($msg)*));
        }
    };
}

fn keys_of(kvs: &Kvs) -> Vec<Vec<u8>> {
    kvs.iter().map(|kv| kv.0.clone()).collect()
}
fn vals_of(kvs: &Kvs) -> Vec<u64> {
    kvs.iter().map(|kv| kv.1).collect()
}

/// `into_str_*`: Ok(the same items as strings) when every key is valid UTF-8, otherwise
/// Err(Fst(FromUtf8(e))) where e carries the first key (in stream order) that is not.
fn check_str<T: PartialEq>(what: &str, got: Result<T, fst::Error>, want: Option<T>, first_bad: Option<&Vec<u8>>) -> Result<(), String> {
    match (got, want, first_bad) {
        (Ok(g), Some(w), None) => {
            want!(g == w, "{}: Ok, but not the items of the raw stream", what);
            Ok(())
        }
        (Ok(_), _, Some(bad)) => Err(format!("{}: Ok although key {} is not valid UTF-8", what, hex(bad))),
        (Err(fst::Error::Fst(fst::raw::Error::FromUtf8(e))), _, Some(bad)) => {
            want!(e.as_bytes() == &bad[..], "{}: FromUtf8 error carries {} but the first invalid key is {}", what, hex(e.as_bytes()), hex(bad));
            Ok(())
        }
        (Err(e), _, _) => Err(format!("{}: unexpected error {}", what, e)),
        (Ok(_), None, None) => unreachable!(),
    }
}

/// Enumeration through every public wrapper.  `f` = Fst::new(bytes), `kvs` = f.stream().into_byte_vec()
/// (what the executor prints as the content and the model side specifies).
pub fn enum_wrappers(bytes: &[u8], f: &Fst<Vec<u8>>, kvs: &Kvs) -> Result<(), String> {
    let keys = keys_of(kvs);
    let vals = vals_of(kvs);
    let total: usize = keys.iter().map(|k| k.len() + 1).sum();
    let map = Map::new(bytes.to_vec()).map_err(|e| format!("Map::new rejects bytes that Fst::new accepts: {}", e))?;
    let set = Set::new(bytes.to_vec()).map_err(|e| format!("Set::new rejects bytes that Fst::new accepts: {}", e))?;
    // len / is_empty
    want!(map.len() == f.len() && set.len() == f.len(), "Map::len()={} Set::len()={} but Fst::len()={}", map.len(), set.len(), f.len());
    want!(map.is_empty() == f.is_empty() && set.is_empty() == f.is_empty(), "Map/Set::is_empty() differ from Fst::is_empty()={}", f.is_empty());
    // the Streamer impls of map::Stream, map::Keys, map::Values, set::Stream, raw::Stream
    want!(drain!("Map::stream", map.stream(), (k, v) => (k.to_vec(), v)) == *kvs, "Map::stream() differs from the raw stream");
    want!(drain!("Map::keys", map.keys(), k => k.to_vec()) == keys, "Map::keys() differs from the keys of the raw stream");
    want!(drain!("Map::values", map.values(), v => v) == vals, "Map::values() differs from the values of the raw stream");
    want!(drain!("Set::stream", set.stream(), k => k.to_vec()) == keys, "Set::stream() differs from the keys of the raw stream");
    xcount("enum_stream_keys_values_len");
    if total > 8192 {
        // big key sets: the loops above only
        return Ok(());
    }
    want!(drain!("raw Stream::next", f.stream(), (k, v) => (k.to_vec(), v.value())) == *kvs, "raw Stream::next loop differs from into_byte_vec");
    // IntoStreamer for &Map, &Set, &Fst
    want!(drain!("&Map into_stream", (&map).into_stream(), (k, v) => (k.to_vec(), v)) == *kvs, "IntoStreamer for &Map differs from the raw stream");
    want!(drain!("&Set into_stream", (&set).into_stream(), k => k.to_vec()) == keys, "IntoStreamer for &Set differs from the raw stream");
    want!(drain!("&Fst into_stream", f.into_stream(), (k, v) => (k.to_vec(), v.value())) == *kvs, "IntoStreamer for &Fst differs from the raw stream");
    xcount("enum_into_streamer_refs");
    // collectors of map::Stream / set::Stream
    want!(map.stream().into_byte_vec() == *kvs, "map Stream::into_byte_vec differs from the raw stream");
    want!(map.stream().into_byte_keys() == keys, "map Stream::into_byte_keys differs from the raw stream");
    want!(map.stream().into_values() == vals, "map Stream::into_values differs from the raw stream");
    want!(set.stream().into_bytes() == keys, "set Stream::into_bytes differs from the raw stream");
    xcount("enum_byte_collectors");
    // the string collectors: Ok on valid UTF-8 only
    let first_bad = keys.iter().find(|k| std::str::from_utf8(k).is_err());
    let (skv, sk): (Option<Vec<(String, u64)>>, Option<Vec<String>>) = if first_bad.is_none() {
        let sk: Vec<String> = keys.iter().map(|k| String::from_utf8(k.clone()).unwrap()).collect();
        (Some(sk.iter().cloned().zip(vals.iter().cloned()).collect()), Some(sk))
    } else {
        (None, None)
    };
    check_str("raw Stream::into_str_vec", f.stream().into_str_vec(), skv.clone(), first_bad)?;
    check_str("raw Stream::into_str_keys", f.stream().into_str_keys(), sk.clone(), first_bad)?;
    check_str("map Stream::into_str_vec", map.stream().into_str_vec(), skv, first_bad)?;
    check_str("map Stream::into_str_keys", map.stream().into_str_keys(), sk.clone(), first_bad)?;
    check_str("set Stream::into_strs", set.stream().into_strs(), sk, first_bad)?;
    xcount(if first_bad.is_some() { "enum_str_collectors_err_invalid_utf8" } else { "enum_str_collectors_ok" });
    // views of the bytes
    want!(f.as_bytes() == bytes && f.to_vec() == bytes && &f.as_inner()[..] == bytes && f.size() == bytes.len(), "Fst::as_bytes/to_vec/as_inner/size differ from the bytes the Fst was opened on");
    want!(f.clone().into_inner() == bytes, "Fst::into_inner differs from the bytes the Fst was opened on");
    want!(bytes.len() >= 8 && bytes[..8] == fst::raw::VERSION.to_le_bytes(), "the file does not start with the public constant raw::VERSION = {}", fst::raw::VERSION);
    want!(map.as_fst().as_bytes() == bytes && set.as_fst().as_bytes() == bytes, "Map/Set::as_fst().as_bytes() differ from the bytes");
    {
        let rm: &Fst<Vec<u8>> = map.as_ref();
        let rs: &Fst<Vec<u8>> = set.as_ref();
        want!(rm.as_bytes() == bytes && rs.as_bytes() == bytes, "AsRef<Fst> for Map/Set differ from the bytes");
        want!(rm.len() == f.len() && rm.fst_type() == f.fst_type() && rm.root().addr() == f.root().addr(), "Map::as_fst(): len/type/root differ from Fst::new on the same bytes");
    }
    want!(map.clone().into_fst().into_inner() == bytes && set.clone().into_fst().into_inner() == bytes, "Map/Set::into_fst().into_inner() differ from the bytes");
    let m2 = Map::from(f.clone());
    let s2 = Set::from(f.clone());
    want!(m2.len() == f.len() && m2.stream().into_byte_vec() == *kvs, "Map::from(Fst) enumerates something else than the Fst");
    want!(s2.len() == f.len() && s2.stream().into_bytes() == keys, "Set::from(Fst) enumerates something else than the Fst");
    xcount("enum_as_fst_into_fst_from_fst_bytes_views");
    // map_data on the wrappers
    let mc = map.clone().map_data(Cow::<[u8]>::Owned).map_err(|e| format!("Map::map_data(Cow::Owned) fails: {}", e))?;
    want!(mc.len() == f.len() && mc.stream().into_byte_vec() == *kvs, "Map::map_data(Cow::Owned) enumerates something else");
    let sc = set.clone().map_data(std::sync::Arc::<[u8]>::from).map_err(|e| format!("Set::map_data(Arc) fails: {}", e))?;
    want!(sc.len() == f.len() && sc.stream().into_bytes() == keys, "Set::map_data(Arc<[u8]>) enumerates something else");
    xcount("enum_map_data");
    // Debug of Map / Set: only that it does not panic - its text is no part of any property, and a
    // maintainer is free to change it
    if total <= 512 {
        let _ = format!("{:?} {:?}", map, set);
        xcount("enum_debug_map_set");
    }
    // Default = the empty map / set (type 0)
    if kvs.is_empty() && f.fst_type() == 0 {
        want!(Map::default().as_fst().as_bytes() == bytes, "Map::default() is not the empty map the builder writes");
        want!(Set::default().as_fst().as_bytes() == bytes, "Set::default() is not the empty set the builder writes");
        xcount("enum_default_is_empty_build");
    }
    Ok(())
}

/// The in-memory ends of the builders: the same calls on MapBuilder::memory() / SetBuilder::memory() /
/// raw Builder::memory() finished with into_map / into_set / into_fst give the bytes of the case
/// (default geometry, type 0 only).  `stop_at_error`: the front end of the case stops at the first rejected call.
/// One replay per case, chosen by the front end of the case (every op list goes through all of them): the map front
/// ends replay on MapBuilder, the set front ends on SetBuilder, the raw call front ends on raw::Builder.
pub fn builder_wrappers(fe: &str, ops: &[Op], stop_at_error: bool, bytes: &[u8]) -> Result<(), String> {
    let all_insert = ops.iter().all(|o| matches!(o, Op::Insert(..)));
    let all_add = ops.iter().all(|o| matches!(o, Op::Add(..)));
    if all_insert && (fe == "map" || fe == "map_iter") {
        let mut b = fst::MapBuilder::memory();
        for o in ops {
            let r = b.insert(o.key(), o.val());
            want!(b.get_ref().len() as u64 == b.bytes_written(), "MapBuilder: get_ref() holds {} bytes but bytes_written()={}", b.get_ref().len(), b.bytes_written());
            if r.is_err() && stop_at_error {
                break;
            }
        }
        want!(bytes.starts_with(b.get_ref()), "MapBuilder::get_ref(): the bytes written so far are not a prefix of the finished file");
        let m = b.into_map();
        want!(m.as_fst().as_bytes() == bytes, "MapBuilder::memory()..into_map() gives other bytes than into_inner()");
        xcount("builder_memory_into_map_get_ref");
    }
    if all_add && (fe == "set" || fe == "set_iter") {
        let mut b = fst::SetBuilder::memory();
        for o in ops {
            let r = b.insert(o.key());
            want!(b.get_ref().len() as u64 == b.bytes_written(), "SetBuilder: get_ref() holds {} bytes but bytes_written()={}", b.get_ref().len(), b.bytes_written());
            if r.is_err() && stop_at_error {
                break;
            }
        }
        want!(bytes.starts_with(b.get_ref()), "SetBuilder::get_ref(): the bytes written so far are not a prefix of the finished file");
        let s = b.into_set();
        want!(s.as_fst().as_bytes() == bytes, "SetBuilder::memory()..into_set() gives other bytes than into_inner()");
        xcount("builder_memory_into_set_get_ref");
    }
    if fe == "raw" || fe == "raw_loop" {
        let mut b = fst::raw::Builder::memory();
        for o in ops {
            let r = match o {
                Op::Insert(k, v) => b.insert(k, *v),
                Op::Add(k) => b.add(k),
            };
            if r.is_err() && stop_at_error {
                break;
            }
        }
        want!(b.get_ref().len() as u64 == b.bytes_written() && bytes.starts_with(b.get_ref()), "raw Builder::get_ref()/bytes_written() disagree with the finished file");
        let f = b.into_fst();
        want!(f.as_bytes() == bytes, "raw Builder::memory()..into_fst() gives other bytes than into_inner()");
        xcount("builder_memory_into_fst_get_ref");
    }
    Ok(())
}

pub fn apply_calls_note(calls: &[(u8, Vec<u8>)]) -> String {
    crate::c03::fmt_calls(calls)
}

macro_rules! bounded {
    ($b:expr, $calls:expr) => {{
        let mut b = $b;
        for (k, bound) in $calls {
            b = match k {
                0 => b.ge(bound),
                1 => b.gt(bound),
                2 => b.le(bound),
                _ => b.lt(bound),
            };
        }
        b
    }};
}

/// The same bound calls through Map::range and Set::range (and the collectors of their streams) give the
/// projection of the raw range result `got`.
pub fn range_wrappers(map: &Map<Vec<u8>>, set: &Set<Vec<u8>>, calls: &[(u8, Vec<u8>)], got: &Kvs, full: bool) -> Result<(), String> {
    let keys = keys_of(got);
    let note = || apply_calls_note(calls);
    want!(drain!("Map::range stream", bounded!(map.range(), calls).into_stream(), (k, v) => (k.to_vec(), v)) == *got, "Map::range next-loop differs from the raw range for {}", note());
    want!(drain!("Set::range stream", bounded!(set.range(), calls).into_stream(), k => k.to_vec()) == keys, "Set::range differs from the keys of the raw range for {}", note());
    // the range builders that carry automaton states (search_with_state) with the automaton that accepts
    // everything: the same bounds must select the same entries
    {
        use fst::automaton::AlwaysMatch;
        let vm = drain!("Map::search_with_state(AlwaysMatch) stream", bounded!(map.search_with_state(AlwaysMatch), calls).into_stream(), (k, v, _s) => (k.to_vec(), v));
        want!(vm == *got, "Map::search_with_state(AlwaysMatch) with bounds differs from the raw range for {}", note());
        let vs = drain!("Set::search_with_state(AlwaysMatch) stream", bounded!(set.search_with_state(AlwaysMatch), calls).into_stream(), (k, _s) => k.to_vec());
        want!(vs == keys, "Set::search_with_state(AlwaysMatch) with bounds differs from the keys of the raw range for {}", note());
        let vr = drain!("raw search_with_state(AlwaysMatch) stream", bounded!(map.as_fst().search_with_state(AlwaysMatch), calls).into_stream(), (k, v, _s) => (k.to_vec(), v.value()));
        want!(vr == *got, "raw Fst::search_with_state(AlwaysMatch) with bounds differs from the raw range for {}", note());
        let vq = drain!("Map::search(AlwaysMatch) stream", bounded!(map.search(AlwaysMatch), calls).into_stream(), (k, v) => (k.to_vec(), v));
        want!(vq == *got, "Map::search(AlwaysMatch) with bounds differs from the raw range for {}", note());
        let vt = drain!("Set::search(AlwaysMatch) stream", bounded!(set.search(AlwaysMatch), calls).into_stream(), k => k.to_vec());
        want!(vt == keys, "Set::search(AlwaysMatch) with bounds differs from the keys of the raw range for {}", note());
    }
    if full {
        let vals = vals_of(got);
        want!(bounded!(set.range(), calls).into_stream().into_bytes() == keys, "Set::range..into_bytes differs from the keys of the raw range for {}", note());
        want!(bounded!(map.range(), calls).into_stream().into_byte_keys() == keys, "Map::range..into_byte_keys differs from the raw range for {}", note());
        want!(bounded!(map.range(), calls).into_stream().into_values() == vals, "Map::range..into_values differs from the raw range for {}", note());
        let first_bad = keys.iter().find(|k| std::str::from_utf8(k).is_err());
        let sk: Option<Vec<String>> = if first_bad.is_none() { Some(keys.iter().map(|k| String::from_utf8(k.clone()).unwrap()).collect()) } else { None };
        check_str("Set::range..into_strs", bounded!(set.range(), calls).into_stream().into_strs(), sk.clone(), first_bad).map_err(|e| format!("{} for {}", e, note()))?;
        check_str("Map::range..into_str_keys", bounded!(map.range(), calls).into_stream().into_str_keys(), sk, first_bad).map_err(|e| format!("{} for {}", e, note()))?;
    }
    Ok(())
}

/// The same automaton and bound calls through Map::search / Set::search give the projection of the raw
/// search result `plain`.
pub fn search_wrappers<A: Automaton>(map: &Map<Vec<u8>>, set: &Set<Vec<u8>>, mk: impl Fn() -> A, calls: &[(u8, Vec<u8>)], plain: &Kvs) -> Result<(), String> {
    let keys = keys_of(plain);
    want!(drain!("Map::search stream", bounded!(map.search(mk()), calls).into_stream(), (k, v) => (k.to_vec(), v)) == *plain, "Map::search differs from the raw search for {}", apply_calls_note(calls));
    want!(drain!("Set::search stream", bounded!(set.search(mk()), calls).into_stream(), k => k.to_vec()) == keys, "Set::search differs from the keys of the raw search for {}", apply_calls_note(calls));
    want!(bounded!(set.search(mk()), calls).into_stream().into_bytes() == keys, "Set::search..into_bytes differs from the raw search for {}", apply_calls_note(calls));
    want!(bounded!(map.search(mk()), calls).into_stream().into_values() == vals_of(plain), "Map::search..into_values differs from the raw search for {}", apply_calls_note(calls));
    Ok(())
}

/// … and through Map::search_with_state / Set::search_with_state: `items` = (key, value, formatted state) of the
/// raw search_with_state.
pub fn search_with_state_wrappers<A: Automaton>(
    map: &Map<Vec<u8>>,
    set: &Set<Vec<u8>>,
    mk: impl Fn() -> A,
    fmt: impl Fn(&A::State) -> String,
    calls: &[(u8, Vec<u8>)],
    items: &[(Vec<u8>, u64, String)],
) -> Result<(), String>
where
    A::State: Clone,
{
    let viamap = drain!("Map::search_with_state stream", bounded!(map.search_with_state(mk()), calls).into_stream(), (k, v, s) => (k.to_vec(), v, fmt(&s)));
    want!(&viamap[..] == items, "Map::search_with_state differs from the raw search_with_state for {}", apply_calls_note(calls));
    let viaset = drain!("Set::search_with_state stream", bounded!(set.search_with_state(mk()), calls).into_stream(), (k, s) => (k.to_vec(), fmt(&s)));
    want!(viaset.len() == items.len() && viaset.iter().zip(items).all(|(a, b)| a.0 == b.0 && a.1 == b.2), "Set::search_with_state differs from the raw search_with_state for {}", apply_calls_note(calls));
    Ok(())
}

/// A user's walk of the automaton through the public Node accessors: depth-first from `root()`, following
/// `transitions()`, adding up outputs.  It must enumerate exactly `kvs` (= stream()), or - when the walk is cut
/// after `cap` node visits - a prefix of it.  On every distinct node visited: find_input(b) for all 256 bytes
/// against a scan of transitions(), transition(i) / transition_addr(i) / len / is_empty / addr / is_final /
/// final_output / state / as_slice consistency.
pub fn node_walk(f: &Fst<Vec<u8>>, kvs: &Kvs, cap: usize) -> Result<(), String> {
    let bytes = f.as_bytes();
    let root = f.root();
    want!(f.node(root.addr()).addr() == root.addr(), "Fst::node(root().addr()).addr() = {} but root().addr() = {}", f.node(root.addr()).addr(), root.addr());
    {
        let d = Transition::default();
        want!(d.inp == 0 && d.out.is_zero() && d.out == Output::zero() && d.addr == 1, "Transition::default() = {:?}, documented: input 0, zero output, the NONE address 1", d);
    }
    let mut checked: HashSet<usize> = HashSet::new();
    let mut emitted: Kvs = vec![];
    let mut key: Vec<u8> = vec![];
    // frame: (node address, transitions, index of the next transition, output collected on the way to the node)
    let mut stack: Vec<(usize, Vec<Transition>, usize, u64)> = vec![];
    let mut visits = 0usize;
    let mut complete = true;
    let mut debugs = 0usize;
    // entering a node
    macro_rules! enter {
        ($addr:expr, $out:expr) => {{
            let addr: usize = $addr;
            let out: u64 = $out;
            let n = f.node(addr);
            visits += 1;
            let ts: Vec<Transition> = n.transitions().collect();
            if checked.insert(addr) {
                want!(n.addr() == addr, "node({}).addr() = {}", addr, n.addr());
                want!(n.len() == ts.len() && n.is_empty() == ts.is_empty(), "node {}: len()={} is_empty()={} but transitions() yields {}", addr, n.len(), n.is_empty(), ts.len());
                want!(ts.len() <= 256 && ts.windows(2).all(|w| w[0].inp < w[1].inp), "node {}: transitions() not strictly increasing in the input byte", addr);
                let mut table: [Option<usize>; 256] = [None; 256];
                for (i, t) in ts.iter().enumerate() {
                    table[t.inp as usize] = Some(i);
                    want!(n.transition(i) == *t, "node {}: transition({}) = {:?} but transitions() gives {:?}", addr, i, n.transition(i), t);
                    want!(n.transition_addr(i) == t.addr, "node {}: transition_addr({}) = {} but the transition goes to {}", addr, i, n.transition_addr(i), t.addr);
                    want!(Output::new(t.out.value()) == t.out && t.out.is_zero() == (t.out.value() == 0), "Output::new/value/is_zero inconsistent on {}", t.out.value());
                }
                for b in 0..=255u8 {
                    want!(n.find_input(b) == table[b as usize], "node {}: find_input({:#04x}) = {:?} but scanning transitions() gives {:?}", addr, b, n.find_input(b), table[b as usize]);
                }
                if !n.is_final() {
                    want!(n.final_output().is_zero(), "node {}: not final but final_output() = {}", addr, n.final_output().value());
                }
                // the (hidden, used by fst-bin's debugging commands) state name is only exercised: the
                // names are private vocabulary; the byte slice must be the node's bytes
                let _ = n.state();
                if addr == 0 {
                    want!(n.is_final() && ts.is_empty() && n.final_output().is_zero() && n.as_slice().is_empty(), "node 0 (empty final): is_final/len/final_output/as_slice wrong");
                } else {
                    want!(!n.as_slice().is_empty() && bytes[..=addr].ends_with(n.as_slice()), "node {}: as_slice() is not the bytes ending at the node's address", addr);
                }
                if debugs < 4 {
                    debugs += 1;
                    // Debug output: exercised (must not panic), its text is not constrained
                    let _ = format!("{:?}", n);
                    if let Some(t) = ts.first() {
                        let _ = format!("{:?}", t);
                    }
                }
            }
            if n.is_final() {
                emitted.push((key.clone(), Output::new(out).cat(n.final_output()).value()));
            }
            stack.push((addr, ts, 0, out));
        }};
    }
    enter!(root.addr(), 0);
    while let Some(top) = stack.last_mut() {
        if top.2 >= top.1.len() {
            stack.pop();
            key.pop();
            continue;
        }
        if visits >= cap {
            complete = false;
            break;
        }
        let t = top.1[top.2];
        top.2 += 1;
        let out = top.3;
        key.push(t.inp);
        // Output arithmetic as a user would do it
        let o = Output::new(out).cat(t.out);
        want!(o.value() == out + t.out.value() && o.sub(t.out).value() == out && o.prefix(t.out) == t.out && Output::zero().cat(o) == o, "Output::cat/sub/prefix inconsistent on {} and {}", out, t.out.value());
        enter!(t.addr, o.value());
    }
    if complete {
        want!(emitted == *kvs, "walking the nodes from root() enumerates {} entries, stream() {} (first difference at index {})", emitted.len(), kvs.len(), emitted.iter().zip(kvs.iter()).position(|(a, b)| a != b).unwrap_or(emitted.len().min(kvs.len())));
        xcount("node_walk_complete");
    } else {
        want!(emitted.len() <= kvs.len() && emitted[..] == kvs[..emitted.len()], "walking the nodes from root() (cut after {} visits) does not enumerate a prefix of stream()", cap);
        xcount("node_walk_cut_at_cap");
    }
    xcount_add("node_walk_distinct_nodes_find_input_x256", checked.len() as u64);
    // a user's own lookup loop: find_input + transition_addr (contains) and find_input + transition (get)
    for (k, v) in kvs.iter().take(40) {
        let mut n = f.root();
        let mut out = Output::zero();
        for &b in k {
            let i = match n.find_input(b) {
                Some(i) => i,
                None => return Err(format!("manual lookup of key {}: find_input({:#04x}) = None at node {}", hex(k), b, n.addr())),
            };
            out = out.cat(n.transition(i).out);
            n = f.node(n.transition_addr(i));
        }
        want!(n.is_final() && out.cat(n.final_output()).value() == *v, "manual lookup of key {} through find_input/transition/transition_addr gives {} (final={}), stream() says {}", hex(k), out.cat(n.final_output()).value(), n.is_final(), v);
    }
    xcount("node_manual_lookup");
    Ok(())
}

// ---------------------------------------------------------------------------------------
// the same accepted sequence streamed to writers that behave in unusual but legal ways
// ---------------------------------------------------------------------------------------

/// A writer that makes bytes visible (`committed`) only when it is flushed, and does not flush when dropped.
pub struct StagingSink {
    pub committed: Vec<u8>,
    pub pending: Vec<u8>,
    pub cap: usize,
}
impl std::io::Write for StagingSink {
    fn write(&mut self, b: &[u8]) -> std::io::Result<usize> {
        let n = if self.cap == 0 { b.len() } else { b.len().min(self.cap) };
        self.pending.extend_from_slice(&b[..n]);
        Ok(n)
    }
    fn flush(&mut self) -> std::io::Result<()> {
        self.committed.append(&mut self.pending);
        Ok(())
    }
}

/// `ops` (all of them accepted) built with `raw::Builder::new_type` on a writer LENT by `&mut`, then inspected
/// right after `finish()` with no further flush or drop: a short-writing writer (1 byte per call), one that also
/// interrupts, a writer that commits only on flush, and a `BufWriter` looked at through `get_ref()`.  Each must
/// hold exactly the bytes of the in-memory build.
pub fn sink_routes(ty: u64, ops: &[Op], bytes: &[u8]) -> Result<(), String> {
    fn drive<W: std::io::Write>(w: W, ty: u64, ops: &[Op]) -> Result<(), String> {
        let mut b = fst::raw::Builder::new_type(w, ty).map_err(|e| format!("Builder::new_type on a sink: {}", e))?;
        for o in ops {
            let r = match o {
                Op::Add(k) => b.add(k),
                Op::Insert(k, v) => b.insert(k, *v),
            };
            r.map_err(|e| format!("streamed build: an accepted call fails: {}", e))?;
        }
        b.finish().map_err(|e| format!("streamed build: finish fails: {}", e))
    }
    for (cap, intr) in [(1usize, 0usize), (3, 4)] {
        let mut s = crate::c08::CapSink::new(cap, intr);
        drive(&mut s, ty, ops)?;
        want!(s.buf == bytes, "Builder::new(&mut writer taking {} byte(s) per call{}): the writer holds other bytes than the in-memory build", cap, if intr > 0 { ", interrupting" } else { "" });
    }
    for cap in [0usize, 5] {
        let mut s = StagingSink { committed: vec![], pending: vec![], cap };
        drive(&mut s, ty, ops)?;
        want!(s.pending.is_empty() && s.committed == bytes, "Builder::finish() on a writer that commits on flush: {} bytes committed, {} bytes written after the last flush, in-memory build has {}", s.committed.len(), s.pending.len(), bytes.len());
    }
    {
        let mut bw = std::io::BufWriter::with_capacity(7 + bytes.len() % 23, Vec::new());
        drive(&mut bw, ty, ops)?;
        want!(bw.get_ref() == bytes, "Builder::finish() on &mut BufWriter: get_ref() holds {} bytes right after finish, the in-memory build has {}", bw.get_ref().len(), bytes.len());
    }
    xcount("sink_routes_short_interrupt_staging_bufwriter");
    Ok(())
}


/// The same calls STREAMED to writers that take a few bytes per call, interrupt, or cut every write at a
/// block boundary. Where such a writer ends up with other bytes than the in-memory build, `answer` is asked
/// of the file it holds and must equal `expected` (the answer of the in-memory build): what a query returns
/// depends on the content, not on how the sink accepted the bytes. (Equal bytes answer equally: nothing to ask.)
pub fn streamed_files_answer(ty: u64, ops: &[Op], bytes: &[u8], expected: &str, answer: &dyn Fn(&Fst<Vec<u8>>) -> String) -> Result<(), String> {
    struct BlockSink {
        buf: Vec<u8>,
        block: usize,
    }
    impl std::io::Write for BlockSink {
        fn write(&mut self, b: &[u8]) -> std::io::Result<usize> {
            let room = self.block - self.buf.len() % self.block;
            let n = b.len().min(room);
            self.buf.extend_from_slice(&b[..n]);
            Ok(n)
        }
        fn flush(&mut self) -> std::io::Result<()> {
            Ok(())
        }
    }
    fn drive<W: std::io::Write>(w: W, ty: u64, ops: &[Op]) -> bool {
        let mut b = match fst::raw::Builder::new_type(w, ty) {
            Ok(b) => b,
            Err(_) => return false,
        };
        for o in ops {
            let r = match o {
                Op::Add(k) => b.add(k),
                Op::Insert(k, v) => b.insert(k, *v),
            };
            if r.is_err() {
                return false;
            }
        }
        b.finish().is_ok()
    }
    let mut files: Vec<(String, Option<Vec<u8>>)> = vec![];
    for (cap, intr) in [(1usize, 0usize), (3, 4)] {
        let mut sk = crate::c08::CapSink::new(cap, intr);
        let ok = drive(&mut sk, ty, ops);
        files.push((format!("a writer taking {} byte(s) per call{}", cap, if intr > 0 { ", interrupting" } else { "" }), if ok { Some(sk.buf) } else { None }));
    }
    for block in [7usize, 512] {
        let mut sk = BlockSink { buf: vec![], block };
        let ok = drive(&mut sk, ty, ops);
        files.push((format!("a writer that cuts writes at {}-byte blocks", block), if ok { Some(sk.buf) } else { None }));
    }
    xcount("queries_on_files_streamed_to_short_writers");
    for (name, file) in files {
        let file = match file {
            None => return Err(format!("streamed to {}: an accepted call or finish fails", name)),
            Some(f) => f,
        };
        if file == bytes {
            continue;
        }
        let got = std::panic::catch_unwind(std::panic::AssertUnwindSafe(|| match Fst::new(file) {
            Ok(f) => answer(&f),
            Err(e) => format!("does not open: {}", e),
        }))
        .unwrap_or_else(|_| "PANIC".into());
        if got != expected {
            let cut = |t: &str| t.chars().take(300).collect::<String>();
            return Err(format!("streamed to {}: the file answers {} but the in-memory build {}", name, cut(&got), cut(expected)));
        }
    }
    Ok(())
}


/// OTHER WAYS TO BUILD THE SAME CONTENT: every front end that can run the calls (raw insert loop, single
/// calls, extend_iter / extend_stream, MapBuilder / SetBuilder, from_iter), node caches that evict all the
/// time (1x1, 2x2, 3x3 through the geometry hook), the same accepted calls with rejected calls in between
/// (stragglers and duplicates whose errors the caller ignores), for sets every key added twice, and the
/// writers of [streamed_files_answer]. Where such a build has other bytes than the primary build, `answer`
/// is asked of it and must equal `expected`: what a query returns depends on the accepted keys and values
/// alone. Returns the first disagreement.
pub fn alt_builds_answer(ty: u64, ops: &[Op], bytes: &[u8], expected: &str, answer: &dyn Fn(&Fst<Vec<u8>>) -> String) -> Result<(), String> {
    use crate::core::{applicable_front_ends, dcols, drows, exec_build};
    let ask = |name: &str, file: Option<Vec<u8>>| -> Result<(), String> {
        let file = match file {
            None => return Err(format!("{}: the build does not finish", name)),
            Some(f) => f,
        };
        if file == bytes {
            return Ok(());
        }
        let got = std::panic::catch_unwind(std::panic::AssertUnwindSafe(|| match Fst::new(file) {
            Ok(f) => answer(&f),
            Err(e) => format!("does not open: {}", e),
        }))
        .unwrap_or_else(|_| "PANIC".into());
        if got != expected {
            let cut = |t: &str| t.chars().take(300).collect::<String>();
            return Err(format!("{}: the file answers {} but the primary build {}", name, cut(&got), cut(expected)));
        }
        Ok(())
    };
    // front ends
    for (sem, fe) in applicable_front_ends(ops, true, ty) {
        let o = exec_build(sem, fe, ty, drows(), dcols(), ops);
        if o.results.iter().all(|r| r == "ok") {
            ask(&format!("built through {}/{}", sem, fe), o.bytes)?;
        }
    }
    // evicting caches
    if crate::hooks::available() {
        for (r, c) in [(1usize, 1usize), (2, 2), (3, 3)] {
            let o = exec_build("extend", "raw_loop", ty, r, c, ops);
            ask(&format!("built with a {}x{} node cache", r, c), o.bytes)?;
        }
    }
    // rejected calls in between
    if ops.len() >= 3 {
        let mut dirty: Vec<Op> = vec![];
        for (i, o) in ops.iter().enumerate() {
            dirty.push(o.clone());
            if i >= 2 && i % 2 == 0 && ops[i - 2].key() < o.key() && ops[i - 1].key() < o.key() {
                dirty.push(ops[i - 2].clone());
                dirty.push(ops[i - 1].clone());
                if i % 4 == 0 {
                    dirty.push(ops[i - 2].clone());
                }
            }
        }
        let o = exec_build("calls", "raw", ty, drows(), dcols(), &dirty);
        ask("built with rejected calls in between (errors ignored)", o.bytes)?;
    }
    // sets: every key added twice
    if !ops.is_empty() && ops.iter().all(|o| matches!(o, Op::Add(..))) {
        let twice: Vec<Op> = ops.iter().flat_map(|o| [o.clone(), o.clone()]).collect();
        let o = exec_build("calls", "raw", ty, drows(), dcols(), &twice);
        ask("built with every key added twice", o.bytes)?;
    }
    xcount("queries_on_alternative_builds");
    streamed_files_answer(ty, ops, bytes, expected, answer)
}
