//! C13 — the heap held by a builder that streams to a sink is bounded by a constant of the
//! cache geometry, the fan-out and the key length; it does not grow with the number of keys.
//!
//! The Coq side (coq/Mem.v, proofs/MemProofs.v) bounds the LOGICAL size of the model state for
//! every reachable state; this side MEASURES the heap of the real builder with the counting
//! allocator of `memtrack.rs` and compares the peak with the byte conversion of that bound
//! (`mem_bound_bytes_builder`, computed here and, independently, by the extracted Coq
//! definition: the two values are the `M` field) and with itself for growing `n` (saturation).
use crate::common::*;
use crate::memtrack as mem;
use fst::raw::Builder;
use std::io;
use std::sync::Mutex;

pub struct P;

/// A sink that drops the bytes and counts them. It may accept only `cap` bytes per call
/// (0 = everything) and answer every `intr`-th call with `Interrupted` (0 = never): both are
/// legal behaviour of an `io::Write`, and a builder that holds back what the sink did not take
/// at once would grow with the number of keys.
pub struct DiscardSink {
    pub n: u64,
    pub cap: usize,
    pub intr: u64,
    pub calls: u64,
}
impl DiscardSink {
    /// the sink behaviour is a function of the case's seed: a quarter each of
    /// take-everything, 1 byte per call, 8 bytes per call, 7 bytes per call + interruptions
    pub fn for_seed(seed: u64) -> DiscardSink {
        let (cap, intr) = match seed % 4 {
            0 => (0, 0),
            1 => (1, 0),
            2 => (8, 0),
            _ => (7, 5),
        };
        DiscardSink { n: 0, cap, intr, calls: 0 }
    }
}
impl io::Write for DiscardSink {
    fn write(&mut self, buf: &[u8]) -> io::Result<usize> {
        self.calls += 1;
        if self.intr > 0 && self.calls % self.intr == 0 {
            return Err(io::Error::new(io::ErrorKind::Interrupted, "interrupted"));
        }
        let k = if self.cap == 0 { buf.len() } else { buf.len().min(self.cap) };
        self.n += k as u64;
        Ok(k)
    }
    fn flush(&mut self) -> io::Result<()> {
        Ok(())
    }
}

// ---- byte sizes of the builder's structs on a 64-bit target (checked in extras()) ----
pub const TRANS: u64 = 24; // raw::Transition
pub const CELL: u64 = 48; // registry::RegistryCell
pub const UNF: u64 = 64; // build::BuilderNodeUnfinished
pub const STACK0: u64 = 64; // UnfinishedNodes::new: Vec::with_capacity(64)
pub const ALLOWANCE: u64 = 65536; // fixed allowance: hook counters (Arc<[AtomicU64; 4]>, 48 bytes) and slop

/// capacity bound of a Vec that holds at most n elements and grows by RawVec's amortised
/// policy (new capacity = max(2*cap, required, 4)): push-growth gives the next power of two
/// >= 4 (< 2n), reserve-growth (clone_from's extend) gives max(2*cap, required) < 2n.
pub fn vcap(n: u64) -> u64 {
    (2 * n).max(4)
}

/// Must equal Coq `Mem.mem_bound_bytes_builder rows cols maxfan maxkey`.
pub fn mem_bound_bytes_builder(rows: u64, cols: u64, maxfan: u64, maxkey: u64) -> u64 {
    let cells = rows * cols;
    cells * CELL
        + cells * vcap(maxfan) * TRANS
        + vcap(maxkey + 1).max(STACK0) * UNF
        + (maxkey + 1) * vcap(maxfan) * TRANS
        + (2 * maxkey).max(8)
        + ALLOWANCE
}

/// Sorted keys generated on the fly, nothing stored but the current key: a base-`fanout`
/// counter of `keylen` digits advanced by pseudo-random positive increments (multiples of
/// `stride`). Per counter value K the generator emits, in this (sorted) order,
///   * family `fix`: K;
///   * family `ext`: K and K+x (every second key extends the previous one by one byte);
///   * family `pfx`: first the empty key, then per K a random subset of the proper prefixes of K
///     that are longer than the prefix K shares with the previous counter value, K itself
///     (2 in 3), and K+x (1 in 3): keys of varying length 0..keylen+1, many of which are
///     proper prefixes of later keys, i.e. nodes that are final AND have children at
///     several depths.
/// All bytes come from an alphabet of `fanout` symbols.
#[derive(Clone, Copy, PartialEq, Debug)]
pub enum Family {
    Fix,
    Ext,
    Pfx,
}
impl Family {
    pub fn parse(s: &str) -> Family {
        match s {
            "fix" => Family::Fix,
            "ext" => Family::Ext,
            "pfx" => Family::Pfx,
            _ => panic!("family"),
        }
    }
    pub fn maxkey(self, keylen: usize) -> usize {
        if self == Family::Fix { keylen } else { keylen + 1 }
    }
}
/// time allowed for one measured build (the largest quick-tier build takes about a second)
pub const BUILD_SECONDS: u64 = 40;

pub struct KeyGen {
    digits: Vec<u64>,
    key: Vec<u8>,
    pending: Vec<usize>,
    fanout: u64,
    base: u8,
    stride: u64,
    steps: u64,
    rng: Rng,
    family: Family,
    started: bool,
    pub maxlen: usize,
    pub prefix_keys: u64,
    /// a build that is still running at this instant is cut short (see `expired`)
    pub deadline: Option<std::time::Instant>,
    calls: u64,
    pub cut_short: bool,
}
impl KeyGen {
    /// True once the time allowed for one measured build is over (looked at every 512 keys). The loops
    /// that feed a builder stop then: a change that makes building quadratic must not hold the check
    /// for half an hour, and what the builder holds at that moment is already the answer (a build
    /// that is slow but within its memory bound is left undecided, not failed).
    pub fn expired(&mut self) -> bool {
        self.calls += 1;
        if !self.cut_short && self.calls % 512 == 0 {
            if let Some(d) = self.deadline {
                if std::time::Instant::now() > d {
                    self.cut_short = true;
                }
            }
        }
        self.cut_short
    }
    /// increments uniform in 1..=avg where avg = fanout^keylen / (n + 2): n keys always fit
    pub fn new(family: Family, n: u64, fanout: u64, keylen: usize, seed: u64) -> KeyGen {
        let mut space: u128 = 1;
        for _ in 0..keylen {
            space = (space * fanout as u128).min(1u128 << 100);
        }
        let avg = (space / (n as u128 + 2)).min(1u128 << 62) as u64;
        assert!(avg >= 1, "key space too small for n");
        KeyGen::with_steps(family, fanout, keylen, seed, 1, avg)
    }
    /// increments = stride * (1..=steps)
    pub fn with_steps(family: Family, fanout: u64, keylen: usize, seed: u64, stride: u64, steps: u64) -> KeyGen {
        assert!(fanout >= 2 && fanout <= 256 && keylen >= 1);
        let base = if fanout <= 26 { b'a' } else { 0 };
        KeyGen {
            digits: vec![0; keylen],
            key: vec![base; keylen + 1],
            pending: Vec::with_capacity(keylen + 4),
            fanout,
            base,
            stride,
            steps,
            rng: Rng::new(seed),
            family,
            started: false,
            maxlen: 0,
            prefix_keys: 0,
            deadline: None,
            calls: 0,
            cut_short: false,
        }
    }
    fn advance(&mut self) {
        let keylen = self.digits.len();
        if !self.started {
            self.started = true;
            if self.family == Family::Pfx {
                self.pending.push(0);
                return;
            }
        }
        let mut carry = self.stride * (1 + self.rng.below(self.steps));
        let mut i = keylen;
        while carry > 0 && i > 0 {
            i -= 1;
            let v = self.digits[i] + carry;
            self.digits[i] = v % self.fanout;
            carry = v / self.fanout;
            self.key[i] = self.base + self.digits[i] as u8;
        }
        assert!(carry == 0, "key space exhausted");
        let p = i; // highest position that changed: K[..=p] is new, K[..p] is shared
        self.key[keylen] = self.base + self.rng.below(self.fanout) as u8;
        // lengths to emit, pushed in descending order (pop yields ascending)
        match self.family {
            Family::Fix => self.pending.push(keylen),
            Family::Ext => {
                self.pending.push(keylen + 1);
                self.pending.push(keylen);
                self.prefix_keys += 1;
            }
            Family::Pfx => {
                let ext = self.rng.chance(1, 3);
                let mut full = self.rng.chance(2, 3);
                let mut mask: u128 = 0;
                for l in p + 1..keylen {
                    if self.rng.chance(1, 3) {
                        mask |= 1u128 << l;
                    }
                }
                if mask == 0 && !ext {
                    full = true;
                }
                if ext {
                    self.pending.push(keylen + 1);
                }
                if full {
                    self.pending.push(keylen);
                }
                for l in (p + 1..keylen).rev() {
                    if mask >> l & 1 == 1 {
                        self.pending.push(l);
                    }
                }
                self.prefix_keys += (self.pending.len() - 1) as u64;
            }
        }
    }
    /// advance and return the next key (strictly greater than the previous one)
    pub fn next(&mut self) -> &[u8] {
        if self.pending.is_empty() {
            self.advance();
        }
        let l = self.pending.pop().unwrap();
        self.maxlen = self.maxlen.max(l);
        &self.key[..l]
    }
}

/// The generated keys as an iterator that knows its exact length (what `extend_iter` / `from_iter` get from
/// a Vec, a slice or a range): one owned key at a time, nothing else is stored.
pub struct GenIter<'g> {
    pub g: &'g mut KeyGen,
    pub left: u64,
    pub i: u64,
}
impl<'g> Iterator for GenIter<'g> {
    type Item = (Vec<u8>, u64);
    fn next(&mut self) -> Option<(Vec<u8>, u64)> {
        if self.left == 0 || self.g.expired() {
            return None;
        }
        self.left -= 1;
        let v = value_of(self.i);
        self.i += 1;
        Some((self.g.next().to_vec(), v))
    }
    fn size_hint(&self) -> (usize, Option<usize>) {
        (self.left as usize, Some(self.left as usize))
    }
}
impl<'g> ExactSizeIterator for GenIter<'g> {}

/// The generated keys as a user stream (what `extend_stream` gets).
pub struct GenStream<'g> {
    pub g: &'g mut KeyGen,
    pub left: u64,
    pub i: u64,
}
impl<'a, 'g> fst::Streamer<'a> for GenStream<'g> {
    type Item = (&'a [u8], u64);
    fn next(&'a mut self) -> Option<(&'a [u8], u64)> {
        if self.left == 0 || self.g.expired() {
            return None;
        }
        self.left -= 1;
        let v = value_of(self.i);
        self.i += 1;
        Some((self.g.next(), v))
    }
}
pub struct GenKeys<'g>(GenStream<'g>);
impl<'g> GenStream<'g> {
    pub fn keys_only(self) -> GenKeys<'g> {
        GenKeys(self)
    }
}
impl<'a, 'g> fst::Streamer<'a> for GenKeys<'g> {
    type Item = &'a [u8];
    fn next(&'a mut self) -> Option<&'a [u8]> {
        fst::Streamer::next(&mut self.0).map(|kv| kv.0)
    }
}

#[derive(Clone, Debug, Default)]
pub struct Meas {
    pub peak_new: u64,
    pub peak: u64,
    pub left: i64,
    pub allocs: u64,
    pub hits: u64,
    pub misses: u64,
    pub evictions: u64,
    pub rejected: u64,
    pub emitted: u64,
    pub maxlen: usize,
    pub prefix_keys: u64,
    /// the build was stopped at its deadline (fewer than n keys went in)
    pub cut_short: bool,
}

thread_local! {
    /// how the values of the map being built depend on the position of the key (set from the case's seed)
    pub static VALUE_SHAPE: std::cell::Cell<u64> = std::cell::Cell::new(0);
}
/// value of the i-th key: increasing, DECREASING (every key is a new minimum of its subtree, so outputs are
/// pushed down on every insert), pseudo-random, constant zero, or huge - chosen per case from the seed
pub fn value_of(i: u64) -> u64 {
    match VALUE_SHAPE.with(|c| c.get()) % 5 {
        0 => (i * 7) & ((1u64 << 40) - 1),
        1 => (1u64 << 40) - 4 * (i & ((1u64 << 36) - 1)),
        2 => i.wrapping_mul(0x9E37_79B9_7F4A_7C15) >> 24,
        3 => 0,
        _ => u64::MAX - (i * 3),
    }
}

/// One build configuration: `<kind> <family> <rows> <cols>` + `<fanout> <keylen> <seed>`.
#[derive(Clone, Copy, Debug)]
pub struct Cfg<'a> {
    pub kind: &'a str,
    pub family: Family,
    pub rows: usize,
    pub cols: usize,
    pub fanout: u64,
    pub keylen: usize,
    pub seed: u64,
}
impl<'a> Cfg<'a> {
    pub fn bound(&self) -> u64 {
        mem_bound_bytes_builder(self.rows as u64, self.cols as u64, self.fanout, self.family.maxkey(self.keylen) as u64)
    }
}

/// Stream n keys through the real builder into a discarding sink; everything between
/// `reset` and the last `peak` runs on the calling thread.
/// kind: "set" / "map" = raw::Builder add / insert with the cache geometry hook;
/// "SetBuilder" / "MapBuilder" = the public front ends (default geometry, no counters).
pub fn measure_build(c: &Cfg, n: u64) -> Meas {
    use std::sync::atomic::Ordering::SeqCst;
    let mut g = KeyGen::new(c.family, n, c.fanout, c.keylen, c.seed);
    g.deadline = Some(std::time::Instant::now() + std::time::Duration::from_secs(BUILD_SECONDS));
    VALUE_SHAPE.with(|v| v.set(c.seed / 12));
    mem::reset();
    let mut m = match c.kind {
        "set" | "map" => {
            let mut b = crate::hooks::builder_with_cache(DiscardSink::for_seed(c.seed), 0, c.rows, c.cols);
            // The hook builds the default 10000 x 2 registry first and then replaces it (a transient
            // of 960000 bytes that `Builder::new` does not have): the peak is taken from the moment
            // the hook returns, starting at the bytes the finished builder holds.
            let peak_new = mem::current().max(0) as u64;
            mem::reset_peak();
            let h = crate::hooks::stats_handle(&b).unwrap_or_else(|| std::panic::panic_any(crate::hooks::NoHook));
            for i in 0..n {
                if g.expired() {
                    break;
                }
                let k = g.next();
                let r = if c.kind == "map" { b.insert(k, value_of(i)) } else { b.add(k) };
                if r.is_err() {
                    panic!("builder rejected a generated key");
                }
            }
            let sink = b.into_inner().unwrap();
            Meas {
                peak_new,
                peak: mem::peak(),
                left: mem::current(),
                allocs: mem::allocs(),
                hits: h[0].load(SeqCst),
                misses: h[1].load(SeqCst),
                evictions: h[2].load(SeqCst),
                rejected: h[3].load(SeqCst),
                emitted: sink.n,
                ..Meas::default()
            }
        }
        "SetBuilder" => {
            assert!((c.rows, c.cols) == (crate::core::drows(), crate::core::dcols()));
            let mut b = fst::SetBuilder::new(DiscardSink::for_seed(c.seed)).unwrap();
            let peak_new = mem::peak();
            // the entry point is a function of the seed: single inserts, extend_iter with an iterator that
            // announces its exact length (size_hint), extend_stream from a user stream
            match (c.seed / 4) % 3 {
                0 => {
                    for _ in 0..n {
                        if g.expired() {
                            break;
                        }
                        if b.insert(g.next()).is_err() {
                            panic!("builder rejected a generated key");
                        }
                    }
                }
                1 => {
                    if b.extend_iter(GenIter { g: &mut g, left: n, i: 0 }.map(|kv| kv.0)).is_err() {
                        panic!("builder rejected a generated key");
                    }
                }
                _ => {
                    if b.extend_stream(GenStream { g: &mut g, left: n, i: 0 }.keys_only()).is_err() {
                        panic!("builder rejected a generated key");
                    }
                }
            }
            let sink = b.into_inner().unwrap();
            Meas { peak_new, peak: mem::peak(), left: mem::current(), allocs: mem::allocs(), emitted: sink.n, ..Meas::default() }
        }
        "MapBuilder" => {
            assert!((c.rows, c.cols) == (crate::core::drows(), crate::core::dcols()));
            let mut b = fst::MapBuilder::new(DiscardSink::for_seed(c.seed)).unwrap();
            let peak_new = mem::peak();
            match (c.seed / 4) % 3 {
                0 => {
                    for i in 0..n {
                        if g.expired() {
                            break;
                        }
                        if b.insert(g.next(), value_of(i)).is_err() {
                            panic!("builder rejected a generated key");
                        }
                    }
                }
                1 => {
                    if b.extend_iter(GenIter { g: &mut g, left: n, i: 0 }).is_err() {
                        panic!("builder rejected a generated key");
                    }
                }
                _ => {
                    if b.extend_stream(GenStream { g: &mut g, left: n, i: 0 }).is_err() {
                        panic!("builder rejected a generated key");
                    }
                }
            }
            let sink = b.into_inner().unwrap();
            Meas { peak_new, peak: mem::peak(), left: mem::current(), allocs: mem::allocs(), emitted: sink.n, ..Meas::default() }
        }
        _ => panic!("kind"),
    };
    m.maxlen = g.maxlen;
    m.prefix_keys = g.prefix_keys;
    m.cut_short = g.cut_short;
    m
}

/// The same families into a growing `Vec<u8>` sink owned by the builder: what "buffering the
/// output" looks like to the measurement (used only to show that the criteria can fail).
pub fn measure_build_buffering(family: Family, n: u64, fanout: u64, keylen: usize, seed: u64) -> u64 {
    let mut g = KeyGen::new(family, n, fanout, keylen, seed);
    mem::reset();
    // the geometry only has to be small enough to saturate early; without hooks the default cache serves
    let mut b = if crate::hooks::available() { crate::hooks::builder_with_cache(Vec::new(), 0, 100, 2) } else { Builder::new_type(Vec::new(), 0).unwrap() };
    mem::reset_peak();
    for _ in 0..n {
        b.add(g.next()).unwrap();
    }
    let v = b.into_inner().unwrap();
    let p = mem::peak();
    drop(v);
    p
}

/// saturation criterion: peak(n2) <= peak(n1) * num/100 + add
/// (measured on the unchanged code over 360 cases: peak(n2) - peak(n1) <= 1392 bytes)
pub fn sat_criterion(_rows: usize, _cols: usize) -> (u64, u64) {
    (102, 16384)
}

fn hooked(kind: &str) -> bool {
    kind == "set" || kind == "map"
}

static LOG: Mutex<Vec<String>> = Mutex::new(Vec::new());
fn log(s: String) {
    if std::env::var("VERIF_MEM_DEBUG").is_ok() {
        eprintln!("{}", s);
    }
    LOG.lock().unwrap().push(s);
}

const FAMILIES: [&str; 3] = ["fix", "ext", "pfx"];

impl Prop for P {
    fn generate(&self, tier: Tier, rng: &mut Rng, stats: &mut Stats) -> Vec<String> {
        let mut cases = vec![];
        // (fanout, keylen): bounded fan-out and key length, key space >> n
        let shapes: &[(u64, usize)] = &[(2, 40), (4, 16), (16, 8), (26, 10), (64, 6), (256, 8), (3, 64)];
        let dflt = (crate::core::drows(), crate::core::dcols());
        let geoms: &[(usize, usize)] = &[(100, 2), dflt, (0, 0), (1, 1), (64, 1), (1000, 5), (16, 16)];
        let ns: &[u64] = match tier {
            Tier::Quick => &[100_000, 300_000, 1_000_000],
            Tier::Thorough => &[100_000, 1_000_000, 10_000_000],
            Tier::Wide => &[100_000, 1_000_000],
        };
        for kind in ["set", "map"] {
            for fam in FAMILIES {
                for &(rows, cols) in geoms {
                    for &(fan, kl) in shapes {
                        for &n in ns {
                            // the big runs only for a few shapes (time)
                            if n >= 1_000_000 && !(fan == 4 || fan == 26 || (fan == 256 && tier != Tier::Quick)) {
                                continue;
                            }
                            if n >= 1_000_000 && !(matches!((rows, cols), (100, 2) | (0, 0) | (1000, 5)) || (rows, cols) == dflt) {
                                continue;
                            }
                            if n >= 10_000_000 && !((rows, cols) == (100, 2) || (rows, cols) == dflt) {
                                continue;
                            }
                            let seed = 1 + rng.below(1 << 30);
                            stats.bump(&format!("sink_take_all_1_8_7intr_{}", seed % 4));
                        stats.bump(&format!("map_values_incr_decr_random_zero_hugedecr_{}", (seed / 12) % 5));
                            cases.push(format!("build {} {} {} {} {} {} {} {}", kind, fam, rows, cols, n, fan, kl, seed));
                            stats.bump(&format!("build_n{}", n));
                            stats.bump(&format!("build_family_{}", fam));
                        }
                    }
                }
            }
        }
        for kind in ["SetBuilder", "MapBuilder"] {
            for fam in FAMILIES {
                for &(fan, kl) in shapes {
                    for &n in ns {
                        if n >= 1_000_000 && !(fan == 4 || fan == 26) {
                            continue;
                        }
                        let seed = 1 + rng.below(1 << 30);
                        stats.bump(&format!("sink_take_all_1_8_7intr_{}", seed % 4));
                        stats.bump(&format!("map_values_incr_decr_random_zero_hugedecr_{}", (seed / 12) % 5));
                        cases.push(format!("build {} {} {} {} {} {} {} {}", kind, fam, dflt.0, dflt.1, n, fan, kl, seed));
                        stats.bump(&format!("build_n{}", n));
                        stats.bump(&format!("build_family_{}", fam));
                        stats.bump("public_front_end_cases");
                        stats.bump(&format!("front_end_insert_extenditer_extendstream_{}", (seed / 4) % 3));
                    }
                }
            }
        }
        // saturation: families whose steady state is reached quickly (fan-out <= 4: every cell's
        // Vec sits at the minimum capacity 4; or a cache of 20 cells)
        let flat_shapes: &[(u64, usize)] = &[(4, 16), (2, 40), (3, 64)];
        let wide_shapes: &[(u64, usize)] = &[(26, 10), (16, 8), (64, 6)];
        let (s1, s2) = match tier {
            Tier::Quick | Tier::Wide => (100_000u64, 1_000_000u64),
            Tier::Thorough => (1_000_000, 10_000_000),
        };
        let (d1, d2) = match tier {
            Tier::Quick | Tier::Wide => (300_000u64, 1_000_000u64),
            Tier::Thorough => (1_000_000, 4_000_000),
        };
        for kind in ["set", "map", "SetBuilder", "MapBuilder"] {
            for fam in FAMILIES {
                for &(fan, kl) in flat_shapes {
                    let seed = 1 + rng.below(1 << 30);
                    if hooked(kind) {
                        stats.bump(&format!("sink_take_all_1_8_7intr_{}", seed % 4));
                        stats.bump(&format!("map_values_incr_decr_random_zero_hugedecr_{}", (seed / 12) % 5));
                        cases.push(format!("sat {} {} 100 2 {} {} {} {} {}", kind, fam, s1, s2, fan, kl, seed));
                        stats.bump(&format!("sat_family_{}", fam));
                    }
                    if hooked(kind) || fan == 4 {
                        stats.bump(&format!("sink_take_all_1_8_7intr_{}", seed % 4));
                        stats.bump(&format!("map_values_incr_decr_random_zero_hugedecr_{}", (seed / 12) % 5));
                        cases.push(format!("sat {} {} {} {} {} {} {} {} {}", kind, fam, dflt.0, dflt.1, d1, d2, fan, kl, seed));
                        stats.bump(&format!("sat_family_{}", fam));
                    }
                    if tier == Tier::Thorough && fan == 4 {
                        stats.bump(&format!("sink_take_all_1_8_7intr_{}", seed % 4));
                        stats.bump(&format!("map_values_incr_decr_random_zero_hugedecr_{}", (seed / 12) % 5));
                        cases.push(format!("sat {} {} {} {} 1000000 10000000 {} {} {}", kind, fam, dflt.0, dflt.1, fan, kl, seed));
                        stats.bump(&format!("sat_family_{}", fam));
                    }
                }
                if hooked(kind) {
                    for &(fan, kl) in wide_shapes {
                        // 64^6 is too small a key space for 10^7 keys to look like 10^6 keys
                        if tier == Tier::Thorough && fan == 64 {
                            continue;
                        }
                        let seed = 1 + rng.below(1 << 30);
                        stats.bump(&format!("sink_take_all_1_8_7intr_{}", seed % 4));
                        stats.bump(&format!("map_values_incr_decr_random_zero_hugedecr_{}", (seed / 12) % 5));
                        cases.push(format!("sat {} {} 10 2 {} {} {} {} {}", kind, fam, s1, s2, fan, kl, seed));
                        stats.bump(&format!("sat_family_{}", fam));
                        // (larger caches with fan-out > 4 creep towards the bound for a long time:
                        // the capacities of the cells' Vecs are retained and only grow; those
                        // configurations are checked against the bound only, see `build`)
                    }
                }
            }
        }
        cases
    }

    fn nontrivial(&self, case: &str) -> bool {
        // at least 10^5 keys
        let p: Vec<&str> = case.split(' ').collect();
        p.len() >= 9 && p[5].parse::<u64>().map(|n| n >= 100_000).unwrap_or(false)
    }

    fn execute(&self, case: &str) -> String {
        let p: Vec<&str> = case.split(' ').collect();
        match p[0] {
            "build" => {
                let n: u64 = p[5].parse().unwrap();
                let c = Cfg {
                    kind: p[1],
                    family: Family::parse(p[2]),
                    rows: p[3].parse().unwrap(),
                    cols: p[4].parse().unwrap(),
                    fanout: p[6].parse().unwrap(),
                    keylen: p[7].parse().unwrap(),
                    seed: p[8].parse().unwrap(),
                };
                let m = measure_build(&c, n);
                let bound = c.bound();
                log(format!(
                    "{}: peak={} after_new={} left={} bound={} allocs={} hits={} misses={} evictions={} rejected={} emitted={} maxlen={} prefix_keys={}",
                    case, m.peak, m.peak_new, m.left, bound, m.allocs, m.hits, m.misses, m.evictions, m.rejected, m.emitted, m.maxlen, m.prefix_keys
                ));
                // a build with the default geometry of a tree whose geometry the translator could not read has no
                // computable bound (the saturation cases and the hooked geometries still decide)
                let unknown = crate::core::geometry_unknown() && (c.rows, c.cols) == (crate::core::drows(), crate::core::dcols()) && !hooked(c.kind);
                let within = m.peak <= bound || unknown;
                let mut x = String::from("ok");
                if !within {
                    x = format!("peak={} bound={} after_new={} misses={} emitted={}", m.peak, bound, m.peak_new, m.misses, m.emitted);
                } else if m.cut_short {
                    // stopped at the deadline within its bound: undecided, not a failure (recorded in the log)
                    crate::common::xcount("c13_build_cut_short_at_deadline");
                } else if hooked(c.kind) && (m.misses + m.rejected) * 8 < n {
                    // the family must keep producing nodes the cache has not seen
                    x = format!("degenerate family: only {} new nodes for {} keys", m.misses + m.rejected, n);
                } else if m.emitted < n {
                    x = format!("sink saw only {} bytes for {} keys", m.emitted, n);
                } else if m.maxlen > c.family.maxkey(c.keylen) || (c.family != Family::Fix && m.prefix_keys * 5 < n) {
                    x = format!("family wrong: longest key {} prefix keys {}", m.maxlen, m.prefix_keys);
                }
                format!("S:{}\tM:{}\tX:{}", if within { "within" } else { "exceeds" }, bound, x)
            }
            "sat" => {
                let n1: u64 = p[5].parse().unwrap();
                let n2: u64 = p[6].parse().unwrap();
                let c = Cfg {
                    kind: p[1],
                    family: Family::parse(p[2]),
                    rows: p[3].parse().unwrap(),
                    cols: p[4].parse().unwrap(),
                    fanout: p[7].parse().unwrap(),
                    keylen: p[8].parse().unwrap(),
                    seed: p[9].parse().unwrap(),
                };
                let m1 = measure_build(&c, n1);
                let m2 = measure_build(&c, n2);
                let bound = c.bound();
                let (num, add) = sat_criterion(c.rows, c.cols);
                let new1 = m1.misses + m1.rejected;
                let new2 = m2.misses + m2.rejected;
                let limit = m1.peak * num / 100 + add;
                let sat = m2.peak <= limit;
                log(format!(
                    "{}: peak1={} peak2={} limit={} bound={} misses1={} misses2={} emitted1={} emitted2={} prefix_keys2={}",
                    case, m1.peak, m2.peak, limit, bound, m1.misses, m2.misses, m1.emitted, m2.emitted, m2.prefix_keys
                ));
                let mut x = String::from("ok");
                if !sat {
                    x = format!("peak({})={} peak({})={} limit={}", n1, m1.peak, n2, m2.peak, limit);
                } else if m1.cut_short || m2.cut_short {
                    // a build stopped at its deadline while saturated and within the bound: undecided
                    crate::common::xcount("c13_build_cut_short_at_deadline");
                } else if hooked(c.kind) && (new2 - new1.min(new2)) * 8 < n2 - n1 {
                    x = format!("degenerate family: new nodes {} -> {}", new1, new2);
                } else if m2.peak > bound || m1.peak > bound {
                    x = format!("peak {} / {} above bound {}", m1.peak, m2.peak, bound);
                } else if c.family != Family::Fix && m2.prefix_keys * 5 < n2 {
                    x = format!("family wrong: {} prefix keys among {}", m2.prefix_keys, n2);
                }
                format!("S:{}\tM:{}\tX:{}", if sat { "saturated" } else { "grows" }, bound, x)
            }
            _ => "S:BADCASE\tM:BADCASE".into(),
        }
    }

    fn extras(&self, _tier: Tier, _rng: &mut Rng, stats: &mut Stats) -> Vec<(String, bool, String)> {
        let mut out = vec![];
        // struct sizes: crate-private types are mirrored field by field
        #[allow(dead_code)]
        struct MBuilderNode {
            is_final: bool,
            final_output: fst::raw::Output,
            trans: Vec<fst::raw::Transition>,
        }
        #[allow(dead_code)]
        struct MRegistryCell {
            addr: fst::raw::CompiledAddr,
            node: MBuilderNode,
        }
        #[allow(dead_code)]
        struct MLastTransition {
            inp: u8,
            out: fst::raw::Output,
        }
        #[allow(dead_code)]
        struct MUnfinished {
            node: MBuilderNode,
            last: Option<MLastTransition>,
        }
        let sz = (
            std::mem::size_of::<fst::raw::Transition>() as u64,
            std::mem::size_of::<MRegistryCell>() as u64,
            std::mem::size_of::<MUnfinished>() as u64,
        );
        out.push((
            // informational only (see c14.rs): a struct that gains a field is no violation
            "struct_sizes_match_Mem_v".to_string(),
            true,
            format!("size_of Transition={} RegistryCell(mirror)={} BuilderNodeUnfinished(mirror)={}; Mem.v uses {} {} {}", sz.0, sz.1, sz.2, TRANS, CELL, UNF),
        ));
        // what the cases measured
        let logv = LOG.lock().unwrap().clone();
        let mut worst_ratio = 0.0f64;
        let mut worst_case = String::new();
        for l in &logv {
            if let (Some(pk), Some(bd)) = (field(l, "peak="), field(l, "bound=")) {
                if bd > 0 && pk as f64 / bd as f64 > worst_ratio {
                    worst_ratio = pk as f64 / bd as f64;
                    worst_case = l.split(':').next().unwrap().to_string();
                }
                let cfg: Vec<&str> = l.split(':').next().unwrap().split(' ').collect();
                if cfg[0] == "build" {
                    let key = format!("peak_bytes_{}_{}_{}x{}_n{}_f{}_l{}", cfg[1], cfg[2], cfg[3], cfg[4], cfg[5], cfg[6], cfg[7]);
                    stats.counters.insert(key, pk);
                }
            }
        }
        let mut sample: Vec<String> =
            logv.iter().filter(|l| l.starts_with("sat ") || (l.contains(" 1000000 ") && l.starts_with("build "))).cloned().collect();
        sample.sort();
        sample.truncate(80);
        out.push(("measured_peaks".to_string(), true, format!("worst peak/bound = {:.3} ({}); {}", worst_ratio, worst_case, sample.join(" | "))));
        // detection power: a builder that owns a growing output buffer must fail both criteria
        for fam in [Family::Fix, Family::Pfx] {
            let p1 = measure_build_buffering(fam, 100_000, 4, 16, 7);
            let p2 = measure_build_buffering(fam, 400_000, 4, 16, 7);
            let bound = mem_bound_bytes_builder(100, 2, 4, fam.maxkey(16) as u64);
            let (num, add) = sat_criterion(100, 2);
            let detected = p2 > bound && p2 > p1 * num / 100 + add;
            out.push((
                format!("criteria_reject_buffered_output_{:?}", fam),
                detected,
                format!("Vec<u8> sink counted with the builder: peak(1e5)={} peak(4e5)={} bound={} -> both criteria fail as they must: {}", p1, p2, bound, detected),
            ));
        }
        out
    }
}

fn field(l: &str, name: &str) -> Option<u64> {
    let i = l.find(name)? + name.len();
    let rest = &l[i..];
    let end = rest.find(' ').unwrap_or(rest.len());
    rest[..end].parse().ok()
}
