//! C13 — not built yet.
use crate::common::*;
pub struct P;
impl Prop for P {
    fn generate(&self, _tier: Tier, _rng: &mut Rng, _stats: &mut Stats) -> Vec<String> {
        vec![]
    }
    fn execute(&self, _case: &str) -> String {
        String::new()
    }
}
