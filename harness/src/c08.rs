//! C08 — checksums: the implementation's CRC (exposed through `verify()`), the footer of built
//! FSTs under different write chunkings, and the outcome of open+verify on corrupted files.
//!
//! case formats (fields separated by one blank):
//!   crc <hexfile>                    a version-3 wrapper around arbitrary content, checksum field 0
//!   bytes <tag> <hexfile>            bytes of an FST built by a builder (tag names builder and sink)
//!   corrupt <hexfile> <pos> <hexbyte>     single-byte replacement of a built FST
//!   burst <hexfile> <pos> <hexbytes>      2..4 consecutive bytes replaced
use crate::common::*;
use fst::raw::{Builder, Fst};
use std::io::{self, Write};

pub struct P;

pub fn le32(b: &[u8]) -> u32 {
    (b[0] as u32) | (b[1] as u32) << 8 | (b[2] as u32) << 16 | (b[3] as u32) << 24
}

/// What open + accessors + verify did, in the canonical text the model driver also prints.
/// Returns (opened, verified, implementation's computed checksum if it was exposed, text).
pub fn outcome(bytes: &[u8], root: Option<String>) -> (bool, bool, Option<u32>, String) {
    match Fst::new(bytes) {
        Err(fst::Error::Fst(fst::raw::Error::Format { size })) => (false, false, None, format!("E:Format({})", size)),
        Err(fst::Error::Fst(fst::raw::Error::Version { expected, got })) => {
            (false, false, None, format!("E:Version({},{})", expected, got))
        }
        Err(e) => (false, false, None, format!("E:other({})", format!("{}", e).replace('\t', " ").replace('\n', " "))),
        Ok(f) => {
            let (ln, em, sz, ty) = (f.len(), f.is_empty(), f.size(), f.fst_type());
            let same = f.as_bytes() == bytes;
            let (cs, vs, ok, got) = match f.verify() {
                Ok(()) => {
                    // expected == got; the stored value is the last four bytes
                    let c = le32(&bytes[bytes.len() - 4..]);
                    (c.to_string(), "ok".to_string(), true, Some(c))
                }
                Err(fst::Error::Fst(fst::raw::Error::ChecksumMissing)) => ("none".to_string(), "Missing".to_string(), false, None),
                Err(fst::Error::Fst(fst::raw::Error::ChecksumMismatch { expected, got })) => {
                    (expected.to_string(), format!("Mismatch({},{})", expected, got), false, Some(got))
                }
                Err(e) => ("?".to_string(), format!("other({})", format!("{}", e).replace('\t', " ").replace('\n', " ")), false, None),
            };
            let r = match root {
                Some(r) => format!(",root={}", r),
                None => String::new(),
            };
            let s = format!(
                "O:cs={},ty={},len={},empty={},size={}{}{};V:{}",
                cs, ty, ln, em as u8, sz, r, if same { "" } else { ",as_bytes=DIFFERENT" }, vs
            );
            (true, ok, got, s)
        }
    }
}

// ---------- sinks that chop the byte stream differently ----------
/// accepts at most `cap` bytes per write call; optionally fails the first call with Interrupted
pub struct CapSink {
    pub buf: Vec<u8>,
    pub cap: usize,
    pub interrupt_every: usize,
    calls: usize,
}
impl CapSink {
    pub fn new(cap: usize, interrupt_every: usize) -> CapSink {
        CapSink { buf: vec![], cap, interrupt_every, calls: 0 }
    }
}
impl Write for CapSink {
    fn write(&mut self, b: &[u8]) -> io::Result<usize> {
        self.calls += 1;
        if self.interrupt_every > 0 && self.calls % self.interrupt_every == 0 {
            return Err(io::Error::new(io::ErrorKind::Interrupted, "interrupted"));
        }
        let n = b.len().min(self.cap);
        self.buf.extend_from_slice(&b[..n]);
        Ok(n)
    }
    fn flush(&mut self) -> io::Result<()> {
        Ok(())
    }
}

pub fn gen_keys(rng: &mut Rng, n: usize, maxlen: usize, alpha: usize) -> Vec<Vec<u8>> {
    let mut ks: Vec<Vec<u8>> = (0..n)
        .map(|_| {
            let l = rng.range(0, maxlen);
            (0..l)
                .map(|_| if alpha >= 256 { rng.below(256) as u8 } else { b'a' + rng.below(alpha as u64) as u8 })
                .collect()
        })
        .collect();
    ks.sort();
    ks.dedup();
    ks
}
fn gen_val(rng: &mut Rng) -> u64 {
    match rng.below(5) {
        0 => 0,
        1 => rng.below(256),
        2 => rng.below(1 << 16),
        3 => rng.next() >> rng.below(64),
        _ => u64::MAX - rng.below(3),
    }
}

/// Build through the raw builder into the given sink.
fn build_raw<W: Write>(w: W, ty: u64, kvs: &[(Vec<u8>, u64)]) -> W {
    let mut b = Builder::new_type(w, ty).unwrap();
    for (k, v) in kvs {
        b.insert(k, *v).unwrap();
    }
    b.into_inner().unwrap()
}
fn build_map(kvs: &[(Vec<u8>, u64)]) -> Vec<u8> {
    let mut b = fst::MapBuilder::memory();
    for (k, v) in kvs {
        b.insert(k, *v).unwrap();
    }
    b.into_inner().unwrap()
}
fn build_set(ks: &[Vec<u8>]) -> Vec<u8> {
    let mut b = fst::SetBuilder::memory();
    for k in ks {
        b.insert(k).unwrap();
    }
    b.into_inner().unwrap()
}

/// A version-3 file whose open succeeds whatever the content: the root address field is non-zero.
fn wrapper(ty: u64, body: &[u8], nkeys: u64) -> Vec<u8> {
    let mut f = vec![];
    f.extend_from_slice(&3u64.to_le_bytes());
    f.extend_from_slice(&ty.to_le_bytes());
    f.extend_from_slice(body);
    let total = f.len() + 16 + 4;
    f.extend_from_slice(&nkeys.to_le_bytes());
    f.extend_from_slice(&((total - 21) as u64).to_le_bytes());
    f.extend_from_slice(&[0, 0, 0, 0]);
    f
}

/// small built FSTs (sorted by size) used by the corruption families
pub fn small_fsts(rng: &mut Rng, n: usize, maxkeys: usize, maxlen: usize) -> Vec<Vec<u8>> {
    let mut out = vec![build_set(&[]), build_set(&[b"a".to_vec()]), build_map(&[(vec![], 7)]), build_map(&[(b"ab".to_vec(), 300), (b"b".to_vec(), 1)])];
    while out.len() < n {
        let nk = rng.range(0, maxkeys);
        let ks = gen_keys(rng, nk, maxlen, 3);
        if rng.chance(1, 2) {
            out.push(build_set(&ks));
        } else {
            let kvs: Vec<_> = ks.into_iter().map(|k| (k, gen_val(rng))).collect();
            out.push(build_map(&kvs));
        }
    }
    out.sort_by_key(|b| b.len());
    out.dedup();
    out
}

impl Prop for P {
    fn generate(&self, tier: Tier, rng: &mut Rng, stats: &mut Stats) -> Vec<String> {
        let mut cases = vec![];
        let (n_big_crc, n_built, n_exh, n_sampled, n_burst) = match tier {
            Tier::Quick => (96, 160, 6, 40, 3000),
            Tier::Thorough => (600, 1200, 12, 150, 20000),
            Tier::Wide => (300, 400, 6, 60, 6000),
        };
        // (a) the implementation's CRC through verify(): every checksummed length 32..=320
        // (all residues mod 16 with 2..20 fast-path blocks), three fills each for the short ones
        for clen in 32usize..=320 {
            let body_len = clen - 32;
            for fill in 0..3 {
                let body: Vec<u8> = match fill {
                    0 => (0..body_len).map(|_| rng.below(256) as u8).collect(),
                    1 => vec![0x00; body_len],
                    _ => vec![0xFF; body_len],
                };
                let (ty, nk) = match fill {
                    0 => (rng.next(), rng.next()),
                    1 => (0, 0),
                    _ => (u64::MAX, u64::MAX),
                };
                cases.push(format!("crc {}", hex(&wrapper(ty, &body, nk))));
                stats.bump(&format!("crc_len_mod16_{}", clen % 16));
            }
        }
        // every length up to 1056 once more with random content (66 blocks, all residues)
        for clen in 321usize..=1056 {
            let body: Vec<u8> = (0..clen - 32).map(|_| rng.below(256) as u8).collect();
            cases.push(format!("crc {}", hex(&wrapper(rng.next(), &body, rng.next()))));
            stats.bump("crc_len_321_to_1056_each");
        }
        // longer inputs up to 4096 checksummed bytes, boundary lengths around multiples of 16 and 256
        let mut lens: Vec<usize> = vec![4096, 4095, 4081, 4080, 4079, 2048, 2047, 1024, 1023, 1025, 512, 511, 513, 336, 335, 337];
        while lens.len() < n_big_crc {
            lens.push(rng.range(321, 4096));
        }
        for (i, clen) in lens.into_iter().enumerate() {
            let body_len = clen - 32;
            let body: Vec<u8> = match i % 8 {
                6 => vec![0x00; body_len],
                7 => vec![0xFF; body_len],
                _ => (0..body_len).map(|_| rng.below(256) as u8).collect(),
            };
            cases.push(format!("crc {}", hex(&wrapper(rng.next(), &body, rng.next()))));
            stats.bump("crc_len_321_to_4096");
        }
        // (b) built FSTs: three builders, and the raw builder through sinks that accept 1..7, 8, 15, 16, 17, 64
        // bytes per call or fail with Interrupted now and then: the bytes must not depend on the chunking
        for i in 0..n_built {
            let nk = match i % 4 {
                0 => rng.range(0, 4),
                1 => rng.range(0, 30),
                _ => rng.range(0, 120),
            };
            let alpha = *rng.pick(&[2usize, 3, 26, 256]);
            let maxlen = rng.range(0, 9);
            let ks = gen_keys(rng, nk, maxlen, alpha);
            let kvs: Vec<(Vec<u8>, u64)> = ks.iter().map(|k| (k.clone(), gen_val(rng))).collect();
            let ty = if rng.chance(1, 2) { 0 } else { rng.next() };
            let mem = build_raw(Vec::new(), ty, &kvs);
            cases.push(format!("bytes raw-mem {}", hex(&mem)));
            stats.bump("built_raw_memory");
            let cap = *rng.pick(&[1usize, 2, 3, 4, 5, 6, 7, 8, 15, 16, 17, 64]);
            let intr = *rng.pick(&[0usize, 0, 2, 3, 7]);
            let chopped = build_raw(CapSink::new(cap, intr), ty, &kvs).buf;
            if chopped != mem {
                stats.bump("CHUNKING_CHANGED_THE_BYTES");
            }
            cases.push(format!("bytes raw-cap{}-intr{} {}", cap, intr, hex(&chopped)));
            stats.bump("built_raw_partial_write_sink");
            let bw = io::BufWriter::with_capacity(*rng.pick(&[1usize, 5, 16, 33]), CapSink::new(cap, 0));
            let buffered = build_raw(bw, ty, &kvs).into_inner().map_err(|_| ()).unwrap().buf;
            cases.push(format!("bytes raw-bufwriter {}", hex(&buffered)));
            stats.bump("built_raw_bufwriter");
            // writers LENT to the builder and looked at right after finish(), with no further flush or drop:
            // a BufWriter through get_ref(), and a writer that makes bytes visible only when flushed
            {
                let mut lent = io::BufWriter::with_capacity(*rng.pick(&[3usize, 8, 64, 4096]), Vec::new());
                let mut b = Builder::new_type(&mut lent, ty).unwrap();
                for (k, v) in &kvs {
                    b.insert(k, *v).unwrap();
                }
                b.finish().unwrap();
                cases.push(format!("bytes raw-lent-bufwriter-get_ref {}", hex(lent.get_ref())));
                stats.bump("built_raw_lent_bufwriter_get_ref");
                let mut st = crate::wrap::StagingSink { committed: vec![], pending: vec![], cap: *rng.pick(&[0usize, 1, 6]) };
                let mut b = Builder::new_type(&mut st, ty).unwrap();
                for (k, v) in &kvs {
                    b.insert(k, *v).unwrap();
                }
                b.finish().unwrap();
                cases.push(format!("bytes raw-commit-on-flush {}", hex(&st.committed)));
                stats.bump("built_raw_commit_on_flush_writer");
            }
            if i % 3 == 0 {
                cases.push(format!("bytes map {}", hex(&build_map(&kvs))));
                stats.bump("built_map");
                cases.push(format!("bytes set {}", hex(&build_set(&ks))));
                stats.bump("built_set");
            }
        }
        // (c) corruption: every position x every other byte value for the smallest FSTs
        let smalls = small_fsts(rng, 40, 4, 3);
        let mut done = 0;
        for f in smalls.iter().filter(|f| f.len() <= 64) {
            if done >= n_exh {
                break;
            }
            done += 1;
            let h = hex(f);
            for pos in 0..f.len() {
                for v in 0..=255u8 {
                    if v != f[pos] {
                        cases.push(format!("corrupt {} {} {:02x}", h, pos, v));
                    }
                }
            }
            stats.bump("corrupt_exhaustive_fsts");
            stats.add("corrupt_exhaustive_cases", (f.len() * 255) as u64);
        }
        // sampled: every position of larger FSTs x {bit flips, +1, 0, 0xFF, random}
        let larger = small_fsts(rng, n_sampled, 40, 6);
        for f in larger.iter() {
            let h = hex(f);
            for pos in 0..f.len() {
                let o = f[pos];
                let mut vs = vec![o ^ (1 << rng.below(8)), o.wrapping_add(1), rng.below(256) as u8];
                if pos < 8 || pos + 24 >= f.len() {
                    vs.extend_from_slice(&[0, 1, 2, 3, 4, 0xFF, o ^ 0x80, o ^ 1]);
                }
                vs.sort();
                vs.dedup();
                for v in vs {
                    if v != o {
                        cases.push(format!("corrupt {} {} {:02x}", h, pos, v));
                        stats.bump("corrupt_sampled_cases");
                    }
                }
            }
        }
        // bursts of 2..4 bytes
        for _ in 0..n_burst {
            let f = rng.pick(&larger).clone();
            let bl = rng.range(2, 4).min(f.len());
            let pos = if rng.chance(1, 4) { f.len() - bl - rng.range(0, 6.min(f.len() - bl)) } else { rng.range(0, f.len() - bl) };
            let mut nb: Vec<u8> = (0..bl).map(|_| rng.below(256) as u8).collect();
            // first and last byte of the burst really differ
            if nb[0] == f[pos] {
                nb[0] ^= 0x5a;
            }
            if nb[bl - 1] == f[pos + bl - 1] {
                nb[bl - 1] ^= 0xa5;
            }
            cases.push(format!("burst {} {} {}", hex(&f), pos, hex(&nb)));
            stats.bump(&format!("burst_len_{}", bl));
        }
        cases
    }

    fn nontrivial(&self, case: &str) -> bool {
        // every family is non-trivial except wrappers with an empty body
        !(case.starts_with("crc ") && case.len() <= 4 + 72)
    }

    fn execute(&self, case: &str) -> String {
        let t: Vec<&str> = case.split(' ').collect();
        match t[0] {
            "crc" => {
                let f = unhex(t[1]);
                let (_, _, got, s) = outcome(&f, None);
                match got {
                    Some(g) => format!("S:{}\tM:{}", g, s),
                    None => format!("S:unexposed\tM:{}", s),
                }
            }
            "bytes" => {
                let f = unhex(t[2]);
                let (_, ok, _, s) = outcome(&f, None);
                let last = if f.len() >= 4 { le32(&f[f.len() - 4..]).to_string() } else { "-".to_string() };
                format!("S:{} {}\tM:{}", if ok { "verified" } else { "NOT-VERIFIED" }, last, s)
            }
            "corrupt" | "burst" => {
                let mut f = unhex(t[1]);
                let pos: usize = t[2].parse().unwrap();
                let nb = unhex(t[3]);
                // the unmodified file must open and verify, otherwise the case says nothing
                let (_, ok0, _, _) = outcome(&f, None);
                if !ok0 {
                    return "S:precondition-failed\tM:-".to_string();
                }
                let orig = f.clone();
                f[pos..pos + nb.len()].copy_from_slice(&nb);
                let (_, ok, _, s) = outcome(&f, None);
                // the same altered bytes attached to the already opened file through map_data
                // (container swap): open-or-verify must fail on that route as well
                let via_map = match Fst::new(orig).and_then(|o| o.map_data(|_| f.clone())) {
                    Err(_) => false,
                    Ok(m) => m.as_bytes() != &f[..] || m.verify().is_ok(),
                };
                format!("S:{}\tM:{}", if ok { "OK" } else if via_map { "OK-via-map_data" } else { "notok" }, s)
            }
            _ => "S:BADCASE\tM:BADCASE".to_string(),
        }
    }
}
