//! C12 — sharing: no duplicate nodes without eviction, minimal DFA for sets, trie bound, corpus sharing ratio.
use crate::common::*;
use crate::core::*;
use fst::raw::Fst;
use std::collections::{BTreeMap, HashMap, HashSet};

const SHARING_FACTOR: f64 = 0.8;

pub struct P;

#[derive(Default)]
struct Trie {
    fin: bool,
    ch: BTreeMap<u8, Box<Trie>>,
}
fn trie_of(ks: &[Vec<u8>]) -> Trie {
    let mut root = Trie::default();
    for k in ks {
        let mut n = &mut root;
        for &b in k {
            n = n.ch.entry(b).or_default();
        }
        n.fin = true;
    }
    root
}
fn trie_nodes(t: &Trie) -> usize {
    1 + t.ch.values().map(|c| trie_nodes(c)).sum::<usize>()
}
/// number of states of the minimal acyclic DFA = distinct right languages, by bottom-up hash-consing
fn canon(t: &Trie, tab: &mut HashMap<(bool, Vec<(u8, usize)>), usize>) -> usize {
    let sig: Vec<(u8, usize)> = t.ch.iter().map(|(b, c)| (*b, canon(c, tab))).collect();
    let n = tab.len();
    *tab.entry((t.fin, sig)).or_insert(n)
}
/// (distinct residual languages, is the language {""} among them)
fn minimal_states(ks: &[Vec<u8>]) -> (usize, bool) {
    let t = trie_of(ks);
    let mut tab = HashMap::new();
    canon(&t, &mut tab);
    (tab.len(), tab.contains_key(&(true, vec![])))
}

pub struct NodeInfo {
    pub emitted: usize,
    pub dup: Option<(usize, usize)>,
}
pub fn node_info(f: &Fst<Vec<u8>>) -> NodeInfo {
    let mut seen: HashSet<usize> = HashSet::new();
    let mut stack = vec![f.root().addr()];
    let mut sigs: HashMap<(bool, u64, Vec<(u8, u64, usize)>), usize> = HashMap::new();
    let mut dup = None;
    while let Some(a) = stack.pop() {
        if a == 0 || !seen.insert(a) {
            continue;
        }
        let n = f.node(a);
        let sig = (n.is_final(), n.final_output().value(), n.transitions().map(|t| (t.inp, t.out.value(), t.addr)).collect::<Vec<_>>());
        if let Some(&other) = sigs.get(&sig) {
            dup = Some((other, a));
        } else {
            sigs.insert(sig, a);
        }
        for t in n.transitions() {
            stack.push(t.addr);
        }
    }
    NodeInfo { emitted: seen.len(), dup }
}

fn sharing(file: &str, limit: usize) -> (usize, usize, usize, f64) {
    let ks = corpus(file, limit);
    let t = trie_of(&ks);
    let trie = trie_nodes(&t);
    let (minimal, _) = minimal_states(&ks);
    let out = exec_build("extend", "raw_loop", 0, drows(), dcols(), &set_ops(&ks));
    let f = Fst::new(out.bytes.unwrap()).unwrap();
    let emitted = node_info(&f).emitted;
    let frac = (trie as f64 - emitted as f64) / (trie as f64 - minimal as f64);
    (trie, minimal, emitted, frac)
}

impl Prop for P {
    fn generate(&self, tier: Tier, rng: &mut Rng, stats: &mut Stats) -> Vec<String> {
        let mut cases = vec![];
        let nrand = match tier { Tier::Quick => 400, Tier::Thorough => 6000, Tier::Wide => 1500 };
        let sets = crate::c02::standard_keysets(tier, rng, stats, nrand);
        for ks in sets {
            // big caches (no eviction expected), the default, and caches that evict all the time
            let geoms: [(usize, usize); 5] = [(drows(), dcols()), (4096, 4), (1, 1), (2, 2), (3, 3)];
            let g = if rng.chance(1, 2) { geoms[0] } else { *rng.pick(&geoms) };
            cases.push(build_case("extend", "raw_loop", 0, g.0, g.1, &set_ops(&ks)));
            let p = 1 + rng.below(NPATTERNS as u64 - 1) as usize;
            let vals = value_pattern(p, ks.len(), rng);
            cases.push(build_case("extend", "raw_loop", 0, g.0, g.1, &map_ops(&with_values(&ks, &vals))));
            // the same keys with rejected calls in between whose errors are ignored (stragglers smaller than the
            // last key, duplicates): a rejected call changes nothing, so sharing is that of the accepted keys
            if ks.len() >= 3 && ks.len() <= 300 && rng.chance(1, 2) {
                let clean = if rng.chance(1, 2) { set_ops(&ks) } else { map_ops(&with_values(&ks, &vals)) };
                let mut dirty: Vec<Op> = vec![];
                for (i, o) in clean.iter().enumerate() {
                    dirty.push(o.clone());
                    if i >= 1 && rng.chance(1, 3) {
                        dirty.push(clean[rng.below(i as u64) as usize].clone());
                        if rng.chance(1, 2) {
                            dirty.push(clean[i - 1].clone());
                        }
                        if matches!(o, Op::Insert(..)) && rng.chance(1, 2) {
                            dirty.push(o.clone());
                        }
                    }
                }
                cases.push(build_case("calls", "raw", 0, g.0, g.1, &dirty));
                stats.bump("histories_with_ignored_rejected_calls");
            }
        }
        cases
    }
    fn nontrivial(&self, case: &str) -> bool {
        case.matches(',').count() >= 2
    }
    fn execute(&self, case: &str) -> String {
        let line = exec_build_case(&case["build ".len()..]);
        // add the sharing checks to X
        let p: Vec<&str> = case.split(' ').collect();
        let rows: usize = p[4].parse().unwrap();
        let cols: usize = p[5].parse().unwrap();
        let all_ops = parse_ops(p[6]);
        // a `calls` history may hold rejected calls: the sharing checks are about the accepted ones
        let (ops, out) = if p[1] == "calls" {
            let out = exec_build("calls", "raw", 0, rows, cols, &all_ops);
            let acc: Vec<Op> = all_ops.iter().zip(out.results.iter()).filter(|(_, r)| *r == "ok").map(|(o, _)| o.clone()).collect();
            (acc, out)
        } else {
            let out = exec_build("extend", "raw_loop", 0, rows, cols, &all_ops);
            (all_ops, out)
        };
        let is_set = ops.iter().all(|o| matches!(o, Op::Add(..)));
        // without the hooks (tools/check's fallback when a change breaks the cfg-guarded code) the cache
        // counters are not observable: only the trie bound and the node walk are checked then
        let st_opt = out.stats;
        let st = st_opt.unwrap_or([0, 0, 1, 0]);
        let f = Fst::new(out.bytes.unwrap()).unwrap();
        let info = node_info(&f);
        let ks: Vec<Vec<u8>> = ops.iter().map(|o| o.key().to_vec()).collect();
        let trie = trie_nodes(&trie_of(&ks));
        let mut x: Option<String> = None;
        // the hook counters cover the whole build, finishing included
        if info.emitted > trie {
            x = Some(format!("{} nodes emitted but the prefix trie has only {}", info.emitted, trie));
        }
        if st_opt.is_some() && info.emitted as u64 != st[1] + st[3] {
            x = Some(format!("{} nodes reachable but {} nodes were written (cache misses + rejected)", info.emitted, st[1] + st[3]));
        }
        if st[2] == 0 && rows * cols != 0 {
            if let Some((a, b)) = info.dup {
                x = Some(format!("duplicate nodes at addresses {} and {} although nothing was evicted", a, b));
            }
            if is_set {
                let (min, has_eps) = minimal_states(&ks);
                let want = min - if has_eps { 1 } else { 0 };
                if info.emitted != want {
                    x = Some(format!("set compiled to {} nodes, minimal DFA has {} (without the shared empty-final sentinel)", info.emitted, want));
                }
            }
        }
        // a user's walk through the public Node accessors enumerates what stream() enumerates (S of `line`)
        if x.is_none() {
            let kvs = f.stream().into_byte_vec();
            if let Err(e) = crate::wrap::node_walk(&f, &kvs, 2000) {
                x = Some(e);
            }
        }
        match x {
            None => line,
            Some(msg) => {
                let mut parts: Vec<String> = line.split('\t').map(|s| s.to_string()).collect();
                parts[2] = format!("X:{}", msg);
                parts.join("\t")
            }
        }
    }
    fn extras(&self, tier: Tier, _rng: &mut Rng, _stats: &mut Stats) -> Vec<(String, bool, String)> {
        // realised sharing on the shipped corpora, against 0.8 x the value measured at the pinned revision.
        // Calibration: another deterministic replacement policy (no promotion on a hit: harmless P03/X02) realises
        // 0.695 on wiki-urls (0.89 x pinned) - still "most of the achievable sharing"; the seeded changes that
        // damage the cache (C12-2, C12-3, C12-4) realise at most 0.597 / 0.398 / 0.460 there (0.77 x pinned or less).
        let mut out = vec![];
        let mut list = vec![("words-10000", 10_000usize, 0.959f64), ("wiki-urls-10000", 10_000, 0.779)];
        if tier == Tier::Thorough {
            list.push(("words-100000", 100_000, 0.909));
        }
        for (f, n, pinned) in list {
            let (trie, minimal, emitted, frac) = sharing(f, n);
            out.push((
                format!("sharing_{}", f),
                frac >= SHARING_FACTOR * pinned,
                format!("trie={} minimal={} emitted={} realised sharing={:.4} (pinned revision {:.3}, threshold {:.3})", trie, minimal, emitted, frac, pinned, SHARING_FACTOR * pinned),
            ));
        }
        out
    }
}
