//! C10 — files of format versions 1, 2, 3 (encoded by the Coq reference encoder), golden files,
//! every container type, and the classification of short / unsupported inputs by Fst::new.
use crate::c03::{bound_universe, fmt_calls, parse_calls};
use crate::common::*;
use crate::core::*;
use fst::raw::{Error as RawError, Fst};
use fst::{IntoStreamer, Streamer};
use std::borrow::Cow;
use std::io::Write;

pub struct P;

fn model_exe() -> std::path::PathBuf {
    if let Ok(p) = std::env::var("VERIF_MODEL_CORE") {
        return p.into();
    }
    // harness/target/release/fstv-harness -> ../../../ocaml/build/model_core
    let exe = std::env::current_exe().unwrap();
    exe.parent().unwrap().join("../../../ocaml/build/model_core")
}

/// encode (version, ops) lists with the Coq reference encoder (extracted model, `encode` mode)
pub fn encode_all(reqs: &[(u64, Vec<Op>)]) -> Vec<Vec<u8>> {
    // requests go through a file: writing a large batch into the child's stdin while it fills its stdout would deadlock
    let dir = exe_root().join("harness/target/c10-enc");
    let _ = std::fs::create_dir_all(&dir);
    let inp = dir.join(format!("req-{}.txt", std::process::id()));
    {
        let mut f = std::io::BufWriter::new(std::fs::File::create(&inp).unwrap());
        for (v, ops) in reqs {
            writeln!(f, "encode {} {}", v, fmt_ops(ops)).unwrap();
        }
    }
    let out = std::process::Command::new(model_exe())
        .stdin(std::fs::File::open(&inp).unwrap())
        .output()
        .expect("model_core not built");
    let _ = std::fs::remove_file(&inp);
    String::from_utf8(out.stdout).unwrap().lines().map(unhex).collect()
}

fn run_queries<D: AsRef<[u8]>>(f: &Fst<D>, probes: &[Vec<u8>], ranges: &[Vec<(u8, Vec<u8>)>]) -> String {
    let kvs = f.stream().into_byte_vec();
    let g: Vec<String> = probes.iter().map(|p| {
        let v = f.get(p);
        assert_eq!(v.is_some(), f.contains_key(p));
        v.map(|o| o.value().to_string()).unwrap_or("~".into())
    }).collect();
    let r: Vec<String> = ranges.iter().map(|calls| {
        let mut rb = f.range();
        for (k, b) in calls {
            rb = match k { 0 => rb.ge(b), 1 => rb.gt(b), 2 => rb.le(b), _ => rb.lt(b) };
        }
        fmt_kvs(&rb.into_stream().into_byte_vec())
    }).collect();
    format!("c={};len={};g={};r={}", fmt_kvs(&kvs), f.len(), g.join(","), r.join("/"))
}

impl Prop for P {
    fn generate(&self, tier: Tier, rng: &mut Rng, stats: &mut Stats) -> Vec<String> {
        let mut cases = vec![];
        // 1. classification: every length 0..40 x version field values
        for l in 0..=40u64 {
            for v in [0u64, 1, 2, 3, 4, 5, 255, 256, u64::MAX] {
                cases.push(format!("openclass {} {}", l, v));
                stats.bump("openclass");
            }
        }
        // 2. reference-encoded v1 / v2 / v3 files
        let nrand = match tier { Tier::Quick => 120, Tier::Thorough => 2500, Tier::Wide => 500 };
        let mut sets = crate::c02::standard_keysets(tier, rng, stats, nrand);
        sets.retain(|ks| ks.len() <= 300 && ks.iter().all(|k| k.len() <= 400));
        let mut reqs = vec![];
        let mut meta = vec![];
        for ks in sets {
            let p = rng.below(NPATTERNS as u64) as usize;
            let vals = value_pattern(p, ks.len(), rng);
            let ops = map_ops(&with_values(&ks, &vals));
            let versions: Vec<u64> = if ks.len() > 40 || rng.chance(1, 3) { vec![1, 2, 3] } else { vec![1 + rng.below(2)] };
            let probes = { let mut ps = probes_for(&ks, rng, false); while ps.len() > 60 { let i = rng.below(ps.len() as u64) as usize; ps.remove(i); } ps };
            let bs = bound_universe(&ks, rng, 20);
            let mut rs = vec![vec![]];
            for _ in 0..6 {
                let mut c = vec![];
                if rng.chance(2, 3) { c.push((rng.below(2) as u8, rng.pick(&bs).clone())); }
                if rng.chance(2, 3) { c.push((2 + rng.below(2) as u8, rng.pick(&bs).clone())); }
                rs.push(c);
            }
            // bounds made of the extreme byte values, alone and after the first byte of a key: a bound that
            // leaves the trie at the root or at a child on a byte no key has (the versions differ in how a
            // node with more than 32 transitions is searched)
            for b in [0x00u8, 0xFF, 0x80] {
                rs.push(vec![(0, vec![b])]);
                rs.push(vec![(1, vec![b, 0x00])]);
                rs.push(vec![(3, vec![b])]);
                if let Some(k) = ks.iter().find(|k| !k.is_empty()) {
                    rs.push(vec![(rng.below(2) as u8, vec![k[0], b])]);
                    rs.push(vec![(2 + rng.below(2) as u8, vec![k[0], b])]);
                }
            }
            for v in versions {
                reqs.push((v, ops.clone()));
                meta.push((v, ops.clone(), probes.clone(), rs.clone()));
                stats.bump(&format!("encoded_v{}", v));
            }
        }
        let enc = encode_all(&reqs);
        assert_eq!(enc.len(), meta.len(), "reference encoder produced {} of {} files", enc.len(), meta.len());
        for (bytes, (v, ops, probes, rs)) in enc.iter().zip(meta.iter()) {
            cases.push(format!(
                "old {} {} {} ; {} ; {}",
                v, hex(bytes), fmt_ops(ops),
                probes.iter().map(|p| hex(p)).collect::<Vec<_>>().join(" "),
                rs.iter().map(|c| fmt_calls(c)).collect::<Vec<_>>().join("/")
            ));
        }
        // 3. golden v3 files written by the pinned revision
        if let Ok(rd) = std::fs::read_dir(exe_root().join("golden")) {
            let mut names: Vec<_> = rd.filter_map(|e| e.ok()).map(|e| e.path()).filter(|p| p.extension().map(|x| x == "fst").unwrap_or(false)).collect();
            names.sort();
            for p in names {
                let bytes = std::fs::read(&p).unwrap();
                let ops_file = p.with_extension("ops");
                let ops = std::fs::read_to_string(&ops_file).unwrap_or_default();
                cases.push(format!("old 3 {} {} ; {} ; none", hex(&bytes), ops.trim(), ""));
                stats.bump("golden_files");
            }
        }
        cases
    }
    fn nontrivial(&self, case: &str) -> bool {
        case.starts_with("old") && case.contains(',')
    }
    fn execute(&self, case: &str) -> String {
        if let Some(rest) = case.strip_prefix("openclass ") {
            let mut it = rest.split(' ');
            let l: usize = it.next().unwrap().parse().unwrap();
            let v: u64 = it.next().unwrap().parse().unwrap();
            // a header-only probe: version field (when it fits), everything else zero, but with a footer that
            // describes the empty FST of that version when the length allows it
            let mut bytes = vec![0u8; l];
            if l >= 8 {
                bytes[..8].copy_from_slice(&v.to_le_bytes());
            }
            let class = match Fst::new(bytes) {
                Ok(_) => "ok",
                Err(fst::Error::Fst(RawError::Version { expected, got })) => {
                    assert_eq!(got, v);
                    assert_eq!(expected, 3);
                    "version"
                }
                Err(fst::Error::Fst(RawError::Format { size })) => {
                    assert_eq!(size, l);
                    "format"
                }
                Err(_) => "other",
            };
            let bad_version = v == 0 || v > 3;
            let long_enough = !bad_version && l >= if v >= 3 { 36 } else { 32 };
            let canon = if (8..32).contains(&l) && bad_version && (class == "version" || class == "format") {
                "version-or-format"
            } else if long_enough && (class == "ok" || class == "format") {
                "ok-or-format"
            } else {
                class
            };
            return format!("S:{}\tM:{}\tX:ok", canon, canon);
        }
        let rest = &case["old ".len()..];
        let parts: Vec<&str> = rest.split(';').map(|s| s.trim()).collect();
        let hd: Vec<&str> = parts[0].split(' ').collect();
        let v: u64 = hd[0].parse().unwrap();
        let bytes = unhex(hd[1]);
        let probes: Vec<Vec<u8>> = parts[1].split(' ').filter(|s| !s.is_empty()).map(unhex).collect();
        let ranges: Vec<Vec<(u8, Vec<u8>)>> = parts[2].split('/').map(|r| parse_calls(r.trim())).collect();
        let mut x = String::from("ok");
        // Vec<u8>
        let f = match Fst::new(bytes.clone()) {
            Ok(f) => f,
            Err(e) => return format!("S:openfail:{}\tM:openfail\tX:ok", e),
        };
        let s = run_queries(&f, &probes, &ranges);
        // borrowed slice, Cow, memory map, map_data
        let b = Fst::new(&bytes[..]).map(|f| run_queries(&f, &probes, &ranges));
        let c = Fst::new(Cow::Borrowed(&bytes[..])).map(|f| run_queries(&f, &probes, &ranges));
        let c2 = Fst::new(Cow::<[u8]>::Owned(bytes.clone())).map(|f| run_queries(&f, &probes, &ranges));
        let md = Fst::new(bytes.clone()).unwrap().map_data(|d| std::sync::Arc::<[u8]>::from(d)).map(|f| run_queries(&f, &probes, &ranges));
        let dir = exe_root().join("harness/target/c10-mmap");
        let _ = std::fs::create_dir_all(&dir);
        let path = dir.join(format!("f{:?}-{}.fst", std::thread::current().id(), bytes.len()));
        std::fs::write(&path, &bytes).unwrap();
        let mm = {
            let file = std::fs::File::open(&path).unwrap();
            let mmap = unsafe { memmap2::Mmap::map(&file).unwrap() };
            Fst::new(mmap).map(|f| run_queries(&f, &probes, &ranges))
        };
        let _ = std::fs::remove_file(&path);
        for (name, r) in [("&[u8]", b), ("Cow::Borrowed", c), ("Cow::Owned", c2), ("map_data(Arc<[u8]>)", md), ("Mmap", mm)] {
            match r {
                Ok(r) if r == s => {}
                Ok(_) => x = format!("container {} answers differently from Vec<u8>", name),
                Err(e) => x = format!("container {} fails to open: {}", name, e),
            }
        }
        // verify: ChecksumMissing for versions without a checksum, Ok for version 3
        match (v, f.verify()) {
            (3, Ok(())) => {}
            (1, Err(fst::Error::Fst(RawError::ChecksumMissing))) | (2, Err(fst::Error::Fst(RawError::ChecksumMissing))) => {}
            (_, r) => x = format!("verify() on a version {} file gave {:?}", v, r.map_err(|e| e.to_string())),
        }
        // a walk through the public Node accessors (transitions(), find_input, transition(i)) enumerates the same
        // entries as stream() on files of every version; get_key inverts the map when values increase with keys
        {
            let kvs: Vec<(Vec<u8>, u64)> = f.stream().into_byte_vec();
            if let Err(e) = crate::wrap::node_walk(&f, &kvs, 2000) {
                x = format!("version {} file: {}", v, e);
            }
            if kvs.windows(2).all(|w| w[0].1 < w[1].1) {
                for (k, val) in kvs.iter().take(400) {
                    if f.get_key(*val).as_ref() != Some(k) {
                        x = format!("version {} file: get_key({}) = {:?}, the key stored with that value is {}", v, val, f.get_key(*val).map(|k| hex(&k)), hex(k));
                    }
                }
                crate::common::xcount("old_file_get_key_inverted");
            }
        }
        // set operations over the old file: union with itself
        {
            let mut u = f.op().add(&f).union();
            let mut n = 0;
            while let Some((_, outs)) = u.next() {
                if outs.len() != 2 { x = "union of an old file with itself: wrong outs".into(); }
                n += 1;
            }
            if n != f.len() { x = format!("union of an old file with itself yields {} keys, len() = {}", n, f.len()); }
        }
        format!("S:{}\tM:{}\tX:{}", s, s, x)
    }
}

pub fn exe_root() -> std::path::PathBuf {
    let exe = std::env::current_exe().unwrap();
    exe.parent().unwrap().join("../../..").canonicalize().unwrap_or_else(|_| "/verif".into())
}
