//! C05 — set operations over k sorted streams (union, intersection, difference,
//! symmetric_difference) and is_disjoint / is_subset / is_superset.
//!
//! case: "<op>\t<api>:<kinds>\t<streams>"
//!   op      union | intersection | symdiff | difference | disjoint | subset | superset
//!   api     raw (fst::raw::OpBuilder) | map (fst::map::OpBuilder) | set (fst::set::OpBuilder, values all 0)
//!   kinds   one letter per stream: f = whole FST, r = range over a larger FST, s = search with an
//!           automaton accepting exactly the wanted keys over a larger FST, u = user Streamer over a Vec
//!   streams "." (none) or stream|stream|…; stream = "_" (empty) or hexkey:val,… ("-" = empty key)
//! M ends in "|repoll=<n>": the number of polls made, over all the runs of the case, on user streams
//! that had already returned None (the model says 0).
//! The model side ignores the second field.  Every case is also run through the baseline
//! (raw API, all streams whole FSTs); disagreement between the two is an X failure.
use crate::common::*;
use fst::automaton::Automaton;
use fst::raw::{self, Output};
use fst::{IntoStreamer, Map, Set, Streamer};
use std::collections::BTreeSet;
use std::sync::Arc;

pub struct P;

type Kv = Vec<(Vec<u8>, u64)>;
type Items = Vec<(Vec<u8>, Vec<(usize, u64)>)>;

// ---------- user streamers ----------
// They are deliberately NOT inert after exhaustion (`Streamer`, like `Iterator`, gives no "fused" guarantee - think
// of a paged cursor): polled again after having returned None, they yield one key that belongs to no input.
static POISON: [u8; 4] = [0xFF, 0xFE, 0xFD, 0xFC];
thread_local! {
    /// polls made, during the current `execute`, on user streams that had already returned None
    static REPOLLS: std::cell::Cell<u64> = std::cell::Cell::new(0);
}
fn after_end(i: &mut usize, len: usize) -> bool {
    // i == len: the regular end (None); i == len + 1: polled again -> poison once; later: None
    if *i == len {
        *i += 1;
        false
    } else if *i == len + 1 {
        *i += 1;
        xcount("user_stream_polled_after_none");
        REPOLLS.with(|c| c.set(c.get() + 1));
        true
    } else {
        // polled yet again: counted as well, answers None
        if *i > len + 1 {
            xcount("user_stream_polled_after_none");
            REPOLLS.with(|c| c.set(c.get() + 1));
        }
        false
    }
}
struct VecRaw {
    v: Kv,
    i: usize,
}
impl<'a> Streamer<'a> for VecRaw {
    type Item = (&'a [u8], Output);
    fn next(&'a mut self) -> Option<(&'a [u8], Output)> {
        if self.i < self.v.len() {
            self.i += 1;
            let (k, v) = &self.v[self.i - 1];
            Some((&k[..], Output::new(*v)))
        } else if after_end(&mut self.i, self.v.len()) {
            Some((&POISON[..], Output::new(0xDEAD)))
        } else {
            None
        }
    }
}
struct VecMap {
    v: Kv,
    i: usize,
}
impl<'a> Streamer<'a> for VecMap {
    type Item = (&'a [u8], u64);
    fn next(&'a mut self) -> Option<(&'a [u8], u64)> {
        if self.i < self.v.len() {
            self.i += 1;
            let (k, v) = &self.v[self.i - 1];
            Some((&k[..], *v))
        } else if after_end(&mut self.i, self.v.len()) {
            Some((&POISON[..], 0xDEAD))
        } else {
            None
        }
    }
}
struct VecSet {
    v: Kv,
    i: usize,
}
impl<'a> Streamer<'a> for VecSet {
    type Item = &'a [u8];
    fn next(&'a mut self) -> Option<&'a [u8]> {
        if self.i < self.v.len() {
            self.i += 1;
            Some(&self.v[self.i - 1].0[..])
        } else if after_end(&mut self.i, self.v.len()) {
            Some(&POISON[..])
        } else {
            None
        }
    }
}
/// a user type that is only IntoStreamer (not itself a Streamer)
struct IntoVecRaw(Kv);
impl<'a> IntoStreamer<'a> for IntoVecRaw {
    type Item = (&'a [u8], Output);
    type Into = VecRaw;
    fn into_stream(self) -> VecRaw {
        VecRaw { v: self.0, i: 0 }
    }
}

/// accepts exactly the keys of a finite set; state = bytes read so far
#[derive(Clone)]
struct Exact(Arc<BTreeSet<Vec<u8>>>);
impl Automaton for Exact {
    type State = Vec<u8>;
    fn start(&self) -> Vec<u8> {
        vec![]
    }
    fn is_match(&self, s: &Vec<u8>) -> bool {
        self.0.contains(s)
    }
    fn accept(&self, s: &Vec<u8>, b: u8) -> Vec<u8> {
        let mut t = s.clone();
        t.push(b);
        t
    }
}

// ---------- stream sources ----------
/// what one stream is made from; `big` = wanted keys plus decoys
struct Src {
    kind: char,
    want: Kv,
    big: Kv,
    lohi: Option<(Vec<u8>, Vec<u8>)>,
    exact: Exact,
}

fn make_src(kind: char, want: &Kv) -> Src {
    let keys: BTreeSet<Vec<u8>> = want.iter().map(|(k, _)| k.clone()).collect();
    let mut big: Kv = want.clone();
    let lohi = want.first().map(|f| (f.0.clone(), want.last().unwrap().0.clone()));
    match kind {
        'r' => {
            // decoys strictly outside [lo, hi]
            match &lohi {
                Some((lo, hi)) => {
                    if !lo.is_empty() {
                        big.push((vec![], 7));
                        if lo.len() > 1 {
                            big.push((lo[..lo.len() - 1].to_vec(), 9));
                        }
                    }
                    let mut a = hi.clone();
                    a.push(0);
                    big.push((a, 11));
                    let mut b = hi.clone();
                    b.extend_from_slice(&[255, 255]);
                    big.push((b, 13));
                }
                None => {
                    big.push((vec![], 3));
                    big.push((b"q".to_vec(), 4));
                }
            }
        }
        's' => {
            // decoys interleaved with the wanted keys
            let mut extra: BTreeSet<Vec<u8>> = BTreeSet::new();
            for (k, _) in want {
                let mut a = k.clone();
                a.push(1);
                extra.insert(a);
                if !k.is_empty() {
                    extra.insert(k[..k.len() - 1].to_vec());
                }
            }
            extra.insert(b"m".to_vec());
            extra.insert(vec![]);
            for e in extra {
                if !keys.contains(&e) {
                    big.push((e, 5));
                }
            }
        }
        _ => {}
    }
    big.sort();
    big.dedup_by(|a, b| a.0 == b.0);
    Src { kind, want: want.clone(), big, lohi, exact: Exact(Arc::new(keys)) }
}

fn parse_streams(s: &str) -> Vec<Kv> {
    if s == "." {
        return vec![];
    }
    s.split('|')
        .map(|st| {
            if st == "_" {
                vec![]
            } else {
                st.split(',')
                    .map(|e| {
                        let mut it = e.split(':');
                        let k = unhex(it.next().unwrap());
                        let v: u64 = it.next().unwrap().parse().unwrap();
                        (k, v)
                    })
                    .collect()
            }
        })
        .collect()
}

fn show_streams(ss: &[Kv]) -> String {
    if ss.is_empty() {
        return ".".to_string();
    }
    ss.iter()
        .map(|s| {
            if s.is_empty() {
                "_".to_string()
            } else {
                s.iter().map(|(k, v)| format!("{}:{}", hex(k), v)).collect::<Vec<_>>().join(",")
            }
        })
        .collect::<Vec<_>>()
        .join("|")
}

fn show_items(items: &Items) -> String {
    if items.is_empty() {
        return ".".to_string();
    }
    items
        .iter()
        .map(|(k, o)| format!("{}={}", hex(k), o.iter().map(|(i, v)| format!("{}:{}", i, v)).collect::<Vec<_>>().join(",")))
        .collect::<Vec<_>>()
        .join(";")
}

/// entries of every key sorted by stream index
fn by_index(items: &Items) -> Items {
    items
        .iter()
        .map(|(k, o)| {
            let mut o = o.clone();
            o.sort();
            (k.clone(), o)
        })
        .collect()
}
/// emission order, every maximal run of equal values sorted by index
fn tie_canon(items: &Items) -> Items {
    items
        .iter()
        .map(|(k, o)| {
            let mut out: Vec<(usize, u64)> = vec![];
            let mut i = 0;
            while i < o.len() {
                let mut j = i;
                while j < o.len() && o[j].1 == o[i].1 {
                    j += 1;
                }
                let mut g = o[i..j].to_vec();
                g.sort();
                out.extend(g);
                i = j;
            }
            (k.clone(), out)
        })
        .collect()
}

macro_rules! drain_iv {
    ($s:expr) => {{
        let mut s = $s;
        let mut out: Items = vec![];
        while let Some((k, outs)) = s.next() {
            out.push((k.to_vec(), outs.iter().map(|iv| (iv.index, iv.value)).collect()));
        }
        out
    }};
}
macro_rules! run_op {
    ($op:expr, $b:expr) => {
        match $op {
            "union" => drain_iv!($b.union()),
            "intersection" => drain_iv!($b.intersection()),
            "symdiff" => drain_iv!($b.symmetric_difference()),
            "difference" => drain_iv!($b.difference()),
            _ => panic!("op"),
        }
    };
}

fn run_raw(op: &str, srcs: &[Src]) -> Items {
    let fsts: Vec<raw::Fst<Vec<u8>>> = srcs.iter().map(|s| raw::Fst::from_iter_map(s.big.iter().cloned()).unwrap()).collect();
    let mut b = raw::OpBuilder::new();
    for (i, s) in srcs.iter().enumerate() {
        match s.kind {
            'f' => {
                if i % 2 == 0 {
                    b.push(&fsts[i])
                } else {
                    b.push(fsts[i].stream())
                }
            }
            'r' => match &s.lohi {
                Some((lo, hi)) => b.push(fsts[i].range().ge(lo).le(hi)),
                None => b.push(fsts[i].range().gt(b"zz").lt(b"zz")),
            },
            's' => b.push(fsts[i].search(s.exact.clone())),
            _ => {
                if i % 2 == 0 {
                    b.push(VecRaw { v: s.want.clone(), i: 0 })
                } else {
                    b.push(IntoVecRaw(s.want.clone()))
                }
            }
        }
    }
    run_op!(op, b)
}

fn run_map(op: &str, srcs: &[Src]) -> Items {
    let maps: Vec<Map<Vec<u8>>> = srcs.iter().map(|s| Map::from_iter(s.big.iter().cloned()).unwrap()).collect();
    let mut b = fst::map::OpBuilder::new();
    for (i, s) in srcs.iter().enumerate() {
        match s.kind {
            'f' => {
                if i % 2 == 0 {
                    b.push(&maps[i])
                } else {
                    b.push(maps[i].stream())
                }
            }
            'r' => match &s.lohi {
                Some((lo, hi)) => b.push(maps[i].range().ge(lo).le(hi)),
                None => b.push(maps[i].range().gt(b"zz").lt(b"zz")),
            },
            's' => b.push(maps[i].search(s.exact.clone())),
            _ => b.push(VecMap { v: s.want.clone(), i: 0 }),
        }
    }
    run_op!(op, b)
}

/// the set API yields keys only
fn run_set(op: &str, srcs: &[Src]) -> Vec<Vec<u8>> {
    let sets: Vec<Set<Vec<u8>>> = srcs.iter().map(|s| Set::from_iter(s.big.iter().map(|(k, _)| k.clone())).unwrap()).collect();
    let mut b = fst::set::OpBuilder::new();
    for (i, s) in srcs.iter().enumerate() {
        match s.kind {
            'f' => {
                if i % 2 == 0 {
                    b.push(&sets[i])
                } else {
                    b.push(sets[i].stream())
                }
            }
            'r' => match &s.lohi {
                Some((lo, hi)) => b.push(sets[i].range().ge(lo).le(hi)),
                None => b.push(sets[i].range().gt(b"zz").lt(b"zz")),
            },
            's' => b.push(sets[i].search(s.exact.clone())),
            _ => b.push(VecSet { v: s.want.clone(), i: 0 }),
        }
    }
    macro_rules! keys {
        ($s:expr) => {{
            let mut s = $s;
            let mut out = vec![];
            while let Some(k) = s.next() {
                out.push(k.to_vec());
            }
            out
        }};
    }
    match op {
        "union" => keys!(b.union()),
        "intersection" => keys!(b.intersection()),
        "symdiff" => keys!(b.symmetric_difference()),
        "difference" => keys!(b.difference()),
        _ => panic!("op"),
    }
}

// ---------- the other ways of filling an OpBuilder ----------
// run_raw / run_map / run_set fill the builder with `push`.  The *_alt versions fill it the other public ways:
//   all streams whole FSTs, k >= 1 : `iter.collect::<OpBuilder>()` (FromIterator, k odd) or `extend(iter)` (Extend, k even)
//   first stream a whole FST       : `x.op()` (= OpBuilder::new().add(&x)) followed by a chain of `add`
//   otherwise                      : OpBuilder::new() followed by a chain of `add`
// The result must be the one of the `push` route, item for item (same stream order => same indexes).
macro_rules! alt_builder {
    ($B:ty, $fsts:expr, $srcs:expr, $user:ident, $route:ident) => {{
        let fsts = $fsts;
        let srcs: &[Src] = $srcs;
        if !srcs.is_empty() && srcs.iter().all(|s| s.kind == 'f') {
            if srcs.len() % 2 == 1 {
                $route = "from_iterator";
                fsts.iter().collect::<$B>()
            } else {
                $route = "extend";
                let mut b = <$B>::new();
                b.extend(fsts.iter());
                b
            }
        } else {
            let (mut b, skip) = if srcs.first().map(|s| s.kind == 'f').unwrap_or(false) {
                $route = "op_then_add";
                (fsts[0].op(), 1)
            } else {
                $route = "new_then_add";
                (<$B>::new(), 0)
            };
            for (i, s) in srcs.iter().enumerate().skip(skip) {
                b = match s.kind {
                    'f' => {
                        if i % 2 == 0 {
                            b.add(&fsts[i])
                        } else {
                            b.add(fsts[i].stream())
                        }
                    }
                    'r' => match &s.lohi {
                        Some((lo, hi)) => b.add(fsts[i].range().ge(lo).le(hi)),
                        None => b.add(fsts[i].range().gt(b"zz").lt(b"zz")),
                    },
                    's' => b.add(fsts[i].search(s.exact.clone())),
                    _ => $user!(b, i, s),
                };
            }
            b
        }
    }};
}

fn run_raw_alt(op: &str, srcs: &[Src]) -> (Items, &'static str) {
    let fsts: Vec<raw::Fst<Vec<u8>>> = srcs.iter().map(|s| raw::Fst::from_iter_map(s.big.iter().cloned()).unwrap()).collect();
    let route: &'static str;
    macro_rules! user {
        ($b:expr, $i:expr, $s:expr) => {
            if $i % 2 == 0 { $b.add(VecRaw { v: $s.want.clone(), i: 0 }) } else { $b.add(IntoVecRaw($s.want.clone())) }
        };
    }
    let b = alt_builder!(raw::OpBuilder, &fsts, srcs, user, route);
    (run_op!(op, b), route)
}
fn run_map_alt(op: &str, srcs: &[Src]) -> (Items, &'static str) {
    let maps: Vec<Map<Vec<u8>>> = srcs.iter().map(|s| Map::from_iter(s.big.iter().cloned()).unwrap()).collect();
    let route: &'static str;
    macro_rules! user {
        ($b:expr, $i:expr, $s:expr) => {
            $b.add(VecMap { v: $s.want.clone(), i: 0 })
        };
    }
    let b = alt_builder!(fst::map::OpBuilder, &maps, srcs, user, route);
    (run_op!(op, b), route)
}
fn run_set_alt(op: &str, srcs: &[Src]) -> (Vec<Vec<u8>>, &'static str) {
    let sets: Vec<Set<Vec<u8>>> = srcs.iter().map(|s| Set::from_iter(s.big.iter().map(|(k, _)| k.clone())).unwrap()).collect();
    let route: &'static str;
    macro_rules! user {
        ($b:expr, $i:expr, $s:expr) => {
            $b.add(VecSet { v: $s.want.clone(), i: 0 })
        };
    }
    let b = alt_builder!(fst::set::OpBuilder, &sets, srcs, user, route);
    macro_rules! keys {
        ($s:expr) => {{
            let mut s = $s;
            let mut out = vec![];
            while let Some(k) = s.next() {
                out.push(k.to_vec());
            }
            out
        }};
    }
    let ks = match op {
        "union" => keys!(b.union()),
        "intersection" => keys!(b.intersection()),
        "symdiff" => keys!(b.symmetric_difference()),
        "difference" => keys!(b.difference()),
        _ => panic!("op"),
    };
    (ks, route)
}

fn pred_raw(op: &str, s0: &Kv, s1: &Src) -> bool {
    let f0 = raw::Fst::from_iter_map(s0.iter().cloned()).unwrap();
    let f1 = raw::Fst::from_iter_map(s1.big.iter().cloned()).unwrap();
    macro_rules! go {
        ($st:expr) => {
            match op {
                "disjoint" => f0.is_disjoint($st),
                "subset" => f0.is_subset($st),
                "superset" => f0.is_superset($st),
                _ => panic!("op"),
            }
        };
    }
    match s1.kind {
        'f' => go!(&f1),
        'r' => match &s1.lohi {
            Some((lo, hi)) => go!(f1.range().ge(lo).le(hi)),
            None => go!(f1.range().gt(b"zz").lt(b"zz")),
        },
        's' => go!(f1.search(s1.exact.clone())),
        _ => go!(IntoVecRaw(s1.want.clone())),
    }
}
fn pred_set(op: &str, s0: &Kv, s1: &Src) -> bool {
    let f0 = Set::from_iter(s0.iter().map(|(k, _)| k.clone())).unwrap();
    let f1 = Set::from_iter(s1.big.iter().map(|(k, _)| k.clone())).unwrap();
    macro_rules! go {
        ($st:expr) => {
            match op {
                "disjoint" => f0.is_disjoint($st),
                "subset" => f0.is_subset($st),
                "superset" => f0.is_superset($st),
                _ => panic!("op"),
            }
        };
    }
    match s1.kind {
        'f' => go!(&f1),
        'r' => match &s1.lohi {
            Some((lo, hi)) => go!(f1.range().ge(lo).le(hi)),
            None => go!(f1.range().gt(b"zz").lt(b"zz")),
        },
        's' => go!(f1.search(s1.exact.clone())),
        _ => go!(VecSet { v: s1.want.clone(), i: 0 }),
    }
}

/// the alternative routes run on the small cases and on a third of the others (by a hash of the case line)
fn alt_route_selected(case: &str) -> bool {
    case.len() <= 120 || case.bytes().fold(0u32, |h, b| h.wrapping_mul(31).wrapping_add(b as u32)) % 3 == 0
}
fn count_route(api: &str, route: &'static str) {
    xcount(match (api, route) {
        ("raw", "from_iterator") => "ops_raw_from_iterator",
        ("raw", "extend") => "ops_raw_extend",
        ("raw", "op_then_add") => "ops_raw_op_then_add",
        ("raw", _) => "ops_raw_new_then_add",
        ("map", "from_iterator") => "ops_map_from_iterator",
        ("map", "extend") => "ops_map_extend",
        ("map", "op_then_add") => "ops_map_op_then_add",
        ("map", _) => "ops_map_new_then_add",
        (_, "from_iterator") => "ops_set_from_iterator",
        (_, "extend") => "ops_set_extend",
        (_, "op_then_add") => "ops_set_op_then_add",
        _ => "ops_set_new_then_add",
    });
}

// ---------- generation ----------
const OPS: [&str; 4] = ["union", "intersection", "symdiff", "difference"];
const PREDS: [&str; 3] = ["disjoint", "subset", "superset"];
const KINDS: [char; 4] = ['f', 'r', 's', 'u'];

fn universe() -> Vec<Vec<u8>> {
    // the empty key, a key that is a prefix of another, and an unrelated key
    vec![vec![], b"a".to_vec(), b"ab".to_vec(), b"b".to_vec()]
}

fn rand_kinds(rng: &mut Rng, k: usize, zero_values: bool, stats: &mut Stats) -> String {
    let api = match rng.below(if zero_values { 4 } else { 3 }) {
        0 | 1 => "raw",
        2 => "map",
        _ => "set",
    };
    let mut s = String::new();
    for _ in 0..k {
        s.push(*rng.pick(&KINDS));
    }
    stats.bump(&format!("api_{}", api));
    format!("{}:{}", api, s)
}

fn rand_stream(rng: &mut Rng, pool: &[Vec<u8>], maxlen: usize, vmax: u64) -> Kv {
    let n = rng.range(0, maxlen);
    let mut ks: BTreeSet<Vec<u8>> = BTreeSet::new();
    for _ in 0..n {
        ks.insert(rng.pick(pool).clone());
    }
    ks.into_iter().map(|k| (k, if vmax == 0 { 0 } else { rng.below(vmax + 1) })).collect()
}

impl Prop for P {
    fn generate(&self, tier: Tier, rng: &mut Rng, stats: &mut Stats) -> Vec<String> {
        let mut cases: Vec<String> = vec![];
        let uni = universe();
        let subset = |mask: usize, vals: &mut dyn FnMut() -> u64| -> Kv {
            (0..uni.len()).filter(|i| mask >> i & 1 == 1).map(|i| (uni[i].clone(), vals())).collect()
        };
        // (1) exhaustive: all k-tuples of subsets of the 4-key universe, values drawn from {0,1,2}
        let kmax = match tier {
            Tier::Quick | Tier::Wide => 3,
            Tier::Thorough => 4,
        };
        for k in 1..=kmax {
            let n = 16usize.pow(k as u32);
            for code in 0..n {
                let zero = rng.chance(1, 4);
                let mut ss: Vec<Kv> = vec![];
                for j in 0..k {
                    let mask = (code >> (4 * j)) & 15;
                    let mut f = || if zero { 0 } else { rng.below(3) };
                    ss.push(subset(mask, &mut f));
                }
                let st = show_streams(&ss);
                for op in OPS {
                    let kinds = rand_kinds(rng, k, zero, stats);
                    cases.push(format!("{}\t{}\t{}", op, kinds, st));
                    stats.bump(&format!("exhaustive_subsets_k{}", k));
                }
            }
        }
        // (2) exhaustive with values: pairs of valued subsets of {"", a, ab}, every value in {0,1,2}
        {
            let u3 = &uni[..3];
            let all: Vec<Kv> = (0..64usize)
                .map(|c| {
                    (0..3).filter_map(|i| {
                        let d = (c >> (2 * i)) & 3;
                        if d == 3 { None } else { Some((u3[i].clone(), d as u64)) }
                    }).collect()
                })
                .collect();
            for a in &all {
                for b in &all {
                    let st = show_streams(&[a.clone(), b.clone()]);
                    for op in OPS {
                        let kinds = rand_kinds(rng, 2, false, stats);
                        cases.push(format!("{}\t{}\t{}", op, kinds, st));
                        stats.bump("exhaustive_valued_pairs");
                    }
                }
            }
        }
        // (3) random tuples, k up to 6, up to 40 keys per stream, keys from a pool so that they collide
        let nrand = match tier {
            Tier::Quick => 5000,
            Tier::Thorough => 40000,
            Tier::Wide => 20000,
        };
        let mut pool: Vec<Vec<u8>> = vec![vec![]];
        for a in [b'a', b'b', 0u8, 255u8] {
            pool.push(vec![a]);
            for b in [b'a', b'b', 0u8, 255u8] {
                pool.push(vec![a, b]);
                for c in [b'a', 0u8, 255u8] {
                    pool.push(vec![a, b, c]);
                }
            }
        }
        // many streams (the property says "any number"): k = 63, 64, 65, 70, 130 tiny streams
        for &k in &[63usize, 64, 65, 70, 130] {
            for variant in 0..3 {
                let ss: Vec<Kv> = (0..k).map(|i| {
                    let mut v: Kv = vec![(b"common".to_vec(), i as u64)];
                    match variant {
                        0 => {}
                        1 => v.push((format!("own{:03}", i).into_bytes(), 1)),
                        _ => if i % 2 == 0 { v.push((b"even".to_vec(), 2)) },
                    }
                    v.sort();
                    v
                }).collect();
                let st = show_streams(&ss);
                for op in OPS {
                    let kinds = format!("raw:{}", "f".repeat(k));
                    cases.push(format!("{}\t{}\t{}", op, kinds, st));
                    stats.bump("many_streams");
                }
            }
        }
        // long keys: shared prefixes of 7, 8, 9 and 16 bytes followed by suffixes of different lengths, so that
        // any ordering shortcut on a key prefix, a length or a machine word is exercised
        let mut long_pool: Vec<Vec<u8>> = vec![];
        for plen in [7usize, 8, 9, 16, 33] {
            let prefix: Vec<u8> = (0..plen).map(|i| b'1' + (i % 9) as u8).collect();
            for sfx in [&b""[..], b"a", b"aa", b"ab", b"b", b"a\0", b"\0", b"\xff", b"\xff\xff", b"aaaaaaaaa", b"b\0\0"] {
                let mut k = prefix.clone();
                k.extend_from_slice(sfx);
                long_pool.push(k);
            }
        }
        let short_pool = pool.clone();
        for _ in 0..nrand {
            let pool: &Vec<Vec<u8>> = if rng.chance(1, 3) { stats.bump("random_long_key_pool"); &long_pool } else { &short_pool };
            let k = rng.range(1, 6);
            let zero = rng.chance(1, 4);
            let vmax = if zero { 0 } else { *rng.pick(&[1u64, 3, 1000, u64::MAX - 1]) };
            let maxlen = *rng.pick(&[3usize, 8, 20, 40]);
            let mut ss: Vec<Kv> = (0..k).map(|_| rand_stream(rng, &pool, maxlen, vmax)).collect();
            // identical and empty streams
            if k >= 2 && rng.chance(1, 5) {
                let j = rng.range(0, k - 1);
                let i = rng.range(0, k - 1);
                ss[i] = ss[j].clone();
                stats.bump("random_with_identical_streams");
            }
            if rng.chance(1, 8) {
                let i = rng.range(0, k - 1);
                ss[i] = vec![];
                stats.bump("random_with_empty_stream");
            }
            let st = show_streams(&ss);
            for op in OPS {
                let kinds = rand_kinds(rng, k, zero, stats);
                cases.push(format!("{}\t{}\t{}", op, kinds, st));
                stats.bump(&format!("random_k{}", k));
            }
        }
        // (4) all streams identical / all empty, k = 1..6
        for k in 1..=6 {
            for _ in 0..20 {
                let s = rand_stream(rng, &pool, 12, 2);
                let ss: Vec<Kv> = (0..k).map(|_| s.clone()).collect();
                let st = show_streams(&ss);
                for op in OPS {
                    let kinds = rand_kinds(rng, k, false, stats);
                    cases.push(format!("{}\t{}\t{}", op, kinds, st));
                    stats.bump("all_identical");
                }
            }
            let ss: Vec<Kv> = (0..k).map(|_| vec![]).collect();
            for op in OPS {
                let kinds = rand_kinds(rng, k, true, stats);
                cases.push(format!("{}\t{}\t{}", op, kinds, show_streams(&ss)));
                stats.bump("all_empty");
            }
        }
        // (5) no stream at all
        for op in ["union", "intersection", "symdiff"] {
            for api in ["raw", "map", "set"] {
                cases.push(format!("{}\t{}:\t.", op, api));
                stats.bump("zero_streams");
            }
        }
        // outside the contract: difference of no streams panics (swap_remove(0) on an empty Vec)
        for api in ["raw", "map", "set"] {
            cases.push(format!("difference\t{}:\t.", api));
            stats.bump("zero_streams_difference_panics");
        }
        // (6) predicates: all pairs of subsets of the universe, and random pairs
        for a in 0..16usize {
            for b in 0..16usize {
                for p in PREDS {
                    for kind in KINDS {
                        let zero = rng.chance(1, 2);
                        let mut f = || if zero { 0 } else { rng.below(3) };
                        let ss = vec![subset(a, &mut f), subset(b, &mut f)];
                        let api = if zero && rng.chance(1, 2) { "set" } else { "raw" };
                        cases.push(format!("{}\t{}:f{}\t{}", p, api, kind, show_streams(&ss)));
                        stats.bump("predicate_exhaustive_pairs");
                    }
                }
            }
        }
        for _ in 0..nrand / 2 {
            let zero = rng.chance(1, 2);
            let a = rand_stream(rng, &pool, 20, if zero { 0 } else { 5 });
            let b = match rng.below(4) {
                0 => a.clone(),
                1 => a.iter().filter(|_| rng.chance(2, 3)).cloned().collect(),
                2 => {
                    let mut b = rand_stream(rng, &pool, 10, 0);
                    b.extend(a.iter().cloned());
                    b.sort();
                    b.dedup_by(|x, y| x.0 == y.0);
                    b
                }
                _ => rand_stream(rng, &pool, 20, if zero { 0 } else { 5 }),
            };
            let b: Kv = if zero { b.into_iter().map(|(k, _)| (k, 0)).collect() } else { b };
            let st = show_streams(&[a, b]);
            for p in PREDS {
                let api = if zero && rng.chance(1, 2) { "set" } else { "raw" };
                cases.push(format!("{}\t{}:f{}\t{}", p, api, rng.pick(&KINDS), st));
                stats.bump("predicate_random");
            }
        }
        cases
    }

    fn nontrivial(&self, case: &str) -> bool {
        // at least two streams, not all of them empty
        let st = case.split('\t').nth(2).unwrap_or(".");
        st.contains('|') && st.contains(':')
    }

    fn execute(&self, case: &str) -> String {
        REPOLLS.with(|c| c.set(0));
        let repolls = || REPOLLS.with(|c| c.get());
        let mut it = case.split('\t');
        let op = it.next().unwrap();
        let ak = it.next().unwrap();
        let ss = parse_streams(it.next().unwrap());
        let (api, kinds) = {
            let mut p = ak.split(':');
            (p.next().unwrap(), p.next().unwrap_or(""))
        };
        let kinds: Vec<char> = kinds.chars().collect();
        assert!(kinds.len() == ss.len(), "kinds/streams mismatch");
        if api == "set" {
            assert!(ss.iter().all(|s| s.iter().all(|e| e.1 == 0)), "set api needs zero values");
        }
        let base: Vec<Src> = ss.iter().map(|s| make_src('f', s)).collect();
        let srcs: Vec<Src> = ss.iter().zip(&kinds).map(|(s, k)| make_src(*k, s)).collect();
        let mut x = String::from("ok");
        if PREDS.contains(&op) {
            let b0 = pred_raw(op, &ss[0], &base[1]);
            let b1 = match api {
                "set" => pred_set(op, &ss[0], &srcs[1]),
                _ => pred_raw(op, &ss[0], &srcs[1]),
            };
            if b0 != b1 {
                x = format!("baseline says {} but {} says {}", b0, ak, b1);
            }
            return format!("S:{}\tM:{}|repoll={}\tX:{}", b1, b1, repolls(), x);
        }
        if op == "difference" && ss.is_empty() {
            // outside the contract: the expected observation is the panic of swap_remove(0) itself
            let r = std::panic::catch_unwind(std::panic::AssertUnwindSafe(|| match api {
                "raw" => run_raw(op, &srcs).len(),
                "map" => run_map(op, &srcs).len(),
                _ => run_set(op, &srcs).len(),
            }));
            return match r {
                Err(_) => "S:PANIC\tM:PANIC\tX:ok".to_string(),
                Ok(n) => format!("S:no panic, {} items\tM:no panic\tX:ok", n),
            };
        }
        let got: Items = match api {
            "raw" => run_raw(op, &srcs),
            "map" => run_map(op, &srcs),
            _ => {
                let keys = run_set(op, &srcs);
                let b = run_raw(op, &base);
                let bk: Vec<Vec<u8>> = b.iter().map(|e| e.0.clone()).collect();
                if bk != keys {
                    x = format!("set api keys {:?} differ from raw api keys {:?}", keys, bk);
                }
                if alt_route_selected(case) {
                    let (k2, route) = run_set_alt(op, &srcs);
                    if k2 != keys {
                        x = format!("set::OpBuilder filled through {} gives keys {:?} but {:?} when filled with push", route, k2, keys);
                    }
                    count_route("set", route);
                }
                b
            }
        };
        // the same streams put into the builder with add / op() / collect / extend instead of push
        if api != "set" && alt_route_selected(case) {
            let (g2, route) = if api == "raw" { run_raw_alt(op, &srcs) } else { run_map_alt(op, &srcs) };
            if g2 != got {
                x = format!("{}::OpBuilder filled through {} gives {} but {} when filled with push", api, route, show_items(&g2), show_items(&got));
            }
            count_route(api, route);
        }
        let b = run_raw(op, &base);
        if tie_canon(&b) != tie_canon(&got) {
            x = format!("baseline {} but {} gives {}", show_items(&tie_canon(&b)), ak, show_items(&tie_canon(&got)));
        }
        format!("S:{}\tM:{}|repoll={}\tX:{}", show_items(&by_index(&got)), show_items(&tie_canon(&got)), repolls(), x)
    }
}
