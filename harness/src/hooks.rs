//! The only place where the harness touches the instrumentation hooks of /repo
//! (`--cfg burntsushi_fst_verif`). When a change to /repo breaks the cfg-guarded code while the crate
//! itself still compiles, tools/check builds this crate with `--cfg fstv_nohooks` (and /repo without its
//! cfg): cases that need a chosen cache geometry then answer `S:NOHOOK` (the comparison skips them) and
//! the cache counters are reported as `na`.
use fst::raw::Builder;
use std::io::Write;
use std::sync::atomic::AtomicU64;
use std::sync::Arc;

pub type Stats = Arc<[AtomicU64; 4]>;

#[cfg(not(fstv_nohooks))]
pub fn available() -> bool {
    true
}
#[cfg(fstv_nohooks)]
pub fn available() -> bool {
    false
}

/// hook H1: a builder with a chosen node-cache geometry
#[cfg(not(fstv_nohooks))]
pub fn builder_with_cache<W: Write>(w: W, ty: u64, rows: usize, cols: usize) -> Builder<W> {
    Builder::verif_new_type_with_cache(w, ty, rows, cols).unwrap()
}
#[cfg(fstv_nohooks)]
pub fn builder_with_cache<W: Write>(_w: W, _ty: u64, _rows: usize, _cols: usize) -> Builder<W> {
    std::panic::panic_any(NoHook)
}

/// hook H2: cache counters [hits, misses, evictions, rejected], readable after into_inner
#[cfg(not(fstv_nohooks))]
pub fn stats_handle<W: Write>(b: &Builder<W>) -> Option<Stats> {
    Some(b.verif_cache_stats_handle())
}
#[cfg(fstv_nohooks)]
pub fn stats_handle<W: Write>(_b: &Builder<W>) -> Option<Stats> {
    None
}

/// payload of the panic that marks a case as not executable without hooks
pub struct NoHook;
