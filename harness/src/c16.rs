//! C16 — get_key on maps whose values increase with the keys.
use crate::common::*;
use crate::core::*;
use fst::raw::Fst;

pub struct P;

impl Prop for P {
    fn generate(&self, tier: Tier, rng: &mut Rng, stats: &mut Stats) -> Vec<String> {
        let nrand = match tier { Tier::Quick => 300, Tier::Thorough => 5000, Tier::Wide => 1200 };
        let mut cases = vec![];
        let mut sets = crate::c02::standard_keysets(tier, rng, stats, nrand);
        sets.retain(|ks| ks.len() <= 300);
        for ks in sets {
            for start_zero in [true, false] {
                let vals = increasing_values(ks.len(), rng, start_zero);
                let kvs = with_values(&ks, &vals);
                let mut qs: Vec<u64> = vec![0, 1, u64::MAX, u64::MAX - 1];
                for &v in &vals {
                    qs.push(v);
                    qs.push(v.wrapping_add(1));
                    qs.push(v.wrapping_sub(1));
                }
                for _ in 0..6 {
                    qs.push(rng.next());
                    qs.push(rng.below(100));
                }
                qs.sort();
                qs.dedup();
                stats.add("queries", qs.len() as u64);
                if ks.first().map(|k| k.is_empty()).unwrap_or(false) {
                    stats.bump(if start_zero { "with_empty_key_value0" } else { "with_empty_key_nonzero" });
                }
                cases.push(format!("getkey {} ; {}", fmt_ops(&map_ops(&kvs)), qs.iter().map(|q| q.to_string()).collect::<Vec<_>>().join(" ")));
                // the same map built on a raw builder with repeated add() calls after some inserts (a repeat is a no-op)
                if ks.len() <= 40 {
                    let mut ops = vec![];
                    for (k, v) in &kvs {
                        ops.push(Op::Insert(k.clone(), *v));
                        if rng.chance(1, 3) {
                            ops.push(Op::Add(k.clone()));
                            if rng.chance(1, 3) {
                                ops.push(Op::Add(k.clone()));
                            }
                        }
                    }
                    stats.bump("raw_builder_with_repeated_adds");
                    cases.push(format!("getkey {} ; {}", fmt_ops(&ops), qs.iter().map(|q| q.to_string()).collect::<Vec<_>>().join(" ")));
                }
            }
        }
        // files of the older format versions 1 and 2 (written by the Coq reference encoder): get_key walks
        // nodes through the transitions iterator, whose layout arithmetic depends on the version
        {
            let mut rng2 = Rng::new(77);
            let mut picked: Vec<Vec<Vec<u8>>> = boundary_keysets(&mut rng2, tier).into_iter().map(|x| x.1).filter(|ks| ks.len() <= 300 && ks.iter().all(|k| k.len() <= 64)).collect();
            for _ in 0..(if tier == Tier::Thorough { 200 } else { 30 }) {
                picked.push(random_keyset(rng, 40, 6));
            }
            let mut reqs = vec![];
            let mut meta = vec![];
            for (i, ks) in picked.iter().enumerate() {
                if tier != Tier::Thorough && i % 3 != 0 && ks.len() < 30 {
                    continue;
                }
                let vals = increasing_values(ks.len(), rng, i % 2 == 0);
                let ops = map_ops(&with_values(ks, &vals));
                for v in [1u64, 2] {
                    reqs.push((v, ops.clone()));
                    meta.push((v, ops.clone(), vals.clone()));
                }
            }
            let enc = crate::c10::encode_all(&reqs);
            assert_eq!(enc.len(), meta.len(), "reference encoder produced {} of {} files", enc.len(), meta.len());
            for ((v, ops, vals), bytes) in meta.into_iter().zip(enc) {
                let mut qs: Vec<u64> = vec![0, 1, u64::MAX];
                for &x in vals.iter().take(200) {
                    qs.push(x);
                    qs.push(x.wrapping_add(1));
                }
                qs.sort();
                qs.dedup();
                stats.bump(&format!("old_version_{}_files", v));
                cases.push(format!("getkeyold {} {} {} ; {}", v, hex(&bytes), fmt_ops(&ops), qs.iter().map(|q| q.to_string()).collect::<Vec<_>>().join(" ")));
            }
        }
        cases
    }
    fn nontrivial(&self, case: &str) -> bool {
        case.contains(',')
    }
    fn execute(&self, case: &str) -> String {
        if let Some(rest) = case.strip_prefix("getkeyold ") {
            let mut it = rest.split(';');
            let hd: Vec<&str> = it.next().unwrap().trim().split(' ').collect();
            let bytes = unhex(hd[1]);
            let qs: Vec<u64> = it.next().unwrap().trim().split(' ').filter(|s| !s.is_empty()).map(|s| s.parse().unwrap()).collect();
            let f = match Fst::new(bytes) {
                Ok(f) => f,
                Err(e) => return format!("S:openfail:{}\tM:openfail\tX:ok", e),
            };
            let res: Vec<String> = qs.iter().map(|&q| f.get_key(q).map(|k| hex(&k)).unwrap_or("~".into())).collect();
            let s = res.join(",");
            return format!("S:{}\tM:{}\tX:ok", s, s);
        }
        let rest = &case["getkey ".len()..];
        let mut it = rest.split(';');
        let ops = parse_ops(it.next().unwrap().trim());
        let qs: Vec<u64> = it.next().unwrap().trim().split(' ').filter(|s| !s.is_empty()).map(|s| s.parse().unwrap()).collect();
        let out = exec_build("extend", "raw_loop", 0, drows(), dcols(), &ops);
        let f = Fst::new(out.bytes.unwrap()).unwrap();
        let mut x = String::from("ok");
        let mut res = vec![];
        for &q in &qs {
            let g = f.get_key(q);
            // get_key_into appends to the caller's buffer, whatever it already holds (0, 3, 70 or 1000 bytes)
            let pre: Vec<u8> = match q % 4 { 0 => vec![], 1 => b"pre".to_vec(), 2 => vec![0xAB; 70], _ => vec![7u8; 1000] };
            let mut buf = pre.clone();
            let found = f.get_key_into(q, &mut buf);
            match &g {
                Some(k) => {
                    if !found || buf != [pre.clone(), k.clone()].concat() {
                        x = format!("get_key_into({}) found={} buf={} but get_key={}", q, found, hex(&buf), hex(k));
                    }
                }
                None => {
                    if found {
                        x = format!("get_key_into({}) returned true but get_key is None", q);
                    }
                }
            }
            res.push(g.map(|k| hex(&k)).unwrap_or("~".into()));
        }
        // arena use: the keys of all queried values gathered into ONE growing buffer
        let mut arena: Vec<u8> = vec![];
        let mut want: Vec<u8> = vec![];
        for &q in &qs {
            let before = arena.len();
            let found = f.get_key_into(q, &mut arena);
            match f.get_key(q) {
                Some(k) => {
                    want.extend_from_slice(&k);
                    if !found || arena != want {
                        x = format!("get_key_into({}) into a buffer already holding {} bytes: found={}", q, before, found);
                        break;
                    }
                }
                None => {
                    if found {
                        x = format!("get_key_into({}) true but get_key None (arena)", q);
                        break;
                    }
                    arena.truncate(before);
                }
            }
        }
        // the same queries on files STREAMED to short-writing / interrupting / block-cutting writers
        if x == "ok" && ops.len() <= 300 {
            let qs2 = qs.clone();
            let answer = move |g: &Fst<Vec<u8>>| -> String { qs2.iter().map(|&q| g.get_key(q).map(|k| hex(&k)).unwrap_or("~".into())).collect::<Vec<_>>().join(",") };
            if let Err(e) = crate::wrap::alt_builds_answer(0, &ops, f.as_bytes(), &res.join(","), &answer) {
                x = e;
            }
        }
        let s = res.join(",");
        format!("S:{}\tM:{}\tX:{}", s, s, x)
    }
}
