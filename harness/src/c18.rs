//! C18 — built-in automata and combinators: trace of (is_match, can_match, will_always_match)
//! along a string, plus a brute-force soundness check of the hints over continuations.
use crate::common::*;
use crate::dynaut::*;
use fst::automaton::Automaton;

pub struct P;

const ALPHA: [u8; 3] = [b'a', b'b', b'z'];

fn all_strings(len: usize) -> Vec<Vec<u8>> {
    let mut out = vec![vec![]];
    for _ in 0..len {
        let mut nx = vec![];
        for s in &out {
            for &c in &ALPHA {
                let mut t = s.clone();
                t.push(c);
                nx.push(t);
            }
        }
        out = nx;
    }
    out
}

pub fn leaves(rng: &mut Rng, stats: &mut Stats, tier: Tier) -> Vec<Exp> {
    let mut v = vec![Exp::Always];
    for q in ["", "a", "b", "ab", "ba", "aa", "abz", "aba", "zab"] {
        v.push(Exp::Str(q.as_bytes().to_vec()));
        v.push(Exp::Sub(q.as_bytes().to_vec()));
    }
    let t1 = enum_tables(1, 2, rng, 1);
    let t2 = enum_tables(2, 2, rng, 1);
    let t3 = enum_tables(3, 2, rng, if tier == Tier::Quick { 40 } else { 4 });
    stats.add("table_dfas_1state", t1.len() as u64);
    stats.add("table_dfas_2state_exhaustive", t2.len() as u64);
    stats.add("table_dfas_3state_sampled", t3.len() as u64);
    for t in t1.into_iter().chain(t2).chain(t3) {
        v.push(Exp::Tab(t));
    }
    v
}

pub fn random_exp(rng: &mut Rng, leaves: &[Exp], depth: usize) -> Exp {
    if depth == 0 {
        return rng.pick(leaves).clone();
    }
    match rng.below(4) {
        0 => Exp::SW(Box::new(random_exp(rng, leaves, depth - 1))),
        1 => Exp::C(Box::new(random_exp(rng, leaves, depth - 1))),
        2 => {
            let d2 = rng.range(0, depth - 1);
            let (a, b) = (random_exp(rng, leaves, depth - 1), random_exp(rng, leaves, d2));
            if rng.chance(1, 2) { Exp::U(Box::new(a), Box::new(b)) } else { Exp::U(Box::new(b), Box::new(a)) }
        }
        _ => {
            let d2 = rng.range(0, depth - 1);
            let (a, b) = (random_exp(rng, leaves, depth - 1), random_exp(rng, leaves, d2));
            if rng.chance(1, 2) { Exp::I(Box::new(a), Box::new(b)) } else { Exp::I(Box::new(b), Box::new(a)) }
        }
    }
}

impl Prop for P {
    fn generate(&self, tier: Tier, rng: &mut Rng, stats: &mut Stats) -> Vec<String> {
        let lv = leaves(rng, stats, tier);
        let mut exps: Vec<Exp> = vec![];
        // every leaf on its own, and under every unary combinator
        for l in &lv {
            exps.push(l.clone());
            exps.push(Exp::SW(Box::new(l.clone())));
            exps.push(Exp::C(Box::new(l.clone())));
            exps.push(Exp::C(Box::new(Exp::SW(Box::new(l.clone())))));
            exps.push(Exp::SW(Box::new(Exp::C(Box::new(l.clone())))));
        }
        let (nrand, slen) = match tier {
            Tier::Quick => (300, 5),
            Tier::Thorough => (4000, 6),
            Tier::Wide => (1500, 5),
        };
        for d in 1..=3 {
            for _ in 0..nrand {
                exps.push(random_exp(rng, &lv, d));
            }
        }
        for e in &exps {
            stats.bump(&format!("exp_depth_{}", e.depth()));
        }
        let strings = all_strings(slen);
        stats.add("strings_per_expression", strings.len() as u64);
        let per = match tier {
            Tier::Quick => 40,
            Tier::Thorough => strings.len(),
            Tier::Wide => 120,
        };
        let mut cases = vec![];
        for e in &exps {
            let tok = e.token();
            if per >= strings.len() || e.depth() == 0 {
                for s in &strings {
                    cases.push(format!("{}\t{}", tok, hex(s)));
                }
            } else {
                for _ in 0..per {
                    cases.push(format!("{}\t{}", tok, hex(&rng.pick(&strings)[..])));
                }
            }
        }
        // bytes at the ends of the byte range and outside UTF-8 (0x00, 0x80, 0xFF) mixed with an ordinary one:
        // keys are arbitrary bytes, only the patterns of Str / Subsequence are text
        let mut odd: Vec<Vec<u8>> = vec![vec![]];
        let mut layer: Vec<Vec<u8>> = vec![vec![]];
        for _ in 0..4 {
            let mut nx = vec![];
            for s in &layer {
                for &c in &[b'a', b'b', 0x00u8, 0x80, 0xFF] {
                    let mut t = s.clone();
                    t.push(c);
                    nx.push(t);
                }
            }
            odd.extend(nx.iter().cloned());
            layer = nx;
        }
        let nleaf = 5 * lv.len();
        for e in exps.iter().take(nleaf) {
            let tok = e.token();
            for s in &odd {
                if s.iter().any(|&b| b == 0 || b >= 0x80) {
                    cases.push(format!("{}\t{}", tok, hex(s)));
                }
            }
        }
        stats.add("strings_with_bytes_00_80_ff_per_leaf_expression", odd.len() as u64);
        cases
    }

    fn nontrivial(&self, case: &str) -> bool {
        // at least one combinator and a non-empty string
        let e = case.split('\t').next().unwrap();
        (e.starts_with("SW") || e.starts_with("U ") || e.starts_with("I ") || e.starts_with("C ")) && !case.ends_with("\t-")
    }

    fn execute(&self, case: &str) -> String {
        let mut it = case.split('\t');
        let e = Exp::parse_str(it.next().unwrap());
        let w = unhex(it.next().unwrap());
        let a = e.build();
        // the same expression with every automaton used through a borrow (impl Automaton for &T)
        let ar = e.build_ref();
        let mut str_ = ar.start();
        let mut st = a.start();
        let mut s_bits = String::new();
        let mut m_digits = String::new();
        let mut x = String::from("ok");
        let conts = {
            let mut v = vec![];
            for l in 0..=3 {
                v.extend(all_strings(l));
            }
            v
        };
        for i in 0..=w.len() {
            let (im, cm, wm) = (a.is_match(&st), a.can_match(&st), a.will_always_match(&st));
            s_bits.push(if im { '1' } else { '0' });
            m_digits.push_str(&((im as u8) * 4 + (cm as u8) * 2 + (wm as u8)).to_string());
            if a.accept_eof(&st).is_some() {
                x = format!("accept_eof is Some after {} bytes", i);
            }
            if !cm || wm {
                // brute-force: every continuation up to length 3
                for c in &conts {
                    let mut s2 = a.start();
                    for &b in w[..i].iter().chain(c.iter()) {
                        s2 = a.accept(&s2, b);
                    }
                    let mm = a.is_match(&s2);
                    if !cm && mm {
                        x = format!("can_match=false after {} but {}+{} matches", hex(&w[..i]), hex(&w[..i]), hex(c));
                    }
                    if wm && !mm {
                        x = format!("will_always_match=true after {} but {}+{} does not match", hex(&w[..i]), hex(&w[..i]), hex(c));
                    }
                }
            }
            if (ar.is_match(&str_), ar.can_match(&str_), ar.will_always_match(&str_), ar.accept_eof(&str_).is_some()) != (im, cm, wm, a.accept_eof(&st).is_some()) {
                x = format!("used through a borrow (&T) the automaton answers differently after {} bytes: is_match/can_match/will_always_match = {}/{}/{} instead of {}/{}/{}", i, ar.is_match(&str_), ar.can_match(&str_), ar.will_always_match(&str_), im, cm, wm);
            }
            if i < w.len() {
                st = a.accept(&st, w[i]);
                str_ = ar.accept(&str_, w[i]);
            }
        }
        format!("S:{}\tM:{}\tX:{}", s_bits, m_digits, x)
    }
}
