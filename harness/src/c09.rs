//! C09 — the bytes any builder writes are a well-formed version-3 file; the model side decodes
//! them with the format specification alone (coq/Format.v), not with the crate's reader.
use crate::common::*;
use crate::core::*;

pub struct P;

impl Prop for P {
    fn generate(&self, tier: Tier, rng: &mut Rng, stats: &mut Stats) -> Vec<String> {
        let mut cases = vec![];
        let nrand = match tier { Tier::Quick => 250, Tier::Thorough => 4000, Tier::Wide => 1000 };
        let sets = crate::c02::standard_keysets(tier, rng, stats, nrand);
        let geoms = crate::c01::geometries();
        for ks in sets {
            let g = if rng.chance(2, 3) { geoms[0] } else { *rng.pick(&geoms) };
            let cap = *rng.pick(&[0usize, 0, 1, 3, 7, 100]);
            cases.push(format!("fmt 0 {} {} {} {}", g.0, g.1, cap, fmt_ops(&set_ops(&ks))));
            let p = 1 + rng.below(NPATTERNS as u64 - 1) as usize;
            let vals = value_pattern(p, ks.len(), rng);
            let ty = if rng.chance(1, 4) { rng.next() } else { 0 };
            let cap = *rng.pick(&[0usize, 0, 1, 3, 7, 100]);
            cases.push(format!("fmt {} {} {} {} {}", ty, g.0, g.1, cap, fmt_ops(&map_ops(&with_values(&ks, &vals)))));
        }
        // sets whose builder saw keys more than once (a repeated add is a no-op): the footer's key count must
        // count distinct keys - in particular the empty key, which has its own branch in the builder
        for i in 0..(if tier == Tier::Quick { 60 } else { 400 }) {
            let mut ks = random_keyset(rng, 12, 4);
            if i % 2 == 0 && ks.first().map(|k| !k.is_empty()).unwrap_or(true) {
                ks.insert(0, vec![]);
            }
            let mut ops = vec![];
            for k in &ks {
                let reps = if k.is_empty() { 1 + rng.below(3) } else if rng.chance(1, 3) { 2 } else { 1 };
                for _ in 0..reps {
                    ops.push(Op::Add(k.clone()));
                }
            }
            let g = if rng.chance(1, 2) { geoms[0] } else { *rng.pick(&geoms) };
            cases.push(format!("fmt 0 {} {} {} {}", g.0, g.1, *rng.pick(&[0usize, 1, 5]), fmt_ops(&ops)));
            stats.bump("sets_with_repeated_adds");
        }
        for reps in 1..=4usize {
            // only the empty key, added `reps` times; and followed by one more key
            let only: Vec<Op> = (0..reps).map(|_| Op::Add(vec![])).collect();
            cases.push(format!("fmt 0 {} {} 0 {}", geoms[0].0, geoms[0].1, fmt_ops(&only)));
            let mut more = only.clone();
            more.push(Op::Add(b"a".to_vec()));
            cases.push(format!("fmt 0 {} {} 0 {}", geoms[0].0, geoms[0].1, fmt_ops(&more)));
            stats.bump("empty_key_added_repeatedly");
        }
        // address deltas of 2 bytes (files > 256 bytes between a node and its target) and 3 bytes (thorough)
        let sizes: &[usize] = if tier == Tier::Thorough { &[40, 400, 9000] } else { &[40, 400] };
        for &n in sizes {
            // many distinct long tails so that early nodes are far away from the root
            let ks: Vec<Vec<u8>> = sort_dedup((0..n).map(|i| format!("{:05}{}", i, "x".repeat(8 + i % 5)).into_bytes()).collect());
            cases.push(format!("fmt 0 10000 2 0 {}", fmt_ops(&set_ops(&ks))));
            let vals: Vec<u64> = (0..ks.len() as u64).map(|i| i * 7919 % 65_000).collect();
            cases.push(format!("fmt 0 10000 2 5 {}", fmt_ops(&map_ops(&with_values(&ks, &vals)))));
            stats.bump(&format!("wide_delta_family_{}_keys", n));
        }
        cases
    }
    fn nontrivial(&self, case: &str) -> bool {
        case.matches(',').count() >= 1
    }
    fn execute(&self, case: &str) -> String {
        let p: Vec<&str> = case.split(' ').collect();
        let ty: u64 = p[1].parse().unwrap();
        let rows: usize = p[2].parse().unwrap();
        let cols: usize = p[3].parse().unwrap();
        let cap: usize = p[4].parse().unwrap();
        let ops = parse_ops(p[5]);
        // the builder writes to memory (cap 0) or to a sink that accepts at most `cap` bytes per write call
        let mut evictions = String::from("na");
        let bytes = if cap == 0 {
            let o = exec_build("extend", "raw_loop", ty, rows, cols, &ops);
            if let Some(st) = o.stats {
                evictions = st[2].to_string();
            }
            o.bytes.unwrap()
        } else {
            struct Chunky(Vec<u8>, usize);
            impl std::io::Write for Chunky {
                fn write(&mut self, buf: &[u8]) -> std::io::Result<usize> {
                    let n = buf.len().min(self.1);
                    self.0.extend_from_slice(&buf[..n]);
                    Ok(n)
                }
                fn flush(&mut self) -> std::io::Result<()> {
                    Ok(())
                }
            }
            let mut b = if (rows, cols) == (crate::core::drows(), crate::core::dcols()) { fst::raw::Builder::new_type(Chunky(vec![], cap), ty).unwrap() } else { crate::hooks::builder_with_cache(Chunky(vec![], cap), ty, rows, cols) };
            for o in &ops {
                match o {
                    Op::Insert(k, v) => b.insert(k, *v).unwrap(),
                    Op::Add(k) => b.add(k).unwrap(),
                }
            }
            let h = crate::hooks::stats_handle(&b);
            let w = b.into_inner().unwrap().0;
            if let Some(h) = h {
                evictions = h[2].load(std::sync::atomic::Ordering::SeqCst).to_string();
            }
            w
        };
        // what was inserted (a repeated add is one key)
        let mut kvs: Vec<(Vec<u8>, u64)> = vec![];
        for o in &ops {
            if kvs.last().map(|l| l.0 == o.key()).unwrap_or(false) {
                continue;
            }
            kvs.push((o.key().to_vec(), o.val()));
        }
        let f = fst::raw::Fst::new(bytes.clone()).unwrap();
        let info = crate::c12::node_info(&f);
        // the crate's own Node accessors on these bytes: a manual walk from root() must enumerate the content
        // that the format specification reads from them (S), find_input must agree with transitions()
        let mut x = match crate::wrap::node_walk(&f, &kvs, 2000) {
            Ok(()) => "ok".to_string(),
            Err(e) => e,
        };
        // the file a writer HOLDS when the builder is done is this same file: writers lent by &mut (short-writing,
        // interrupting, committing on flush, BufWriter seen through get_ref) right after finish()
        if x == "ok" && (rows, cols) == (drows(), dcols()) && ops.iter().map(|o| o.key().len() + 1).sum::<usize>() <= 4096 {
            if let Err(e) = crate::wrap::sink_routes(ty, &ops, &bytes) {
                x = e;
            }
        }
        // E: evictions of this build (see core::exec_build_case)
        format!("S:v=3;ty={};c={};len={};nodes={};ck=ok\tM:bytes={}\tX:{}\tE:{}", ty, fmt_kvs(&kvs), kvs.len(), info.emitted, hex(&bytes), x, evictions)
    }
}
