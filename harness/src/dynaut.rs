//! Type-erased automata so that the *real* combinators of fst::automaton can be composed at run time.
use fst::automaton::Automaton;
use std::any::Any;

pub trait ErasedAut: Sync + Send {
    fn start(&self) -> Box<dyn Any>;
    fn is_match(&self, s: &dyn Any) -> bool;
    fn can_match(&self, s: &dyn Any) -> bool;
    fn will_always_match(&self, s: &dyn Any) -> bool;
    fn accept(&self, s: &dyn Any, b: u8) -> Box<dyn Any>;
    fn accept_eof(&self, s: &dyn Any) -> Option<Box<dyn Any>>;
}
pub struct Erase<A>(pub A);
impl<A> ErasedAut for Erase<A>
where
    A: Automaton + Sync + Send,
    A::State: 'static,
{
    fn start(&self) -> Box<dyn Any> {
        Box::new(self.0.start())
    }
    fn is_match(&self, s: &dyn Any) -> bool {
        self.0.is_match(s.downcast_ref::<A::State>().unwrap())
    }
    fn can_match(&self, s: &dyn Any) -> bool {
        self.0.can_match(s.downcast_ref::<A::State>().unwrap())
    }
    fn will_always_match(&self, s: &dyn Any) -> bool {
        self.0.will_always_match(s.downcast_ref::<A::State>().unwrap())
    }
    fn accept(&self, s: &dyn Any, b: u8) -> Box<dyn Any> {
        Box::new(self.0.accept(s.downcast_ref::<A::State>().unwrap(), b))
    }
    fn accept_eof(&self, s: &dyn Any) -> Option<Box<dyn Any>> {
        self.0.accept_eof(s.downcast_ref::<A::State>().unwrap()).map(|x| Box::new(x) as Box<dyn Any>)
    }
}
pub struct Dyn(pub Box<dyn ErasedAut>);
impl Automaton for Dyn {
    type State = Box<dyn Any>;
    fn start(&self) -> Box<dyn Any> {
        self.0.start()
    }
    fn is_match(&self, s: &Box<dyn Any>) -> bool {
        self.0.is_match(&**s)
    }
    fn can_match(&self, s: &Box<dyn Any>) -> bool {
        self.0.can_match(&**s)
    }
    fn will_always_match(&self, s: &Box<dyn Any>) -> bool {
        self.0.will_always_match(&**s)
    }
    fn accept(&self, s: &Box<dyn Any>, b: u8) -> Box<dyn Any> {
        self.0.accept(&**s, b)
    }
    fn accept_eof(&self, s: &Box<dyn Any>) -> Option<Box<dyn Any>> {
        self.0.accept_eof(&**s)
    }
}
pub fn erase<A>(a: A) -> Dyn
where
    A: Automaton + Sync + Send + 'static,
    A::State: 'static,
{
    Dyn(Box::new(Erase(a)))
}

/// The same automaton reached through the blanket `impl Automaton for &T`: every method goes through the
/// forwarding impl of a BORROWED automaton, as in `(&a).complement()` or `set.search(&a)`.
pub struct ViaRef(pub Dyn);
impl Automaton for ViaRef {
    type State = Box<dyn Any>;
    fn start(&self) -> Box<dyn Any> {
        <&Dyn as Automaton>::start(&&self.0)
    }
    fn is_match(&self, s: &Box<dyn Any>) -> bool {
        <&Dyn as Automaton>::is_match(&&self.0, s)
    }
    fn can_match(&self, s: &Box<dyn Any>) -> bool {
        <&Dyn as Automaton>::can_match(&&self.0, s)
    }
    fn will_always_match(&self, s: &Box<dyn Any>) -> bool {
        <&Dyn as Automaton>::will_always_match(&&self.0, s)
    }
    fn accept(&self, s: &Box<dyn Any>, b: u8) -> Box<dyn Any> {
        <&Dyn as Automaton>::accept(&&self.0, s, b)
    }
    fn accept_eof(&self, s: &Box<dyn Any>) -> Option<Box<dyn Any>> {
        <&Dyn as Automaton>::accept_eof(&&self.0, s)
    }
}

/// A user-defined table DFA: class = byte % ncls; next is state-major.
#[derive(Clone, Debug)]
pub struct Table {
    pub ncls: usize,
    pub next: Vec<usize>,
    pub m: Vec<bool>,
    pub c: Vec<bool>,
    pub w: Vec<bool>,
    pub start: usize,
}
impl Automaton for Table {
    type State = usize;
    fn start(&self) -> usize {
        self.start
    }
    fn is_match(&self, s: &usize) -> bool {
        self.m[*s]
    }
    fn can_match(&self, s: &usize) -> bool {
        self.c[*s]
    }
    fn will_always_match(&self, s: &usize) -> bool {
        self.w[*s]
    }
    fn accept(&self, s: &usize, b: u8) -> usize {
        self.next[*s * self.ncls + (b as usize % self.ncls)]
    }
}
impl Table {
    pub fn nstates(&self) -> usize {
        self.m.len()
    }
    /// states from which no match is reachable / from which every continuation matches
    pub fn dead_and_full(&self) -> (Vec<bool>, Vec<bool>) {
        let n = self.nstates();
        // live[s]: some match reachable from s (incl. s itself)
        let mut live = self.m.clone();
        let mut nonfull: Vec<bool> = self.m.iter().map(|x| !x).collect();
        loop {
            let mut ch = false;
            for s in 0..n {
                for c in 0..self.ncls {
                    let t = self.next[s * self.ncls + c];
                    if live[t] && !live[s] {
                        live[s] = true;
                        ch = true;
                    }
                    if nonfull[t] && !nonfull[s] {
                        nonfull[s] = true;
                        ch = true;
                    }
                }
            }
            if !ch {
                break;
            }
        }
        (live.iter().map(|x| !x).collect(), nonfull.iter().map(|x| !x).collect())
    }
    pub fn token(&self) -> String {
        let bits = |v: &Vec<bool>| v.iter().map(|b| if *b { '1' } else { '0' }).collect::<String>();
        format!(
            "TAB {} {} {} {} {} {}",
            self.ncls,
            self.next.iter().map(|x| x.to_string()).collect::<Vec<_>>().join(","),
            bits(&self.m),
            bits(&self.c),
            bits(&self.w),
            self.start
        )
    }
}

/// Expressions over the shipped automata; `build` instantiates the real fst types.
#[derive(Clone, Debug)]
pub enum Exp {
    Str(Vec<u8>),
    Sub(Vec<u8>),
    Always,
    Tab(Table),
    SW(Box<Exp>),
    U(Box<Exp>, Box<Exp>),
    I(Box<Exp>, Box<Exp>),
    C(Box<Exp>),
}
impl Exp {
    pub fn build(&self) -> Dyn {
        use fst::automaton::{AlwaysMatch, Str, Subsequence};
        match self {
            Exp::Str(q) => {
                let s: &'static str = Box::leak(String::from_utf8(q.clone()).unwrap().into_boxed_str());
                erase(Str::new(s))
            }
            Exp::Sub(q) => {
                let s: &'static str = Box::leak(String::from_utf8(q.clone()).unwrap().into_boxed_str());
                erase(Subsequence::new(s))
            }
            Exp::Always => erase(AlwaysMatch),
            Exp::Tab(t) => erase(t.clone()),
            Exp::SW(a) => erase(a.build().starts_with()),
            Exp::U(a, b) => erase(a.build().union(b.build())),
            Exp::I(a, b) => erase(a.build().intersection(b.build())),
            Exp::C(a) => erase(a.build().complement()),
        }
    }
    /// The same expression with every operand of every combinator (and the result) used through a borrow.
    pub fn build_ref(&self) -> Dyn {
        let inner = match self {
            Exp::SW(a) => erase(ViaRef(a.build_ref()).starts_with()),
            Exp::U(a, b) => erase(ViaRef(a.build_ref()).union(ViaRef(b.build_ref()))),
            Exp::I(a, b) => erase(ViaRef(a.build_ref()).intersection(ViaRef(b.build_ref()))),
            Exp::C(a) => erase(ViaRef(a.build_ref()).complement()),
            leaf => leaf.build(),
        };
        erase(ViaRef(inner))
    }
    pub fn token(&self) -> String {
        match self {
            Exp::Str(q) => format!("STR {}", crate::common::hex(q)),
            Exp::Sub(q) => format!("SUB {}", crate::common::hex(q)),
            Exp::Always => "ALWAYS".to_string(),
            Exp::Tab(t) => t.token(),
            Exp::SW(a) => format!("SW {}", a.token()),
            Exp::U(a, b) => format!("U {} {}", a.token(), b.token()),
            Exp::I(a, b) => format!("I {} {}", a.token(), b.token()),
            Exp::C(a) => format!("C {}", a.token()),
        }
    }
    pub fn depth(&self) -> usize {
        match self {
            Exp::SW(a) | Exp::C(a) => 1 + a.depth(),
            Exp::U(a, b) | Exp::I(a, b) => 1 + a.depth().max(b.depth()),
            _ => 0,
        }
    }
    pub fn parse(toks: &mut std::slice::Iter<'_, &str>) -> Exp {
        let bits = |s: &str| s.chars().map(|c| c == '1').collect::<Vec<bool>>();
        match *toks.next().unwrap() {
            "STR" => Exp::Str(crate::common::unhex(toks.next().unwrap())),
            "SUB" => Exp::Sub(crate::common::unhex(toks.next().unwrap())),
            "ALWAYS" => Exp::Always,
            "TAB" => {
                let ncls: usize = toks.next().unwrap().parse().unwrap();
                let next = toks.next().unwrap().split(',').map(|x| x.parse().unwrap()).collect();
                let m = bits(toks.next().unwrap());
                let c = bits(toks.next().unwrap());
                let w = bits(toks.next().unwrap());
                let start = toks.next().unwrap().parse().unwrap();
                Exp::Tab(Table { ncls, next, m, c, w, start })
            }
            "SW" => Exp::SW(Box::new(Exp::parse(toks))),
            "C" => Exp::C(Box::new(Exp::parse(toks))),
            "U" => {
                let a = Exp::parse(toks);
                let b = Exp::parse(toks);
                Exp::U(Box::new(a), Box::new(b))
            }
            "I" => {
                let a = Exp::parse(toks);
                let b = Exp::parse(toks);
                Exp::I(Box::new(a), Box::new(b))
            }
            t => panic!("bad token {}", t),
        }
    }
    pub fn parse_str(s: &str) -> Exp {
        let v: Vec<&str> = s.split(' ').collect();
        Exp::parse(&mut v.iter())
    }
}

/// All table DFAs with `n` states over `ncls` classes, each with every sound hint assignment
/// (can=false only on dead states, will=true only on full states), optionally sampled.
pub fn enum_tables(n: usize, ncls: usize, rng: &mut crate::common::Rng, sample_one_in: u64) -> Vec<Table> {
    let mut out = vec![];
    let cells = n * ncls;
    let total_next = (n as u64).pow(cells as u32);
    for code in 0..total_next {
        let mut next = vec![0; cells];
        let mut c = code;
        for i in 0..cells {
            next[i] = (c % n as u64) as usize;
            c /= n as u64;
        }
        for mbits in 0..(1u32 << n) {
            let m: Vec<bool> = (0..n).map(|i| mbits >> i & 1 == 1).collect();
            if sample_one_in > 1 && rng.below(sample_one_in) != 0 {
                continue;
            }
            let base = Table { ncls, next: next.clone(), m: m.clone(), c: vec![true; n], w: vec![false; n], start: 0 };
            let (dead, full) = base.dead_and_full();
            let dead_idx: Vec<usize> = (0..n).filter(|i| dead[*i]).collect();
            let full_idx: Vec<usize> = (0..n).filter(|i| full[*i]).collect();
            for cb in 0..(1u32 << dead_idx.len()) {
                for wb in 0..(1u32 << full_idx.len()) {
                    let mut t = base.clone();
                    for (j, i) in dead_idx.iter().enumerate() {
                        if cb >> j & 1 == 1 {
                            t.c[*i] = false;
                        }
                    }
                    for (j, i) in full_idx.iter().enumerate() {
                        if wb >> j & 1 == 1 {
                            t.w[*i] = true;
                        }
                    }
                    out.push(t);
                }
            }
        }
    }
    out
}
