//! C02 — point lookups for every probe: raw Fst::get / contains_key, Map::get / contains_key, Set::contains.
use crate::common::*;
use crate::core::*;
use fst::raw::Fst;

pub struct P;

pub fn standard_keysets(tier: Tier, rng: &mut Rng, stats: &mut Stats, nrand: usize) -> Vec<Vec<Vec<u8>>> {
    let mut sets = vec![];
    for alpha in [&[b'a', b'b'][..], &[0x00, 0xFF][..]] {
        let u = universe(alpha, 2);
        for ks in subsets(&u) {
            sets.push(ks);
            stats.bump("small_scope_keysets");
        }
    }
    for (name, ks) in boundary_keysets(rng, tier) {
        if ks.len() <= 300 && ks.iter().all(|k| k.len() <= 300) {
            stats.bump(&format!("boundary_{}", name.split('_').next().unwrap()));
            sets.push(ks);
        }
    }
    for _ in 0..nrand {
        let maxk = if rng.chance(1, 10) { 200 } else { 25 };
        sets.push(random_keyset(rng, maxk, 8));
        stats.bump("random_keysets");
    }
    sets
}

impl Prop for P {
    fn generate(&self, tier: Tier, rng: &mut Rng, stats: &mut Stats) -> Vec<String> {
        let nrand = match tier { Tier::Quick => 150, Tier::Thorough => 3000, Tier::Wide => 600 };
        let mut cases = vec![];
        for ks in standard_keysets(tier, rng, stats, nrand) {
            let p = rng.below(NPATTERNS as u64) as usize;
            let vals = value_pattern(p, ks.len(), rng);
            let ops = if p == 0 { set_ops(&ks) } else { map_ops(&with_values(&ks, &vals)) };
            let big_fan = ks.len() >= 30;
            let probes = probes_for(&ks, rng, !big_fan && ks.len() <= 8);
            stats.add("probes", probes.len() as u64);
            for chunk in probes.chunks(400) {
                cases.push(format!("get {} ; {}", fmt_ops(&ops), chunk.iter().map(|p| hex(p)).collect::<Vec<_>>().join(" ")));
            }
        }
        cases
    }
    fn nontrivial(&self, case: &str) -> bool {
        case.contains(',')
    }
    fn execute(&self, case: &str) -> String {
        let rest = &case["get ".len()..];
        let mut it = rest.split(';');
        let ops = parse_ops(it.next().unwrap().trim());
        let probes: Vec<Vec<u8>> = it.next().unwrap().trim().split(' ').filter(|s| !s.is_empty()).map(unhex).collect();
        let is_set = ops.iter().all(|o| matches!(o, Op::Add(..)));
        let out = exec_build("extend", "raw_loop", 0, drows(), dcols(), &ops);
        let bytes = out.bytes.unwrap();
        let f = Fst::new(bytes.clone()).unwrap();
        let map = fst::Map::new(bytes.clone()).unwrap();
        let set = fst::Set::new(bytes.clone()).unwrap();
        let borrowed = Fst::new(&bytes[..]).unwrap();
        let mut x = String::from("ok");
        let mut res = vec![];
        for p in &probes {
            let g = f.get(p).map(|o| o.value());
            let c = f.contains_key(p);
            if map.get(p) != g || map.contains_key(p) != c || set.contains(p) != c || borrowed.get(p).map(|o| o.value()) != g {
                x = format!("Map/Set/borrowed wrappers disagree with raw Fst on probe {}", hex(p));
            }
            let _ = is_set;
            res.push(format!("{}/{}", g.map(|v| v.to_string()).unwrap_or("~".into()), c as u8));
        }
        // the same lookups on the same content built under node caches that evict all the time:
        // what a lookup returns depends on the content, never on how the builder's cache behaved
        if ops.len() <= 300 {
            for (r, c) in [(1usize, 1usize), (1, 2), (2, 2), (3, 3)] {
                let o = exec_build("extend", "raw_loop", 0, r, c, &ops);
                let fg = Fst::new(o.bytes.unwrap()).unwrap();
                for (i, p) in probes.iter().enumerate() {
                    let got = format!("{}/{}", fg.get(p).map(|o| o.value().to_string()).unwrap_or("~".into()), fg.contains_key(p) as u8);
                    if got != res[i] {
                        x = format!("built with a {}x{} node cache: probe {} gives {} but {} with the default cache", r, c, hex(p), got, res[i]);
                    }
                }
            }
        }
        // the same accepted sequence with rejected calls in between - bursts of two stragglers (keys smaller
        // than the last accepted one) and a duplicate - whose errors the caller ignores: what a lookup
        // returns depends on the accepted keys alone
        if ops.len() >= 3 && ops.len() <= 300 {
            let mut dirty: Vec<Op> = vec![];
            for (i, o) in ops.iter().enumerate() {
                dirty.push(o.clone());
                if i >= 2 && i % 2 == 0 && ops[i - 2].key() < o.key() && ops[i - 1].key() < o.key() {
                    dirty.push(ops[i - 2].clone());
                    dirty.push(ops[i - 1].clone());
                    if i % 4 == 0 {
                        dirty.push(ops[i - 2].clone());
                    }
                }
            }
            let o = exec_build("calls", "raw", 0, drows(), dcols(), &dirty);
            match o.bytes.and_then(|b| Fst::new(b).ok()) {
                None => x = "a history with ignored rejected calls does not finish or open".into(),
                Some(fd) => {
                    for (i, p) in probes.iter().enumerate() {
                        let got = format!("{}/{}", fd.get(p).map(|o| o.value().to_string()).unwrap_or("~".into()), fd.contains_key(p) as u8);
                        if got != res[i] {
                            x = format!("after ignored rejected calls (two stragglers in a row): probe {} gives {} but {} for the accepted calls alone", hex(p), got, res[i]);
                        }
                    }
                }
            }
            xcount("lookups_after_ignored_rejected_calls");
        }
        // the same content STREAMED to writers that take a few bytes per call, interrupt, or cut every write at
        // a block boundary: what a lookup on the file such a writer ends up with returns depends on the content
        // alone (node addresses come from the builder's byte counter, which must count what was accepted)
        if ops.len() <= 300 {
            struct BlockSink {
                buf: Vec<u8>,
                block: usize,
            }
            impl std::io::Write for BlockSink {
                fn write(&mut self, b: &[u8]) -> std::io::Result<usize> {
                    let room = self.block - self.buf.len() % self.block;
                    let n = b.len().min(room);
                    self.buf.extend_from_slice(&b[..n]);
                    Ok(n)
                }
                fn flush(&mut self) -> std::io::Result<()> {
                    Ok(())
                }
            }
            fn drive<W: std::io::Write>(w: W, ops: &[Op]) -> bool {
                let mut b = match fst::raw::Builder::new_type(w, 0) {
                    Ok(b) => b,
                    Err(_) => return false,
                };
                for o in ops {
                    let r = match o {
                        Op::Add(k) => b.add(k),
                        Op::Insert(k, v) => b.insert(k, *v),
                    };
                    if r.is_err() {
                        return false;
                    }
                }
                b.finish().is_ok()
            }
            let mut files: Vec<(String, Option<Vec<u8>>)> = vec![];
            for (cap, intr) in [(1usize, 0usize), (3, 4), (7, 0)] {
                let mut sk = crate::c08::CapSink::new(cap, intr);
                let ok = drive(&mut sk, &ops);
                files.push((format!("a writer taking {} byte(s) per call{}", cap, if intr > 0 { ", interrupting" } else { "" }), if ok { Some(sk.buf) } else { None }));
            }
            for block in [7usize, 64, 512] {
                let mut sk = BlockSink { buf: vec![], block };
                let ok = drive(&mut sk, &ops);
                files.push((format!("a writer that cuts writes at {}-byte blocks", block), if ok { Some(sk.buf) } else { None }));
            }
            for (name, file) in files {
                let opened = file.and_then(|b| std::panic::catch_unwind(|| Fst::new(b).ok()).ok().flatten());
                match opened {
                    None => x = format!("streamed to {}: the build fails or the file does not open", name),
                    Some(fs) => {
                        for (i, p) in probes.iter().enumerate() {
                            let got = std::panic::catch_unwind(std::panic::AssertUnwindSafe(|| format!("{}/{}", fs.get(p).map(|o| o.value().to_string()).unwrap_or("~".into()), fs.contains_key(p) as u8))).unwrap_or_else(|_| "PANIC".into());
                            if got != res[i] {
                                x = format!("streamed to {}: probe {} gives {} but {} for the in-memory build", name, hex(p), got, res[i]);
                                break;
                            }
                        }
                    }
                }
            }
            xcount("lookups_on_files_streamed_to_short_writers");
        }
        // the same bytes attached to handles that were opened on OTHER files (map_data swaps the contents
        // of a handle): lookups answer for the bytes the handle holds now
        for other in [fst::Set::from_iter(vec!["x"]).unwrap().into_fst().into_inner(), fst::Map::from_iter((0..300u32).map(|i| (format!("k{:05}", i), i as u64 * 3))).unwrap().into_fst().into_inner()] {
            match Fst::new(other).and_then(|o| o.map_data(|_| bytes.clone())) {
                Err(e) => x = format!("map_data onto these bytes fails: {}", e),
                Ok(fm) => {
                    for (i, p) in probes.iter().enumerate() {
                        let got = format!("{}/{}", fm.get(p).map(|o| o.value().to_string()).unwrap_or("~".into()), fm.contains_key(p) as u8);
                        if got != res[i] {
                            x = format!("handle re-pointed with map_data: probe {} gives {} but {} when the bytes are opened directly", hex(p), got, res[i]);
                        }
                    }
                    if fm.len() != f.len() || fm.fst_type() != f.fst_type() {
                        x = "handle re-pointed with map_data: len()/fst_type() are those of the old contents".into();
                    }
                }
            }
        }
        let s = res.join(",");
        format!("S:{}\tM:{}\tX:{}", s, s, x)
    }
}
