//! C07 — the bytes a sink ends up with do not depend on how it accepts writes.
//! Also holds the scripted sink and the session runner shared with C11.
//!
//! case line: kind \t keys \t prefill \t cap \t script \t flush \t calls
//!   kind    raw-add | raw-insert | map | set, optionally "+finish" (finish() instead of into_inner())
//!   keys    hexkey:value,...   ("-" = no keys; "-:5" = the empty key with value 5)
//!   prefill hex of the bytes the sink already holds
//!   cap     "-" or the capacity of a std::io::BufWriter put between builder and sink
//!   script  responses of the sink, one per write call: aN accept min(N,len) | i Interrupted |
//!           z Ok(0) | f<kind> Err(kind); "tok*K" repeats; exhausted = accept everything
//!   flush   ok | f<kind>
//!   calls   per API call (new, one per key, into_inner) the write_all chunks it performs through the
//!           CountingWriter, as measured against an all-accepting recording sink: calls separated by
//!           ';', chunks by ','. The model side needs nothing else.
use crate::common::*;
use fst::raw;
use fst::Streamer;
use std::io::{self, ErrorKind, Write};

pub struct P;

// ---------------------------------------------------------------- scripted sink
#[derive(Clone, Copy, PartialEq, Eq, Debug)]
pub enum Resp {
    Accept(usize),
    Interrupted,
    Zero,
    Fail(ErrorKind),
}
#[derive(Clone, Copy, PartialEq, Eq, Debug)]
pub enum FlushResp {
    Ok,
    Fail(ErrorKind),
}

pub struct ScriptSink {
    pub script: Vec<Resp>,
    pub pos: usize,
    pub data: Vec<u8>,
    pub calls: usize,
    pub flush: FlushResp,
    pub flushes: usize,
    /// length of the buffer of every write call received
    pub log: Vec<usize>,
    /// bytes accepted since the last successful flush()
    pub unflushed: usize,
}
impl ScriptSink {
    pub fn new(script: Vec<Resp>, flush: FlushResp, prefill: &[u8]) -> ScriptSink {
        ScriptSink { script, pos: 0, data: prefill.to_vec(), calls: 0, flush, flushes: 0, log: vec![], unflushed: 0 }
    }
}
// only write and flush: write_all is std's default loop
impl Write for ScriptSink {
    fn write(&mut self, buf: &[u8]) -> io::Result<usize> {
        self.calls += 1;
        self.log.push(buf.len());
        let r = if self.pos < self.script.len() {
            self.pos += 1;
            self.script[self.pos - 1]
        } else {
            Resp::Accept(usize::MAX)
        };
        match r {
            Resp::Accept(n) => {
                let m = n.min(buf.len());
                self.data.extend_from_slice(&buf[..m]);
                self.unflushed += m;
                Ok(m)
            }
            Resp::Interrupted => Err(io::Error::new(ErrorKind::Interrupted, "scripted")),
            Resp::Zero => Ok(0),
            Resp::Fail(k) => Err(io::Error::new(k, "scripted")),
        }
    }
    fn flush(&mut self) -> io::Result<()> {
        match self.flush {
            FlushResp::Ok => {
                self.flushes += 1;
                self.unflushed = 0;
                Ok(())
            }
            FlushResp::Fail(k) => Err(io::Error::new(k, "scripted flush")),
        }
    }
}

pub const KINDS: [(&str, ErrorKind); 9] = [
    ("other", ErrorKind::Other),
    ("brokenpipe", ErrorKind::BrokenPipe),
    ("writezero", ErrorKind::WriteZero),
    ("interrupted", ErrorKind::Interrupted),
    ("k1", ErrorKind::PermissionDenied),
    ("k2", ErrorKind::ConnectionReset),
    ("k3", ErrorKind::TimedOut),
    ("k4", ErrorKind::UnexpectedEof),
    ("k5", ErrorKind::InvalidData),
];
pub fn kind_name(k: ErrorKind) -> String {
    for (n, kk) in KINDS.iter() {
        if *kk == k {
            return n.to_string();
        }
    }
    format!("k99[{:?}]", k)
}
pub fn kind_of(s: &str) -> ErrorKind {
    for (n, kk) in KINDS.iter() {
        if *n == s {
            return *kk;
        }
    }
    panic!("unknown error kind {}", s)
}

pub fn script_string(s: &[Resp]) -> String {
    if s.is_empty() {
        return "-".to_string();
    }
    let tok = |r: &Resp| match r {
        Resp::Accept(n) => format!("a{}", n),
        Resp::Interrupted => "i".to_string(),
        Resp::Zero => "z".to_string(),
        Resp::Fail(k) => format!("f{}", kind_name(*k)),
    };
    let mut out: Vec<String> = vec![];
    let mut i = 0;
    while i < s.len() {
        let mut j = i;
        while j < s.len() && s[j] == s[i] {
            j += 1;
        }
        if j - i > 1 {
            out.push(format!("{}*{}", tok(&s[i]), j - i));
        } else {
            out.push(tok(&s[i]));
        }
        i = j;
    }
    out.join(",")
}
pub fn parse_script(s: &str) -> Vec<Resp> {
    let mut v = vec![];
    if s == "-" || s.is_empty() {
        return v;
    }
    for t in s.split(',') {
        let (t, k) = match t.find('*') {
            Some(i) => (&t[..i], t[i + 1..].parse::<usize>().unwrap()),
            None => (t, 1),
        };
        let r = match t.as_bytes()[0] {
            b'a' => Resp::Accept(t[1..].parse().unwrap()),
            b'i' => Resp::Interrupted,
            b'z' => Resp::Zero,
            b'f' => Resp::Fail(kind_of(&t[1..])),
            _ => panic!("script token"),
        };
        for _ in 0..k {
            v.push(r);
        }
    }
    v
}
pub fn flush_string(f: FlushResp) -> String {
    match f {
        FlushResp::Ok => "ok".to_string(),
        FlushResp::Fail(k) => format!("f{}", kind_name(k)),
    }
}
pub fn parse_flush(s: &str) -> FlushResp {
    if s == "ok" {
        FlushResp::Ok
    } else {
        FlushResp::Fail(kind_of(&s[1..]))
    }
}

// ---------------------------------------------------------------- builder sessions
pub type Kv = (Vec<u8>, u64);

pub fn keys_string(kvs: &[Kv]) -> String {
    if kvs.is_empty() {
        return "-".to_string();
    }
    kvs.iter().map(|(k, v)| format!("{}:{}", hex(k), v)).collect::<Vec<_>>().join(",")
}
pub fn parse_keys(s: &str) -> Vec<Kv> {
    if s == "-" {
        return vec![];
    }
    s.split(',')
        .map(|t| {
            let i = t.find(':').unwrap();
            (unhex(&t[..i]), t[i + 1..].parse().unwrap())
        })
        .collect()
}

pub const BUILDER_KINDS: [&str; 8] =
    ["raw-add", "raw-insert", "map", "set", "raw-add+finish", "raw-insert+finish", "map+finish", "set+finish"];

enum AnyBuilder<W: Write> {
    Raw(raw::Builder<W>),
    Map(fst::MapBuilder<W>),
    Set(fst::SetBuilder<W>),
}
impl<W: Write> AnyBuilder<W> {
    fn new(kind: &str, w: W) -> fst::Result<AnyBuilder<W>> {
        Ok(match kind {
            "raw-add" | "raw-insert" => AnyBuilder::Raw(raw::Builder::new(w)?),
            "map" => AnyBuilder::Map(fst::MapBuilder::new(w)?),
            "set" => AnyBuilder::Set(fst::SetBuilder::new(w)?),
            _ => panic!("builder kind {}", kind),
        })
    }
    fn step(&mut self, kind: &str, k: &[u8], v: u64) -> fst::Result<()> {
        match self {
            AnyBuilder::Raw(b) => {
                if kind == "raw-add" {
                    b.add(k)
                } else {
                    b.insert(k, v)
                }
            }
            AnyBuilder::Map(b) => b.insert(k, v),
            AnyBuilder::Set(b) => b.insert(k),
        }
    }
    fn get_ref(&self) -> &W {
        match self {
            AnyBuilder::Raw(b) => b.get_ref(),
            AnyBuilder::Map(b) => b.get_ref(),
            AnyBuilder::Set(b) => b.get_ref(),
        }
    }
    fn bytes_written(&self) -> u64 {
        match self {
            AnyBuilder::Raw(b) => b.bytes_written(),
            AnyBuilder::Map(b) => b.bytes_written(),
            AnyBuilder::Set(b) => b.bytes_written(),
        }
    }
    fn into_inner(self) -> fst::Result<W> {
        match self {
            AnyBuilder::Raw(b) => b.into_inner(),
            AnyBuilder::Map(b) => b.into_inner(),
            AnyBuilder::Set(b) => b.into_inner(),
        }
    }
    fn finish(self) -> fst::Result<()> {
        match self {
            AnyBuilder::Raw(b) => b.finish(),
            AnyBuilder::Map(b) => b.finish(),
            AnyBuilder::Set(b) => b.finish(),
        }
    }
}

#[derive(Clone, PartialEq, Eq, Debug)]
pub enum Status {
    Ok,
    Io(ErrorKind),
    NotIo(String),
}
impl Status {
    pub fn of<T>(r: &fst::Result<T>) -> Status {
        match r {
            Ok(_) => Status::Ok,
            Err(fst::Error::Io(e)) => Status::Io(e.kind()),
            Err(e) => Status::NotIo(format!("{:?}", e).replace(['\t', '\n'], " ")),
        }
    }
    pub fn show(&self) -> String {
        match self {
            Status::Ok => "ok".to_string(),
            Status::Io(k) => format!("err({})", kind_name(*k)),
            Status::NotIo(s) => format!("err-not-io[{}]", s),
        }
    }
}

/// What the writer below the CountingWriter looks like from outside.
#[derive(Clone, Copy, Debug)]
pub struct Obs {
    /// bytes it has accepted, prefill included (for a BufWriter: sink data + buffered)
    pub acc: usize,
    /// write calls the sink has received
    pub calls: usize,
}

pub struct CallRec {
    pub status: Status,
    /// bytes_written() right after the call (None when there is no builder to ask)
    pub bw: Option<u64>,
    pub obs: Option<Obs>,
}
pub struct SessionLog {
    /// new, one per key; stops after the first failing call
    pub calls: Vec<CallRec>,
    /// into_inner()/finish(), if reached
    pub fin: Option<Status>,
}

/// Runs new, add/insert per key, into_inner/finish against `w`, stopping at the first failure.
pub fn run_session<W: Write, O: Fn(&W) -> Obs>(kind: &str, w: W, kvs: &[Kv], obs: O) -> SessionLog {
    let (base, use_finish) = match kind.strip_suffix("+finish") {
        Some(b) => (b, true),
        None => (kind, false),
    };
    let mut log = SessionLog { calls: vec![], fin: None };
    let r = AnyBuilder::new(base, w);
    let st = Status::of(&r);
    let mut b = match r {
        Ok(b) => {
            log.calls.push(CallRec { status: st, bw: Some(b.bytes_written()), obs: Some(obs(b.get_ref())) });
            b
        }
        Err(_) => {
            log.calls.push(CallRec { status: st, bw: None, obs: None });
            return log;
        }
    };
    for (k, v) in kvs {
        let r = b.step(base, k, *v);
        let st = Status::of(&r);
        let ok = st == Status::Ok;
        log.calls.push(CallRec { status: st, bw: Some(b.bytes_written()), obs: Some(obs(b.get_ref())) });
        if !ok {
            return log;
        }
    }
    if use_finish {
        log.fin = Some(Status::of(&b.finish()));
    } else {
        log.fin = Some(Status::of(&b.into_inner()));
    }
    log
}

/// A caller that IGNORES errors: new, then every add/insert, then into_inner/finish, each call
/// under catch_unwind. Stops only when there is no builder (constructor failed) or a call panicked
/// (the panic would have unwound through the caller).
pub struct ContLog {
    /// "ok" | "err(kind)" | "err-not-io[..]" | "panic" per call made, constructor first
    pub calls: Vec<String>,
    /// result of into_inner()/finish(), None if it was never reached
    pub fin: Option<String>,
}
pub fn run_session_continue<W: Write>(kind: &str, w: W, kvs: &[Kv]) -> ContLog {
    use std::panic::{catch_unwind, AssertUnwindSafe};
    let (base, use_finish) = match kind.strip_suffix("+finish") {
        Some(b) => (b, true),
        None => (kind, false),
    };
    let mut log = ContLog { calls: vec![], fin: None };
    let mut b = match catch_unwind(AssertUnwindSafe(move || AnyBuilder::new(base, w))) {
        Ok(r) => {
            log.calls.push(Status::of(&r).show());
            match r {
                Ok(b) => b,
                Err(_) => return log,
            }
        }
        Err(_) => {
            log.calls.push("panic".to_string());
            return log;
        }
    };
    for (k, v) in kvs {
        match catch_unwind(AssertUnwindSafe(|| b.step(base, k, *v))) {
            Ok(r) => log.calls.push(Status::of(&r).show()),
            Err(_) => {
                log.calls.push("panic".to_string());
                return log;
            }
        }
    }
    let r = catch_unwind(AssertUnwindSafe(move || if use_finish { b.finish() } else { b.into_inner().map(|_| ()) }));
    log.fin = Some(match r {
        Ok(r) => Status::of(&r).show(),
        Err(_) => "panic".to_string(),
    });
    log
}

/// The in-memory reference: bytes, and per API call the chunks written through the CountingWriter
/// (every write call of an all-accepting sink is one write_all chunk; the last write of the
/// session is the 4 checksum bytes, which bypass the CountingWriter).
pub struct Reference {
    pub bytes: Vec<u8>,
    pub calls: Vec<Vec<Vec<u8>>>,
    /// write calls in total, the checksum write included
    pub w: usize,
}
pub fn reference(kind: &str, kvs: &[Kv]) -> Reference {
    let mut sink = ScriptSink::new(vec![], FlushResp::Ok, &[]);
    let log = run_session(kind, &mut sink, kvs, |w: &&mut ScriptSink| Obs { acc: w.data.len(), calls: w.calls });
    assert!(log.fin == Some(Status::Ok), "reference build failed");
    let mut bounds: Vec<usize> = log.calls.iter().map(|c| c.obs.unwrap().calls).collect();
    let w = sink.calls;
    assert!(w >= 1 && sink.log[w - 1] == 4, "last write is not the checksum");
    bounds.push(w - 1);
    let mut calls = vec![];
    let (mut wi, mut off) = (0usize, 0usize);
    for b in bounds {
        let mut chunks = vec![];
        while wi < b {
            chunks.push(sink.data[off..off + sink.log[wi]].to_vec());
            off += sink.log[wi];
            wi += 1;
        }
        calls.push(chunks);
    }
    Reference { bytes: sink.data, calls, w }
}
pub fn calls_string(calls: &[Vec<Vec<u8>>]) -> String {
    calls.iter().map(|c| c.iter().map(|ch| hex(ch)).collect::<Vec<_>>().join(",")).collect::<Vec<_>>().join(";")
}

pub struct Case {
    pub kind: String,
    pub kvs: Vec<Kv>,
    pub prefill: Vec<u8>,
    pub cap: Option<usize>,
    pub script: Vec<Resp>,
    pub flush: FlushResp,
    pub calls: String,
}
impl Case {
    pub fn parse(line: &str) -> Case {
        let f: Vec<&str> = line.split('\t').collect();
        Case {
            kind: f[0].to_string(),
            kvs: parse_keys(f[1]),
            prefill: unhex(f[2]),
            cap: if f[3] == "-" { None } else { Some(f[3].parse().unwrap()) },
            script: parse_script(f[4]),
            flush: parse_flush(f[5]),
            calls: f[6].to_string(),
        }
    }
}
pub fn case_line(kind: &str, kvs: &[Kv], prefill: &[u8], cap: Option<usize>, script: &[Resp], flush: FlushResp, calls: &str) -> String {
    format!(
        "{}\t{}\t{}\t{}\t{}\t{}\t{}",
        kind,
        keys_string(kvs),
        hex(prefill),
        cap.map(|c| c.to_string()).unwrap_or_else(|| "-".to_string()),
        script_string(script),
        flush_string(flush),
        calls
    )
}

pub struct Scripted {
    pub log: SessionLog,
    pub data: Vec<u8>,
    pub calls: usize,
    pub flushes: usize,
    /// capacity std actually gave the BufWriter, if any
    pub real_cap: Option<usize>,
    /// bytes that reached the sink after its last flush (a BufWriter dropped later writes, it does not flush the sink)
    pub unflushed: usize,
}
pub fn run_scripted(c: &Case) -> Scripted {
    let mut sink = ScriptSink::new(c.script.clone(), c.flush, &c.prefill);
    let mut real_cap = None;
    let log = match c.cap {
        None => run_session(&c.kind, &mut sink, &c.kvs, |w: &&mut ScriptSink| Obs { acc: w.data.len(), calls: w.calls }),
        Some(cap) => {
            let bw = io::BufWriter::with_capacity(cap, &mut sink);
            real_cap = Some(bw.capacity());
            run_session(&c.kind, bw, &c.kvs, |w: &io::BufWriter<&mut ScriptSink>| Obs {
                acc: w.get_ref().data.len() + w.buffer().len(),
                calls: w.get_ref().calls,
            })
        }
    };
    Scripted { log, unflushed: sink.unflushed, data: sink.data, calls: sink.calls, flushes: sink.flushes, real_cap }
}

pub fn fnv(b: &[u8]) -> u32 {
    let mut h: u32 = 0x811c9dc5;
    for &x in b {
        h = (h ^ x as u32).wrapping_mul(16777619);
    }
    h
}
/// the M field shared by C07 and C11
pub fn m_common(s: &Scripted, npre: usize, total: usize) -> String {
    let calls = s
        .log
        .calls
        .iter()
        .map(|c| format!("{}:{}", c.status.show(), c.bw.map(|b| b.to_string()).unwrap_or_else(|| "-".to_string())))
        .collect::<Vec<_>>()
        .join(",");
    let fin = s.log.fin.as_ref().map(|f| f.show()).unwrap_or_else(|| "none".to_string());
    let upto = s.data.len().min(npre + total);
    format!(
        "{}|{}|len={}|calls={}|fl={}|dig={:08x}|unfl={}",
        calls,
        fin,
        s.data.len(),
        s.calls,
        s.flushes,
        fnv(&s.data[..upto]),
        s.unflushed
    )
}

/// the keys an FST built from `kvs` by `kind` must hold
pub fn expected_content(kind: &str, kvs: &[Kv]) -> Vec<Kv> {
    let setlike = kind.starts_with("raw-add") || kind.starts_with("set");
    let mut out: Vec<Kv> = vec![];
    for (k, v) in kvs {
        let v = if setlike { 0 } else { *v };
        if out.last().map(|(lk, _)| lk == k).unwrap_or(false) {
            continue;
        }
        out.push((k.clone(), v));
    }
    out
}
pub fn fst_content(f: &raw::Fst<&[u8]>) -> Vec<Kv> {
    let mut out = vec![];
    let mut s = f.stream();
    while let Some((k, o)) = s.next() {
        out.push((k.to_vec(), o.value()));
    }
    out
}

// ---------------------------------------------------------------- key lists
fn val(rng: &mut Rng) -> u64 {
    match rng.below(6) {
        0 => 0,
        1 => rng.below(256),
        2 => 300,
        3 => rng.below(1 << 20),
        4 => u64::MAX - rng.below(3),
        _ => rng.next(),
    }
}
fn sorted_unique(mut ks: Vec<Vec<u8>>) -> Vec<Vec<u8>> {
    ks.sort();
    ks.dedup();
    ks
}
pub fn witness_kvs() -> Vec<Kv> {
    ["bar", "baz", "foo", "quux"].iter().map(|k| (k.as_bytes().to_vec(), 300u64)).collect()
}
/// small FSTs for which schedules are explored exhaustively
pub fn small_key_lists(rng: &mut Rng) -> Vec<Vec<Kv>> {
    let mut out: Vec<Vec<Kv>> = vec![vec![], vec![(vec![], 0)], vec![(vec![], 5)], vec![(vec![], 7), (b"a".to_vec(), 5)], witness_kvs()];
    // every subset of a small universe
    let uni: [&[u8]; 5] = [b"", b"a", b"ab", b"b", b"ba"];
    for mask in 1u32..32 {
        let mut kv = vec![];
        for (i, k) in uni.iter().enumerate() {
            if mask & (1 << i) != 0 {
                kv.push((k.to_vec(), if mask % 3 == 0 { 0 } else { (i as u64 + 1) * (mask as u64) * 37 }));
            }
        }
        out.push(kv);
    }
    for _ in 0..40 {
        let n = rng.range(1, 5);
        let ks = sorted_unique((0..n).map(|_| (0..rng.range(0, 4)).map(|_| b'a' + rng.below(3) as u8).collect()).collect());
        out.push(ks.into_iter().map(|k| (k, val(rng))).collect());
    }
    out
}
pub fn random_key_list(rng: &mut Rng) -> Vec<Kv> {
    match rng.below(10) {
        0 => {
            // wide fan-out: more than TRANS_INDEX_THRESHOLD transitions => one 256-byte chunk
            let n = rng.range(33, 70);
            let mut ks: Vec<Vec<u8>> = (0..n).map(|i| vec![(i * 3 + 1) as u8]).collect();
            if rng.chance(1, 2) {
                ks.push(vec![1, 2, 3]);
            }
            sorted_unique(ks).into_iter().map(|k| (k, if rng.chance(1, 2) { 0 } else { val(rng) })).collect()
        }
        1 => {
            // one long key, or a few sharing long prefixes / suffixes
            let l = rng.range(20, 120);
            let base: Vec<u8> = (0..l).map(|_| rng.below(256) as u8).collect();
            let mut ks = vec![base.clone()];
            for _ in 0..rng.range(0, 3) {
                let mut k = base[..rng.range(0, l)].to_vec();
                k.extend((0..rng.range(0, 5)).map(|_| rng.below(256) as u8));
                ks.push(k);
            }
            sorted_unique(ks).into_iter().map(|k| (k, val(rng))).collect()
        }
        _ => {
            let n = rng.range(1, 14);
            let alpha = rng.range(2, 5) as u64;
            let maxlen = rng.range(1, 6);
            let ks = sorted_unique(
                (0..n).map(|_| (0..rng.range(0, maxlen)).map(|_| b'a' + rng.below(alpha) as u8).collect()).collect(),
            );
            let same = rng.chance(1, 4);
            ks.into_iter().map(|k| (k, if same { 300 } else { val(rng) })).collect()
        }
    }
}
/// set-style builders accept repeated keys: sometimes repeat one
pub fn maybe_repeat(kind: &str, kvs: &mut Vec<Kv>, rng: &mut Rng) {
    if (kind.starts_with("raw-add") || kind.starts_with("set")) && !kvs.is_empty() && rng.chance(1, 5) {
        let i = rng.below(kvs.len() as u64) as usize;
        let kv = kvs[i].clone();
        kvs.insert(i, kv);
    }
}

// ---------------------------------------------------------------- schedules
fn chunk_lens(r: &Reference) -> Vec<usize> {
    let mut v: Vec<usize> = r.calls.iter().flat_map(|c| c.iter().map(|ch| ch.len())).collect();
    v.push(4);
    v
}
pub fn fixed_cap_script(r: &Reference, cap: usize) -> Vec<Resp> {
    let n: usize = chunk_lens(r).iter().map(|l| (l + cap - 1) / cap).sum();
    vec![Resp::Accept(cap); n]
}
pub const ALL: usize = 1000; // larger than any chunk
pub fn random_script(rng: &mut Rng, len: usize, short_pct: u64, intr_pct: u64) -> Vec<Resp> {
    (0..len)
        .map(|_| {
            if rng.below(100) < intr_pct {
                Resp::Interrupted
            } else if rng.below(100) < short_pct {
                Resp::Accept(rng.range(1, 9))
            } else {
                Resp::Accept(ALL)
            }
        })
        .collect()
}

impl Prop for P {
    fn generate(&self, tier: Tier, rng: &mut Rng, stats: &mut Stats) -> Vec<String> {
        let mut cases = vec![];
        let push = |cases: &mut Vec<String>, stats: &mut Stats, fam: &str, kind: &str, kvs: &[Kv], r: &Reference, prefill: &[u8], cap: Option<usize>, script: &[Resp]| {
            stats.bump(fam);
            cases.push(case_line(kind, kvs, prefill, cap, script, FlushResp::Ok, &calls_string(&r.calls)));
        };
        let (nrand, nbuf) = match tier {
            Tier::Quick => (700, 40),
            Tier::Thorough => (3000, 200),
            Tier::Wide => (1500, 120),
        };
        // the historical witness: caps 1..7 and one Interrupted, all four builder front ends
        {
            let kvs = witness_kvs();
            for kind in ["raw-insert", "map", "raw-add", "set+finish"] {
                let r = reference(kind, &kvs);
                for cap in 1..=7 {
                    push(&mut cases, stats, "witness", kind, &kvs, &r, &[], None, &fixed_cap_script(&r, cap));
                }
                push(&mut cases, stats, "witness", kind, &kvs, &r, &[], None, &[Resp::Interrupted]);
            }
        }
        // small FSTs: every fixed cap 1..16, every position of one short write, every position of
        // one Interrupted
        for (i, kvs) in small_key_lists(rng).into_iter().enumerate() {
            let kind = BUILDER_KINDS[i % BUILDER_KINDS.len()];
            let r = reference(kind, &kvs);
            stats.add("small_fst_write_calls", r.w as u64);
            for cap in 1..=16 {
                push(&mut cases, stats, "small_fixed_cap", kind, &kvs, &r, &[], None, &fixed_cap_script(&r, cap));
            }
            for pos in 0..r.w {
                let mut s = vec![Resp::Accept(ALL); pos];
                s.push(Resp::Accept(1));
                push(&mut cases, stats, "small_one_short_write", kind, &kvs, &r, &[], None, &s);
                let mut s = vec![Resp::Accept(ALL); pos];
                s.push(Resp::Interrupted);
                push(&mut cases, stats, "small_one_interrupted", kind, &kvs, &r, &[], None, &s);
            }
        }
        // random FSTs x random schedules, prefills, BufWriter
        for _ in 0..nrand {
            let kind = *rng.pick(&BUILDER_KINDS);
            let mut kvs = random_key_list(rng);
            maybe_repeat(kind, &mut kvs, rng);
            let r = reference(kind, &kvs);
            let total = r.bytes.len();
            let cap = rng.range(1, 16);
            push(&mut cases, stats, "random_fixed_cap", kind, &kvs, &r, &[], None, &fixed_cap_script(&r, cap));
            for _ in 0..3 {
                let s = random_script(rng, total + 8, 60, 0);
                push(&mut cases, stats, "random_caps", kind, &kvs, &r, &[], None, &s);
            }
            for _ in 0..3 {
                let pct = rng.range(1, 30) as u64;
                let s = random_script(rng, r.w * 2, 0, pct);
                push(&mut cases, stats, "random_interrupted", kind, &kvs, &r, &[], None, &s);
            }
            for _ in 0..2 {
                let pct = rng.range(1, 30) as u64;
                let s = random_script(rng, total + 8, 50, pct);
                push(&mut cases, stats, "random_mixed", kind, &kvs, &r, &[], None, &s);
            }
            for plen in [0usize, 1, 7, 100] {
                let prefill: Vec<u8> = (0..plen).map(|_| rng.below(256) as u8).collect();
                let s = random_script(rng, total + 8, 40, 15);
                push(&mut cases, stats, "prefilled", kind, &kvs, &r, &prefill, None, &s);
            }
            for _ in 0..6 {
                let bcap = rng.range(0, 64);
                let s = match rng.below(3) {
                    0 => vec![],
                    1 => vec![Resp::Accept(rng.range(1, 16)); total + 8],
                    _ => random_script(rng, total + 8, 50, 20),
                };
                let prefill: Vec<u8> = if rng.chance(1, 4) { vec![0xEE; rng.range(1, 9)] } else { vec![] };
                push(&mut cases, stats, "bufwriter_random_cap", kind, &kvs, &r, &prefill, Some(bcap), &s);
            }
        }
        // BufWriter: every capacity 0..64 (and a few larger) over scripted inner sinks
        for i in 0..nbuf {
            let kind = BUILDER_KINDS[i % BUILDER_KINDS.len()];
            let mut kvs = if i % 5 == 0 { witness_kvs() } else { random_key_list(rng) };
            maybe_repeat(kind, &mut kvs, rng);
            let r = reference(kind, &kvs);
            let total = r.bytes.len();
            for bcap in (0..=64).chain([127, 255, 256, 257, 300]) {
                let s = match (i + bcap) % 3 {
                    0 => vec![Resp::Accept(rng.range(1, 16)); total + 8],
                    1 => random_script(rng, total + 8, 60, 25),
                    _ => vec![],
                };
                push(&mut cases, stats, "bufwriter_every_cap", kind, &kvs, &r, &[], Some(bcap), &s);
            }
        }
        cases
    }

    fn refresh_corpus_line(&self, line: &str) -> String {
        let f: Vec<&str> = line.split('\t').collect();
        // kind, keys, prefill, cap, script, flush, calls: the calls are re-measured from the in-memory build
        if f.len() == 7 && f[0] != "cont" {
            let r = reference(f[0], &parse_keys(f[1]));
            let mut g: Vec<String> = f.iter().map(|x| x.to_string()).collect();
            g[6] = calls_string(&r.calls);
            return g.join("\t");
        }
        line.to_string()
    }
    fn nontrivial(&self, case: &str) -> bool {
        let f: Vec<&str> = case.split('\t').collect();
        f.len() == 7 && f[1] != "-" && (f[4] != "-" || f[3] != "-")
    }

    fn execute(&self, case: &str) -> String {
        let c = Case::parse(case);
        let r = reference(&c.kind, &c.kvs);
        let mut x = String::from("ok");
        if calls_string(&r.calls) != c.calls {
            x = "chunk lists in the case line are not those of the in-memory build".to_string();
        }
        // in-memory builds through the convenience constructors share the same code
        if c.kind.starts_with("map") {
            let m = fst::Map::from_iter(c.kvs.iter().map(|(k, v)| (k.clone(), *v))).unwrap();
            if m.as_fst().as_bytes() != &r.bytes[..] {
                x = "Map::from_iter bytes differ from MapBuilder over a sink".to_string();
            }
        } else if c.kind.starts_with("set") {
            let s = fst::Set::from_iter(c.kvs.iter().map(|(k, _)| k.clone())).unwrap();
            if s.as_fst().as_bytes() != &r.bytes[..] {
                x = "Set::from_iter bytes differ from SetBuilder over a sink".to_string();
            }
        }
        let s = run_scripted(&c);
        if let (Some(want), Some(got)) = (c.cap, s.real_cap) {
            if want != got {
                x = format!("BufWriter::with_capacity({}) has capacity {}", want, got);
            }
        }
        let npre = c.prefill.len();
        let total: usize = r.bytes.len() - 4;
        let spec = (|| -> String {
            for cr in &s.log.calls {
                if cr.status != Status::Ok {
                    return "differs:call-failed".to_string();
                }
            }
            if s.log.fin != Some(Status::Ok) {
                return "differs:finish-failed".to_string();
            }
            if s.data.len() < npre || s.data[..npre] != c.prefill[..] || s.data[npre..] != r.bytes[..] {
                return "differs:bytes".to_string();
            }
            if s.flushes < 1 {
                return "differs:not-flushed".to_string();
            }
            if s.unflushed > 0 {
                return "differs:written-after-the-last-flush".to_string();
            }
            for cr in &s.log.calls {
                match (cr.bw, cr.obs) {
                    (Some(bw), Some(o)) if bw as usize == o.acc - npre => {}
                    _ => return "differs:bytes_written".to_string(),
                }
            }
            let body = &s.data[npre..];
            let f = match raw::Fst::new(body) {
                Ok(f) => f,
                Err(_) => return "differs:does-not-open".to_string(),
            };
            if f.verify().is_err() {
                return "differs:verify-fails".to_string();
            }
            if fst_content(&f) != expected_content(&c.kind, &c.kvs) {
                return "differs:content".to_string();
            }
            "equal".to_string()
        })();
        format!("S:{}\tM:{}\tX:{}", spec, m_common(&s, npre, total), x)
    }
}
