//! C01 — build-then-enumerate round trip, through every front end and cache geometry.
use crate::common::*;
use crate::core::*;

pub struct P;

pub fn geometries() -> [(usize, usize); 7] {
    [(drows(), dcols()), (1, 1), (1, 2), (2, 2), (3, 3), (0, 0), (7, 4)]
}

pub fn push_all_front_ends(cases: &mut Vec<String>, stats: &mut Stats, ops: &[Op], ty: u64, geoms: &[(usize, usize)]) {
    for &(rows, cols) in geoms {
        let default = (rows, cols) == (drows(), dcols());
        for (sem, fe) in applicable_front_ends(ops, default, ty) {
            // `calls` differs from `extend` only in how results are observed; keep one raw variant per geometry
            if !default && !(fe == "raw_loop" || fe == "raw") {
                continue;
            }
            cases.push(build_case(sem, fe, ty, rows, cols, ops));
            stats.bump(&format!("fe_{}_{}", sem, fe));
        }
        stats.bump(&format!("geometry_{}x{}", rows, cols));
    }
}

impl Prop for P {
    fn generate(&self, tier: Tier, rng: &mut Rng, stats: &mut Stats) -> Vec<String> {
        let mut cases = vec![];
        // 1. exhaustive small scope: all subsets of the 7 strings over {a,b} of length <= 2, two more alphabets
        for alpha in [&[b'a', b'b'][..], &[0x00, 0xFF][..], &[b'a', 0xFF][..]] {
            let u = universe(alpha, 2);
            for ks in subsets(&u) {
                let pats: Vec<usize> = if tier == Tier::Quick { vec![0, 1, 2, 4] } else { (0..NPATTERNS).collect() };
                // sets through every front end, default geometry + small geometries
                let geoms: &[(usize, usize)] = if alpha[0] == b'a' && alpha[1] == b'b' { &geometries() } else { &geometries()[..2] };
                push_all_front_ends(&mut cases, stats, &set_ops(&ks), 0, geoms);
                for p in pats {
                    let vals = value_pattern(p, ks.len(), rng);
                    let g: &[(usize, usize)] = if p == 1 { geoms } else { &geometries()[..1] };
                    push_all_front_ends(&mut cases, stats, &map_ops(&with_values(&ks, &vals)), 0, g);
                }
                stats.bump("small_scope_keysets");
            }
        }
        // 2. boundary-directed families
        for (name, ks) in boundary_keysets(rng, tier) {
            let big = ks.len() > 64 || ks.iter().any(|k| k.len() > 64);
            let geoms: &[(usize, usize)] = if big { &geometries()[..2] } else { &geometries()[..5] };
            push_all_front_ends(&mut cases, stats, &set_ops(&ks), 0, geoms);
            for p in [1usize, 2, 4, 8] {
                let vals = value_pattern(p, ks.len(), rng);
                push_all_front_ends(&mut cases, stats, &map_ops(&with_values(&ks, &vals)), if p == 4 { 7 } else { 0 }, &geoms[..1]);
            }
            stats.bump(&format!("boundary_{}", name.split('_').next().unwrap()));
        }
        // 3. random
        let nrand = match tier { Tier::Quick => 150, Tier::Thorough => 3000, Tier::Wide => 600 };
        for _ in 0..nrand {
            let maxk = if rng.chance(1, 10) { 300 } else { 30 };
            let ks = random_keyset(rng, maxk, 8);
            let p = rng.below(NPATTERNS as u64) as usize;
            let vals = value_pattern(p, ks.len(), rng);
            let g = [*rng.pick(&geometries()[..])];
            let ty = if rng.chance(1, 5) { rng.next() } else { 0 };
            if p == 0 {
                push_all_front_ends(&mut cases, stats, &set_ops(&ks), ty, &g);
            } else {
                push_all_front_ends(&mut cases, stats, &map_ops(&with_values(&ks, &vals)), ty, &g);
            }
            stats.bump("random_keysets");
        }
        // 4. sets with repeated keys (a repeat is a no-op; len counts distinct keys)
        for _ in 0..(nrand / 3) {
            let ks = random_keyset(rng, 12, 4);
            let mut ops = vec![];
            for k in &ks {
                for _ in 0..rng.range(1, 3) {
                    ops.push(Op::Add(k.clone()));
                }
            }
            push_all_front_ends(&mut cases, stats, &ops, 0, &[*rng.pick(&geometries()[..])]);
            stats.bump("sets_with_repeats");
        }
        // 4b. keys that are multi-byte UTF-8 strings, and the same sets with ONE key that is not valid UTF-8 placed
        // first, in the middle or last in key order: the string collectors (into_str_vec / into_str_keys / into_strs)
        // must return every item, or the FromUtf8 error of exactly that key (self-check of the executor)
        {
            let valid: Vec<Vec<u8>> = ["", "a", "az", "\u{e9}", "\u{e9}a", "\u{65e5}\u{672c}", "\u{65e5}\u{672c}\u{8a9e}", "\u{1F600}", "\u{7ff}\u{800}"].iter().map(|s| s.as_bytes().to_vec()).collect();
            let invalid: [&[u8]; 9] = [b"\x00\x80", b"a\x80", b"\xc3", b"\xc0\x80", b"\xe6\x97", b"\xed\xa0\x80", b"\xf0\x9f\x98", b"\xf4\x90\x80\x80", b"\xff"];
            push_all_front_ends(&mut cases, stats, &set_ops(&sort_dedup(valid.clone())), 0, &geometries()[..2]);
            let vals = value_pattern(4, valid.len(), rng);
            push_all_front_ends(&mut cases, stats, &map_ops(&with_values(&sort_dedup(valid.clone()), &vals)), 0, &geometries()[..1]);
            stats.bump("utf8_all_valid_multibyte");
            for bad in invalid {
                let mut ks = valid.clone();
                ks.push(bad.to_vec());
                let ks = sort_dedup(ks);
                let vals = value_pattern(1, ks.len(), rng);
                push_all_front_ends(&mut cases, stats, &map_ops(&with_values(&ks, &vals)), 0, &geometries()[..1]);
                push_all_front_ends(&mut cases, stats, &set_ops(&[bad.to_vec()]), 0, &geometries()[..1]);
                stats.bump("utf8_one_invalid_key");
            }
        }
        // 5. corpora (thorough): model side is slow on these, keep them few
        if tier == Tier::Thorough {
            for (f, n) in [("words-10000", 3000usize), ("wiki-urls-10000", 1500)] {
                let ks = corpus(f, n);
                cases.push(build_case("extend", "raw_loop", 0, drows(), dcols(), &set_ops(&ks)));
                stats.bump("corpus_builds");
            }
        }
        cases
    }

    fn nontrivial(&self, case: &str) -> bool {
        case.matches(',').count() >= 1
    }

    fn execute(&self, case: &str) -> String {
        exec_build_case(&case["build ".len()..])
    }
}
