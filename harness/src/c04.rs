//! C04 — automaton search (with and without states) over built FSTs, with bounds.
use crate::c03::{bound_universe, fmt_calls, parse_calls};
use crate::common::*;
use crate::core::*;
use crate::dynaut::*;
use fst::automaton::{AlwaysMatch, Str, Subsequence};
use fst::raw::Fst;
use fst::{IntoStreamer, Streamer};

pub struct P;

/// random table DFA with up to `maxn` states over 2 classes; hints randomly weakened but sound
fn random_table(rng: &mut Rng, maxn: usize) -> Table {
    let n = rng.range(1, maxn);
    let ncls = 2;
    let next: Vec<usize> = (0..n * ncls).map(|_| rng.below(n as u64) as usize).collect();
    let m: Vec<bool> = (0..n).map(|_| rng.chance(1, 3)).collect();
    let mut t = Table { ncls, next, m, c: vec![true; n], w: vec![false; n], start: rng.below(n as u64) as usize };
    let (dead, full) = t.dead_and_full();
    for i in 0..n {
        if dead[i] && rng.chance(2, 3) {
            t.c[i] = false;
        }
        if full[i] && rng.chance(2, 3) {
            t.w[i] = true;
        }
    }
    t
}

fn sample_ranges(bs: &[Vec<u8>], rng: &mut Rng, n: usize) -> Vec<Vec<(u8, Vec<u8>)>> {
    let mut rs = vec![vec![]];
    for _ in 0..n {
        let mut c = vec![];
        if rng.chance(2, 3) {
            c.push((rng.below(2) as u8, rng.pick(bs).clone()));
        }
        if rng.chance(2, 3) {
            c.push((2 + rng.below(2) as u8, rng.pick(bs).clone()));
        }
        // a side set twice: the later setting wins, also when it is the empty key (ge "" = no lower bound,
        // lt "" = nothing at all)
        if rng.chance(1, 3) {
            let side = rng.below(2) as u8 * 2;
            let b = if rng.chance(1, 2) { vec![] } else { rng.pick(bs).clone() };
            c.push((side + rng.below(2) as u8, b));
        }
        rs.push(c);
    }
    rs
}

fn case(ops: &[Op], e: &Exp, ws: bool, rs: &[Vec<(u8, Vec<u8>)>]) -> String {
    format!("search {} ; {} ; {} ; {}", fmt_ops(ops), e.token(), if ws { "ws" } else { "nows" }, rs.iter().map(|c| fmt_calls(c)).collect::<Vec<_>>().join("/"))
}

impl Prop for P {
    fn generate(&self, tier: Tier, rng: &mut Rng, stats: &mut Stats) -> Vec<String> {
        let mut cases = vec![];
        let u = universe(&[b'a', b'b'], 2);
        let subs = subsets(&u);
        let t1 = enum_tables(1, 2, rng, 1);
        let t2 = enum_tables(2, 2, rng, 1);
        let t3 = enum_tables(3, 2, rng, if tier == Tier::Quick { 60 } else { 6 });
        stats.add("tables_1_2_state_exhaustive_with_all_sound_hints", (t1.len() + t2.len()) as u64);
        stats.add("tables_3_state_sampled", t3.len() as u64);
        let tables: Vec<Table> = t1.into_iter().chain(t2).chain(t3).collect();
        let nsets = match tier { Tier::Quick => 24, Tier::Thorough => 128, Tier::Wide => 64 };
        let mut bs = bound_universe(&u, rng, 64);
        bs.push(b"c".to_vec());
        for si in 0..nsets {
            let ks = if nsets == 128 { subs[si].clone() } else { rng.pick(&subs).clone() };
            let vals = value_pattern(1 + si % 5, ks.len(), rng);
            let ops = map_ops(&with_values(&ks, &vals));
            for t in &tables {
                let rs = sample_ranges(&bs, rng, 6);
                stats.add("searches", rs.len() as u64);
                cases.push(case(&ops, &Exp::Tab(t.clone()), true, &rs));
            }
            stats.bump("small_scope_keysets");
        }
        // random DFAs up to 8 states, shipped automata and compositions, on deeper key sets
        let lv = crate::c18::leaves(rng, &mut Stats::default(), Tier::Quick);
        let nrand = match tier { Tier::Quick => 500, Tier::Thorough => 8000, Tier::Wide => 2000 };
        for i in 0..nrand {
            let ks = match i % 4 {
                0 => random_keyset(rng, 40, 6),
                _ => {
                    // keys over {a,b,z} so that the shipped patterns have something to match
                    let n = rng.range(0, 25);
                    sort_dedup((0..n).map(|_| { let l = rng.range(0, 5); (0..l).map(|_| *rng.pick(&[b'a', b'b', b'z'])).collect() }).collect())
                }
            };
            let vals = value_pattern(rng.below(NPATTERNS as u64) as usize, ks.len(), rng);
            let ops = map_ops(&with_values(&ks, &vals));
            let bs = bound_universe(&ks, rng, 30);
            let rs = sample_ranges(&bs, rng, 5);
            stats.add("searches", rs.len() as u64);
            match i % 3 {
                0 => {
                    cases.push(case(&ops, &Exp::Tab(random_table(rng, 8)), true, &rs));
                    stats.bump("random_dfa_upto8_weakened_hints");
                }
                1 => {
                    let e = rng.pick(&lv).clone();
                    cases.push(case(&ops, &e, true, &rs));
                    stats.bump("shipped_leaf_with_state");
                }
                _ => {
                    let d = rng.range(1, 3);
                    let e = crate::c18::random_exp(rng, &lv, d);
                    cases.push(case(&ops, &e, false, &rs));
                    stats.bump(&format!("composition_depth_{}", d));
                }
            }
        }
        // directed: shipped automata whose literal IS a key (or a prefix of keys), with bounds made
        // from that literal: equal to it, its proper extensions, its prefixes - on both sides
        let ndir = match tier { Tier::Quick => 120, Tier::Thorough => 1500, Tier::Wide => 400 };
        for i in 0..ndir {
            let n = rng.range(1, 12);
            let ks = sort_dedup((0..n).map(|_| { let l = rng.range(0, 4); (0..l).map(|_| *rng.pick(&[b'a', b'b', b'z'])).collect() }).collect());
            let k = rng.pick(&ks).clone();
            let vals = value_pattern(rng.below(NPATTERNS as u64) as usize, ks.len(), rng);
            let ops = map_ops(&with_values(&ks, &vals));
            let lit = Exp::Str(k.clone());
            let e = match i % 6 {
                0 => lit,
                1 => Exp::I(Box::new(lit), Box::new(Exp::Always)),
                2 => Exp::U(Box::new(lit), Box::new(Exp::Str(rng.pick(&ks).clone()))),
                3 => Exp::SW(Box::new(Exp::Str(k[..k.len().min(1)].to_vec()))),
                4 => Exp::Sub(k.clone()),
                _ => Exp::C(Box::new(lit)),
            };
            let mut near: Vec<Vec<u8>> = vec![k.clone()];
            for x in [0u8, b'a', b'b', b'z', 255] {
                let mut y = k.clone();
                y.push(x);
                near.push(y.clone());
                y.push(b'a');
                near.push(y);
            }
            for l in 0..k.len() {
                near.push(k[..l].to_vec());
            }
            let mut rs: Vec<Vec<(u8, Vec<u8>)>> = vec![];
            for b in &near {
                for kind in 0..4u8 {
                    rs.push(vec![(kind, b.clone())]);
                }
            }
            for _ in 0..6 {
                rs.push(vec![(rng.below(2) as u8, rng.pick(&near).clone()), (2 + rng.below(2) as u8, rng.pick(&near).clone())]);
            }
            // a bound reset by a later call on the same side, to the empty key and to another key
            for _ in 0..4 {
                let b = rng.pick(&near).clone();
                rs.push(vec![(rng.below(2) as u8, b.clone()), (0, vec![])]);
                rs.push(vec![(2 + rng.below(2) as u8, b.clone()), (2, vec![])]);
                rs.push(vec![(rng.below(2) as u8, b), (rng.below(2) as u8, rng.pick(&near).clone())]);
            }
            stats.add("searches", rs.len() as u64);
            stats.bump("directed_literal_is_key_bounds_around_literal");
            cases.push(case(&ops, &e, i % 6 == 0 || i % 6 == 4, &rs));
        }
        cases
    }
    fn nontrivial(&self, case: &str) -> bool {
        case.contains(',') && case.contains('/')
    }
    fn execute(&self, case: &str) -> String {
        let rest = &case["search ".len()..];
        let parts: Vec<&str> = rest.split(';').map(|s| s.trim()).collect();
        let ops = parse_ops(parts[0]);
        let e = Exp::parse_str(parts[1]);
        let ws = parts[2] == "ws";
        let ranges: Vec<Vec<(u8, Vec<u8>)>> = parts[3].split('/').map(|r| parse_calls(r.trim())).collect();
        let out = exec_build("extend", "raw_loop", 0, drows(), dcols(), &ops);
        let bytes = out.bytes.unwrap();
        let f = Fst::new(bytes.clone()).unwrap();
        let map = fst::Map::new(bytes.clone()).unwrap();
        let set = fst::Set::new(bytes.clone()).unwrap();
        let mut x = String::from("ok");
        let mut res = vec![];
        let (mut nws, mut nplain) = (0u64, 0u64);
        macro_rules! with_state {
            ($aut:expr, $fmt:expr) => {{
                for calls in &ranges {
                    let mut sb = f.search_with_state($aut);
                    let mut pb = f.search($aut);
                    for (k, b) in calls {
                        sb = match k { 0 => sb.ge(b), 1 => sb.gt(b), 2 => sb.le(b), _ => sb.lt(b) };
                        pb = match k { 0 => pb.ge(b), 1 => pb.gt(b), 2 => pb.le(b), _ => pb.lt(b) };
                    }
                    let mut st = sb.into_stream();
                    let mut items = vec![];
                    let mut plain = vec![];
                    let mut triples = vec![];
                    while let Some((k, v, s)) = st.next() {
                        items.push(format!("{}:{}:{}", hex(k), v.value(), $fmt(&s)));
                        plain.push((k.to_vec(), v.value()));
                        triples.push((k.to_vec(), v.value(), $fmt(&s)));
                    }
                    if pb.into_stream().into_byte_vec() != plain {
                        x = format!("search and search_with_state disagree for {}", fmt_calls(calls));
                    }
                    // the same search through Map / Set: search_with_state and search must give the projections
                    if let Err(e) = crate::wrap::search_with_state_wrappers(&map, &set, || $aut, $fmt, calls, &triples) {
                        x = e;
                    }
                    if let Err(e) = crate::wrap::search_wrappers(&map, &set, || $aut, calls, &plain) {
                        x = e;
                    }
                    nws += 1;
                    res.push(if items.is_empty() { "_".to_string() } else { items.join(",") });
                }
            }};
        }
        if ws {
            match &e {
                Exp::Str(q) => {
                    let s = String::from_utf8(q.clone()).unwrap();
                    with_state!(Str::new(&s), |s: &Option<usize>| match s { Some(p) => format!("S{}", p), None => "N".to_string() })
                }
                Exp::Sub(q) => {
                    let s = String::from_utf8(q.clone()).unwrap();
                    with_state!(Subsequence::new(&s), |s: &usize| s.to_string())
                }
                Exp::Tab(t) => {
                    with_state!(t.clone(), |s: &usize| s.to_string());
                    // the result must not depend on how precise the hints are
                    let mut weak = t.clone();
                    weak.c = vec![true; t.nstates()];
                    weak.w = vec![false; t.nstates()];
                    for (ri, calls) in ranges.iter().enumerate() {
                        let mut sb = f.search_with_state(weak.clone());
                        for (k, b) in calls {
                            sb = match k { 0 => sb.ge(b), 1 => sb.gt(b), 2 => sb.le(b), _ => sb.lt(b) };
                        }
                        let mut st = sb.into_stream();
                        let mut items = vec![];
                        while let Some((k, v, s)) = st.next() {
                            items.push(format!("{}:{}:{}", hex(k), v.value(), s));
                        }
                        let got = if items.is_empty() { "_".to_string() } else { items.join(",") };
                        if got != res[ri] {
                            x = format!("result depends on hint precision for {}", fmt_calls(calls));
                        }
                    }
                }
                Exp::Always => with_state!(AlwaysMatch, |_: &()| "u".to_string()),
                _ => panic!("ws on composite"),
            }
        } else {
            for calls in &ranges {
                let mut pb = f.search(e.build());
                let mut mb = map.search(e.build());
                for (k, b) in calls {
                    pb = match k { 0 => pb.ge(b), 1 => pb.gt(b), 2 => pb.le(b), _ => pb.lt(b) };
                    mb = match k { 0 => mb.ge(b), 1 => mb.gt(b), 2 => mb.le(b), _ => mb.lt(b) };
                }
                let got = pb.into_stream().into_byte_vec();
                if mb.into_stream().into_byte_vec() != got {
                    x = format!("Map::search disagrees with raw search for {}", fmt_calls(calls));
                }
                if let Err(msg) = crate::wrap::search_wrappers(&map, &set, || e.build(), calls, &got) {
                    x = msg;
                }
                // every automaton of the expression used through a borrow (impl Automaton for &T)
                let mut rb = f.search(e.build_ref());
                for (k, b) in calls {
                    rb = match k { 0 => rb.ge(b), 1 => rb.gt(b), 2 => rb.le(b), _ => rb.lt(b) };
                }
                if rb.into_stream().into_byte_vec() != got {
                    x = format!("search with borrowed automata (&T) differs from the search with owned ones for {}", fmt_calls(calls));
                }
                nplain += 1;
                res.push(fmt_kvs(&got));
            }
        }
        // the same content STREAMED to short-writing / interrupting / block-cutting writers: a search with the
        // automaton that accepts everything (and no bounds) must enumerate the same entries on those files
        if x == "ok" && ops.len() <= 300 {
            let answer = |g: &Fst<Vec<u8>>| -> String {
                let mut st = g.search(fst::automaton::AlwaysMatch).into_stream();
                let mut got = vec![];
                while let Some((k, v)) = st.next() {
                    got.push(format!("{}:{}", hex(k), v.value()));
                }
                got.join(",")
            };
            let expected = answer(&f);
            if let Err(e) = crate::wrap::alt_builds_answer(0, &ops, &bytes, &expected, &answer) {
                x = e;
            }
        }
        xcount_add("search_with_state_map_set", nws);
        xcount_add("search_map_set", nws + nplain);
        let s = res.join("/");
        format!("S:{}\tM:{}\tX:{}", s, s, x)
    }
}
