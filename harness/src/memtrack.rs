//! Counting allocator (C13/C14): a wrapper around `std::alloc::System` that keeps
//! THREAD-LOCAL counters of the bytes requested from the allocator.
//!
//! * `current` = sum of `Layout::size()` of the blocks this thread allocated minus those it
//!   freed since the last `reset()`; `realloc` is accounted as an atomic resize
//!   (`current += new - old`): whether the system allocator moves the block is not observable
//!   here and not part of the property.
//! * `peak` = the largest value `current` has had since `reset()`.
//! * `allocs` = number of `alloc`/`alloc_zeroed`/`realloc` calls since `reset()`.
//!
//! The counters are `Cell`s in `thread_local!` slots with `const` initialisers and no
//! destructor, so touching them never allocates and never registers a TLS destructor; this
//! is what makes them usable from inside the allocator. A measurement is meaningful when
//! everything between `reset()` and `peak()` runs on the calling thread (the builder, the
//! streams and the set operations of the crate are single-threaded).
use std::alloc::{GlobalAlloc, Layout, System};
use std::cell::Cell;

thread_local! {
    static CUR: Cell<isize> = const { Cell::new(0) };
    static PEAK: Cell<isize> = const { Cell::new(0) };
    static ALLOCS: Cell<u64> = const { Cell::new(0) };
}

pub struct Counting;

#[inline]
fn add(delta: isize, count: bool) {
    let _ = CUR.try_with(|c| {
        let v = c.get() + delta;
        c.set(v);
        let _ = PEAK.try_with(|p| {
            if v > p.get() {
                p.set(v)
            }
        });
    });
    if count {
        let _ = ALLOCS.try_with(|a| a.set(a.get() + 1));
    }
}

unsafe impl GlobalAlloc for Counting {
    unsafe fn alloc(&self, l: Layout) -> *mut u8 {
        let p = System.alloc(l);
        if !p.is_null() {
            add(l.size() as isize, true);
        }
        p
    }
    unsafe fn alloc_zeroed(&self, l: Layout) -> *mut u8 {
        let p = System.alloc_zeroed(l);
        if !p.is_null() {
            add(l.size() as isize, true);
        }
        p
    }
    unsafe fn dealloc(&self, p: *mut u8, l: Layout) {
        System.dealloc(p, l);
        add(-(l.size() as isize), false);
    }
    unsafe fn realloc(&self, p: *mut u8, l: Layout, new_size: usize) -> *mut u8 {
        let q = System.realloc(p, l, new_size);
        if !q.is_null() {
            add(new_size as isize - l.size() as isize, true);
        }
        q
    }
}

/// Start a measurement on this thread: current = peak = allocs = 0.
pub fn reset() {
    CUR.with(|c| c.set(0));
    PEAK.with(|c| c.set(0));
    ALLOCS.with(|c| c.set(0));
}
/// Restart the peak at the bytes that are live now (keeps `current` and `allocs`).
pub fn reset_peak() {
    let c = CUR.with(|c| c.get());
    PEAK.with(|p| p.set(c));
}
/// Largest number of live bytes (allocated on this thread since `reset`) seen so far.
pub fn peak() -> u64 {
    PEAK.with(|c| c.get()).max(0) as u64
}
/// Live bytes allocated on this thread since `reset` (may be negative if blocks allocated
/// before `reset` were freed after it — measurements are arranged so that this does not happen).
pub fn current() -> i64 {
    CUR.with(|c| c.get()) as i64
}
/// Number of allocator calls that obtained memory since `reset`.
pub fn allocs() -> u64 {
    ALLOCS.with(|c| c.get())
}
