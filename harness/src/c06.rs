//! C06 — ordering contract: arbitrary call sequences incl. duplicates and out-of-order keys.
use crate::common::*;
use crate::core::*;

pub struct P;

fn all_sequences(universe: &[Vec<u8>], len: usize) -> Vec<Vec<Vec<u8>>> {
    let mut out = vec![vec![]];
    for _ in 0..len {
        let mut nx = vec![];
        for s in &out {
            for k in universe {
                let mut t: Vec<Vec<u8>> = s.clone();
                t.push(k.clone());
                nx.push(t);
            }
        }
        out = nx;
    }
    out
}

impl Prop for P {
    fn generate(&self, tier: Tier, rng: &mut Rng, stats: &mut Stats) -> Vec<String> {
        let mut cases = vec![];
        let uni: Vec<Vec<u8>> = vec![vec![], b"a".to_vec(), b"ab".to_vec(), b"b".to_vec(), b"ba".to_vec()];
        let maxlen = match tier { Tier::Quick => 4, Tier::Thorough => 5, Tier::Wide => 4 };
        for l in 0..=maxlen {
            for seq in all_sequences(&uni, l) {
                // maps (values = position + 1) and sets, through single calls on each builder kind
                let mops: Vec<Op> = seq.iter().enumerate().map(|(i, k)| Op::Insert(k.clone(), (i + 1) as u64)).collect();
                let sops: Vec<Op> = seq.iter().map(|k| Op::Add(k.clone())).collect();
                if l == maxlen && tier != Tier::Thorough && rng.below(3) != 0 {
                    // sample the largest layer in the quick tier, raw builder only
                    cases.push(build_case("calls", "raw", 0, drows(), dcols(), &mops));
                    cases.push(build_case("calls", "raw", 0, drows(), dcols(), &sops));
                    continue;
                }
                for fe in ["raw", "map"] {
                    cases.push(build_case("calls", fe, 0, drows(), dcols(), &mops));
                }
                for fe in ["raw", "set"] {
                    cases.push(build_case("calls", fe, 0, drows(), dcols(), &sops));
                }
                if l <= 3 || tier == Tier::Thorough {
                    for (sem, fe) in [("extend", "raw_iter"), ("extend", "raw_stream"), ("extend", "map_iter"), ("extend", "map_stream"), ("fromiter", "map"), ("fromiter", "raw_map")] {
                        cases.push(build_case(sem, fe, 0, drows(), dcols(), &mops));
                    }
                    // the same map histories with the value 0 on every second item and on all items: a value is
                    // no reason to treat an item differently (0 is also what sets store)
                    for zmask in [1usize, 2] {
                        let zops: Vec<Op> = seq.iter().enumerate().map(|(i, k)| Op::Insert(k.clone(), if zmask == 2 || i % 2 == 1 { 0 } else { (i + 1) as u64 })).collect();
                        for (sem, fe) in [("calls", "raw"), ("calls", "map"), ("extend", "raw_iter"), ("extend", "raw_stream"), ("extend", "map_iter"), ("extend", "map_stream"), ("fromiter", "map")] {
                            cases.push(build_case(sem, fe, 0, drows(), dcols(), &zops));
                        }
                        stats.bump("exhaustive_zero_valued_map_items");
                    }
                    for (sem, fe) in [("extend", "set_iter"), ("extend", "set_stream"), ("fromiter", "set"), ("fromiter", "raw_set")] {
                        cases.push(build_case(sem, fe, 0, drows(), dcols(), &sops));
                    }
                }
                stats.bump(&format!("exhaustive_len_{}", l));
            }
        }
        // mixed add/insert on the raw builder
        for seq in all_sequences(&uni[..4], 3) {
            for mask in 0..8u32 {
                let ops: Vec<Op> = seq.iter().enumerate().map(|(i, k)| if mask >> i & 1 == 1 { Op::Insert(k.clone(), 5 + i as u64) } else { Op::Add(k.clone()) }).collect();
                cases.push(build_case("calls", "raw", 0, drows(), dcols(), &ops));
            }
            stats.bump("mixed_add_insert_len_3");
        }
        // several extend batches on ONE builder: a batch that stops at a rejected item leaves a builder that is used
        // further - every way of cutting the exhaustive sequences of length <= 4 into consecutive batches
        let blen = match tier { Tier::Quick => 3, Tier::Thorough => 4, Tier::Wide => 3 };
        for l in 2..=blen {
            for seq in all_sequences(&uni, l) {
                for cut in 1..(1u32 << (l - 1)) {
                    // bit i of `cut` set: a batch boundary after item i
                    let mk = |set: bool| -> String {
                        let mut parts: Vec<Vec<Op>> = vec![vec![]];
                        for (i, k) in seq.iter().enumerate() {
                            parts.last_mut().unwrap().push(if set { Op::Add(k.clone()) } else { Op::Insert(k.clone(), if (cut as usize + i) % 2 == 1 { 0 } else { (i + 1) as u64 }) });
                            if i + 1 < l && cut >> i & 1 == 1 {
                                parts.push(vec![]);
                            }
                        }
                        parts.iter().map(|b| fmt_ops(b)).collect::<Vec<_>>().join("|")
                    };
                    for fe in ["raw_iter", "raw_stream", "map_iter", "map_stream"] {
                        if l < blen || rng.below(4) == 0 {
                            cases.push(format!("build batches {} 0 {} {} {}", fe, drows(), dcols(), mk(false)));
                        }
                    }
                    for fe in ["set_iter", "set_stream"] {
                        if l < blen || rng.below(4) == 0 {
                            cases.push(format!("build batches {} 0 {} {} {}", fe, drows(), dcols(), mk(true)));
                        }
                    }
                }
                stats.bump(&format!("batches_exhaustive_len_{}", l));
            }
        }
        // random histories cut into batches
        for _ in 0..(match tier { Tier::Quick => 200, Tier::Thorough => 3000, Tier::Wide => 800 }) {
            let ks = random_keyset(rng, 30, 5);
            let is_set = rng.chance(1, 2);
            let mut parts: Vec<Vec<Op>> = vec![vec![]];
            for (i, k) in ks.iter().enumerate() {
                if rng.below(100) < 25 {
                    let bad = match rng.below(3) {
                        0 => ks[rng.below((i + 1) as u64) as usize].clone(),
                        1 => if i > 0 { ks[i - 1].clone() } else { vec![] },
                        _ => vec![],
                    };
                    parts.last_mut().unwrap().push(if is_set { Op::Add(bad) } else { Op::Insert(bad, rng.below(1000)) });
                }
                parts.last_mut().unwrap().push(if is_set { Op::Add(k.clone()) } else { Op::Insert(k.clone(), rng.below(1 << 40)) });
                if rng.chance(1, 4) {
                    parts.push(vec![]);
                }
            }
            let fe = if is_set { *rng.pick(&["set_iter", "set_stream"]) } else { *rng.pick(&["raw_iter", "raw_stream", "map_iter", "map_stream"]) };
            cases.push(format!("build batches {} 0 {} {} {}", fe, drows(), dcols(), parts.iter().map(|b| fmt_ops(b)).collect::<Vec<_>>().join("|")));
            stats.bump("batches_random");
        }
        // random long histories with an error rate
        let nrand = match tier { Tier::Quick => 400, Tier::Thorough => 6000, Tier::Wide => 1600 };
        for _ in 0..nrand {
            let ks = random_keyset(rng, 40, 6);
            let err_pct = rng.below(51);
            let mut ops = vec![];
            let is_set = rng.chance(1, 2);
            for (i, k) in ks.iter().enumerate() {
                if rng.below(100) < err_pct {
                    // inject a smaller key, a duplicate of the previous key, or the empty key
                    let bad = match rng.below(3) {
                        0 => ks[rng.below((i + 1) as u64) as usize].clone(),
                        1 => if i > 0 { ks[i - 1].clone() } else { vec![] },
                        _ => vec![],
                    };
                    ops.push(if is_set { Op::Add(bad) } else { Op::Insert(bad, if rng.chance(1, 3) { 0 } else { rng.below(1000) }) });
                }
                ops.push(if is_set { Op::Add(k.clone()) } else { Op::Insert(k.clone(), rng.below(1 << 40)) });
            }
            let fes: &[(&str, &str)] = if is_set {
                &[("calls", "raw"), ("calls", "set"), ("extend", "set_iter"), ("extend", "set_stream"), ("fromiter", "set")]
            } else {
                &[("calls", "raw"), ("calls", "map"), ("extend", "map_iter"), ("extend", "raw_stream"), ("fromiter", "map")]
            };
            let (sem, fe) = *rng.pick(fes);
            cases.push(build_case(sem, fe, 0, drows(), dcols(), &ops));
            stats.bump(&format!("random_errrate_{}0s", err_pct / 10));
        }
        cases
    }
    fn nontrivial(&self, case: &str) -> bool {
        case.matches(',').count() >= 1
    }
    fn execute(&self, case: &str) -> String {
        exec_build_case(&case["build ".len()..])
    }
}
