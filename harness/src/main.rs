//! fstv-harness: implementation side of the correspondence checks.
//!   fstv-harness <prop> gen  <outdir> <tier> <seed>   -> cases.txt impl.out stats.json
//!   fstv-harness <prop> exec <cases-file> <out-file>  -> runs the given cases only (replay)
mod common;
mod c01;
mod c02;
mod c03;
mod c04;
mod c05;
mod c06;
mod c07;
mod c08;
mod c09;
mod c10;
mod c11;
mod c12;
mod c13;
mod c14;
mod c15;
mod c16;
mod c17;
mod c18;
mod c19;
mod c20;
mod dynaut;
mod core;
mod hooks;
mod memtrack;
mod wrap;

#[global_allocator]
static ALLOC: memtrack::Counting = memtrack::Counting;

use common::*;
use std::io::Write;
use std::panic;
use std::sync::atomic::{AtomicUsize, Ordering};
use std::sync::Arc;

fn prop_for(name: &str) -> Box<dyn Prop> {
    match name {
        "C01" => Box::new(c01::P),
        "C02" => Box::new(c02::P),
        "C03" => Box::new(c03::P),
        "C04" => Box::new(c04::P),
        "C05" => Box::new(c05::P),
        "C06" => Box::new(c06::P),
        "C07" => Box::new(c07::P),
        "C08" => Box::new(c08::P),
        "C09" => Box::new(c09::P),
        "C10" => Box::new(c10::P),
        "C11" => Box::new(c11::P),
        "C12" => Box::new(c12::P),
        "C13" => Box::new(c13::P),
        "C14" => Box::new(c14::P),
        "C15" => Box::new(c15::P),
        "C16" => Box::new(c16::P),
        "C17" => Box::new(c17::P),
        "C18" => Box::new(c18::P),
        "C19" => Box::new(c19::P),
        "C20" => Box::new(c20::P),
        _ => {
            eprintln!("unknown property {}", name);
            std::process::exit(2)
        }
    }
}

fn run_cases(p: &dyn Prop, cases: &[String]) -> Vec<String> {
    let n = cases.len();
    let nthreads = std::thread::available_parallelism().map(|x| x.get()).unwrap_or(4).min(16);
    let next = Arc::new(AtomicUsize::new(0));
    let mut out: Vec<String> = vec![String::new(); n];
    let chunks: Vec<Vec<(usize, String)>> = std::thread::scope(|s| {
        let mut hs = vec![];
        for _ in 0..nthreads {
            let next = next.clone();
            hs.push(s.spawn(move || {
                let mut local = vec![];
                loop {
                    let i = next.fetch_add(1, Ordering::Relaxed);
                    if i >= n {
                        break;
                    }
                    let c = &cases[i];
                    let r = panic::catch_unwind(panic::AssertUnwindSafe(|| p.execute(c)));
                    let line = match r {
                        Ok(l) => l,
                        Err(e) if e.downcast_ref::<hooks::NoHook>().is_some() => "S:NOHOOK\tM:NOHOOK".to_string(),
                        Err(e) => {
                            let msg = if let Some(s) = e.downcast_ref::<&str>() {
                                s.to_string()
                            } else if let Some(s) = e.downcast_ref::<String>() {
                                s.clone()
                            } else {
                                "?".to_string()
                            };
                            format!("S:PANIC\tM:PANIC\tX:{}", msg.replace('\t', " ").replace('\n', " "))
                        }
                    };
                    local.push((i, line));
                }
                local
            }));
        }
        hs.into_iter().map(|h| h.join().unwrap()).collect()
    });
    for ch in chunks {
        for (i, l) in ch {
            out[i] = l;
        }
    }
    out
}

fn main() {
    let args: Vec<String> = std::env::args().collect();
    if args.len() < 4 {
        eprintln!("usage: fstv-harness <prop> gen <outdir> <tier> <seed> | <prop> exec <cases> <out>");
        std::process::exit(2);
    }
    // keep panic messages out of the way: they are caught and recorded per case
    panic::set_hook(Box::new(|_| {}));
    let p = prop_for(&args[1]);
    match args[2].as_str() {
        "gen" => {
            let outdir = &args[3];
            let tier = match args.get(4).map(|s| s.as_str()) {
                Some("thorough") => Tier::Thorough,
                Some("wide") => Tier::Wide,
                _ => Tier::Quick,
            };
            let seed: u64 = args.get(5).and_then(|s| s.parse().ok()).unwrap_or(1);
            let mut rng = Rng::new(seed);
            let mut stats = Stats::default();
            std::fs::create_dir_all(outdir).unwrap();
            let mut cases = vec![];
            // minimised failures found earlier run first
            // outdir is <root>/work/<ID>/run (or .../wide): the corpus lives in <root>/corpus
            let corpus = format!("{}/../../../corpus/{}.txt", outdir, args[1]);
            if let Ok(txt) = std::fs::read_to_string(&corpus)
                .or_else(|_| std::fs::read_to_string(format!("{}/../../corpus/{}.txt", outdir, args[1])))
                .or_else(|_| std::fs::read_to_string(format!("/verif/corpus/{}.txt", args[1])))
            {
                for l in txt.lines() {
                    if !l.is_empty() && !l.starts_with('#') {
                        cases.push(p.refresh_corpus_line(l));
                        stats.bump("corpus_cases");
                    }
                }
            }
            cases.extend(p.generate(tier, &mut rng, &mut stats));
            let outs = run_cases(&*p, &cases);
            // what the executors' self-checks (X) actually exercised
            for (k, v) in xcounts() {
                stats.add(&format!("selfcheck_{}", k), v);
            }
            let mut f = std::io::BufWriter::new(std::fs::File::create(format!("{}/cases.txt", outdir)).unwrap());
            for c in &cases {
                writeln!(f, "{}", c).unwrap();
            }
            let mut f = std::io::BufWriter::new(std::fs::File::create(format!("{}/impl.out", outdir)).unwrap());
            for c in &outs {
                writeln!(f, "{}", c).unwrap();
            }
            let extras = p.extras(tier, &mut rng, &mut stats);
            // stats
            let mut distinct = std::collections::HashSet::new();
            let mut nontrivial = 0u64;
            for c in &cases {
                if distinct.insert(c.as_str()) && p.nontrivial(c) {
                    nontrivial += 1;
                }
            }
            let mut s = String::from("{\n");
            s.push_str(&format!("  \"evaluations\": {},\n  \"distinct\": {},\n  \"distinct_nontrivial\": {},\n", cases.len(), distinct.len(), nontrivial));
            s.push_str("  \"counters\": {");
            s.push_str(&stats.counters.iter().map(|(k, v)| format!("\"{}\": {}", json_escape(k), v)).collect::<Vec<_>>().join(", "));
            s.push_str("},\n  \"notes\": [");
            s.push_str(&stats.notes.iter().map(|n| format!("\"{}\"", json_escape(n))).collect::<Vec<_>>().join(", "));
            s.push_str("],\n  \"extras\": [");
            s.push_str(&extras.iter().map(|(n, ok, d)| format!("{{\"name\": \"{}\", \"ok\": {}, \"detail\": \"{}\"}}", json_escape(n), ok, json_escape(d))).collect::<Vec<_>>().join(", "));
            s.push_str("]\n}\n");
            std::fs::write(format!("{}/stats.json", outdir), s).unwrap();
        }
        "exec" => {
            let txt = std::fs::read_to_string(&args[3]).unwrap();
            let cases: Vec<String> = txt.lines().map(|l| l.to_string()).collect();
            let outs = run_cases(&*p, &cases);
            let mut f = std::io::BufWriter::new(std::fs::File::create(&args[4]).unwrap());
            for c in &outs {
                writeln!(f, "{}", c).unwrap();
            }
        }
        _ => std::process::exit(2),
    }
}
