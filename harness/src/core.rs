//! Shared by the builder/reader properties: ops, front ends, key-set families, result formatting.
use crate::common::*;
use fst::raw::{Builder, Fst, Output};
use fst::Streamer;

#[derive(Clone, Debug, PartialEq)]
pub enum Op {
    Insert(Vec<u8>, u64),
    Add(Vec<u8>),
}
impl Op {
    pub fn key(&self) -> &[u8] {
        match self {
            Op::Insert(k, _) => k,
            Op::Add(k) => k,
        }
    }
    pub fn val(&self) -> u64 {
        match self {
            Op::Insert(_, v) => *v,
            Op::Add(_) => 0,
        }
    }
}
pub fn fmt_ops(ops: &[Op]) -> String {
    if ops.is_empty() {
        return "_".into();
    }
    ops.iter()
        .map(|o| match o {
            Op::Insert(k, v) => format!("i:{}:{}", hex(k), v),
            Op::Add(k) => format!("a:{}", hex(k)),
        })
        .collect::<Vec<_>>()
        .join(",")
}
pub fn parse_ops(s: &str) -> Vec<Op> {
    if s == "_" || s.is_empty() {
        return vec![];
    }
    s.split(',')
        .map(|t| {
            let p: Vec<&str> = t.split(':').collect();
            match p[0] {
                "i" => Op::Insert(unhex(p[1]), p[2].parse().unwrap()),
                "a" => Op::Add(unhex(p[1])),
                _ => panic!("bad op"),
            }
        })
        .collect()
}
pub fn fmt_kvs(kvs: &[(Vec<u8>, u64)]) -> String {
    if kvs.is_empty() {
        return "_".into();
    }
    kvs.iter().map(|(k, v)| format!("{}:{}", hex(k), v)).collect::<Vec<_>>().join(",")
}
pub fn map_ops(kvs: &[(Vec<u8>, u64)]) -> Vec<Op> {
    kvs.iter().map(|(k, v)| Op::Insert(k.clone(), *v)).collect()
}
pub fn set_ops(ks: &[Vec<u8>]) -> Vec<Op> {
    ks.iter().map(|k| Op::Add(k.clone())).collect()
}

pub fn fmt_err(e: &fst::Error) -> String {
    match e {
        fst::Error::Fst(fst::raw::Error::DuplicateKey { got }) => format!("dup:{}", hex(got)),
        fst::Error::Fst(fst::raw::Error::OutOfOrder { previous, got }) => format!("ooo:{}:{}", hex(previous), hex(got)),
        fst::Error::Io(e) => format!("io:{:?}", e.kind()),
        _ => "err".into(),
    }
}
fn fmt_res(r: &Result<(), fst::Error>) -> String {
    match r {
        Ok(()) => "ok".into(),
        Err(e) => fmt_err(e),
    }
}

/// A plain user streamer over a vector (not an FST).
pub struct VecStream {
    pub items: Vec<(Vec<u8>, u64)>,
    pub pos: usize,
}
impl<'a> Streamer<'a> for VecStream {
    type Item = (&'a [u8], Output);
    fn next(&'a mut self) -> Option<(&'a [u8], Output)> {
        if self.pos < self.items.len() {
            self.pos += 1;
            let (k, v) = &self.items[self.pos - 1];
            Some((&k[..], Output::new(*v)))
        } else {
            None
        }
    }
}
pub struct KeyStream {
    pub items: Vec<Vec<u8>>,
    pub pos: usize,
}
impl<'a> Streamer<'a> for KeyStream {
    type Item = &'a [u8];
    fn next(&'a mut self) -> Option<&'a [u8]> {
        if self.pos < self.items.len() {
            self.pos += 1;
            Some(&self.items[self.pos - 1][..])
        } else {
            None
        }
    }
}

pub struct BuildOut {
    pub results: Vec<String>,
    pub bytes: Option<Vec<u8>>,
    pub bw: String,
    pub stats: Option<[u64; 4]>,
}

fn read_stats(h: &std::sync::Arc<[std::sync::atomic::AtomicU64; 4]>) -> [u64; 4] {
    use std::sync::atomic::Ordering::SeqCst;
    [h[0].load(SeqCst), h[1].load(SeqCst), h[2].load(SeqCst), h[3].load(SeqCst)]
}

/// The node-cache geometry of `Builder::new` in the tree under test: the translator reads it from the source
/// (tools/srcparams.py -> src_registry_rows/cols) and tools/check exports it, so that re-tuning the cache in
/// /repo is not reported as a divergence between front ends with and without the geometry hook.
pub fn drows() -> usize {
    static V: std::sync::OnceLock<usize> = std::sync::OnceLock::new();
    *V.get_or_init(|| std::env::var("VERIF_REGISTRY_ROWS").ok().and_then(|s| s.parse().ok()).unwrap_or(10_000))
}
pub fn dcols() -> usize {
    static V: std::sync::OnceLock<usize> = std::sync::OnceLock::new();
    *V.get_or_init(|| std::env::var("VERIF_REGISTRY_COLS").ok().and_then(|s| s.parse().ok()).unwrap_or(2))
}

/// the translator could not locate the default geometry in the source (tools/check exports this): the
/// values behind drows()/dcols() are then the pinned revision's and say nothing about the tree under test
pub fn geometry_unknown() -> bool {
    static V: std::sync::OnceLock<bool> = std::sync::OnceLock::new();
    *V.get_or_init(|| std::env::var("VERIF_GEOMETRY_UNKNOWN").map(|s| s == "1").unwrap_or(false))
}

/// A case with the DEFAULT geometry is built by the public constructor, i.e. with whatever cache the tree
/// under test gives its builders (the hook is for the other geometries): comparisons between two builds of
/// the implementation never depend on what the translator read, and a wrong reading shows as a
/// difference from the model (bytes, cache counters), which knows the geometry only through the translator.
fn raw_builder(ty: u64, rows: usize, cols: usize) -> Builder<Vec<u8>> {
    if (rows, cols) == (drows(), dcols()) {
        Builder::new_type(Vec::new(), ty).unwrap()
    } else {
        crate::hooks::builder_with_cache(Vec::new(), ty, rows, cols)
    }
}

/// Several extend_iter / extend_stream calls on ONE builder: a batch stops at its first rejected item (that error is
/// the batch's result) and the builder is used further with the next batch.
pub fn exec_batches(fe: &str, ty: u64, rows: usize, cols: usize, batches: &[Vec<Op>]) -> BuildOut {
    let mut results = vec![];
    let mut bw = String::new();
    macro_rules! run {
        ($b:expr, $call:expr) => {{
            let mut b = $b;
            for batch in batches {
                let kvs: Vec<(Vec<u8>, u64)> = batch.iter().map(|o| (o.key().to_vec(), o.val())).collect();
                let ks: Vec<Vec<u8>> = batch.iter().map(|o| o.key().to_vec()).collect();
                let r = $call(&mut b, kvs, ks);
                results.push(fmt_res(&r));
                bw.push_str(&format!("{},", b.bytes_written()));
            }
            b.into_inner().ok()
        }};
    }
    let bytes = match fe {
        "raw_iter" => run!(raw_builder(ty, rows, cols), |b: &mut Builder<Vec<u8>>, kvs: Vec<(Vec<u8>, u64)>, _ks| b.extend_iter(kvs.into_iter().map(|(k, v)| (k, Output::new(v))))),
        "raw_stream" => run!(raw_builder(ty, rows, cols), |b: &mut Builder<Vec<u8>>, kvs: Vec<(Vec<u8>, u64)>, _ks| b.extend_stream(VecStream { items: kvs, pos: 0 })),
        "map_iter" => run!(fst::MapBuilder::new(Vec::new()).unwrap(), |b: &mut fst::MapBuilder<Vec<u8>>, kvs: Vec<(Vec<u8>, u64)>, _ks| b.extend_iter(kvs.into_iter())),
        "map_stream" => run!(fst::MapBuilder::new(Vec::new()).unwrap(), |b: &mut fst::MapBuilder<Vec<u8>>, kvs: Vec<(Vec<u8>, u64)>, _ks| b.extend_stream(MapVecStream { items: kvs, pos: 0 })),
        "set_iter" => run!(fst::SetBuilder::new(Vec::new()).unwrap(), |b: &mut fst::SetBuilder<Vec<u8>>, _kvs, ks: Vec<Vec<u8>>| b.extend_iter(ks.into_iter())),
        "set_stream" => run!(fst::SetBuilder::new(Vec::new()).unwrap(), |b: &mut fst::SetBuilder<Vec<u8>>, _kvs, ks: Vec<Vec<u8>>| b.extend_stream(KeyStream { items: ks, pos: 0 })),
        _ => panic!("front end for batches"),
    };
    BuildOut { results, bytes, bw, stats: None }
}

/// Run a build through the named front end. `sem` is calls | extend | fromiter.
pub fn exec_build(sem: &str, fe: &str, ty: u64, rows: usize, cols: usize, ops: &[Op]) -> BuildOut {
    let all_insert = ops.iter().all(|o| matches!(o, Op::Insert(..)));
    let all_add = ops.iter().all(|o| matches!(o, Op::Add(..)));
    let kvs: Vec<(Vec<u8>, u64)> = ops.iter().map(|o| (o.key().to_vec(), o.val())).collect();
    let ks: Vec<Vec<u8>> = ops.iter().map(|o| o.key().to_vec()).collect();
    match (sem, fe) {
        ("calls", "raw") => {
            let mut b = raw_builder(ty, rows, cols);
            let mut results = vec![];
            let mut bw = String::new();
            for o in ops {
                let r = match o {
                    Op::Insert(k, v) => b.insert(k, *v),
                    Op::Add(k) => b.add(k),
                };
                results.push(fmt_res(&r));
                bw.push_str(&format!("{},", b.bytes_written()));
            }
            let h = crate::hooks::stats_handle(&b);
            let bytes = b.into_inner().ok();
            let st = h.as_ref().map(read_stats);
            BuildOut { results, bytes, bw, stats: st }
        }
        ("calls", "map") => {
            assert!(all_insert);
            let mut b = fst::MapBuilder::new(Vec::new()).unwrap();
            let mut results = vec![];
            let mut bw = String::new();
            for (k, v) in &kvs {
                results.push(fmt_res(&b.insert(k, *v)));
                bw.push_str(&format!("{},", b.bytes_written()));
            }
            BuildOut { results, bytes: b.into_inner().ok(), bw, stats: None }
        }
        ("calls", "set") => {
            assert!(all_add);
            let mut b = fst::SetBuilder::new(Vec::new()).unwrap();
            let mut results = vec![];
            let mut bw = String::new();
            for k in &ks {
                results.push(fmt_res(&b.insert(k)));
                bw.push_str(&format!("{},", b.bytes_written()));
            }
            BuildOut { results, bytes: b.into_inner().ok(), bw, stats: None }
        }
        ("extend", "raw_iter") => {
            assert!(all_insert);
            let mut b = raw_builder(ty, rows, cols);
            let r = b.extend_iter(kvs.iter().map(|(k, v)| (k.clone(), Output::new(*v))));
            let bw = format!("{}", b.bytes_written());
            BuildOut { results: vec![fmt_res(&r)], bytes: b.into_inner().ok(), bw, stats: None }
        }
        ("extend", "raw_stream") => {
            assert!(all_insert);
            let mut b = raw_builder(ty, rows, cols);
            let r = b.extend_stream(VecStream { items: kvs.clone(), pos: 0 });
            let bw = format!("{}", b.bytes_written());
            BuildOut { results: vec![fmt_res(&r)], bytes: b.into_inner().ok(), bw, stats: None }
        }
        ("extend", "raw_loop") => {
            // the caller's own loop with `?`-style early exit
            let mut b = raw_builder(ty, rows, cols);
            let mut r = Ok(());
            for o in ops {
                r = match o {
                    Op::Insert(k, v) => b.insert(k, *v),
                    Op::Add(k) => b.add(k),
                };
                if r.is_err() {
                    break;
                }
            }
            let bw = format!("{}", b.bytes_written());
            let h = crate::hooks::stats_handle(&b);
            let bytes = b.into_inner().ok();
            BuildOut { results: vec![fmt_res(&r)], bytes, bw, stats: h.as_ref().map(read_stats) }
        }
        ("extend", "map_iter") => {
            assert!(all_insert);
            let mut b = fst::MapBuilder::new(Vec::new()).unwrap();
            let r = b.extend_iter(kvs.iter().map(|(k, v)| (k.clone(), *v)));
            let bw = format!("{}", b.bytes_written());
            BuildOut { results: vec![fmt_res(&r)], bytes: b.into_inner().ok(), bw, stats: None }
        }
        ("extend", "map_stream") => {
            assert!(all_insert);
            let mut b = fst::MapBuilder::new(Vec::new()).unwrap();
            let r = b.extend_stream(MapVecStream { items: kvs.clone(), pos: 0 });
            let bw = format!("{}", b.bytes_written());
            BuildOut { results: vec![fmt_res(&r)], bytes: b.into_inner().ok(), bw, stats: None }
        }
        ("extend", "set_iter") => {
            assert!(all_add);
            let mut b = fst::SetBuilder::new(Vec::new()).unwrap();
            let r = b.extend_iter(ks.iter().cloned());
            let bw = format!("{}", b.bytes_written());
            BuildOut { results: vec![fmt_res(&r)], bytes: b.into_inner().ok(), bw, stats: None }
        }
        ("extend", "set_stream") => {
            assert!(all_add);
            let mut b = fst::SetBuilder::new(Vec::new()).unwrap();
            let r = b.extend_stream(KeyStream { items: ks.clone(), pos: 0 });
            let bw = format!("{}", b.bytes_written());
            BuildOut { results: vec![fmt_res(&r)], bytes: b.into_inner().ok(), bw, stats: None }
        }
        ("fromiter", "map") => {
            assert!(all_insert);
            match fst::Map::from_iter(kvs.iter().map(|(k, v)| (k.clone(), *v))) {
                Ok(m) => BuildOut { results: vec!["ok".into()], bytes: Some(m.as_fst().as_bytes().to_vec()), bw: String::new(), stats: None },
                Err(e) => BuildOut { results: vec![fmt_err(&e)], bytes: None, bw: String::new(), stats: None },
            }
        }
        ("fromiter", "set") => {
            assert!(all_add);
            match fst::Set::from_iter(ks.iter().cloned()) {
                Ok(m) => BuildOut { results: vec!["ok".into()], bytes: Some(m.as_fst().as_bytes().to_vec()), bw: String::new(), stats: None },
                Err(e) => BuildOut { results: vec![fmt_err(&e)], bytes: None, bw: String::new(), stats: None },
            }
        }
        ("fromiter", "raw_map") => {
            assert!(all_insert);
            match Fst::from_iter_map(kvs.iter().map(|(k, v)| (k.clone(), *v))) {
                Ok(m) => BuildOut { results: vec!["ok".into()], bytes: Some(m.as_bytes().to_vec()), bw: String::new(), stats: None },
                Err(e) => BuildOut { results: vec![fmt_err(&e)], bytes: None, bw: String::new(), stats: None },
            }
        }
        ("fromiter", "raw_set") => {
            assert!(all_add);
            match Fst::from_iter_set(ks.iter().cloned()) {
                Ok(m) => BuildOut { results: vec!["ok".into()], bytes: Some(m.as_bytes().to_vec()), bw: String::new(), stats: None },
                Err(e) => BuildOut { results: vec![fmt_err(&e)], bytes: None, bw: String::new(), stats: None },
            }
        }
        _ => panic!("unknown front end {} {}", sem, fe),
    }
}

pub struct MapVecStream {
    pub items: Vec<(Vec<u8>, u64)>,
    pub pos: usize,
}
impl<'a> Streamer<'a> for MapVecStream {
    type Item = (&'a [u8], u64);
    fn next(&'a mut self) -> Option<(&'a [u8], u64)> {
        if self.pos < self.items.len() {
            self.pos += 1;
            let (k, v) = &self.items[self.pos - 1];
            Some((&k[..], *v))
        } else {
            None
        }
    }
}

/// Which (sem, fe) pairs can run a given op list under a given geometry.
pub fn applicable_front_ends(ops: &[Op], default_geometry: bool, ty: u64) -> Vec<(&'static str, &'static str)> {
    let all_insert = ops.iter().all(|o| matches!(o, Op::Insert(..)));
    let all_add = ops.iter().all(|o| matches!(o, Op::Add(..)));
    let mut v = vec![("extend", "raw_loop"), ("calls", "raw")];
    if all_insert {
        v.push(("extend", "raw_iter"));
        v.push(("extend", "raw_stream"));
    }
    if default_geometry && ty == 0 {
        if all_insert {
            v.extend([("calls", "map"), ("extend", "map_iter"), ("extend", "map_stream"), ("fromiter", "map"), ("fromiter", "raw_map")]);
        }
        if all_add {
            v.extend([("calls", "set"), ("extend", "set_iter"), ("extend", "set_stream"), ("fromiter", "set"), ("fromiter", "raw_set")]);
        }
    }
    v
}

pub fn build_case(sem: &str, fe: &str, ty: u64, rows: usize, cols: usize, ops: &[Op]) -> String {
    format!("build {} {} {} {} {} {}", sem, fe, ty, rows, cols, fmt_ops(ops))
}

/// Execute a `build` case: S = per-call results + content/len read back through the crate's
/// reader; M = bytes + bytes_written trace + cache counters (raw_loop only).
pub fn exec_build_case(rest: &str) -> String {
    let p: Vec<&str> = rest.split(' ').collect();
    let (sem, fe) = (p[0], p[1]);
    let ty: u64 = p[2].parse().unwrap();
    let rows: usize = p[3].parse().unwrap();
    let cols: usize = p[4].parse().unwrap();
    let (ops, out) = if sem == "batches" {
        let batches: Vec<Vec<Op>> = p[5].split('|').map(parse_ops).collect();
        let out = exec_batches(fe, ty, rows, cols, &batches);
        (batches.concat(), out)
    } else {
        let ops = parse_ops(p[5]);
        let out = exec_build(sem, fe, ty, rows, cols, &ops);
        (ops, out)
    };
    let mut x = String::from("ok");
    let s = match &out.bytes {
        Some(bytes) => match Fst::new(bytes.clone()) {
            Ok(f) => {
                let kvs = f.stream().into_byte_vec();
                if f.is_empty() != kvs.is_empty() {
                    x = format!("is_empty()={} but {} entries", f.is_empty(), kvs.len());
                }
                if f.fst_type() != ty {
                    x = format!("fst_type()={} want {}", f.fst_type(), ty);
                }
                let keys = f.stream().into_byte_keys();
                let vals = f.stream().into_values();
                if keys != kvs.iter().map(|kv| kv.0.clone()).collect::<Vec<_>>() || vals != kvs.iter().map(|kv| kv.1).collect::<Vec<_>>() {
                    x = "into_byte_keys/into_values disagree with into_byte_vec".into();
                }
                if let Err(e) = f.verify() {
                    x = format!("verify failed: {}", e);
                }
                // the public wrappers over the same bytes must give what this raw enumeration implies
                if x == "ok" {
                    if let Err(e) = crate::wrap::enum_wrappers(bytes, &f, &kvs) {
                        x = e;
                    }
                }
                if x == "ok" && sem != "batches" && ty == 0 && (rows, cols) == (drows(), dcols()) && ops.iter().map(|o| o.key().len() + 1).sum::<usize>() <= 8192 {
                    if let Err(e) = crate::wrap::builder_wrappers(fe, &ops, sem != "calls", bytes) {
                        x = e;
                    }
                }
                if x == "ok" && (rows, cols) == (drows(), dcols()) && out.results.iter().all(|r| r == "ok") && ops.iter().map(|o| o.key().len() + 1).sum::<usize>() <= 4096 {
                    if let Err(e) = crate::wrap::sink_routes(ty, &ops, bytes) {
                        x = e;
                    }
                }
                format!("r={};c={};len={}", out.results.join(","), fmt_kvs(&kvs), f.len())
            }
            Err(e) => format!("r={};openfail:{}", out.results.join(","), e),
        },
        None => format!("r={};nofst", out.results.join(",")),
    };
    let m = format!(
        "{};bw={};st={}",
        match &out.bytes {
            Some(b) => format!("bytes={}", hex(b)),
            None => "nofst".into(),
        },
        out.bw,
        match out.stats {
            Some(s) => format!("{},{},{},{}", s[0], s[1], s[2], s[3]),
            None => "na".into(),
        }
    );
    // E: how many occupied cache cells this build overwrote (hook H2; `na` without hooks). Which cell a full
    // bucket gives up is the cache's replacement policy: no property constrains it, so tools/check does not
    // count a byte difference from the model as a broken tie when the build evicted (see compare()).
    let e = match out.stats {
        Some(s) => s[2].to_string(),
        None => "na".into(),
    };
    format!("S:{}\tM:{}\tX:{}\tE:{}", s, m, x, e)
}

// ---------------------------------------------------------------------------------------
// key-set families
// ---------------------------------------------------------------------------------------

pub fn sort_dedup(mut ks: Vec<Vec<u8>>) -> Vec<Vec<u8>> {
    ks.sort();
    ks.dedup();
    ks
}

/// all strings over `alpha` of length <= maxlen, sorted
pub fn universe(alpha: &[u8], maxlen: usize) -> Vec<Vec<u8>> {
    let mut out = vec![vec![]];
    let mut cur = vec![vec![]];
    for _ in 0..maxlen {
        let mut nx = vec![];
        for s in &cur {
            for &c in alpha {
                let mut t: Vec<u8> = s.clone();
                t.push(c);
                nx.push(t);
            }
        }
        out.extend(nx.clone());
        cur = nx;
    }
    sort_dedup(out)
}

/// every subset of a universe (as sorted key lists)
pub fn subsets(u: &[Vec<u8>]) -> Vec<Vec<Vec<u8>>> {
    let n = u.len();
    (0..(1u32 << n)).map(|m| (0..n).filter(|i| m >> i & 1 == 1).map(|i| u[i].clone()).collect()).collect()
}

pub const BOUNDARY_VALUES: [u64; 20] = [
    0, 1, 2, 255, 256, 257, 65535, 65536, (1 << 24) - 1, 1 << 24, (1 << 32) - 1, 1 << 32, (1 << 40) - 1, 1 << 40,
    (1 << 48) - 1, 1 << 48, (1 << 56) - 1, 1 << 56, u64::MAX - 1, u64::MAX,
];

/// value patterns for a key list of length n
pub fn value_pattern(pat: usize, n: usize, rng: &mut Rng) -> Vec<u64> {
    match pat {
        0 => vec![0; n],
        1 => (0..n as u64).collect(),
        2 => (0..n as u64).rev().collect(),
        3 => vec![1u64 << (8 * rng.below(8)); n],
        4 => (0..n).map(|_| *rng.pick(&BOUNDARY_VALUES)).collect(),
        5 => (0..n as u64).map(|i| i * 1000 + 7).collect(),
        6 => (0..n).map(|_| rng.next()).collect(),
        7 => (0..n).map(|_| rng.below(4)).collect(),
        _ => vec![u64::MAX; n],
    }
}
pub const NPATTERNS: usize = 9;

/// strictly increasing values (C16)
pub fn increasing_values(n: usize, rng: &mut Rng, start_zero: bool) -> Vec<u64> {
    // magnitude classes, so that every packed output width 1..8 occurs on every node shape:
    // 0 small steps (as many equal widths as possible), 1 steps up to 2^48, 2 everything above 2^56
    // with small steps, 3 steps that spread the values over the whole u64 range
    let class = rng.below(4);
    let mut v = vec![];
    let mut cur: u64 = if start_zero { 0 } else { 1 + rng.below(5) };
    let spread = u64::MAX / (n as u64 + 2);
    for i in 0..n {
        v.push(cur);
        if class == 2 && i == 0 {
            cur = (1u64 << 56) + rng.below(1 << 20);
            continue;
        }
        let step = match class {
            1 => {
                let w = 8 * (1 + rng.below(6));
                1 + rng.below(1 << w)
            }
            3 => 1 + rng.below(spread),
            _ => match rng.below(6) {
                0 => 1,
                1 => 2,
                2 => 255,
                3 => 256,
                4 => 1 + rng.below(70000),
                _ => 1 + rng.below(1 << 33),
            },
        };
        cur = match cur.checked_add(step) {
            Some(c) => c,
            None => break,
        };
    }
    // never fewer values than keys: fall back to consecutive values if the range was exhausted
    while v.len() < n {
        let last = *v.last().unwrap();
        if last == u64::MAX {
            return (0..n as u64).map(|i| i + if start_zero { 0 } else { 1 }).collect();
        }
        v.push(last + 1);
    }
    v
}

/// boundary-directed key sets: fan-outs, long keys, shared suffixes
pub fn boundary_keysets(rng: &mut Rng, tier: Tier) -> Vec<(String, Vec<Vec<u8>>)> {
    let mut out: Vec<(String, Vec<Vec<u8>>)> = vec![];
    let fanouts: &[usize] = &[0, 1, 2, 3, 31, 32, 33, 34, 63, 64, 65, 127, 128, 255, 256];
    for &f in fanouts {
        // fan-out f at the root, bytes chosen from the top, the bottom, or spread
        for variant in 0..3 {
            let bytes: Vec<u8> = match variant {
                0 => (0..f).map(|i| i as u8).collect(),
                1 => (0..f).map(|i| (255 - i) as u8).collect(),
                _ => {
                    let mut all: Vec<u8> = (0..=255u8).collect();
                    for i in 0..all.len() {
                        let j = rng.range(i, all.len() - 1);
                        all.swap(i, j);
                    }
                    all.truncate(f);
                    all
                }
            };
            let root: Vec<Vec<u8>> = bytes.iter().map(|&b| vec![b]).collect();
            out.push((format!("fanout{}_root_v{}", f, variant), sort_dedup(root.clone())));
            // at depth 1, with the parent final or not, and with children that have children
            let mut d1: Vec<Vec<u8>> = bytes.iter().map(|&b| vec![b'k', b]).collect();
            out.push((format!("fanout{}_depth1_v{}", f, variant), sort_dedup(d1.clone())));
            d1.push(vec![b'k']);
            d1.push(vec![]);
            out.push((format!("fanout{}_depth1_final_v{}", f, variant), sort_dedup(d1.clone())));
            let mut d2: Vec<Vec<u8>> = bytes.iter().map(|&b| vec![b, b'x', b'y']).collect();
            d2.extend(bytes.iter().take(3).map(|&b| vec![b, b'x']));
            out.push((format!("fanout{}_tails_v{}", f, variant), sort_dedup(d2)));
        }
    }
    // twins: two (three) prefixes with IDENTICAL wide sub-automata, so that sharing of wide nodes is observable
    for &f in &[2usize, 32, 33, 40, 64, 200, 256] {
        let bytes: Vec<u8> = (0..f).map(|i| (i as u8).wrapping_mul(5).wrapping_add(3)).collect::<std::collections::BTreeSet<u8>>().into_iter().collect();
        let mut ks = vec![];
        for p in [b'a', b'b', 0xEE] {
            for &c in &bytes {
                ks.push(vec![p, c]);
                if c % 7 == 0 {
                    ks.push(vec![p, c, b'!']);
                }
            }
        }
        out.push((format!("twins{}", f), sort_dedup(ks)));
    }
    // twins whose children are all leaves, after one filler key: under a one-cell cache the wide node
    // is stored over the filler's node and looked up again with NOTHING compiled in between
    for &f in &[3usize, 33, 40, 256] {
        let bytes: Vec<u8> = (0..f).map(|i| (i as u8).wrapping_mul(5).wrapping_add(3)).collect::<std::collections::BTreeSet<u8>>().into_iter().collect();
        let mut ks = vec![vec![1u8, b'a']];
        for p in [b'a', b'b'] {
            for &c in &bytes {
                ks.push(vec![p, c]);
            }
        }
        out.push((format!("twinsfill{}", f), sort_dedup(ks)));
    }
    // consecutive cache occupants P, R and then a node whose transitions are P's followed by R's
    out.push(("evictconcat_1".to_string(), sort_dedup(vec![b"1a".to_vec(), b"2b".to_vec(), b"3a".to_vec(), b"3b".to_vec()])));
    out.push(("evictconcat_2".to_string(), sort_dedup(vec![b"1a".to_vec(), b"1b".to_vec(), b"2c".to_vec(), b"3a".to_vec(), b"3b".to_vec(), b"3c".to_vec()])));
    out.push(("evictconcat_3".to_string(), sort_dedup(vec![b"0z".to_vec(), b"1a".to_vec(), b"2b".to_vec(), b"2c".to_vec(), b"3a".to_vec(), b"3b".to_vec(), b"3c".to_vec(), b"4a".to_vec()])));
    // long keys (one-trans-next chains), common and uncommon bytes
    for &l in &[1usize, 2, 50, 300, 1000] {
        out.push((format!("long{}_common", l), vec![vec![b'e'; l]]));
        out.push((format!("long{}_uncommon", l), vec![vec![0xF7; l]]));
        out.push((format!("long{}_pair", l), sort_dedup(vec![vec![b'a'; l], { let mut v = vec![b'a'; l]; v.push(b'b'); v }, vec![0x00; l]])));
    }
    // suffix sharing
    let mut sfx = vec![];
    for p in ["a", "b", "ab", "ba", "c", ""] {
        for s in ["ing", "ed", "s", "tion", ""] {
            sfx.push(format!("{}{}", p, s).into_bytes());
        }
    }
    out.push(("suffix_family".into(), sort_dedup(sfx)));
    // many keys sharing one long suffix => many cache hits
    let n = if tier == Tier::Quick { 40 } else { 200 };
    out.push(("shared_tail".into(), sort_dedup((0..n).map(|i| format!("{:03}-common-tail", i).into_bytes()).collect())));
    out
}

pub fn random_keyset(rng: &mut Rng, max_keys: usize, max_len: usize) -> Vec<Vec<u8>> {
    let n = rng.range(0, max_keys);
    let alpha: Vec<u8> = match rng.below(5) {
        0 => vec![b'a', b'b'],
        1 => vec![b'a', b'b', b'c', b'd', b'e', b't', b's'],
        2 => vec![0x00, 0xFF, b'a'],
        3 => (0..=255u8).collect(),
        _ => (b'a'..=b'z').collect(),
    };
    let mut ks = vec![];
    for _ in 0..n {
        let l = rng.range(0, max_len);
        // with some probability extend an existing key (shared prefixes)
        let mut k: Vec<u8> = if !ks.is_empty() && rng.chance(1, 3) {
            let base: &Vec<u8> = rng.pick(&ks);
            let cut = rng.range(0, base.len());
            base[..cut].to_vec()
        } else {
            vec![]
        };
        for _ in 0..l {
            k.push(*rng.pick(&alpha));
        }
        // shared suffixes
        if rng.chance(1, 4) {
            k.extend_from_slice(b"ing");
        }
        ks.push(k);
    }
    sort_dedup(ks)
}

pub fn with_values(ks: &[Vec<u8>], vals: &[u64]) -> Vec<(Vec<u8>, u64)> {
    ks.iter().cloned().zip(vals.iter().cloned()).collect()
}

/// read the words of a corpus file shipped in /repo/data
pub fn corpus(name: &str, limit: usize) -> Vec<Vec<u8>> {
    let repo = std::env::var("VERIF_REPO").unwrap_or_else(|_| "/repo".to_string());
    let txt = std::fs::read(format!("{}/data/{}", repo, name)).unwrap_or_default();
    let ks: Vec<Vec<u8>> = txt.split(|&b| b == b'\n').filter(|l| !l.is_empty()).take(limit).map(|l| l.to_vec()).collect();
    sort_dedup(ks)
}

/// probes for a key set: every key, every proper prefix, one-byte extensions, substitutions, random
pub fn probes_for(ks: &[Vec<u8>], rng: &mut Rng, exhaustive_ext: bool) -> Vec<Vec<u8>> {
    let mut ps: Vec<Vec<u8>> = vec![vec![]];
    for k in ks {
        ps.push(k.clone());
        for i in 0..k.len() {
            ps.push(k[..i].to_vec());
        }
        let exts: Vec<u8> = if exhaustive_ext { (0..=255u8).collect() } else { vec![0, b'a', 0xFF, rng.next() as u8] };
        for b in exts {
            let mut e = k.clone();
            e.push(b);
            ps.push(e);
        }
        for i in 0..k.len() {
            // every other byte value at every position for small sets (a reader shortcut may confuse one
            // specific byte, e.g. the byte that happens to precede a node's state byte), a few otherwise
            let subs: Vec<u8> = if exhaustive_ext && k.len() <= 6 { (1..=255u8).collect() } else { vec![1u8, 255, rng.next() as u8] };
            for d in subs {
                let mut e = k.clone();
                e[i] = e[i].wrapping_add(d);
                ps.push(e);
            }
        }
    }
    for _ in 0..8 {
        let l = rng.range(0, 5);
        ps.push((0..l).map(|_| rng.next() as u8).collect());
    }
    sort_dedup(ps)
}
