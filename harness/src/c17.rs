//! C17 — Levenshtein automaton.  The DFA inside `fst::automaton::Levenshtein` is private; it is
//! observed completely through the public `Automaton` impl, whose state is `Option<usize>`:
//! `accept(&Some(i), b)` is `states[i].next[b]` and panics exactly when `i >= states.len()`,
//! `is_match(&Some(i))` is `states[i].is_match`.  The canonical dump of that table (state numbers
//! included) is compared with the dump of the DFA built by the Coq model (M); verdicts are compared
//! with the Coq edit-distance specification (S).
use crate::common::*;
use fst::automaton::{Automaton, Levenshtein, LevenshteinError};
use fst::{IntoStreamer, Streamer};
use std::panic;

pub struct P;

/// a, é, ê (share C3), ☃, ☄ (share E2 98), 😀, 😁 (share F0 9F 98), 𝄞 (shares F0 only)
const ALPHA8: [char; 8] = ['a', 'é', 'ê', '☃', '☄', '😀', '😁', '𝄞'];
const BOUNDARY: [u32; 20] = [
    0x00, 0x41, 0x7F, 0x80, 0x7FF, 0x800, 0xFFF, 0x1000, 0xCFFF, 0xD000, 0xD7FF, 0xE000, 0xFFFF, 0x10000, 0x3FFFF, 0x40000,
    0xFFFFF, 0x100000, 0x10FFFF, 0xE9,
];
const DEFAULT_LIMIT: usize = 10_000;

fn hexs(s: &str) -> String {
    hex(s.as_bytes())
}
fn chars_hex(cs: &[char]) -> String {
    cs.iter().map(|c| hexs(&c.to_string())).collect::<Vec<_>>().join(",")
}

/// Everything observable about the private DFA.
pub struct Observed {
    pub is_match: Vec<bool>,
    pub next: Vec<[Option<usize>; 256]>,
    pub x: String,
}

pub fn observe(lev: &Levenshtein) -> Observed {
    let mut o = Observed { is_match: vec![], next: vec![], x: "ok".to_string() };
    if lev.start() != Some(0) {
        o.x = format!("start() = {:?}", lev.start());
    }
    if lev.can_match(&None) || lev.is_match(&None) || lev.accept(&None, 0).is_some() {
        o.x = "the None state is not dead".to_string();
    }
    let mut i = 0usize;
    loop {
        // states[i] panics (index out of bounds) exactly when i == states.len()
        let r = panic::catch_unwind(panic::AssertUnwindSafe(|| {
            let mut t = [None; 256];
            for b in 0..256usize {
                t[b] = lev.accept(&Some(i), b as u8);
            }
            (t, lev.is_match(&Some(i)))
        }));
        match r {
            Ok((t, m)) => {
                if !lev.can_match(&Some(i)) {
                    o.x = format!("can_match(Some({})) is false", i);
                }
                o.next.push(t);
                o.is_match.push(m);
            }
            Err(_) => break,
        }
        i += 1;
        if i > 5_000_000 {
            o.x = "state probing did not stop".to_string();
            break;
        }
    }
    // every target must be an existing state
    let n = o.next.len();
    for s in 0..n {
        for b in 0..256 {
            if let Some(t) = o.next[s][b] {
                if t >= n {
                    o.x = format!("state {} byte {:02x} leads to {} >= {} states", s, b, t, n);
                }
            }
        }
    }
    o
}

pub fn dump(o: &Observed) -> String {
    let mut s = String::new();
    for i in 0..o.next.len() {
        if i > 0 {
            s.push(';');
        }
        s.push(if o.is_match[i] { '1' } else { '0' });
        s.push('|');
        let t = &o.next[i];
        let mut first = true;
        let mut b = 0usize;
        while b < 256 {
            if let Some(tg) = t[b] {
                let lo = b;
                while b + 1 < 256 && t[b + 1] == Some(tg) {
                    b += 1;
                }
                if !first {
                    s.push(',');
                }
                first = false;
                s.push_str(&format!("{:02x}-{:02x}>{}", lo, b, tg));
            }
            b += 1;
        }
    }
    s
}

pub fn fnv64(s: &str) -> String {
    let mut h: u64 = 0xcbf29ce484222325;
    for &c in s.as_bytes() {
        h = (h ^ c as u64).wrapping_mul(0x100000001b3);
    }
    format!("{:016x}", h)
}

fn digest(o: &Observed) -> String {
    format!("n={} fnv={}", o.next.len(), fnv64(&dump(o)))
}

fn too_many(e: &LevenshteinError) -> String {
    match e {
        LevenshteinError::TooManyStates(l) => format!("TooManyStates({})", l),
    }
}

/// all strings of <= maxlen characters over alpha: by length, then lexicographic in alphabet order
fn all_keys(alpha: &[char], maxlen: usize) -> Vec<String> {
    let mut out = vec![];
    let mut level = vec![String::new()];
    out.extend(level.iter().cloned());
    for _ in 0..maxlen {
        let mut nx = Vec::with_capacity(level.len() * alpha.len());
        for &c in alpha {
            for k in &level {
                let mut t = String::new();
                t.push(c);
                t.push_str(k);
                nx.push(t);
            }
        }
        out.extend(nx.iter().cloned());
        level = nx;
    }
    out
}

fn run(lev: &Levenshtein, k: &[u8]) -> bool {
    let mut st = lev.start();
    for &b in k {
        st = lev.accept(&st, b);
    }
    lev.is_match(&st)
}

fn random_char(rng: &mut Rng) -> char {
    match rng.below(10) {
        0..=2 => *rng.pick(&ALPHA8),
        3..=4 => (b'a' + rng.below(4) as u8) as char,
        5..=6 => std::char::from_u32(*rng.pick(&BOUNDARY)).unwrap(),
        7 => {
            // neighbours sharing all but the last byte with a boundary / alphabet character
            let base = if rng.chance(1, 2) { *rng.pick(&BOUNDARY) } else { *rng.pick(&ALPHA8) as u32 };
            let c = (base & !0x3F) | rng.below(64) as u32;
            std::char::from_u32(c).unwrap_or('é')
        }
        _ => loop {
            let hi = match rng.below(4) {
                0 => 0x80,
                1 => 0x800,
                2 => 0x10000,
                _ => 0x110000,
            };
            if let Some(c) = std::char::from_u32(rng.below(hi) as u32) {
                break c;
            }
        },
    }
}

fn random_string(rng: &mut Rng, alpha: &[char], lo: usize, hi: usize) -> String {
    let n = rng.range(lo, hi);
    (0..n).map(|_| *rng.pick(alpha)).collect()
}

fn state_count(q: &str, d: u32) -> Option<usize> {
    Levenshtein::new_with_limit(q, d, usize::MAX).ok().map(|l| observe(&l).next.len())
}

impl Prop for P {
    fn generate(&self, tier: Tier, rng: &mut Rng, stats: &mut Stats) -> Vec<String> {
        let mut cases = vec![];
        // the historical failing inputs run first.  main.rs loads corpus/C17.txt relative to the output
        // directory; when that did not find the file, take it relative to the executable / the cwd.
        if !stats.counters.contains_key("corpus_cases") {
            let mut roots = vec![std::path::PathBuf::from(".")];
            if let Ok(exe) = std::env::current_exe() {
                if let Some(r) = exe.ancestors().nth(4) {
                    roots.push(r.to_path_buf());
                }
            }
            for r in roots {
                if let Ok(txt) = std::fs::read_to_string(r.join("corpus").join("C17.txt")) {
                    for l in txt.lines() {
                        if !l.is_empty() && !l.starts_with('#') {
                            cases.push(l.to_string());
                            stats.bump("corpus_cases");
                        }
                    }
                    break;
                }
            }
        }
        let a8 = chars_hex(&ALPHA8);
        // ---- exhaustive small scope: every (q, d, k) over the 8-character alphabet; one line per (q, d)
        let (qmax, kmax) = match tier {
            Tier::Quick | Tier::Wide => (3, 3),
            Tier::Thorough => (3, 4),
        };
        let queries = all_keys(&ALPHA8, qmax);
        let nkeys3 = all_keys(&ALPHA8, 3).len() as u64;
        let nkeys4 = all_keys(&ALPHA8, 4).len() as u64;
        for q in &queries {
            // quick: keys of <= 4 characters for |q| <= 2, of <= 3 characters for |q| = 3
            let kl = if kmax == 4 || q.chars().count() <= 2 { 4 } else { 3 };
            for d in 0..=2 {
                cases.push(format!("matchall {} {} {} {}", hexs(q), d, kl, a8));
                stats.bump("matchall_exhaustive_lines");
                stats.add("matchall_exhaustive_qdk_triples", if kl == 4 { nkeys4 } else { nkeys3 });
            }
        }
        // ---- a second alphabet of characters that differ ONLY in their lead byte within one lead-byte class of the
        // generic mismatch sequences (C2-DF, E1-EC, F1-F3) or only in one continuation byte: é C3A9 / © C2A9 / Щ D0A9,
        // ☃ E29883 / ᘃ E19883 / ☂ E29882, U+5F600 F19F9880 / U+9F600 F29F9880, plus 'a'
        let adv: [char; 9] = ['a', 'é', '©', 'Щ', '☃', 'ᘃ', '☂', '\u{5F600}', '\u{9F600}'];
        let adv_hex = chars_hex(&adv);
        for q in all_keys(&adv, 2) {
            for d in 0..=2 {
                cases.push(format!("matchall {} {} {} {}", hexs(&q), d, 3, adv_hex));
                stats.bump("matchall_lead_byte_class_lines");
            }
        }
        // ---- a third alphabet: characters whose continuation bytes sit at the ends of the continuation range
        // (0x80 and 0xBF) at every position, next to siblings sharing their prefix: é C3A9 / ÿ C3BF / À C380 / ¿ C2BF,
        // ☃ E29883 / U+263F E298BF / U+2600 E29880 / U+2FF0 E2BFB0, 😀 F09F9880 / U+1F63F F09F98BF, plus 'a'
        let edge: [char; 11] = ['a', 'é', 'ÿ', 'À', '¿', '☃', '\u{263F}', '\u{2600}', '\u{2FF0}', '😀', '\u{1F63F}'];
        let edge_hex = chars_hex(&edge);
        for q in all_keys(&edge, 2) {
            for d in 0..=2 {
                cases.push(format!("matchall {} {} {} {}", hexs(&q), d, if q.chars().count() <= 1 { 3 } else { 2 }, edge_hex));
                stats.bump("matchall_continuation_edge_lines");
            }
        }
        if tier == Tier::Thorough {
            // |q| = 4 against all keys of <= 3 characters, and a sample of |q| = 4 against keys of <= 4
            for q in all_keys(&ALPHA8, 4).iter().filter(|q| q.chars().count() == 4) {
                for d in 0..=2 {
                    let kl = if rng.chance(1, 40) { 4 } else { 3 };
                    cases.push(format!("matchall {} {} {} {}", hexs(q), d, kl, a8));
                    stats.bump("matchall_q4_lines");
                }
            }
        }
        // ---- the full DFA table, written out, for the smallest queries
        for q in all_keys(&ALPHA8, 1) {
            for d in 0..=2 {
                cases.push(format!("dfadump {} {} {}", hexs(&q), d, DEFAULT_LIMIT));
                stats.bump("dfadump_lines");
            }
        }
        // ---- state limits from 1 upward and around the actual number of states
        let nlim = match tier {
            Tier::Quick => 120,
            Tier::Wide => 200,
            Tier::Thorough => 400,
        };
        for j in 0..nlim {
            let q = if j < 12 { queries[j * 7 % queries.len()].clone() } else { random_string(rng, &ALPHA8, 0, 3) };
            let d = rng.below(3) as u32;
            let n = state_count(&q, d).unwrap_or(1);
            let mut lims: Vec<u64> = vec![0, 1, 2, 3, 18, 19, 20, n as u64 - 1, n as u64, n as u64 + 1, u64::MAX];
            for _ in 0..3 {
                lims.push(rng.below(n as u64 + 4));
            }
            lims.sort();
            lims.dedup();
            for l in lims {
                cases.push(format!("dfa {} {} {}", hexs(&q), d, l));
                stats.bump(if (l as u128) < n as u128 { "limit_below_state_count" } else { "limit_at_or_above_state_count" });
            }
        }
        // ---- random longer queries over mixed alphabets (ASCII, boundary scalars, neighbours), keys over the
        //      query's characters plus strangers
        let nrand = match tier {
            Tier::Quick => 600,
            Tier::Wide => 1200,
            Tier::Thorough => 4000,
        };
        for _ in 0..nrand {
            let na = rng.range(2, 6);
            let alpha: Vec<char> = {
                let mut a: Vec<char> = vec![];
                while a.len() < na {
                    let c = random_char(rng);
                    if !a.contains(&c) {
                        a.push(c);
                    }
                }
                a
            };
            let nq = rng.range(1, na);
            let q = random_string(rng, &alpha[..nq], 1, 6);
            let d = rng.below(3) as u32;
            match state_count(&q, d) {
                Some(n) if n <= DEFAULT_LIMIT => {
                    let maxlen = if alpha.len() <= 3 { 4 } else { 3 };
                    cases.push(format!("matchall {} {} {} {}", hexs(&q), d, maxlen, chars_hex(&alpha)));
                    stats.bump("matchall_random_lines");
                    // long keys near the query: mutate q
                    for _ in 0..4 {
                        let mut k: Vec<char> = q.chars().collect();
                        for _ in 0..rng.range(0, 3) {
                            let pos = rng.range(0, k.len());
                            match rng.below(3) {
                                0 => k.insert(pos, *rng.pick(&alpha)),
                                1 => {
                                    if pos < k.len() {
                                        k.remove(pos);
                                    }
                                }
                                _ => {
                                    if pos < k.len() {
                                        k[pos] = *rng.pick(&alpha);
                                    }
                                }
                            }
                        }
                        let ks: String = k.into_iter().collect();
                        cases.push(format!("match {} {} {}", hexs(&q), d, hexs(&ks)));
                        stats.bump("match_mutated_key");
                    }
                }
                _ => {
                    // too big for the default limit: both sides must say so
                    cases.push(format!("match {} {} {}", hexs(&q), d, hexs(&q)));
                    stats.bump("match_over_default_limit");
                }
            }
        }
        // ---- single keys with the per-byte state trace, including byte strings that are not UTF-8
        let ntrace = match tier {
            Tier::Quick => 1500,
            Tier::Wide => 3000,
            Tier::Thorough => 8000,
        };
        for _ in 0..ntrace {
            let q = random_string(rng, &ALPHA8, 0, 3);
            let d = rng.below(3) as u32;
            let mut k = random_string(rng, &ALPHA8, 0, 5).into_bytes();
            let malformed = rng.chance(1, 3);
            if malformed && !k.is_empty() {
                match rng.below(4) {
                    0 => {
                        let l = rng.range(0, k.len() - 1);
                        k.truncate(l + 1);
                        if rng.chance(1, 2) {
                            k.pop();
                        }
                    }
                    1 => {
                        let p = rng.range(0, k.len() - 1);
                        k[p] = rng.below(256) as u8;
                    }
                    2 => {
                        let p = rng.range(0, k.len());
                        k.insert(p, *rng.pick(&[0x80u8, 0xBF, 0xC0, 0xC1, 0xF5, 0xFF, 0xED, 0xA0]));
                    }
                    _ => {
                        let p = rng.range(0, k.len() - 1);
                        k.remove(p);
                    }
                }
            }
            stats.bump(if std::str::from_utf8(&k).is_ok() { "match_valid_key" } else { "match_invalid_utf8_key" });
            cases.push(format!("match {} {} {}", hexs(&q), d, hex(&k)));
        }
        // ---- searching real sets and maps
        let nsearch = match tier {
            Tier::Quick => 600,
            Tier::Wide => 1500,
            Tier::Thorough => 4000,
        };
        for j in 0..nsearch {
            let alpha: Vec<char> = if rng.chance(1, 2) { ALPHA8.to_vec() } else { (0..5).map(|_| random_char(rng)).collect() };
            let q = random_string(rng, &alpha, 0, 4);
            let d = rng.below(3) as u32;
            if state_count(&q, d).map(|n| n > DEFAULT_LIMIT).unwrap_or(true) {
                continue;
            }
            let nk = rng.range(0, 40);
            let mut keys: Vec<Vec<u8>> = (0..nk).map(|_| random_string(rng, &alpha, 0, 5).into_bytes()).collect();
            keys.push(q.clone().into_bytes());
            keys.sort();
            keys.dedup();
            let kind = if j % 2 == 0 { "set" } else { "map" };
            cases.push(format!("search {} {} {} {}", kind, hexs(&q), d, keys.iter().map(|k| hex(k)).collect::<Vec<_>>().join(",")));
            stats.bump(if kind == "set" { "search_set" } else { "search_map" });
        }
        cases
    }

    fn nontrivial(&self, case: &str) -> bool {
        // the query is non-empty and contains at least one multi-byte character
        let mut it = case.split(' ');
        let kind = it.next().unwrap_or("");
        let q = if kind == "search" { it.nth(1) } else { it.next() };
        match q {
            Some(q) => unhex(q).iter().any(|&b| b >= 0x80),
            None => false,
        }
    }

    fn execute(&self, case: &str) -> String {
        let t: Vec<&str> = case.split(' ').collect();
        let qs = |h: &str| String::from_utf8(unhex(h)).expect("query is UTF-8");
        match t[0] {
            "dfa" | "dfadump" => {
                let q = qs(t[1]);
                let d: u32 = t[2].parse().unwrap();
                let lim: u64 = t[3].parse().unwrap();
                match Levenshtein::new_with_limit(&q, d, lim as usize) {
                    Ok(lev) => {
                        let o = observe(&lev);
                        format!("S:built\tM:{}\tX:{}", if t[0] == "dfa" { digest(&o) } else { dump(&o) }, o.x)
                    }
                    Err(e) => format!("S:toomany\tM:{}", too_many(&e)),
                }
            }
            "match" => {
                let q = qs(t[1]);
                let d: u32 = t[2].parse().unwrap();
                let k = unhex(t[3]);
                match Levenshtein::new(&q, d) {
                    Ok(lev) => {
                        let mut st = lev.start();
                        let mut tr = vec![];
                        for &b in &k {
                            st = lev.accept(&st, b);
                            tr.push(match st {
                                Some(i) => i.to_string(),
                                None => "-".to_string(),
                            });
                        }
                        let v = lev.is_match(&st);
                        let s = if std::str::from_utf8(&k).is_ok() { if v { "1" } else { "0" } } else { "invalid" };
                        format!("S:{}\tM:v={};{}", s, v as u8, tr.join(","))
                    }
                    Err(e) => format!("S:toomany\tM:{}", too_many(&e)),
                }
            }
            "matchall" => {
                let q = qs(t[1]);
                let d: u32 = t[2].parse().unwrap();
                let maxlen: usize = t[3].parse().unwrap();
                let alpha: Vec<char> = t[4].split(',').map(|h| qs(h).chars().next().unwrap()).collect();
                match Levenshtein::new(&q, d) {
                    Ok(lev) => {
                        let o = observe(&lev);
                        let bits: String = all_keys(&alpha, maxlen).iter().map(|k| if run(&lev, k.as_bytes()) { '1' } else { '0' }).collect();
                        format!("S:{}\tM:{};{}\tX:{}", bits, digest(&o), bits, o.x)
                    }
                    Err(e) => format!("S:toomany\tM:{}", too_many(&e)),
                }
            }
            "search" => {
                let q = qs(t[2]);
                let d: u32 = t[3].parse().unwrap();
                let keys: Vec<Vec<u8>> = if t.len() > 4 && !t[4].is_empty() { t[4].split(',').map(unhex).collect() } else { vec![] };
                match Levenshtein::new(&q, d) {
                    Ok(lev) => {
                        let mut got = vec![];
                        if t[1] == "set" {
                            let mut b = fst::SetBuilder::memory();
                            for k in &keys {
                                b.insert(k).unwrap();
                            }
                            let set = fst::Set::new(b.into_inner().unwrap()).unwrap();
                            let mut s = set.search(&lev).into_stream();
                            while let Some(k) = s.next() {
                                got.push(hex(k));
                            }
                        } else {
                            let mut b = fst::MapBuilder::memory();
                            for (i, k) in keys.iter().enumerate() {
                                b.insert(k, i as u64).unwrap();
                            }
                            let map = fst::Map::new(b.into_inner().unwrap()).unwrap();
                            let mut s = map.search(&lev).into_stream();
                            while let Some((k, v)) = s.next() {
                                got.push(format!("{}={}", hex(k), v));
                            }
                        }
                        let r = got.join(",");
                        format!("S:{}\tM:{}", r, r)
                    }
                    Err(e) => format!("S:toomany\tM:{}", too_many(&e)),
                }
            }
            _ => "S:BADCASE\tM:BADCASE".to_string(),
        }
    }

    fn extras(&self, _tier: Tier, rng: &mut Rng, _stats: &mut Stats) -> Vec<(String, bool, String)> {
        // the model of the crate utf8-ranges: the two shapes of Utf8Sequences::new used by levenshtein.rs
        use utf8_ranges::Utf8Sequences;
        let want_all: Vec<Vec<(u8, u8)>> = vec![
            vec![(0x00, 0x7F)],
            vec![(0xC2, 0xDF), (0x80, 0xBF)],
            vec![(0xE0, 0xE0), (0xA0, 0xBF), (0x80, 0xBF)],
            vec![(0xE1, 0xEC), (0x80, 0xBF), (0x80, 0xBF)],
            vec![(0xED, 0xED), (0x80, 0x9F), (0x80, 0xBF)],
            vec![(0xEE, 0xEF), (0x80, 0xBF), (0x80, 0xBF)],
            vec![(0xF0, 0xF0), (0x90, 0xBF), (0x80, 0xBF), (0x80, 0xBF)],
            vec![(0xF1, 0xF3), (0x80, 0xBF), (0x80, 0xBF), (0x80, 0xBF)],
            vec![(0xF4, 0xF4), (0x80, 0x8F), (0x80, 0xBF), (0x80, 0xBF)],
        ];
        let shape = |lo: char, hi: char| -> Vec<Vec<(u8, u8)>> {
            Utf8Sequences::new(lo, hi).map(|s| s.as_slice().iter().map(|r| (r.start, r.end)).collect()).collect()
        };
        let mut out = vec![];
        let got_all = shape('\0', '\u{10FFFF}');
        out.push((
            "utf8_ranges_full_range_is_the_modelled_list".to_string(),
            got_all == want_all,
            format!("{} sequences from Utf8Sequences::new('\\0','\\u{{10FFFF}}')", got_all.len()),
        ));
        let mut bad = None;
        let mut n = 0u64;
        let mut check = |c: char| {
            let mut buf = [0u8; 4];
            let enc: Vec<(u8, u8)> = c.encode_utf8(&mut buf).as_bytes().iter().map(|&b| (b, b)).collect();
            if shape(c, c) != vec![enc] {
                bad = Some(c as u32);
            }
            n += 1;
        };
        for &c in ALPHA8.iter() {
            check(c);
        }
        for &b in BOUNDARY.iter() {
            check(std::char::from_u32(b).unwrap());
        }
        // every scalar value up to U+FFFF in steps, the plane boundaries, and random ones
        for u in (0..0x110000u32).step_by(61) {
            if let Some(c) = std::char::from_u32(u) {
                check(c);
            }
        }
        for _ in 0..20000 {
            check(random_char(rng));
        }
        out.push((
            "utf8_ranges_single_char_is_its_encoding".to_string(),
            bad.is_none(),
            match bad {
                None => format!("{} scalar values checked", n),
                Some(c) => format!("Utf8Sequences::new(c,c) differs from the UTF-8 encoding for U+{:04X}", c),
            },
        ));
        out
    }
}
