//! C11 — a failing sink surfaces as Err(Io) from the builder call in progress.
//! Case format and machinery: see c07.rs. For every key list the number W of write calls (checksum
//! write included) is measured against the recording sink; then the fault is injected at every
//! index 0..W-1 (index 0 and 1 fail inside the constructor), and into the final flush.
//!
//! Family `cont` (a caller that keeps going after an error; deterministic, independent of the seed):
//!   cont \t frontend \t keys \t k=<index>/<W> \t at=<call>:<j>of<m> \t <fault> \t <calls>
//! One TRANSIENT fault (fother = Err(Other), z = Ok(0)) at write call k, everything else accepted.
//! The caller ignores the error, issues the remaining add/insert calls and into_inner()/finish(),
//! each under catch_unwind. `at` says which write of which API call the fault hits in the in-memory
//! schedule (new | i<n> = n-th key | fin; j-th of m write_all chunks; for fin the checksum write is
//! the last one). S = finished=no | finished=yes | finished=yes-but-incomplete; the specification
//! says finished=no whenever the fault was consumed (k < W). The last field carries the write_all chunks
//! of the in-memory build (as in the other families); the model (Writer.run_session_cont) says what
//! every call returns: after a failed write the builder refuses every later call with Err(Io(Other))
//! and writes nothing more. M = per-call results | result of into_inner | sink length | sink digest.
use crate::c07::*;
use crate::common::*;
use std::io::ErrorKind;

pub struct P;

fn fault_kinds(rng: &mut Rng) -> [Resp; 4] {
    let third = match rng.below(6) {
        0 => ErrorKind::ConnectionReset,
        1 => ErrorKind::TimedOut,
        2 => ErrorKind::WriteZero,
        3 => ErrorKind::UnexpectedEof,
        _ => ErrorKind::PermissionDenied,
    };
    [Resp::Fail(ErrorKind::Other), Resp::Fail(ErrorKind::BrokenPipe), Resp::Fail(third), Resp::Zero]
}

/// the first fault of a script and the error kind the caller must see for it
fn expected_kind(c: &Case) -> Option<ErrorKind> {
    for r in &c.script {
        match r {
            Resp::Zero => return Some(ErrorKind::WriteZero),
            Resp::Fail(k) if *k != ErrorKind::Interrupted => return Some(*k),
            _ => {}
        }
    }
    match c.flush {
        FlushResp::Fail(k) => Some(k),
        FlushResp::Ok => None,
    }
}

/// which write of which API call is write call number k of the in-memory build
fn locate(r: &Reference, k: usize) -> String {
    let mut i = 0;
    let n = r.calls.len();
    for (ci, c) in r.calls.iter().enumerate() {
        let m = if ci == n - 1 { c.len() + 1 } else { c.len() };
        if k < i + m {
            let name = if ci == 0 {
                "new".to_string()
            } else if ci == n - 1 {
                "fin".to_string()
            } else {
                format!("i{}", ci)
            };
            return format!("{}:{}of{}", name, k - i + 1, m);
        }
        i += m;
    }
    "beyond".to_string()
}

/// the `cont` family: fixed key lists, every write index, {Err(Other), Ok(0)}
fn cont_cases(stats: &mut Stats) -> Vec<String> {
    let mut drng = Rng::new(0xC11C0);
    let mut lists = small_key_lists(&mut drng);
    lists.truncate(56);
    for _ in 0..4 {
        lists.push(random_key_list(&mut drng));
    }
    let mut cases = vec![];
    for (i, kvs) in lists.into_iter().enumerate() {
        // the historical witness (index 4) runs through MapBuilder + into_inner
        let kind = if i == 4 { "map" } else { BUILDER_KINDS[i % BUILDER_KINDS.len()] };
        let r = reference(kind, &kvs);
        let calls = calls_string(&r.calls);
        for k in 0..r.w {
            for f in [Resp::Fail(ErrorKind::Other), Resp::Zero] {
                stats.bump("cont_keep_going_after_error");
                cases.push(format!(
                    "cont\t{}\t{}\tk={}/{}\tat={}\t{}\t{}",
                    kind,
                    keys_string(&kvs),
                    k,
                    r.w,
                    locate(&r, k),
                    script_string(&[f]),
                    calls
                ));
                // the same fault for a caller that stops at the first error (fully modelled)
                let mut s = vec![Resp::Accept(ALL); k];
                s.push(f);
                stats.bump("cont_first_error_only");
                cases.push(case_line(kind, &kvs, &[], None, &s, FlushResp::Ok, &calls));
            }
        }
    }
    cases
}

fn execute_cont(case: &str) -> String {
    let f: Vec<&str> = case.split('\t').collect();
    let kind = f[1];
    let kvs = parse_keys(f[2]);
    let kw: Vec<usize> = f[3][2..].split('/').map(|x| x.parse().unwrap()).collect();
    let (k, w) = (kw[0], kw[1]);
    let fault = parse_script(f[5]);
    let r = reference(kind, &kvs);
    let mut x = String::from("ok");
    if r.w != w || locate(&r, k) != f[4][3..] {
        x = "W / position in the case line are not those of the in-memory build".to_string();
    }
    let mut script = vec![Resp::Accept(ALL); k];
    script.extend(fault);
    let mut sink = ScriptSink::new(script, FlushResp::Ok, &[]);
    let log = run_session_continue(kind, &mut sink, &kvs);
    let consumed = sink.pos > k;
    let complete = sink.data == r.bytes && sink.flushes >= 1 && sink.unflushed == 0;
    let s = match log.fin.as_deref() {
        Some("ok") => {
            if complete {
                "finished=yes"
            } else {
                "finished=yes-but-incomplete"
            }
        }
        _ => "finished=no",
    };
    let opens = match std::panic::catch_unwind(|| fst::raw::Fst::new(sink.data.clone()).map(|f| f.verify().is_ok())) {
        Ok(Ok(v)) => format!("opens,verify={}", v),
        Ok(Err(_)) => "does-not-open".to_string(),
        Err(_) => "open-panics".to_string(),
    };
    // M: what every call returned (constructor first), what into_inner/finish returned, what the sink holds
    format!(
        "S:{}\tM:{}|{}|len={}|dig={:08x}\tX:{}\tD:consumed={} sink={}/{} {}",
        s,
        log.calls.join(","),
        log.fin.unwrap_or_else(|| "none".to_string()),
        sink.data.len(),
        fnv(&sink.data),
        x,
        consumed,
        sink.data.len(),
        r.bytes.len(),
        opens
    )
}

impl Prop for P {
    fn generate(&self, tier: Tier, rng: &mut Rng, stats: &mut Stats) -> Vec<String> {
        let nlists = match tier {
            Tier::Quick => 260,
            Tier::Thorough => 1500,
            Tier::Wide => 800,
        };
        let mut lists: Vec<Vec<Kv>> = small_key_lists(rng);
        while lists.len() < nlists {
            lists.push(random_key_list(rng));
        }
        let mut cases = cont_cases(stats);
        for (i, mut kvs) in lists.into_iter().enumerate() {
            let kind = BUILDER_KINDS[i % BUILDER_KINDS.len()];
            maybe_repeat(kind, &mut kvs, rng);
            let r = reference(kind, &kvs);
            let calls = calls_string(&r.calls);
            stats.bump("key_lists");
            stats.add("write_calls_W_total", r.w as u64);
            // a benign prefix of k responses: all-accepting, or rough (short writes, Interrupted);
            // a rough prefix only increases the number of write calls, so response k is still consumed
            let prefix = |rng: &mut Rng, k: usize| -> Vec<Resp> {
                if rng.chance(1, 4) {
                    random_script(rng, k, 40, 20)
                } else {
                    vec![Resp::Accept(ALL); k]
                }
            };
            for k in 0..r.w {
                for f in fault_kinds(rng) {
                    let mut s = prefix(rng, k);
                    s.push(f);
                    // what follows the fault must not matter
                    if rng.chance(1, 8) {
                        s.push(Resp::Zero);
                    }
                    let prefill: Vec<u8> = if rng.chance(1, 10) { vec![0xAB; rng.range(1, 20)] } else { vec![] };
                    stats.bump(match f {
                        Resp::Zero => "fault_zero_length_write",
                        _ => "fault_error_return",
                    });
                    cases.push(case_line(kind, &kvs, &prefill, None, &s, FlushResp::Ok, &calls));
                }
            }
            // the final flush as the failing call
            for fk in [ErrorKind::Other, ErrorKind::BrokenPipe, ErrorKind::PermissionDenied, ErrorKind::Interrupted] {
                let s = if rng.chance(1, 3) { random_script(rng, r.w, 40, 20) } else { vec![] };
                stats.bump("fault_flush");
                cases.push(case_line(kind, &kvs, &[], None, &s, FlushResp::Fail(fk), &calls));
            }
            // a fault scripted beyond the last write call is never consumed: the build finishes
            let mut s = vec![Resp::Accept(ALL); r.w];
            s.push(Resp::Fail(ErrorKind::Other));
            stats.bump("fault_never_reached");
            cases.push(case_line(kind, &kvs, &[], None, &s, FlushResp::Ok, &calls));
            // a fault behind a BufWriter: surfaces in whichever call flushes the buffer
            if i % 4 == 0 {
                for _ in 0..4 {
                    let k = rng.range(0, r.w);
                    let mut s = prefix(rng, k);
                    s.push(fault_kinds(rng)[rng.below(4) as usize]);
                    stats.bump("fault_behind_bufwriter");
                    cases.push(case_line(kind, &kvs, &[], Some(rng.range(0, 40)), &s, FlushResp::Ok, &calls));
                }
            }
        }
        cases
    }

    fn refresh_corpus_line(&self, line: &str) -> String {
        let f: Vec<&str> = line.split('\t').collect();
        // kind, keys, prefill, cap, script, flush, calls: the calls are re-measured from the in-memory build
        if f.len() == 7 && f[0] != "cont" {
            let r = reference(f[0], &parse_keys(f[1]));
            let mut g: Vec<String> = f.iter().map(|x| x.to_string()).collect();
            g[6] = calls_string(&r.calls);
            return g.join("\t");
        }
        line.to_string()
    }
    fn nontrivial(&self, case: &str) -> bool {
        let f: Vec<&str> = case.split('\t').collect();
        if f[0] == "cont" {
            return f.len() == 6 && f[2] != "-";
        }
        f.len() == 7 && (f[4].contains('f') || f[4].contains('z') || f[5] != "ok")
    }

    fn execute(&self, case: &str) -> String {
        if case.starts_with("cont\t") {
            return execute_cont(case);
        }
        let c = Case::parse(case);
        let r = reference(&c.kind, &c.kvs);
        let mut x = String::from("ok");
        if calls_string(&r.calls) != c.calls {
            x = "chunk lists in the case line are not those of the in-memory build".to_string();
        }
        let s = run_scripted(&c);
        let npre = c.prefill.len();
        let total = r.bytes.len() - 4;
        let mut statuses: Vec<&Status> = s.log.calls.iter().map(|c| &c.status).collect();
        if let Some(f) = &s.log.fin {
            statuses.push(f);
        }
        let first_err = statuses.iter().position(|st| **st != Status::Ok);
        let complete = s.data.len() == npre + r.bytes.len() && s.data[..npre] == c.prefill[..] && s.data[npre..] == r.bytes[..] && s.flushes >= 1 && s.unflushed == 0;
        let spec = match first_err {
            Some(i) => match statuses[i] {
                Status::Io(k) => {
                    if i != statuses.len() - 1 {
                        "continued-after-error".to_string()
                    } else if Some(*k) != expected_kind(&c) {
                        format!("err-io-wrong-kind({})", kind_name(*k))
                    } else {
                        "err-io".to_string()
                    }
                }
                other => other.show(),
            },
            None => {
                if complete {
                    "finished".to_string()
                } else {
                    "finished-incomplete".to_string()
                }
            }
        };
        let f = match first_err {
            Some(i) => match statuses[i] {
                Status::Io(k) => format!("fail={}:{}", i, kind_name(*k)),
                other => format!("fail={}:{}", i, other.show()),
            },
            None => "fail=none".to_string(),
        };
        // the same keys handed over in ONE extend_iter / extend_stream call on the same kind of sink: an I/O
        // failure is reported as Err(Io) by that call (or by finish), never a panic, never success; without a
        // failure the sink ends up complete
        if c.cap.is_none() && (spec == "err-io" || spec == "finished") {
            let base = c.kind.strip_suffix("+finish").unwrap_or(&c.kind).to_string();
            let kvs = c.kvs.clone();
            let script = c.script.clone();
            let (flush, prefill) = (c.flush, c.prefill.clone());
            let route = (c.kvs.len() + c.script.len()) % 2;
            let out = std::panic::catch_unwind(move || {
                let mut sink = ScriptSink::new(script, flush, &prefill);
                let r: Result<(), fst::Error> = (|| match base.as_str() {
                    "map" => {
                        let mut b = fst::MapBuilder::new(&mut sink)?;
                        if route == 0 {
                            b.extend_iter(kvs.iter().map(|(k, v)| (k.clone(), *v)))?;
                        } else {
                            b.extend_stream(crate::core::MapVecStream { items: kvs.clone(), pos: 0 })?;
                        }
                        b.finish()
                    }
                    "set" => {
                        let mut b = fst::SetBuilder::new(&mut sink)?;
                        if route == 0 {
                            b.extend_iter(kvs.iter().map(|(k, _)| k.clone()))?;
                        } else {
                            b.extend_stream(crate::core::KeyStream { items: kvs.iter().map(|(k, _)| k.clone()).collect(), pos: 0 })?;
                        }
                        b.finish()
                    }
                    "raw-insert" => {
                        let mut b = fst::raw::Builder::new(&mut sink)?;
                        if route == 0 {
                            b.extend_iter(kvs.iter().map(|(k, v)| (k.clone(), fst::raw::Output::new(*v))))?;
                        } else {
                            b.extend_stream(crate::core::VecStream { items: kvs.clone(), pos: 0 })?;
                        }
                        b.finish()
                    }
                    _ => Ok(()),
                })();
                (r.map_err(|e| matches!(e, fst::Error::Io(_))), sink.data)
            });
            if c.kind.starts_with("raw-add") {
                // no batch entry point calls add
            } else {
                match (spec.as_str(), out) {
                    (_, Err(_)) => x = "the same keys through one extend_iter/extend_stream call: PANIC".to_string(),
                    ("err-io", Ok((Ok(()), _))) => x = "the same keys through one extend call: the sink failed but extend + finish reported success".to_string(),
                    ("err-io", Ok((Err(false), _))) => x = "the same keys through one extend call: the error is not Err(Io)".to_string(),
                    ("finished", Ok((Err(_), _))) => x = "the same keys through one extend call fail although the per-key session finished".to_string(),
                    ("finished", Ok((Ok(()), data))) => {
                        if data.len() < npre || data[npre..] != r.bytes[..] {
                            x = "the same keys through one extend call: the sink holds other bytes".to_string();
                        }
                    }
                    _ => {}
                }
                xcount("same_keys_through_one_extend_call");
            }
        }
        format!("S:{}\tM:{}|{}\tX:{}", spec, f, m_common(&s, npre, total), x)
    }
}
