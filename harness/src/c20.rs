//! C20 — open is total on arbitrary bytes; accessors and verify() are total on anything that opens;
//! the library contains no `unsafe`.
//!
//! case format:  open <hex> <R|N>
//!   R = `root().addr()` returned on this input when the case was generated, so the root address is
//!       part of the compared observation; N = decoding the root node panics (allowed: it is not a
//!       metadata accessor), the root address is then not observable through the public API.
use crate::c08::{gen_keys, outcome, small_fsts};
use crate::common::*;
use fst::raw::Fst;
use std::panic;
use std::path::{Path, PathBuf};

pub struct P;

fn root_observable(bytes: &[u8]) -> Option<usize> {
    let r = panic::catch_unwind(panic::AssertUnwindSafe(|| match Fst::new(bytes) {
        Ok(f) => Some(f.root().addr()),
        Err(_) => None,
    }));
    match r {
        Ok(x) => x,
        Err(_) => None,
    }
}
fn case_of(bytes: &[u8], stats: &mut Stats) -> String {
    let r = root_observable(bytes);
    if r.is_some() {
        stats.bump("root_address_observable");
    }
    format!("open {} {}", hex(bytes), if r.is_some() { "R" } else { "N" })
}

fn put64(b: &mut [u8], at: isize, v: u64) {
    if at >= 0 && (at as usize) + 8 <= b.len() {
        b[at as usize..at as usize + 8].copy_from_slice(&v.to_le_bytes());
    }
}

// ---------- "no unsafe": token scan ----------
/// positions (line numbers) of the keyword `unsafe` outside comments, doc comments, string,
/// byte-string, raw-string and char literals
fn scan_unsafe(src: &str) -> Vec<usize> {
    let b = src.as_bytes();
    let mut hits = vec![];
    let mut i = 0;
    let mut line = 1;
    let is_ident = |c: u8| c == b'_' || c.is_ascii_alphanumeric();
    while i < b.len() {
        let c = b[i];
        if c == b'\n' {
            line += 1;
            i += 1;
        } else if c == b'/' && i + 1 < b.len() && b[i + 1] == b'/' {
            while i < b.len() && b[i] != b'\n' {
                i += 1;
            }
        } else if c == b'/' && i + 1 < b.len() && b[i + 1] == b'*' {
            let mut depth = 1;
            i += 2;
            while i < b.len() && depth > 0 {
                if b[i] == b'\n' {
                    line += 1;
                }
                if b[i] == b'/' && i + 1 < b.len() && b[i + 1] == b'*' {
                    depth += 1;
                    i += 2;
                } else if b[i] == b'*' && i + 1 < b.len() && b[i + 1] == b'/' {
                    depth -= 1;
                    i += 2;
                } else {
                    i += 1;
                }
            }
        } else if c == b'"' {
            i += 1;
            while i < b.len() && b[i] != b'"' {
                if b[i] == b'\\' {
                    i += 1;
                }
                if i < b.len() && b[i] == b'\n' {
                    line += 1;
                }
                i += 1;
            }
            i += 1;
        } else if c == b'r' && i + 1 < b.len() && (b[i + 1] == b'"' || b[i + 1] == b'#') && (i == 0 || !is_ident(b[i - 1])) {
            // raw string r"..." / r#"..."#
            let mut j = i + 1;
            let mut hashes = 0;
            while j < b.len() && b[j] == b'#' {
                hashes += 1;
                j += 1;
            }
            if j < b.len() && b[j] == b'"' {
                j += 1;
                'outer: while j < b.len() {
                    if b[j] == b'\n' {
                        line += 1;
                    }
                    if b[j] == b'"' {
                        let mut k = 0;
                        while k < hashes && j + 1 + k < b.len() && b[j + 1 + k] == b'#' {
                            k += 1;
                        }
                        if k == hashes {
                            j += 1 + hashes;
                            break 'outer;
                        }
                    }
                    j += 1;
                }
                i = j;
            } else {
                i += 1;
            }
        } else if c == b'\'' {
            // char literal or lifetime
            if i + 2 < b.len() && b[i + 1] == b'\\' {
                i += 2;
                while i < b.len() && b[i] != b'\'' {
                    i += 1;
                }
                i += 1;
            } else if i + 2 < b.len() && b[i + 2] == b'\'' {
                i += 3;
            } else {
                i += 1; // lifetime
            }
        } else if is_ident(c) {
            let s = i;
            while i < b.len() && is_ident(b[i]) {
                i += 1;
            }
            if &b[s..i] == b"unsafe" {
                hits.push(line);
            }
        } else {
            i += 1;
        }
    }
    hits
}

fn rs_files(dir: &Path, out: &mut Vec<PathBuf>) {
    if let Ok(rd) = std::fs::read_dir(dir) {
        let mut es: Vec<_> = rd.filter_map(|e| e.ok()).map(|e| e.path()).collect();
        es.sort();
        for p in es {
            if p.is_dir() {
                rs_files(&p, out);
            } else if p.extension().map(|e| e == "rs").unwrap_or(false) {
                out.push(p);
            }
        }
    }
}

/// The checksum verify() computes for these bytes, taken from its own ChecksumMismatch error (None when the
/// bytes do not open, verify cleanly, or panic).
fn checksum_the_reader_expects(b: &[u8]) -> Option<u32> {
    let b = b.to_vec();
    panic::catch_unwind(panic::AssertUnwindSafe(|| match fst::raw::Fst::new(b) {
        Ok(f) => match f.verify() {
            Err(fst::Error::Fst(fst::raw::Error::ChecksumMismatch { got, .. })) => Some(got),
            _ => None,
        },
        Err(_) => None,
    }))
    .unwrap_or(None)
}

impl Prop for P {
    fn generate(&self, tier: Tier, rng: &mut Rng, stats: &mut Stats) -> Vec<String> {
        let mut cases = vec![];
        let (n_rand, n_valid, fills) = match tier {
            Tier::Quick => (3000, 10, 1),
            Tier::Thorough => (60000, 60, 3),
            Tier::Wide => (12000, 30, 2),
        };
        // (1) header/footer boundary values for every length 0..=64
        for l in 0usize..=64 {
            let li = l as u64;
            let versions = [0u64, 1, 2, 3, 4, u64::MAX];
            let roots = [
                0u64,
                1,
                li.wrapping_sub(21),
                li.wrapping_sub(17),
                li.wrapping_sub(20),
                li.wrapping_sub(22),
                li.wrapping_sub(16),
                li,
                li.wrapping_add(1),
                u64::MAX,
                u64::MAX - 20,
                u64::MAX - 16,
            ];
            let lens = [0u64, 1, u64::MAX];
            for fill in 0..=fills {
                for &v in &versions {
                    for &r in &roots {
                        for &n in &lens {
                            let mut b: Vec<u8> = match fill {
                                0 => vec![0u8; l],
                                _ => (0..l).map(|_| rng.below(256) as u8).collect(),
                            };
                            // footer in both layouts (v3 written last so it wins where they overlap for v>=3)
                            let order: [isize; 2] = if v <= 2 { [4, 0] } else { [0, 4] };
                            for &tail in &order {
                                put64(&mut b, l as isize - tail - 8, r);
                                put64(&mut b, l as isize - tail - 16, n);
                            }
                            put64(&mut b, 0, v);
                            cases.push(case_of(&b, stats));
                            stats.bump("boundary_header_footer");
                            // the same bogus footer under a CORRECT checksum, so that verify() gets past its
                            // comparison: the implementation names the right value in its ChecksumMismatch error
                            if v == 3 && l >= 36 {
                                if let Some(good) = checksum_the_reader_expects(&b) {
                                    let mut sealed = b.clone();
                                    let n4 = sealed.len() - 4;
                                    sealed[n4..].copy_from_slice(&good.to_le_bytes());
                                    cases.push(case_of(&sealed, stats));
                                    stats.bump("boundary_header_footer_with_correct_checksum");
                                }
                            }
                        }
                    }
                }
            }
        }
        // (2) random strings, first bytes biased to small versions
        for _ in 0..n_rand {
            let l = match rng.below(4) {
                0 => rng.range(0, 40),
                1 => rng.range(28, 40),
                _ => rng.range(0, 200),
            };
            let mut b: Vec<u8> = (0..l).map(|_| rng.below(256) as u8).collect();
            if rng.chance(3, 4) {
                put64(&mut b, 0, rng.below(5));
            }
            if rng.chance(1, 3) && l >= 12 {
                let tail = if rng.chance(1, 2) { 4 } else { 0 };
                put64(&mut b, l as isize - tail - 8, if rng.chance(1, 2) { 0 } else { (l as u64).wrapping_sub(rng.below(24)) });
            }
            cases.push(case_of(&b, stats));
            stats.bump("random_strings");
        }
        // (3) valid built FSTs: as they are, every truncation, every position mutated
        let mut valid = small_fsts(rng, n_valid, 12, 5);
        {
            // a few bigger ones
            let ks = gen_keys(rng, 60, 8, 26);
            let mut b = fst::SetBuilder::memory();
            for k in &ks {
                b.insert(k).unwrap();
            }
            valid.push(b.into_inner().unwrap());
        }
        for f in &valid {
            cases.push(case_of(f, stats));
            stats.bump("valid_fsts");
            for cut in 0..f.len() {
                cases.push(case_of(&f[..cut], stats));
                stats.bump("truncations");
            }
            for pos in 0..f.len() {
                for v in [f[pos] ^ (1 << rng.below(8)), rng.below(256) as u8, 0, 0xFF] {
                    if v != f[pos] {
                        let mut g = f.clone();
                        g[pos] = v;
                        cases.push(case_of(&g, stats));
                        stats.bump("single_byte_mutations");
                    }
                }
            }
            // version field rewritten to 1 and 2 (old layouts without checksum)
            for v in [1u64, 2] {
                let mut g = f.clone();
                put64(&mut g, 0, v);
                cases.push(case_of(&g, stats));
                cases.push(case_of(&g[..g.len() - 4], stats));
                stats.bump("reversioned");
            }
        }
        cases
    }

    fn nontrivial(&self, case: &str) -> bool {
        // at least 32 bytes, i.e. gets past the first length check
        case.split(' ').nth(1).map(|h| h.len() >= 64).unwrap_or(false)
    }

    fn execute(&self, case: &str) -> String {
        let t: Vec<&str> = case.split(' ').collect();
        let bytes = unhex(t[1]);
        let want_root = t.get(2).map(|s| *s == "R").unwrap_or(false);
        let root = if want_root {
            match root_observable(&bytes) {
                Some(r) => Some(r.to_string()),
                None => Some("UNSTABLE".to_string()),
            }
        } else {
            None
        };
        // open, accessors, verify: any panic surfaces as S:PANIC through the caller's catch_unwind;
        // here it is caught to keep the message
        let r = panic::catch_unwind(panic::AssertUnwindSafe(|| outcome(&bytes, root)));
        // the same untrusted bytes reaching an already opened handle through map_data (the other way of
        // attaching bytes to a handle): same gate, same totality
        let via = panic::catch_unwind(panic::AssertUnwindSafe(|| {
            let base = fst::raw::Fst::new(fst::Set::from_iter(vec!["a", "b"]).unwrap().into_fst().into_inner()).unwrap();
            match base.map_data(|_| bytes.clone()) {
                Err(_) => (false, false),
                Ok(f) => {
                    let _ = (f.len(), f.is_empty(), f.size(), f.fst_type());
                    (true, f.verify().is_ok())
                }
            }
        }));
        match (r, via) {
            (Ok((opened, verified, _, s)), Ok((o2, v2))) => {
                if (opened, verified) == (o2, v2) {
                    format!("S:total\tM:{}", s)
                } else {
                    format!("S:total\tM:{}\tX:through map_data the same bytes give opened={} verified={}, directly opened={} verified={}", s, o2, v2, opened, verified)
                }
            }
            _ => "S:PANIC\tM:PANIC".to_string(),
        }
    }

    fn extras(&self, _tier: Tier, _rng: &mut Rng, _stats: &mut Stats) -> Vec<(String, bool, String)> {
        let repo = std::env::var("VERIF_REPO").unwrap_or_else(|_| "/repo".to_string());
        let mut out = vec![];
        // (1) token scan of the library sources
        let mut files = vec![];
        rs_files(&Path::new(&repo).join("src"), &mut files);
        let mut hits = vec![];
        let mut in_comments = 0usize;
        for f in &files {
            if let Ok(txt) = std::fs::read_to_string(f) {
                for l in scan_unsafe(&txt) {
                    hits.push(format!("{}:{}", f.display(), l));
                }
                in_comments += txt.matches("unsafe").count();
            }
        }
        in_comments -= hits.len().min(in_comments);
        out.push((
            "unsafe_keyword_scan".to_string(),
            hits.is_empty() && !files.is_empty(),
            format!(
                "{} files under {}/src scanned; `unsafe` as a code token: {}{}; occurrences inside comments/strings (not code): {}",
                files.len(),
                repo,
                hits.len(),
                if hits.is_empty() { String::new() } else { format!(" at {}", hits.join(", ")) },
                in_comments
            ),
        ));
        // (2) the compiler's own answer: forbid(unsafe_code) on the library crate
        let target = std::env::current_exe()
            .ok()
            .and_then(|p| p.parent().and_then(|p| p.parent()).map(|p| p.join("forbid-unsafe")))
            .unwrap_or_else(|| PathBuf::from("/tmp/fstv-forbid-unsafe"));
        let res = std::process::Command::new("cargo")
            .args(["rustc", "--offline", "-p", "fst", "--lib", "--features", "levenshtein", "--target-dir"])
            .arg(&target)
            .args(["--", "-F", "unsafe_code"])
            .current_dir(&repo)
            .env("CARGO_NET_OFFLINE", "true")
            .env_remove("RUSTFLAGS")
            .output();
        match res {
            Ok(o) => {
                let err = String::from_utf8_lossy(&o.stderr);
                let tail: String = err.lines().filter(|l| l.contains("error") || l.contains("unsafe") || l.contains("Finished")).take(6).collect::<Vec<_>>().join(" | ");
                out.push((
                    "rustc_forbid_unsafe_code".to_string(),
                    o.status.success(),
                    format!("cargo rustc --offline -p fst --lib --features levenshtein -- -F unsafe_code (cwd {}): exit {:?}; {}", repo, o.status.code(), tail),
                ));
            }
            Err(e) => out.push(("rustc_forbid_unsafe_code".to_string(), false, format!("could not run cargo: {}", e))),
        }
        out
    }
}
