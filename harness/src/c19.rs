//! C19 — unsorted `fst set` / `fst map` builds are independent of batching, fd limit, threads and
//! worker scheduling.  Drives the REAL binary (fst-bin built from /repo with the verification
//! hooks) and reads the result back with the fst library.
//!
//! case: `<mode:set|sum|max|min> <batch> <fd> <threads> <schedseed> <rows-per-file,…> <hexkey:val,…|_>`
//! S: `<content>|verify=ok|sorted_equal=<yes|na>`   M: `len=<n>;shape=<g0>/<g1>/…;model=spec`
//!   content = hexkey:val,… from `.stream()` of the output; sorted_equal compares the output bytes
//!   with an in-process sorted build and with `fst <cmd> --sorted` on the sorted rows (inputs
//!   without repeated keys only); shape = number of inputs of every union batch per generation,
//!   from the VERIF-TRACE hook.
use crate::common::*;
use fst::raw;
use fst::Streamer;
use std::collections::{BTreeMap, BTreeSet, HashMap, HashSet};
use std::path::{Path, PathBuf};
use std::process::Command;
use std::sync::atomic::{AtomicU64, Ordering};
use std::sync::{Mutex, OnceLock};

pub struct P;

const REPO: &str = "/repo";

fn target_dir() -> PathBuf {
    // <harness>/target/release/fstv-harness -> <harness>/target
    let exe = std::env::current_exe().expect("current_exe");
    exe.parent().and_then(|p| p.parent()).expect("target dir").to_path_buf()
}

/// Build fst-bin from /repo's working tree with the hooks enabled (cargo decides whether anything
/// has to be rebuilt); once per process.
fn fst_bin() -> Result<PathBuf, String> {
    static BIN: OnceLock<Result<PathBuf, String>> = OnceLock::new();
    BIN.get_or_init(|| {
        let repo = std::env::var("VERIF_REPO").unwrap_or_else(|_| REPO.to_string());
        let tdir = target_dir().join("fstbin");
        let out = Command::new("cargo")
            .args(["build", "--release", "--offline", "-p", "fst-bin", "--target-dir"])
            .arg(&tdir)
            .current_dir(&repo)
            .env("RUSTFLAGS", if crate::hooks::available() { "--cfg burntsushi_fst_verif" } else { "" })
            .env("CARGO_NET_OFFLINE", "true")
            .output()
            .map_err(|e| format!("cargo: {}", e))?;
        if !out.status.success() {
            let err = String::from_utf8_lossy(&out.stderr);
            let tail: String = err.lines().rev().take(6).collect::<Vec<_>>().join(" / ");
            return Err(format!("fst-bin does not build: {}", tail));
        }
        let bin = tdir.join("release").join("fst");
        if bin.exists() { Ok(bin) } else { Err("fst binary missing after build".to_string()) }
    })
    .clone()
}

// ---------------------------------------------------------------- case syntax
#[derive(Clone)]
struct Case {
    mode: String,
    batch: u64,
    fd: u64,
    threads: u64,
    seed: u64,
    split: Vec<usize>,
    items: Vec<(Vec<u8>, u64)>,
}

fn parse_case(case: &str) -> Case {
    let f: Vec<&str> = case.split(' ').collect();
    assert!(f.len() == 7, "bad case");
    let items = if f[6] == "_" || f[6].is_empty() {
        vec![]
    } else {
        f[6].split(',')
            .map(|it| {
                let mut p = it.split(':');
                let k = unhex(p.next().unwrap());
                let v: u64 = p.next().unwrap().parse().unwrap();
                (k, v)
            })
            .collect()
    };
    Case {
        mode: f[0].to_string(),
        batch: f[1].parse().unwrap(),
        fd: f[2].parse().unwrap(),
        threads: f[3].parse().unwrap(),
        seed: f[4].parse().unwrap(),
        split: f[5].split(',').map(|x| x.parse().unwrap()).collect(),
        items,
    }
}

fn render_case(c: &Case) -> String {
    let items = if c.items.is_empty() {
        "_".to_string()
    } else {
        c.items.iter().map(|(k, v)| format!("{}:{}", hex(k), v)).collect::<Vec<_>>().join(",")
    };
    let split = c.split.iter().map(|x| x.to_string()).collect::<Vec<_>>().join(",");
    format!("{} {} {} {} {} {} {}", c.mode, c.batch, c.fd, c.threads, c.seed, split, items)
}

fn has_repeats(items: &[(Vec<u8>, u64)]) -> bool {
    let mut s = HashSet::new();
    items.iter().any(|(k, _)| !s.insert(k.clone()))
}

// ---------------------------------------------------------------- schedule evidence
struct Seen {
    /// (input+batch+fd) -> distinct groupings observed over the runs of that configuration
    per_config: HashMap<String, HashSet<String>>,
    all: HashSet<String>,
    reordered_runs: u64,
    union_runs: u64,
    union_batches: u64,
}
fn seen() -> &'static Mutex<Seen> {
    static S: OnceLock<Mutex<Seen>> = OnceLock::new();
    S.get_or_init(|| {
        Mutex::new(Seen { per_config: HashMap::new(), all: HashSet::new(), reordered_runs: 0, union_runs: 0, union_batches: 0 })
    })
}

/// trace lines -> (shape string, canonical grouping, any generation consumed out of index order)
fn digest_trace(stderr: &str) -> (String, String, bool, u64) {
    // gen -> index -> inputs
    let mut gens: BTreeMap<u64, BTreeMap<u64, Vec<String>>> = BTreeMap::new();
    for l in stderr.lines() {
        let l = match l.strip_prefix("VERIF-TRACE union ") {
            Some(r) => r,
            None => continue,
        };
        let mut gen = 0u64;
        let mut index = 0u64;
        let mut inputs = vec![];
        if let Some(p) = l.find("inputs=") {
            let head = &l[..p];
            for tok in head.split(' ') {
                if let Some(v) = tok.strip_prefix("gen=") {
                    gen = v.parse().unwrap_or(u64::MAX);
                } else if let Some(v) = tok.strip_prefix("index=") {
                    index = v.parse().unwrap_or(u64::MAX);
                }
            }
            let body = l[p + 7..].trim().trim_start_matches('[').trim_end_matches(']');
            for part in body.split(',') {
                let name = part.trim().trim_matches('"');
                if !name.is_empty() {
                    inputs.push(name.to_string());
                }
            }
        }
        gens.entry(gen).or_default().insert(index, inputs);
    }
    let mut shape = vec![];
    let mut canon = vec![];
    let mut reordered = false;
    let mut nb = 0u64;
    for (g, idx) in &gens {
        shape.push(idx.values().map(|v| v.len().to_string()).collect::<Vec<_>>().join(","));
        let mut expect = 0u64;
        for (i, inputs) in idx {
            nb += 1;
            canon.push(format!("{}.{}={}", g, i, inputs.join("+")));
            for name in inputs {
                // batch<k> or union-gen<g>-batch<k>
                let k: u64 = name.rsplit("batch").next().and_then(|s| s.parse().ok()).unwrap_or(u64::MAX);
                if k != expect {
                    reordered = true;
                }
                expect += 1;
            }
        }
    }
    (shape.join("/"), canon.join(";"), reordered, nb)
}

// ---------------------------------------------------------------- running the binary
static DIRCTR: AtomicU64 = AtomicU64::new(0);

fn write_inputs(dir: &Path, c: &Case) -> Vec<PathBuf> {
    let mut paths = vec![];
    let mut pos = 0usize;
    for (fi, n) in c.split.iter().enumerate() {
        let mut buf: Vec<u8> = vec![];
        for (k, v) in &c.items[pos..pos + n] {
            buf.extend_from_slice(k);
            if c.mode != "set" {
                buf.extend_from_slice(format!(",{}", v).as_bytes());
            }
            buf.push(b'\n');
        }
        pos += n;
        let p = dir.join(format!("in{}.{}", fi, if c.mode == "set" { "txt" } else { "csv" }));
        std::fs::write(&p, &buf).unwrap();
        paths.push(p);
    }
    assert!(pos == c.items.len(), "split does not cover the rows");
    paths
}

fn run_fst(bin: &Path, dir: &Path, args: &[String], seed: Option<u64>) -> (Option<i32>, String) {
    let mut cmd = Command::new(bin);
    cmd.args(args).current_dir(dir).env("TMPDIR", dir).env("RUST_BACKTRACE", "0").env_remove("FST_VERIF_SCHED").env_remove("FST_VERIF_TRACE");
    if let Some(s) = seed {
        cmd.env("FST_VERIF_SCHED", s.to_string()).env("FST_VERIF_TRACE", "1");
    }
    match cmd.output() {
        Ok(o) => (o.status.code(), String::from_utf8_lossy(&o.stderr).into_owned()),
        Err(e) => (None, format!("spawn: {}", e)),
    }
}

fn one_line(s: &str) -> String {
    let t: String = s.lines().filter(|l| !l.starts_with("VERIF-TRACE")).take(2).collect::<Vec<_>>().join(" / ");
    t.replace('\t', " ").chars().take(200).collect()
}

fn execute_in(bin: &Path, dir: &Path, c: &Case, case: &str) -> String {
    let inputs = write_inputs(dir, c);
    let cmdname = if c.mode == "set" { "set" } else { "map" };
    let mut args: Vec<String> = vec![cmdname.to_string()];
    match c.mode.as_str() {
        "max" => args.push("--max".into()),
        "min" => args.push("--min".into()),
        _ => {}
    }
    // N.B. `--tmp-dir` is declared without a value in app.rs, so the temp directory can only be
    // chosen through TMPDIR (env::temp_dir()).
    args.extend(["--batch-size".into(), c.batch.to_string(), "--fd-limit".into(), c.fd.to_string(), "--threads".into(), c.threads.to_string(), "--force".into()]);
    for p in &inputs {
        args.push(p.file_name().unwrap().to_string_lossy().into_owned());
    }
    args.push("out.fst".into());
    // every third case: the destination exists already and is longer than anything built here
    // (`--force` overwrites; what an earlier, bigger build left behind must not survive)
    if c.seed % 3 == 0 {
        let _ = std::fs::write(dir.join("out.fst"), vec![0xA5u8; 70_000]);
        xcount("destination_existed_and_was_longer");
    }
    let (code, stderr) = run_fst(bin, dir, &args, Some(c.seed));
    if code != Some(0) {
        return format!("S:EXIT {:?} {}\tM:-", code, one_line(&stderr));
    }
    let (shape, canon, reordered, nb) = digest_trace(&stderr);
    {
        let mut s = seen().lock().unwrap();
        if nb > 0 {
            s.union_runs += 1;
            s.union_batches += nb;
            if reordered {
                s.reordered_runs += 1;
            }
            // configuration = everything but threads and seed
            let f: Vec<&str> = case.split(' ').collect();
            let key = format!("{} {} {} {} {}", f[0], f[1], f[2], f[5], f[6]);
            s.all.insert(format!("{}|{}", key, canon));
            s.per_config.entry(key).or_default().insert(canon);
        }
    }
    let bytes = match std::fs::read(dir.join("out.fst")) {
        Ok(b) => b,
        Err(e) => return format!("S:NOOUTPUT {}\tM:-", e),
    };
    let fst = match raw::Fst::new(bytes.clone()) {
        Ok(f) => f,
        Err(e) => return format!("S:UNREADABLE {}\tM:-", one_line(&e.to_string())),
    };
    let mut content = vec![];
    let mut n = 0usize;
    {
        let mut st = fst.stream();
        while let Some((k, v)) = st.next() {
            content.push(format!("{}:{}", hex(k), v.value()));
            n += 1;
        }
    }
    let content = if content.is_empty() { "_".to_string() } else { content.join(",") };
    let verify = match fst.verify() {
        Ok(()) => "ok".to_string(),
        Err(e) => format!("FAILED({})", one_line(&e.to_string())),
    };
    let mut x = String::from("ok");
    let sorted_equal = if has_repeats(&c.items) {
        "na".to_string()
    } else {
        let mut rows = c.items.clone();
        rows.sort();
        // (a) in-process sorted build
        let mut b = raw::Builder::memory();
        for (k, v) in &rows {
            b.insert(k, *v).unwrap();
        }
        let want = b.into_inner().unwrap();
        if want != bytes {
            "no(in-process sorted build differs)".to_string()
        } else {
            // (b) the CLI's own sorted mode on the sorted rows.  `fst set --sorted` stops reading a
            // file at the first empty line, so an input with the empty key has no sorted CLI build.
            let skip = c.mode == "set" && rows.iter().any(|(k, _)| k.is_empty());
            if skip {
                "yes".to_string()
            } else {
                let sc = Case { split: vec![rows.len()], items: rows, ..c.clone() };
                let sdir = dir.join("sorted");
                std::fs::create_dir_all(&sdir).unwrap();
                let sin = write_inputs(&sdir, &sc);
                if c.seed % 3 == 1 {
                    let _ = std::fs::write(sdir.join("out.fst"), vec![0x5Au8; 70_000]);
                }
                let sargs: Vec<String> = vec![cmdname.to_string(), "--sorted".into(), "--force".into(), sin[0].file_name().unwrap().to_string_lossy().into_owned(), "out.fst".into()];
                let (scode, serr) = run_fst(bin, &sdir, &sargs, None);
                if scode != Some(0) {
                    format!("no(--sorted build failed: {})", one_line(&serr))
                } else if std::fs::read(sdir.join("out.fst")).ok().as_deref() != Some(&bytes[..]) {
                    "no(--sorted build differs)".to_string()
                } else {
                    "yes".to_string()
                }
            }
        }
    };
    // self-checks: nothing but the trace on stderr, temp directory removed again
    let noise = one_line(&stderr);
    if !noise.is_empty() {
        x = format!("unexpected stderr: {}", noise);
    }
    if let Ok(rd) = std::fs::read_dir(dir) {
        for e in rd.flatten() {
            let name = e.file_name().to_string_lossy().into_owned();
            if name.starts_with("rust-fst") {
                x = format!("temporary directory {} left behind", name);
            }
        }
    }
    format!("S:{}|verify={}|sorted_equal={}\tM:len={};shape={};model=spec\tX:{}", content, verify, sorted_equal, n, shape, x)
}

// ---------------------------------------------------------------- generation
// incl. keys that differ only by blanks at either end (a key is the bytes of the line / of the first CSV field)
const SMALL_KEYS: [&[u8]; 8] = [b"a", b"b", b"ab", b"", b" a", b"a ", b" ", b"\ta"];
const BIG: u64 = 1 << 63;

fn random_key(rng: &mut Rng, pool: usize) -> Vec<u8> {
    // [a-z0-9]{0,6}, drawn from a small pool so that repeats are frequent
    let id = rng.below(pool as u64);
    let mut r = Rng::new(id.wrapping_mul(7919) + 17);
    let len = if id == 0 { 0 } else { 1 + r.below(6) as usize };
    let mut k: Vec<u8> = (0..len).map(|_| *r.pick(b"abcdefghijklmnopqrstuvwxyz0123456789")).collect();
    // one key in six carries a blank or a tab at an end or inside
    match r.below(18) {
        0 => k.insert(0, b' '),
        1 => k.push(b' '),
        2 => k.push(b'\t'),
        _ => {}
    }
    k
}

/// keep every per-key total below 2^63 in sum mode (overflow is outside the property)
fn tame_for_sum(items: &mut Vec<(Vec<u8>, u64)>) {
    let mut tot: HashMap<Vec<u8>, u128> = HashMap::new();
    for (k, v) in items.iter_mut() {
        let t = tot.entry(k.clone()).or_insert(0);
        if *t + (*v as u128) >= (1u128 << 63) {
            *v %= 1000;
        }
        *t += *v as u128;
    }
}

fn finish_case(mode: &str, batch: u64, fd: u64, threads: u64, seed: u64, mut items: Vec<(Vec<u8>, u64)>, nfiles: usize, rng: &mut Rng) -> Case {
    if mode == "set" {
        for it in items.iter_mut() {
            it.1 = 0;
        }
    }
    if mode == "sum" {
        tame_for_sum(&mut items);
    }
    // split the rows over nfiles files (empty files allowed)
    let mut cuts: Vec<usize> = (0..nfiles.saturating_sub(1)).map(|_| rng.range(0, items.len())).collect();
    cuts.sort();
    let mut split = vec![];
    let mut prev = 0;
    for c in cuts {
        split.push(c - prev);
        prev = c;
    }
    split.push(items.len() - prev);
    Case { mode: mode.to_string(), batch, fd, threads, seed, split, items }
}

const MODES: [&str; 4] = ["set", "sum", "max", "min"];
const THREADS: [u64; 5] = [1, 2, 3, 8, 16];

fn describe(c: &Case, stats: &mut Stats) {
    stats.bump(&format!("mode_{}", c.mode));
    stats.bump(&format!("threads_{}", c.threads));
    stats.bump(&format!("fd_limit_{}", c.fd.min(9)));
    stats.bump(&format!("batch_size_{}", if c.batch <= 5 { c.batch.to_string() } else { "6plus".to_string() }));
    if c.items.is_empty() {
        stats.bump("empty_input");
    }
    if c.split.len() > 1 {
        stats.bump("multiple_input_files");
    }
    if c.items.iter().any(|(k, _)| k.is_empty()) {
        stats.bump("has_empty_key");
    }
    if has_repeats(&c.items) {
        stats.bump("inputs_with_repeated_keys");
        // where do the repeats meet: inside one initial batch, or only across batches
        let b = c.batch.max(1) as usize;
        let mut within = false;
        for ch in c.items.chunks(b) {
            if has_repeats(ch) {
                within = true;
            }
        }
        stats.bump(if within { "repeats_within_a_batch" } else { "repeats_only_across_batches" });
    } else {
        stats.bump("inputs_without_repeated_keys");
    }
    let nb = (c.items.len() as u64 + c.batch.max(1) - 1) / c.batch.max(1);
    stats.bump(&format!("initial_batches_{}", match nb { 0 => "0", 1 => "1", 2..=4 => "2to4", 5..=16 => "5to16", _ => "17plus" }));
}

impl Prop for P {
    fn generate(&self, tier: Tier, rng: &mut Rng, stats: &mut Stats) -> Vec<String> {
        match fst_bin() {
            Ok(_) => {}
            Err(e) => stats.notes.push(e),
        }
        let mut cases: Vec<Case> = vec![];
        let (n_small_cfg, n_mid, n_grid_inputs, n_large) = match tier {
            Tier::Quick => (2, 1000, 8, 300),
            Tier::Thorough => (8, 4000, 40, 1500),
            Tier::Wide => (4, 1500, 16, 600),
        };
        let seeds = [rng.below(1 << 30), rng.below(1 << 30), rng.below(1 << 30)];
        // corpus/C19.txt, unless the driver has loaded it already (it looks next to the work directory)
        if !stats.counters.contains_key("corpus_cases") {
            let corpus = target_dir().join("..").join("..").join("corpus").join("C19.txt");
            if let Ok(txt) = std::fs::read_to_string(&corpus) {
                for l in txt.lines() {
                    if !l.is_empty() && !l.starts_with('#') {
                        cases.push(parse_case(l));
                        stats.bump("corpus_cases");
                    }
                }
            }
        }
        // historical witnesses (also in corpus/C19.txt)
        for l in ["min 1 15 2 1 3 61:1,62:2,63:3", "max 2 15 2 1 2 61:1,61:2", "max 1 15 2 1 2 61:1,61:2"] {
            cases.push(parse_case(l));
            stats.bump("historical_witnesses");
        }
        // (1) exhaustive: every row sequence of length 0..3 over 3 keys x 2 values, under n_small_cfg random configurations
        let opts: Vec<(Vec<u8>, u64)> = SMALL_KEYS[..3].iter().flat_map(|k| [1u64, 2].iter().map(move |v| (k.to_vec(), *v))).collect();
        let mut seqs: Vec<Vec<(Vec<u8>, u64)>> = vec![vec![]];
        let mut frontier = seqs.clone();
        for _ in 0..3 {
            let mut nx = vec![];
            for s in &frontier {
                for o in &opts {
                    let mut t = s.clone();
                    t.push(o.clone());
                    nx.push(t);
                }
            }
            seqs.extend(nx.iter().cloned());
            frontier = nx;
        }
        for s in &seqs {
            for _ in 0..n_small_cfg {
                let c = finish_case(*rng.pick(&MODES), rng.range(1, 4) as u64, rng.range(2, 4) as u64, *rng.pick(&THREADS), *rng.pick(&seeds), s.clone(), rng.range(1, 2), rng);
                cases.push(c);
                stats.bump("family_exhaustive_len0to3");
            }
        }
        // (2) sampled: 4..5 rows over 4 keys (incl. the empty key) x values {0,1,2,3,2^63-ish}, full parameter ranges
        for _ in 0..n_mid {
            let n = rng.range(4, 5);
            let items: Vec<(Vec<u8>, u64)> = (0..n).map(|_| (rng.pick(&SMALL_KEYS).to_vec(), *rng.pick(&[0u64, 1, 2, 3, BIG, BIG - 1, u64::MAX]))).collect();
            let c = finish_case(*rng.pick(&MODES), rng.range(1, 5) as u64, rng.range(2, 4) as u64, *rng.pick(&THREADS), *rng.pick(&seeds), items, rng.range(1, 3), rng);
            cases.push(c);
            stats.bump("family_sampled_len4to5");
        }
        // (3) configuration grid on a few fixed inputs: batch 1..5 x fd 2..4 x threads x 3 seeds x 4 modes (sampled 1 in k)
        for gi in 0..n_grid_inputs {
            let n = 5 + gi % 8;
            let items: Vec<(Vec<u8>, u64)> = (0..n).map(|_| (rng.pick(&SMALL_KEYS[..3]).to_vec(), 1 + rng.below(3))).collect();
            let keep = if tier == Tier::Quick { 8 } else { 3 };
            for mode in MODES {
                for batch in 1..=5u64 {
                    for fd in 2..=4u64 {
                        for th in THREADS {
                            for sd in seeds {
                                if rng.below(keep) == 0 {
                                    cases.push(finish_case(mode, batch, fd, th, sd, items.clone(), 1, rng));
                                    stats.bump("family_configuration_grid");
                                }
                            }
                        }
                    }
                }
            }
        }
        // (4) same input, batch 1, fd 2, many threads, many seeds: how many different schedules does the hook reach?
        for mode in ["sum", "min"] {
            let items: Vec<(Vec<u8>, u64)> = (0..12).map(|i| (SMALL_KEYS[i % 3].to_vec(), 1 + (i as u64 * 7) % 5)).collect();
            for th in [1u64, 2, 3, 8, 16] {
                for _ in 0..(if tier == Tier::Quick { 4 } else { 12 }) {
                    cases.push(finish_case(mode, 1, *rng.pick(&[2u64, 3]), th, rng.below(1 << 30), items.clone(), 1, rng));
                    stats.bump("family_schedule_spread");
                }
            }
        }
        // (5) random larger inputs with heavy duplication, random parameters, several files
        for _ in 0..n_large {
            let n = rng.range(6, 300);
            let pool = *rng.pick(&[3usize, 8, 30, 400]);
            let items: Vec<(Vec<u8>, u64)> = (0..n)
                .map(|_| {
                    let v = if rng.chance(1, 10) { *rng.pick(&[BIG, BIG - 1, u64::MAX, 1 << 62]) } else { rng.below(1000) };
                    (random_key(rng, pool), v)
                })
                .collect();
            let batch = if rng.chance(1, 8) { 100_000 } else { rng.range(1, 40) as u64 };
            let fd = if rng.chance(1, 6) { 15 } else { rng.range(2, 6) as u64 };
            let c = finish_case(*rng.pick(&MODES), batch, fd, *rng.pick(&[1u64, 2, 3, 4, 8, 16]), rng.below(1 << 30), items, rng.range(1, 4), rng);
            cases.push(c);
            stats.bump("family_random_large");
        }
        // (6) inputs without repeated keys (byte identity with a sorted build), shuffled, random parameters
        for _ in 0..n_large {
            let n = rng.range(0, 120);
            let mut keys: BTreeSet<Vec<u8>> = BTreeSet::new();
            for _ in 0..n {
                keys.insert(random_key(rng, 5000));
            }
            let mut items: Vec<(Vec<u8>, u64)> = keys.into_iter().map(|k| (k, if rng.chance(1, 10) { *rng.pick(&[BIG, u64::MAX, 0]) } else { rng.below(100000) })).collect();
            for i in (1..items.len()).rev() {
                let j = rng.range(0, i);
                items.swap(i, j);
            }
            let batch = rng.range(1, 30) as u64;
            let fd = rng.range(2, 5) as u64;
            let c = finish_case(*rng.pick(&MODES), batch, fd, *rng.pick(&THREADS), rng.below(1 << 30), items, rng.range(1, 3), rng);
            cases.push(c);
            stats.bump("family_random_distinct_keys");
        }
        for c in &cases {
            describe(c, stats);
        }
        cases.iter().map(render_case).collect()
    }

    fn nontrivial(&self, case: &str) -> bool {
        // at least two initial batches, i.e. at least one union generation
        let c = parse_case(case);
        c.items.len() as u64 > c.batch.max(1)
    }

    fn execute(&self, case: &str) -> String {
        let bin = match fst_bin() {
            Ok(b) => b,
            Err(e) => return format!("S:NOBINARY {}\tM:-", one_line(&e)),
        };
        let c = parse_case(case);
        let dir = target_dir().join("c19tmp").join(format!("{}-{}", std::process::id(), DIRCTR.fetch_add(1, Ordering::SeqCst)));
        let _ = std::fs::remove_dir_all(&dir);
        std::fs::create_dir_all(&dir).unwrap();
        let r = std::panic::catch_unwind(std::panic::AssertUnwindSafe(|| execute_in(&bin, &dir, &c, case)));
        let _ = std::fs::remove_dir_all(&dir);
        match r {
            Ok(l) => l,
            Err(e) => std::panic::resume_unwind(e),
        }
    }

    fn extras(&self, _tier: Tier, _rng: &mut Rng, stats: &mut Stats) -> Vec<(String, bool, String)> {
        let s = seen().lock().unwrap();
        let multi = s.per_config.values().filter(|v| v.len() > 1).count() as u64;
        let repeated_cfg = s.per_config.len() as u64;
        let maxg = s.per_config.values().map(|v| v.len()).max().unwrap_or(0) as u64;
        stats.add("runs_with_union_generations", s.union_runs);
        stats.add("union_batches_traced", s.union_batches);
        stats.add("distinct_union_groupings", s.all.len() as u64);
        stats.add("runs_with_results_out_of_index_order", s.reordered_runs);
        stats.add("configurations_with_unions", repeated_cfg);
        stats.add("configurations_seen_with_2plus_groupings", multi);
        stats.add("max_groupings_of_one_configuration", maxg);
        let _ = std::fs::remove_dir(target_dir().join("c19tmp"));
        let distinct: BTreeSet<&String> = s.all.iter().collect();
        let stress = parallel_stress(_tier, stats);
        vec![stress, (
            "schedules_exercised".to_string(),
            true,
            format!(
                "{} runs reached the union stage ({} union batches); {} distinct (configuration, grouping) pairs; in {} runs the worker results arrived out of index order; {} configurations showed >= 2 different groupings (max {} for one configuration)",
                s.union_runs, s.union_batches, distinct.len(), s.reordered_runs, multi, maxg
            ),
        )]
    }
}

/// Many small batches, many workers, NO seeded delays: the seeded delays of the hook spread the
/// workers out in time (good for reaching different groupings, bad for hitting a window of a few
/// nanoseconds), so races between workers that start at the same instant need runs without them.
/// 600 distinct keys, hundreds of batches per run; the output must hold exactly the input (for
/// maps with their values) and, being free of repeats, be byte-identical to the sorted build.
fn parallel_stress(tier: Tier, stats: &mut Stats) -> (String, bool, String) {
    let name = "unperturbed_parallel_stress".to_string();
    let bin = match fst_bin() {
        Ok(b) => b,
        Err(e) => return (name, false, e),
    };
    let budget = std::time::Duration::from_secs(match tier { Tier::Quick => 25, Tier::Thorough => 120, Tier::Wide => 60 });
    let t0 = std::time::Instant::now();
    let base = target_dir().join("c19stress");
    let _ = std::fs::remove_dir_all(&base);
    std::fs::create_dir_all(&base).unwrap();
    let mut rng = Rng::new(0xC19);
    let nkeys = 600usize;
    let mut rows: Vec<(Vec<u8>, u64)> = (0..nkeys).map(|i| (format!("k{:05}", i * 7 % 100_003).into_bytes(), (i as u64 * 2_654_435_761) % 1_000_003)).collect();
    rows.sort();
    rows.dedup_by(|a, b| a.0 == b.0);
    let sorted_rows = rows.clone();
    let configs: [(u64, u64, u64); 4] = [(2, 2, 16), (4, 3, 16), (10, 5, 8), (3, 2, 4)];
    let (mut runs, mut bad, mut first_bad) = (0u64, 0u64, String::new());
    'outer: for round in 0.. {
        for (ci, &(batch, fd, threads)) in configs.iter().enumerate() {
            for mode in ["set", "sum"] {
                if t0.elapsed() > budget || (tier == Tier::Quick && runs >= 200) {
                    break 'outer;
                }
                // a new order of the rows for every run
                for i in (1..rows.len()).rev() {
                    let j = rng.range(0, i);
                    rows.swap(i, j);
                }
                let dir = base.join(format!("r{}_{}_{}", round, ci, mode));
                std::fs::create_dir_all(&dir).unwrap();
                let mut buf = Vec::new();
                for (k, v) in &rows {
                    buf.extend_from_slice(k);
                    if mode != "set" {
                        buf.extend_from_slice(format!(",{}", v).as_bytes());
                    }
                    buf.push(b'\n');
                }
                let inp = if mode == "set" { "in.txt" } else { "in.csv" };
                std::fs::write(dir.join(inp), &buf).unwrap();
                let args: Vec<String> = vec![
                    (if mode == "set" { "set" } else { "map" }).to_string(), "--batch-size".into(), batch.to_string(), "--fd-limit".into(), fd.to_string(),
                    "--threads".into(), threads.to_string(), "--force".into(), inp.to_string(), "out.fst".into(),
                ];
                let (code, stderr) = run_fst(&bin, &dir, &args, None);
                runs += 1;
                let mut b = raw::Builder::memory();
                for (k, v) in &sorted_rows {
                    b.insert(k, if mode == "set" { 0 } else { *v }).unwrap();
                }
                let want = b.into_inner().unwrap();
                let got = std::fs::read(dir.join("out.fst")).unwrap_or_default();
                if code != Some(0) || got != want {
                    bad += 1;
                    if first_bad.is_empty() {
                        let nk = raw::Fst::new(got.clone()).map(|f| f.len()).unwrap_or(0);
                        first_bad = format!(
                            "fst {} --batch-size {} --fd-limit {} --threads {} on {} distinct shuffled keys k00000.. (no seeded delays): exit {:?} {}, output has {} keys and {} bytes, the sorted build {} keys and {} bytes",
                            if mode == "set" { "set" } else { "map" }, batch, fd, threads, sorted_rows.len(), code, one_line(&stderr), nk, got.len(), sorted_rows.len(), want.len()
                        );
                    }
                }
                let _ = std::fs::remove_dir_all(&dir);
            }
        }
    }
    let _ = std::fs::remove_dir_all(&base);
    stats.add("stress_runs_without_seeded_delays", runs);
    let detail = if bad == 0 {
        format!("{} unperturbed runs (600 distinct keys; batch/fd/threads 2/2/16, 4/3/16, 10/5/8, 3/2/4; set and map) all byte-identical to the sorted build", runs)
    } else {
        format!("{} of {} unperturbed runs differ from the sorted build; failing input: {}", bad, runs, first_bad)
    };
    (name, bad == 0, detail)
}
