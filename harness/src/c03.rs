//! C03 — range streams over every combination of bounds.
use crate::common::*;
use crate::core::*;
use fst::raw::Fst;
use fst::{IntoStreamer, Streamer};

pub struct P;

/// bound keys for a key set: every key, every prefix, key +/- one byte, absent at every depth, empty
pub fn bound_universe(ks: &[Vec<u8>], rng: &mut Rng, cap: usize) -> Vec<Vec<u8>> {
    let mut bs: Vec<Vec<u8>> = vec![vec![]];
    for k in ks {
        bs.push(k.clone());
        for i in 0..k.len() {
            bs.push(k[..i].to_vec());
            let mut d = k[..=i].to_vec();
            d[i] = d[i].wrapping_add(1);
            bs.push(d.clone());
            d[i] = d[i].wrapping_sub(2);
            bs.push(d);
        }
        let mut e = k.clone();
        e.push(0);
        bs.push(e.clone());
        *e.last_mut().unwrap() = 0xFF;
        bs.push(e);
    }
    let mut bs = sort_dedup(bs);
    while bs.len() > cap {
        let i = rng.below(bs.len() as u64) as usize;
        bs.remove(i);
    }
    bs
}

pub fn fmt_calls(calls: &[(u8, Vec<u8>)]) -> String {
    if calls.is_empty() {
        return "none".into();
    }
    calls.iter().map(|(k, b)| format!("{}:{}", ["ge", "gt", "le", "lt"][*k as usize], hex(b))).collect::<Vec<_>>().join(" ")
}
pub fn parse_calls(s: &str) -> Vec<(u8, Vec<u8>)> {
    if s == "none" || s.is_empty() {
        return vec![];
    }
    s.split(' ')
        .map(|t| {
            let mut p = t.split(':');
            let k = match p.next().unwrap() { "ge" => 0, "gt" => 1, "le" => 2, _ => 3 };
            (k, unhex(p.next().unwrap()))
        })
        .collect()
}

/// all (lower kind, lower key, upper kind, upper key) combinations over a bound universe
pub fn all_ranges(bs: &[Vec<u8>]) -> Vec<Vec<(u8, Vec<u8>)>> {
    let mut out = vec![vec![]];
    let mut lows: Vec<Option<(u8, Vec<u8>)>> = vec![None];
    let mut highs: Vec<Option<(u8, Vec<u8>)>> = vec![None];
    for b in bs {
        lows.push(Some((0, b.clone())));
        lows.push(Some((1, b.clone())));
        highs.push(Some((2, b.clone())));
        highs.push(Some((3, b.clone())));
    }
    for l in &lows {
        for h in &highs {
            let mut c = vec![];
            if let Some(l) = l { c.push(l.clone()); }
            if let Some(h) = h { c.push(h.clone()); }
            if !c.is_empty() { out.push(c); }
        }
    }
    out
}

pub fn gen_range_cases(kind: &str, mid: &str, tier: Tier, rng: &mut Rng, stats: &mut Stats, cases: &mut Vec<String>) {
    // exhaustive small scope: all bound combinations over the full bound universe
    let u = universe(&[b'a', b'b'], 2);
    let subs = subsets(&u);
    for (si, ks) in subs.iter().enumerate() {
        if tier == Tier::Quick && si % 4 != (rng.below(4) as usize) && ks.len() > 2 {
            continue;
        }
        let vals = value_pattern(1 + (si % 2) * 3, ks.len(), rng);
        let ops = map_ops(&with_values(ks, &vals));
        let mut bs = bound_universe(&u, rng, 64);
        bs.push(vec![b'c']);
        let rs = all_ranges(&bs);
        stats.add("ranges_small_scope", rs.len() as u64);
        for chunk in rs.chunks(300) {
            cases.push(format!("{} {} ;{} {}", kind, fmt_ops(&ops), mid, chunk.iter().map(|c| fmt_calls(c)).collect::<Vec<_>>().join("/")));
        }
        stats.bump("small_scope_keysets");
    }
    // bounds that leave (or stay in) the trie at nodes of every fan-out class: for each boundary family, lower and
    // upper bounds on a present byte, an absent byte between present ones, below the smallest and above the largest
    for (name, ks) in boundary_keysets(rng, tier) {
        if ks.len() > 300 || ks.is_empty() || ks.iter().any(|k| k.len() > 40) {
            continue;
        }
        let vals = value_pattern(5, ks.len(), rng);
        let ops = map_ops(&with_values(&ks, &vals));
        let mut bounds: Vec<Vec<u8>> = vec![];
        let sample: Vec<&Vec<u8>> = vec![&ks[0], &ks[ks.len() / 2], &ks[ks.len() - 1], rng.pick(&ks)];
        for k in sample {
            for i in 0..k.len() {
                for d in [0u8, 1, 255, 2, 128] {
                    let mut b = k[..=i].to_vec();
                    b[i] = b[i].wrapping_add(d);
                    bounds.push(b);
                }
            }
        }
        for b in [0u8, 1, 127, 128, 200, 254, 255] {
            bounds.push(vec![b]);
            bounds.push(vec![b'k', b]);
        }
        let bounds = sort_dedup(bounds);
        let mut rs = vec![];
        for b in &bounds {
            for kind in 0..4u8 {
                rs.push(vec![(kind, b.clone())]);
            }
        }
        stats.add("ranges_boundary_families", rs.len() as u64);
        stats.bump(&format!("bounds_on_{}", name.split('_').next().unwrap()));
        for chunk in rs.chunks(200) {
            cases.push(format!("{} {} ;{} {}", kind, fmt_ops(&ops), mid, chunk.iter().map(|c| fmt_calls(c)).collect::<Vec<_>>().join("/")));
        }
    }
    // deeper random key sets: sampled combinations + double settings
    let nrand = match tier { Tier::Quick => 120, Tier::Thorough => 2500, Tier::Wide => 500 };
    for i in 0..nrand {
        let ks = if i % 5 == 0 {
            let mut fams = boundary_keysets(rng, tier);
            let j = rng.below(fams.len() as u64) as usize;
            fams.swap_remove(j).1
        } else {
            random_keyset(rng, 30, 7)
        };
        if ks.len() > 300 { continue; }
        let p = rng.below(NPATTERNS as u64) as usize;
        let vals = value_pattern(p, ks.len(), rng);
        let ops = map_ops(&with_values(&ks, &vals));
        let bs = bound_universe(&ks, rng, 40);
        let mut rs = vec![];
        for _ in 0..60 {
            let mut c = vec![];
            let n = rng.range(0, 4);
            for _ in 0..n {
                c.push((rng.below(4) as u8, rng.pick(&bs).clone()));
            }
            rs.push(c);
        }
        stats.add("ranges_random", rs.len() as u64);
        cases.push(format!("{} {} ;{} {}", kind, fmt_ops(&ops), mid, rs.iter().map(|c| fmt_calls(c)).collect::<Vec<_>>().join("/")));
        stats.bump("random_keysets");
    }
}

impl Prop for P {
    fn generate(&self, tier: Tier, rng: &mut Rng, stats: &mut Stats) -> Vec<String> {
        let mut cases = vec![];
        gen_range_cases("range", "", tier, rng, stats, &mut cases);
        cases
    }
    fn nontrivial(&self, case: &str) -> bool {
        case.contains(',') && case.contains('/')
    }
    fn execute(&self, case: &str) -> String {
        let rest = &case["range ".len()..];
        let mut it = rest.split(';');
        let ops = parse_ops(it.next().unwrap().trim());
        let ranges: Vec<Vec<(u8, Vec<u8>)>> = it.next().unwrap().trim().split('/').map(|r| parse_calls(r.trim())).collect();
        let out = exec_build("extend", "raw_loop", 0, drows(), dcols(), &ops);
        let bytes = out.bytes.unwrap();
        let f = Fst::new(bytes.clone()).unwrap();
        let map = fst::Map::new(bytes.clone()).unwrap();
        let set = fst::Set::new(bytes.clone()).unwrap();
        let mut x = String::from("ok");
        let mut res = vec![];
        let (mut nlight, mut nfull) = (0u64, 0u64);
        for (ri, calls) in ranges.iter().enumerate() {
            let mut rb = f.range();
            let mut mb = map.range();
            for (k, b) in calls {
                rb = match k { 0 => rb.ge(b), 1 => rb.gt(b), 2 => rb.le(b), _ => rb.lt(b) };
                mb = match k { 0 => mb.ge(b), 1 => mb.gt(b), 2 => mb.le(b), _ => mb.lt(b) };
            }
            let mut st = rb.into_stream();
            let mut got = vec![];
            while let Some((k, v)) = st.next() {
                got.push((k.to_vec(), v.value()));
            }
            // "and then ends": further calls keep returning None
            if st.next().is_some() || st.next().is_some() {
                x = format!("stream yields again after None for {}", fmt_calls(calls));
            }
            let viamap = mb.into_stream().into_byte_vec();
            if viamap != got {
                x = format!("Map::range disagrees with raw range for {}", fmt_calls(calls));
            }
            // Map::range / Set::range by hand and through every collector (the collectors on every 4th range)
            let full = ri % 4 == 0;
            if let Err(e) = crate::wrap::range_wrappers(&map, &set, calls, &got, full) {
                x = e;
            }
            if full { nfull += 1 } else { nlight += 1 }
            res.push(fmt_kvs(&got));
        }
        // the same ranges on files STREAMED to short-writing / interrupting / block-cutting writers
        if x == "ok" && ops.len() <= 300 {
            let ranges2 = ranges.clone();
            let answer = move |g: &Fst<Vec<u8>>| -> String {
                let mut out = vec![];
                for calls in ranges2.iter() {
                    let mut rb = g.range();
                    for (k, b) in calls {
                        rb = match k { 0 => rb.ge(b), 1 => rb.gt(b), 2 => rb.le(b), _ => rb.lt(b) };
                    }
                    let mut st = rb.into_stream();
                    let mut got = vec![];
                    while let Some((k, v)) = st.next() {
                        got.push((k.to_vec(), v.value()));
                    }
                    out.push(fmt_kvs(&got));
                }
                out.join("/")
            };
            if let Err(e) = crate::wrap::alt_builds_answer(0, &ops, &bytes, &res.join("/"), &answer) {
                x = e;
            }
        }
        xcount_add("range_map_set_next_loops", nlight + nfull);
        xcount_add("range_map_set_collectors_bytes_values_strs", nfull);
        let s = res.join("/");
        format!("S:{}\tM:{}\tX:{}", s, s, x)
    }
}
