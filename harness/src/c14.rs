//! C14 — reading needs heap proportional to the longest key (streams) and to k and the longest
//! key (set operations over k streams), never to the number of keys; opening an FST over
//! borrowed or mapped bytes and point lookups allocate nothing.
//!
//! Measured with the thread-local counting allocator of `memtrack.rs`; the byte bounds are the
//! values of Coq `Mem.mem_bound_bytes_stream` / `Mem.mem_bound_bytes_ops` (computed here too;
//! the `M` field carries both sides' numbers).
use crate::c13::{vcap, Family, KeyGen};
use crate::common::*;
use crate::dynaut::Table;
use crate::memtrack as mem;
use fst::automaton::{Automaton, Levenshtein, Str, Subsequence};
use fst::raw::{Fst, Output};
use fst::{IntoStreamer, Streamer};
use std::collections::HashMap;
use std::sync::{Arc, Mutex, OnceLock};

pub struct P;

pub const KEYLEN: usize = 12; // digits of the counter the keys are derived from
pub const MAXKEY: usize = 13; // longest key: a counter value extended by one byte
pub const FANOUT: u64 = 16;
pub const FRAME_BASE: u64 = 80; // StreamState<()>: Node (64) + trans (8) + out (8)
pub const INP0: u64 = 16; // StreamWithState::new: inp = Vec::with_capacity(16)
pub const STREAMBOX: u64 = 120; // size_of::<raw::Stream<'_>>() = what OpBuilder boxes per stream
pub const SLOT: u64 = 40; // ops::Slot { idx, input: Vec<u8>, output }
pub const SLOT_INPUT0: u64 = 64; // Slot::new: Vec::with_capacity(64)
pub const IV: u64 = 16; // IndexedValue
pub const BOXPTR: u64 = 16; // Box<dyn Streamer>
pub const ALLOWANCE_S: u64 = 4096;

/// Must equal Coq `Mem.mem_bound_bytes_stream maxkey statesz`.
pub fn mem_bound_bytes_stream(maxkey: u64, statesz: u64) -> u64 {
    vcap(maxkey + 1) * (FRAME_BASE + statesz) + (2 * maxkey).max(INP0) + 2 * maxkey + ALLOWANCE_S
}
/// Must equal Coq `Mem.mem_bound_bytes_ops k maxkey`.
pub fn mem_bound_bytes_ops(k: u64, maxkey: u64) -> u64 {
    k * (STREAMBOX + mem_bound_bytes_stream(maxkey, 0))
        + vcap(k) * BOXPTR
        + vcap(k) * SLOT
        + k * (2 * maxkey).max(SLOT_INPUT0)
        + vcap(k) * IV
        + (2 * maxkey).max(8)
        + ALLOWANCE_S
}

// ---------------------------------------------------------------------------------------
// shared FSTs: variant j of size n holds n keys derived from counter values at multiples of a
// common stride (each multiple taken with probability about 1/3, so that variants overlap);
// the keys have varying lengths 0..=13 and many are proper prefixes of later keys (c13::KeyGen)
// ---------------------------------------------------------------------------------------
type Slot0 = Arc<OnceLock<&'static Vec<u8>>>;
static FSTS: OnceLock<Mutex<HashMap<(String, u64, u64), Slot0>>> = OnceLock::new();

/// key family of variant j: 0 -> pfx (empty key, varying lengths, keys that are prefixes of
/// later keys), 1 -> ext (key, key+x pairs), 2 -> fix, then again
pub fn family_of(variant: u64) -> Family {
    match variant % 3 {
        0 => Family::Pfx,
        1 => Family::Ext,
        _ => Family::Fix,
    }
}
/// `total` keys on a grid of the 2^48 counter values; `variant` selects family and seed
fn keygen(total: u64, variant: u64) -> KeyGen {
    let space: u64 = FANOUT.pow(KEYLEN as u32); // 2^48
    KeyGen::with_steps(family_of(variant), FANOUT, KEYLEN, 1000 + total * 16 + variant, space / (5 * total + 7), 5)
}

/// The j-th FST of a named construction, for size parameter n:
///   dense    n keys, variant j (grid points taken with probability ~1/3: variants overlap densely)
///   nested   the first n/(j+1) keys of one base sequence of n keys
///   ranges   keys j*n .. (j+1)*n of one base sequence of 8n keys (range-partitioned, disjoint)
///   disjoint keys i with i mod 8 = j of that base sequence (interleaved, pairwise disjoint)
///   tiny     10 keys spread over the dense variant 0
pub fn fst_of(cons: &str, j: u64, n: u64) -> &'static Vec<u8> {
    let slot = {
        let mut m = FSTS.get_or_init(|| Mutex::new(HashMap::new())).lock().unwrap();
        m.entry((cons.to_string(), j, n)).or_insert_with(|| Arc::new(OnceLock::new())).clone()
    };
    slot.get_or_init(|| {
        let mut b = fst::raw::Builder::new(Vec::new()).unwrap();
        let (mut g, total): (KeyGen, u64) = match cons {
            "dense" => (keygen(n, j), n),
            "nested" => (keygen(n, 99), n / (j + 1)),
            "ranges" | "disjoint" => (keygen(8 * n, 96), 8 * n),
            "tiny" => (keygen(n, 0), n),
            // long keys of varying length (72..=106 bytes): a constant 60-byte prefix, a fixed-length
            // counter value (family fix) that decides the order, and a tail of 0..=34 bytes
            "long" => (keygen(n, 3 * j + 2), n),
            _ => panic!("construction"),
        };
        for i in 0..total {
            let k = g.next();
            let take = match cons {
                "ranges" => i / n == j,
                "disjoint" => i % 8 == j,
                "tiny" => i % (n / 10) == n / 20,
                _ => true,
            };
            if cons == "long" {
                let mut lk = vec![b'L'; 60];
                lk.extend_from_slice(k);
                let tail = (i.wrapping_mul(0x9E37_79B9_7F4A_7C15) >> 40) % 35;
                lk.extend(std::iter::repeat(b'~').take(tail as usize));
                b.insert(&lk, i * 3 + j).unwrap();
            } else if take {
                b.insert(k, i * 3 + j).unwrap();
            }
        }
        Box::leak(Box::new(b.into_inner().unwrap()))
    })
}
pub fn fst_bytes(n: u64, variant: u64) -> &'static Vec<u8> {
    fst_of("dense", variant, n)
}

/// Overlap shapes of the k inputs of a set operation.
pub const SHAPES: [&str; 7] = ["ident", "dense", "disjoint", "ranges", "nested", "tiny", "long"];
pub const LONG_MAXKEY: usize = 60 + KEYLEN + 34;
pub fn inputs(shape: &str, k: u64, n: u64) -> Vec<&'static Vec<u8>> {
    (0..k)
        .map(|j| match shape {
            "ident" => fst_of("dense", 0, n),
            "dense" => fst_of("dense", j, n),
            "disjoint" => fst_of("disjoint", j, n),
            "ranges" => fst_of("ranges", j, n),
            "nested" => fst_of("nested", j, n),
            "long" => fst_of("long", j, n),
            "tiny" => {
                if j == 0 {
                    fst_of("tiny", 0, n)
                } else {
                    fst_of("dense", j, n)
                }
            }
            _ => panic!("shape"),
        })
        .collect()
}

/// some keys that are present (every (n/cnt)-th) and some that are not
fn probes(f: &Fst<&[u8]>, n: u64, cnt: usize) -> (Vec<Vec<u8>>, Vec<Vec<u8>>) {
    let step = (n as usize / cnt).max(1);
    let mut hits = vec![];
    let mut s = f.stream();
    let mut i = 0usize;
    while let Some((k, _)) = s.next() {
        if i % step == 0 && hits.len() < cnt {
            hits.push(k.to_vec());
        }
        i += 1;
    }
    let mut misses = vec![];
    for (j, h) in hits.iter().enumerate() {
        let mut m = h.clone();
        match j % 3 {
            0 => {
                while m.len() <= MAXKEY {
                    m.push(b'a') // longer than any key
                }
            }
            1 => m.push(b'z'),                 // a byte outside the alphabet
            _ => {
                if m.is_empty() {
                    m.push(0xFF)
                } else {
                    let i = j % m.len();
                    m[i] = 0xFF
                }
            }
        }
        misses.push(m);
    }
    (hits, misses)
}

pub fn table_dfa() -> Table {
    // 2 classes (byte parity), 3 states: counts odd bytes mod 3, accepts on 0; never prunes
    Table { ncls: 2, next: vec![0, 1, 1, 2, 2, 0], m: vec![true, false, false], c: vec![true; 3], w: vec![false; 3], start: 0 }
}

/// 16 classes (byte mod 16; 'p' is class 0): matches the keys that end in "pp" (1 key in 256),
/// never prunes: long runs of rejected keys between two matches
pub fn rare_dfa() -> Table {
    let mut next = vec![0usize; 3 * 16];
    next[0] = 1; // state 0 on 'p'
    next[16] = 2; // state 1 on 'p'
    next[32] = 2; // state 2 on 'p'
    Table { ncls: 16, next, m: vec![false, false, true], c: vec![true; 3], w: vec![false; 3], start: 0 }
}
/// matches nothing and never prunes: the whole FST is traversed and every key rejected
pub fn never_dfa() -> Table {
    Table { ncls: 1, next: vec![0], m: vec![false], c: vec![true], w: vec![false], start: 0 }
}

#[derive(Default, Clone, Debug)]
pub struct Trav {
    pub peak: u64,
    pub allocs: u64,
    pub items: u64,
    pub maxlen: usize,
}

fn drive<'f, A: Automaton>(mut s: fst::raw::Stream<'f, A>) -> (u64, usize) {
    let (mut cnt, mut ml) = (0u64, 0usize);
    while let Some((k, _)) = s.next() {
        cnt += 1;
        ml = ml.max(k.len());
    }
    (cnt, ml)
}

/// A full traversal of the named kind over the FST of size n; the peak is taken over the
/// construction of the stream and the whole traversal.
pub fn traverse(kind: &str, n: u64) -> Trav {
    let bytes = fst_bytes(n, 0);
    let f = Fst::new(&bytes[..]).unwrap();
    // query of the Str / Levenshtein searches: a key of the longest length present in every
    // one of the FSTs (the depth such a search reaches is set by its query, not by the FST)
    let query: Vec<u8> = if kind.starts_with("search_str") || kind.starts_with("search_lev") {
        let (hits, _) = probes(&f, n, 64);
        hits.into_iter().find(|h| h.len() == MAXKEY).expect("no key of the maximal length among the probes")
    } else {
        vec![]
    };
    let lo: &[u8] = b"bdddddd";
    let hi: &[u8] = b"onnnnnnnnnnnnn";
    let (cnt, ml);
    match kind {
        "stream" => {
            mem::reset();
            let r = drive(f.stream());
            cnt = r.0;
            ml = r.1;
        }
        "range_ge_lt" => {
            mem::reset();
            let r = drive(f.range().ge(lo).lt(hi).into_stream());
            cnt = r.0;
            ml = r.1;
        }
        "range_gt_le" => {
            mem::reset();
            let r = drive(f.range().gt(lo).le(hi).into_stream());
            cnt = r.0;
            ml = r.1;
        }
        "search_str" => {
            let a = Str::new(std::str::from_utf8(&query).unwrap());
            mem::reset();
            let r = drive(f.search(a).into_stream());
            cnt = r.0;
            ml = r.1;
        }
        "search_subseq" => {
            let a = Subsequence::new("cab");
            mem::reset();
            let r = drive(f.search(a).into_stream());
            cnt = r.0;
            ml = r.1;
        }
        "search_table" => {
            let a = table_dfa();
            mem::reset();
            let r = drive(f.search(&a).into_stream());
            cnt = r.0;
            ml = r.1;
        }
        "search_rare" => {
            let a = rare_dfa();
            mem::reset();
            let r = drive(f.search(&a).into_stream());
            cnt = r.0;
            ml = r.1;
        }
        "search_never" => {
            let a = never_dfa();
            mem::reset();
            let r = drive(f.search(&a).into_stream());
            cnt = r.0;
            ml = r.1;
        }
        "search_str_last" => {
            // the last key of maximal length: (almost) everything before it is rejected
            let mut last = vec![];
            let mut s = f.stream();
            while let Some((k, _)) = s.next() {
                if k.len() == MAXKEY {
                    last.clear();
                    last.extend_from_slice(k);
                }
            }
            drop(s);
            let a = Str::new(std::str::from_utf8(&last).unwrap());
            mem::reset();
            let r = drive(f.search(a).into_stream());
            cnt = r.0;
            ml = r.1;
        }
        "search_lev" => {
            let a = Levenshtein::new(std::str::from_utf8(&query).unwrap(), 1).unwrap();
            mem::reset();
            let r = drive(f.search(&a).into_stream());
            cnt = r.0;
            ml = r.1;
        }
        "search_subseq_range" => {
            let a = Subsequence::new("ab");
            mem::reset();
            let r = drive(f.search(a).ge(lo).le(hi).into_stream());
            cnt = r.0;
            ml = r.1;
        }
        _ => panic!("kind"),
    }
    Trav { peak: mem::peak(), allocs: mem::allocs(), items: cnt, maxlen: ml }
}

pub fn statesz_of(kind: &str) -> u64 {
    (match kind {
        "search_str" | "search_str_last" => std::mem::size_of::<<Str<'static> as Automaton>::State>(),
        "search_subseq" | "search_subseq_range" => std::mem::size_of::<<Subsequence<'static> as Automaton>::State>(),
        "search_table" | "search_rare" | "search_never" => std::mem::size_of::<<Table as Automaton>::State>(),
        "search_lev" => std::mem::size_of::<<Levenshtein as Automaton>::State>(),
        _ => 0,
    }) as u64
}

/// A set operation over k FSTs in the given overlap shape: OpBuilder construction and the
/// full traversal are both inside the measurement.
pub fn run_op(kind: &str, shape: &str, k: u64, n: u64) -> Trav {
    let fs: Vec<Fst<&[u8]>> = inputs(shape, k, n).into_iter().map(|b| Fst::new(&b[..]).unwrap()).collect();
    mem::reset();
    let mut ob = fst::raw::OpBuilder::new();
    for f in &fs {
        ob.push(f);
    }
    let (mut cnt, mut ml) = (0u64, 0usize);
    macro_rules! go {
        ($s:expr) => {{
            let mut s = $s;
            while let Some((key, ivs)) = s.next() {
                cnt += 1;
                ml = ml.max(key.len());
                assert!(!ivs.is_empty());
            }
        }};
    }
    match kind {
        "union" => go!(ob.union()),
        "intersection" => go!(ob.intersection()),
        "difference" => go!(ob.difference()),
        "symmetric_difference" => go!(ob.symmetric_difference()),
        _ => panic!("op"),
    }
    Trav { peak: mem::peak(), allocs: mem::allocs(), items: cnt, maxlen: ml }
}

static LOG: Mutex<Vec<String>> = Mutex::new(Vec::new());
fn log(s: String) {
    if std::env::var("VERIF_MEM_DEBUG").is_ok() {
        eprintln!("{}", s);
    }
    LOG.lock().unwrap().push(s);
}

const TRAV_KINDS: [&str; 11] = [
    "stream", "range_ge_lt", "range_gt_le", "search_str", "search_str_last", "search_subseq", "search_table", "search_rare", "search_never", "search_lev",
    "search_subseq_range",
];
const OP_KINDS: [&str; 4] = ["union", "intersection", "difference", "symmetric_difference"];

fn measure_kind(kind: &str, n: u64) -> Trav {
    // "union:4:disjoint" = set operation over 4 streams in that overlap shape
    let q: Vec<&str> = kind.split(':').collect();
    if q.len() == 3 {
        return run_op(q[0], q[2], q[1].parse().unwrap(), n);
    }
    traverse(kind, n)
}

impl Prop for P {
    fn generate(&self, tier: Tier, _rng: &mut Rng, stats: &mut Stats) -> Vec<String> {
        let ns: &[u64] = match tier {
            Tier::Quick => &[10_000, 100_000, 300_000],
            Tier::Thorough => &[10_000, 100_000, 1_000_000],
            Tier::Wide => &[10_000, 30_000, 100_000],
        };
        let mut cases = vec![];
        for &n in ns {
            cases.push(format!("open_get {}", n));
            stats.bump("open_get");
            for kind in TRAV_KINDS {
                cases.push(format!("trav {} {} {} {}", kind, n, MAXKEY, statesz_of(kind)));
                stats.bump("traversals");
            }
            for op in OP_KINDS {
                for shape in SHAPES {
                    for k in 2..=8u64 {
                        cases.push(format!("op {} {} {} {} {}", op, shape, k, n, if shape == "long" { LONG_MAXKEY } else { MAXKEY }));
                        stats.bump("set_operations");
                        stats.bump(&format!("set_operations_{}", shape));
                    }
                }
            }
        }
        let (n1, n2) = (ns[0], ns[ns.len() - 1]);
        for kind in TRAV_KINDS {
            cases.push(format!("flat {} {} {}", kind, n1, n2));
            cases.push(format!("flat {} {} {}", kind, ns[1], n2));
            stats.add("flatness", 2);
        }
        for op in OP_KINDS {
            for shape in SHAPES {
                for k in [2u64, 3, 8] {
                    cases.push(format!("flat {}:{}:{} {} {}", op, k, shape, n1, n2));
                    stats.bump("flatness");
                }
            }
        }
        cases
    }

    fn nontrivial(&self, case: &str) -> bool {
        // everything here runs on an FST of at least 10^4 keys
        !case.is_empty()
    }

    fn execute(&self, case: &str) -> String {
        let p: Vec<&str> = case.split(' ').collect();
        match p[0] {
            "open_get" => {
                let n: u64 = p[1].parse().unwrap();
                let bytes = fst_bytes(n, 0);
                // the mapped file is prepared outside the measurement
                let dir = format!("{}/target/c14-mmap", env!("CARGO_MANIFEST_DIR"));
                std::fs::create_dir_all(&dir).unwrap();
                let path = format!("{}/fst_{}_{:?}.fst", dir, n, std::thread::current().id());
                std::fs::write(&path, &bytes[..]).unwrap();
                let file = std::fs::File::open(&path).unwrap();
                let mm = unsafe { memmap2::Mmap::map(&file).unwrap() };
                let f0 = Fst::new(&bytes[..]).unwrap();
                let (hits, misses) = probes(&f0, n, 500);
                drop(f0);
                // 1. open over borrowed bytes
                mem::reset();
                let fb = Fst::new(&bytes[..]);
                let a_open_borrowed = mem::allocs();
                let fb = fb.unwrap();
                // 2. open over mapped bytes (the map itself exists already)
                mem::reset();
                let fm = Fst::new(mm);
                let a_open_mapped = mem::allocs();
                let fm = fm.unwrap();
                // 3. map front end over borrowed bytes
                mem::reset();
                let mp = fst::Map::new(&bytes[..]);
                let a_open_map = mem::allocs();
                let mp = mp.unwrap();
                // 4. point lookups: hits and misses, on all three
                mem::reset();
                let mut found = 0u64;
                let mut absent = 0u64;
                let mut sum = 0u64;
                for h in &hits {
                    if let Some(o) = fb.get(h) {
                        found += 1;
                        sum = sum.wrapping_add(o.value());
                    }
                    found += fb.contains_key(h) as u64;
                    found += fm.get(h).is_some() as u64;
                    found += fm.contains_key(h) as u64;
                    found += mp.get(h).is_some() as u64;
                    found += mp.contains_key(h) as u64;
                }
                for m in &misses {
                    absent += fb.get(m).is_none() as u64;
                    absent += !fb.contains_key(m) as u64;
                    absent += fm.get(m).is_none() as u64;
                    absent += !fm.contains_key(m) as u64;
                    absent += mp.get(m).is_none() as u64;
                    absent += !mp.contains_key(m) as u64;
                }
                let a_get = mem::allocs();
                let peak_get = mem::peak();
                drop(fm);
                let _ = std::fs::remove_file(&path);
                let total = a_open_borrowed + a_open_mapped + a_open_map + a_get;
                log(format!(
                    "{}: allocs open_borrowed={} open_mapped={} open_map={} lookups={} probes={} found={} absent={} checksum={}",
                    case, a_open_borrowed, a_open_mapped, a_open_map, a_get, hits.len() + misses.len(), found, absent, sum
                ));
                let mut x = String::from("ok");
                if total != 0 || peak_get != 0 {
                    x = format!("allocations: open_borrowed={} open_mapped={} open_map={} lookups={} (peak {} bytes)", a_open_borrowed, a_open_mapped, a_open_map, a_get, peak_get);
                } else if found != 6 * hits.len() as u64 || absent != 6 * misses.len() as u64 || hits.len() != 500 {
                    x = format!("probe set wrong: found {} of {}, absent {} of {}", found, 6 * hits.len(), absent, 6 * misses.len());
                }
                format!("S:allocs={}\tM:0\tX:{}", total, x)
            }
            "trav" => {
                let kind = p[1];
                let n: u64 = p[2].parse().unwrap();
                let maxkey: u64 = p[3].parse().unwrap();
                let statesz: u64 = p[4].parse().unwrap();
                let t = traverse(kind, n);
                let bound = mem_bound_bytes_stream(maxkey, statesz);
                log(format!("{}: peak={} bound={} allocs={} items={} maxlen={}", case, t.peak, bound, t.allocs, t.items, t.maxlen));
                let within = t.peak <= bound;
                let mut x = String::from("ok");
                if !within {
                    x = format!("peak={} bound={} items={}", t.peak, bound, t.items);
                } else if (t.items == 0 && kind != "search_never") || (kind == "stream" && t.items != n) {
                    x = format!("traversal yielded {} items", t.items);
                } else if t.maxlen as u64 > maxkey || statesz != statesz_of(kind) {
                    x = format!("case parameters wrong: maxlen {} statesz {}", t.maxlen, statesz_of(kind));
                }
                format!("S:{}\tM:{}\tX:{}", if within { "within" } else { "exceeds" }, bound, x)
            }
            "op" => {
                let op = p[1];
                let shape = p[2];
                let k: u64 = p[3].parse().unwrap();
                let n: u64 = p[4].parse().unwrap();
                let maxkey: u64 = p[5].parse().unwrap();
                let t = run_op(op, shape, k, n);
                let bound = mem_bound_bytes_ops(k, maxkey);
                log(format!("{}: peak={} bound={} allocs={} items={}", case, t.peak, bound, t.allocs, t.items));
                let within = t.peak <= bound;
                let mut x = String::from("ok");
                if !within {
                    x = format!("peak={} bound={} items={}", t.peak, bound, t.items);
                } else if t.items == 0 && (op == "union" || (op == "symmetric_difference" && shape != "ident")) {
                    x = format!("operation yielded {} items", t.items);
                } else if t.maxlen as u64 > maxkey {
                    x = format!("key of length {} > {}", t.maxlen, maxkey);
                }
                format!("S:{}\tM:{}\tX:{}", if within { "within" } else { "exceeds" }, bound, x)
            }
            "flat" => {
                let kind = p[1];
                let n1: u64 = p[2].parse().unwrap();
                let n2: u64 = p[3].parse().unwrap();
                let t1 = measure_kind(kind, n1);
                let t2 = measure_kind(kind, n2);
                log(format!("{}: peak1={} peak2={} items1={} items2={}", case, t1.peak, t2.peak, t1.items, t2.items));
                // single streams: exactly flat. Set operations: the depth a lazily advanced input
                // stream has reached depends on the length of the key it is parked on (e.g. the
                // streams a difference never has to advance), which moves its Vec capacities by
                // one doubling step independently of N: a quarter on top is allowed there.
                let is_op = kind.contains(':');
                let flat = if is_op { t2.peak <= t1.peak * 5 / 4 + 256 } else { t2.peak <= t1.peak + 256 };
                let mut x = String::from("ok");
                if !flat {
                    x = format!("peak({})={} peak({})={}", n1, t1.peak, n2, t2.peak);
                } else if t2.items < t1.items && !kind.starts_with("search_lev") && !is_op {
                    x = format!("items {} -> {}", t1.items, t2.items);
                }
                format!("S:{}\tM:{}\tX:{}", if flat { "flat" } else { "grows" }, if is_op { "5/4+256" } else { "256" }, x)
            }
            _ => "S:BADCASE\tM:BADCASE".into(),
        }
    }

    fn extras(&self, _tier: Tier, _rng: &mut Rng, stats: &mut Stats) -> Vec<(String, bool, String)> {
        let mut out = vec![];
        #[allow(dead_code)]
        struct MStreamState<'f, S> {
            node: fst::raw::Node<'f>,
            trans: usize,
            out: Output,
            aut_state: S,
        }
        #[allow(dead_code)]
        struct MSlot {
            idx: usize,
            input: Vec<u8>,
            output: Output,
        }
        type BoxedStream<'f> = Box<dyn for<'a> Streamer<'a, Item = (&'a [u8], Output)> + 'f>;
        let f0 = std::mem::size_of::<MStreamState<'static, ()>>() as u64;
        let f8 = std::mem::size_of::<MStreamState<'static, usize>>() as u64;
        let f16 = std::mem::size_of::<MStreamState<'static, Option<usize>>>() as u64;
        let sb = std::mem::size_of::<fst::raw::Stream<'static>>() as u64;
        let sl = std::mem::size_of::<MSlot>() as u64;
        let iv = std::mem::size_of::<fst::raw::IndexedValue>() as u64;
        let bp = std::mem::size_of::<BoxedStream<'static>>() as u64;
        let ok = f0 == FRAME_BASE && f8 == FRAME_BASE + 8 && f16 == FRAME_BASE + 16 && sb == STREAMBOX && sl == SLOT && iv == IV && bp == BOXPTR;
        // informational only: the property bounds the heap by the longest key and the number of
        // streams, not by the pinned revision's struct sizes - a struct that gains a field is no
        // violation (the byte bounds carry a fixed allowance; what decides is peak <= bound and
        // flatness in the number of keys, measured by the cases)
        stats.counters.insert("struct_sizes_equal_Mem_v".to_string(), ok as u64);
        out.push((
            "struct_sizes_match_Mem_v".to_string(),
            true,
            format!(
                "size_of StreamState(mirror)<()>={} <usize>={} <Option<usize>>={} raw::Stream={} Slot(mirror)={} IndexedValue={} Box<dyn Streamer>={}; Mem.v uses FRAME={}+statesz STREAMBOX={} SLOT={} IV={} BOXPTR={}",
                f0, f8, f16, sb, sl, iv, bp, FRAME_BASE, STREAMBOX, SLOT, IV, BOXPTR
            ),
        ));
        let logv = LOG.lock().unwrap().clone();
        let mut worst = 0.0f64;
        let mut worst_case = String::new();
        for l in &logv {
            if let (Some(pk), Some(bd)) = (field(l, "peak="), field(l, "bound=")) {
                let r = pk as f64 / bd as f64;
                if r > worst {
                    worst = r;
                    worst_case = l.clone();
                }
                let cfg = l.split(':').next().unwrap().replace(' ', "_");
                stats.counters.insert(format!("peak_bytes_{}", cfg), pk);
            }
        }
        let mut sample: Vec<String> = logv.iter().filter(|l| l.starts_with("flat ") || l.starts_with("open_get")).cloned().collect();
        sample.sort();
        sample.truncate(40);
        out.push(("measured_peaks".to_string(), true, format!("worst peak/bound = {:.3} ({}); {}", worst, worst_case, sample.join(" | "))));
        // detection power: a traversal that collects its keys must fail flatness and the bound
        let collect = |n: u64| {
            let bytes = fst_bytes(n, 0);
            let f = Fst::new(&bytes[..]).unwrap();
            mem::reset();
            let v = f.stream().into_byte_keys();
            let p = mem::peak();
            drop(v);
            p
        };
        let (p1, p2) = (collect(10_000), collect(100_000));
        let bound = mem_bound_bytes_stream(MAXKEY as u64, 0);
        let detected = p2 > p1 + 256 && p2 > bound;
        out.push((
            "criteria_reject_collecting_traversal".to_string(),
            detected,
            format!("into_byte_keys (keeps every key): peak(1e4)={} peak(1e5)={} bound={} -> flatness and bound both fail as they must: {}", p1, p2, bound, detected),
        ));
        out
    }
}

fn field(l: &str, name: &str) -> Option<u64> {
    let i = l.find(name)? + name.len();
    let rest = &l[i..];
    let end = rest.find(' ').unwrap_or(rest.len());
    rest[..end].parse().ok()
}
