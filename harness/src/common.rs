//! Shared helpers: PRNG, hex, case plumbing.
use std::collections::BTreeMap;

/// xorshift64*; every random choice of a run derives from one state seeded by VERIF_SEED.
#[derive(Clone)]
pub struct Rng(pub u64);
impl Rng {
    pub fn new(seed: u64) -> Rng {
        Rng(seed.wrapping_mul(0x9E3779B97F4A7C15) ^ 0xD1B54A32D192ED03 | 1)
    }
    pub fn next(&mut self) -> u64 {
        let mut x = self.0;
        x ^= x >> 12;
        x ^= x << 25;
        x ^= x >> 27;
        self.0 = x;
        x.wrapping_mul(0x2545F4914F6CDD1D)
    }
    pub fn below(&mut self, n: u64) -> u64 {
        if n == 0 { 0 } else { self.next() % n }
    }
    pub fn range(&mut self, lo: usize, hi: usize) -> usize {
        lo + self.below((hi - lo + 1) as u64) as usize
    }
    pub fn chance(&mut self, num: u64, den: u64) -> bool {
        self.below(den) < num
    }
    pub fn pick<'a, T>(&mut self, xs: &'a [T]) -> &'a T {
        &xs[self.below(xs.len() as u64) as usize]
    }
}

pub fn hex(bs: &[u8]) -> String {
    if bs.is_empty() {
        return "-".to_string();
    }
    let mut s = String::with_capacity(bs.len() * 2);
    for b in bs {
        s.push_str(&format!("{:02x}", b));
    }
    s
}
pub fn unhex(s: &str) -> Vec<u8> {
    if s == "-" || s.is_empty() {
        return vec![];
    }
    let b = s.as_bytes();
    (0..b.len() / 2)
        .map(|i| {
            let h = (b[2 * i] as char).to_digit(16).unwrap() as u8;
            let l = (b[2 * i + 1] as char).to_digit(16).unwrap() as u8;
            h * 16 + l
        })
        .collect()
}

#[derive(Clone, Copy, PartialEq, Eq, Debug)]
pub enum Tier {
    Quick,
    Thorough,
    Wide,
}

/// Statistics a generator records about what it produced (goes into the evidence file).
#[derive(Default)]
pub struct Stats {
    pub counters: BTreeMap<String, u64>,
    pub notes: Vec<String>,
}
impl Stats {
    pub fn bump(&mut self, k: &str) {
        *self.counters.entry(k.to_string()).or_insert(0) += 1;
    }
    pub fn add(&mut self, k: &str, n: u64) {
        *self.counters.entry(k.to_string()).or_insert(0) += n;
    }
}

/// Counters for the self-checks that `execute` performs (executors have no access to the generator's `Stats`):
/// every executor records which wrapper self-checks it actually ran; `main` merges them into the
/// statistics of the run as `selfcheck_<name>`, so they appear in the evidence file's distribution.
static XCOUNTS: std::sync::Mutex<BTreeMap<&'static str, u64>> = std::sync::Mutex::new(BTreeMap::new());
pub fn xcount(k: &'static str) {
    xcount_add(k, 1)
}
pub fn xcount_add(k: &'static str, n: u64) {
    *XCOUNTS.lock().unwrap_or_else(|e| e.into_inner()).entry(k).or_insert(0) += n;
}
pub fn xcounts() -> BTreeMap<&'static str, u64> {
    XCOUNTS.lock().unwrap_or_else(|e| e.into_inner()).clone()
}

/// One property's side of the differential check.
pub trait Prop: Sync {
    /// Generate the case lines for this run.
    fn generate(&self, tier: Tier, rng: &mut Rng, stats: &mut Stats) -> Vec<String>;
    /// Run the implementation on one case line; returns "S:..\tM:..[\tX:..]".
    fn execute(&self, case: &str) -> String;
    /// Is this case non-trivial (for the evidence count)?
    fn nontrivial(&self, case: &str) -> bool {
        case.len() > 8
    }
    /// A corpus line (a minimised historical failure) as it should be run today: case lines that carry
    /// something MEASURED from the implementation (C07/C11: the write_all chunks of the in-memory build) are
    /// brought up to date, so that a harmless change of how the builder chunks its writes does not turn the
    /// committed witnesses into self-check failures.
    fn refresh_corpus_line(&self, line: &str) -> String {
        line.to_string()
    }
    /// Extra whole-run measurements (memory, binaries …); returns (name, ok, detail) records.
    fn extras(&self, _tier: Tier, _rng: &mut Rng, _stats: &mut Stats) -> Vec<(String, bool, String)> {
        vec![]
    }
}

pub fn json_escape(s: &str) -> String {
    let mut o = String::new();
    for c in s.chars() {
        match c {
            '"' => o.push_str("\\\""),
            '\\' => o.push_str("\\\\"),
            '\n' => o.push_str("\\n"),
            '\t' => o.push_str("\\t"),
            c if (c as u32) < 0x20 => o.push_str(&format!("\\u{:04x}", c as u32)),
            c => o.push(c),
        }
    }
    o
}
