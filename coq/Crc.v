(* Crc.v — CRC-32C: the mathematical specification (bit by bit, no tables) and the model of
   build.rs (make_table, make_table16), src/raw/crc32.rs (crc32c_slice16, CheckSummer) and the
   two little-endian readers of src/bytes.rs.  No proofs here (proofs/CrcProofs.v). *)
Require Import FstV.Base FstV.Generated.SrcParams.

Definition MASK32 : N := 4294967295.        (* 0xFFFFFFFF *)
Definition POW32 : N := 4294967296.         (* 2^32 *)
Definition is_u32 (x : N) : bool := x <? POW32.
Definition all_bytes (l : list N) : bool := forallb is_byte l.

(* ================= SPECIFICATION (independent of the source and of any table) =================
   Reflected CRC-32C (Castagnoli): polynomial 0x1EDC6F41 reflected = 0x82F63B78, register
   initialised to all ones, every message byte is XORed into the low byte and the register is
   divided by x eight times (shift right; if the bit shifted out was 1, XOR the polynomial);
   the final register is complemented.  [spec_update prev] continues a finished CRC [prev]. *)
Definition spec_poly : N := 0x82F63B78.
Definition spec_bit_step (c : N) : N :=
  if N.odd c then N.lxor (N.div2 c) spec_poly else N.div2 c.
Fixpoint spec_bits (n : nat) (c : N) : N :=
  match n with O => c | S k => spec_bits k (spec_bit_step c) end.
Definition spec_byte (c b : N) : N := spec_bits 8 (N.lxor c b).
Definition spec_update (prev : N) (buf : list N) : N :=
  N.lxor (fold_left spec_byte buf (N.lxor prev MASK32)) MASK32.
Definition spec_crc32c (buf : list N) : N := spec_update 0 buf.
(* Snappy-style masking, arithmetically: rotate right by 15 inside 32 bits, add the constant mod 2^32 *)
Definition spec_rotr15 (x : N) : N := x / 32768 + (x mod 32768) * 131072.
Definition spec_masked (crc : N) : N := (spec_rotr15 crc + 0xA282EAD8) mod POW32.
Definition spec_masked_crc32c (buf : list N) : N := spec_masked (spec_crc32c buf).

(* ================= MODEL of the code ================= *)
Definition u8 (x : N) : N := N.land x 255.               (* `x as u8` *)
Definition not32 (x : N) : N := N.lxor x MASK32.          (* `!x` on a u32 *)
Definition idx (t : list N) (i : N) : N := nth (N.to_nat i) t 0.   (* t[i]; every use has i < 256 = |t| *)

(* --- src/bytes.rs: u32/u64::from_le_bytes(slice[..k]) ; `slice[..k]` panics when the slice is shorter --- *)
Definition le32 (b0 b1 b2 b3 : N) : N :=
  N.lor b0 (N.lor (N.shiftl b1 8) (N.lor (N.shiftl b2 16) (N.shiftl b3 24))).
Definition le64 (b0 b1 b2 b3 b4 b5 b6 b7 : N) : N :=
  N.lor (le32 b0 b1 b2 b3) (N.shiftl (le32 b4 b5 b6 b7) 32).
Definition read_u32_le (s : list N) : res N :=
  match s with
  | b0 :: b1 :: b2 :: b3 :: _ => Ok (le32 b0 b1 b2 b3)
  | _ => Panic
  end.
Definition read_u64_le (s : list N) : res N :=
  match s with
  | b0 :: b1 :: b2 :: b3 :: b4 :: b5 :: b6 :: b7 :: _ => Ok (le64 b0 b1 b2 b3 b4 b5 b6 b7)
  | _ => Panic
  end.

(* --- build.rs: make_table --- *)
Fixpoint table_entry_loop (k : nat) (poly crc : N) : N :=
  match k with
  | O => crc
  | S k' => table_entry_loop k' poly
              (if N.land crc 1 =? 1 then N.lxor (N.shiftr crc 1) poly else N.shiftr crc 1)
  end.
Definition make_table (poly : N) : list N :=
  map (fun i => table_entry_loop 8 poly (N.of_nat i)) (seq 0 256).

(* --- build.rs: make_table16.  tab[j][i] depends only on tab[j-1][i] and tab[0], so the
   loop nest `for i { for j {..} }` is written row by row: row j = map next (row j-1). --- *)
Definition tab16_next (t0 : list N) (crc : N) : N :=
  N.lxor (N.shiftr crc 8) (idx t0 (u8 crc)).
Fixpoint tab16_rows (n : nat) (t0 row : list N) : list (list N) :=
  match n with
  | O => []
  | S k => row :: tab16_rows k t0 (map (tab16_next t0) row)
  end.
Definition make_table16 (poly : N) : list (list N) :=
  let t0 := make_table poly in tab16_rows 16 t0 t0.

(* the tables the build script writes into crc32_table.rs *)
Definition TABLE : list N := make_table src_CASTAGNOLI_POLY.
Definition TABLE16 : list (list N) := make_table16 src_CASTAGNOLI_POLY.
Definition T (i : N) : N := idx TABLE i.
Definition T16 (j : nat) (i : N) : N := idx (nth j TABLE16 []) i.

(* --- src/raw/crc32.rs: crc32c_slice16 --- *)
Local Infix "^^" := N.lxor (at level 50, left associativity).

(* one iteration of `while buf.len() >= 16` *)
Definition slice16_step (crc b0 b1 b2 b3 b4 b5 b6 b7 b8 b9 b10 b11 b12 b13 b14 b15 : N) : N :=
  let crc := crc ^^ le32 b0 b1 b2 b3 in        (* crc ^= bytes::read_u32_le(buf); cannot panic: len >= 16 *)
  T16 0 b15 ^^ T16 1 b14 ^^ T16 2 b13 ^^ T16 3 b12 ^^ T16 4 b11 ^^ T16 5 b10
  ^^ T16 6 b9 ^^ T16 7 b8 ^^ T16 8 b7 ^^ T16 9 b6 ^^ T16 10 b5 ^^ T16 11 b4
  ^^ T16 12 (u8 (N.shiftr crc 24)) ^^ T16 13 (u8 (N.shiftr crc 16))
  ^^ T16 14 (u8 (N.shiftr crc 8)) ^^ T16 15 (u8 crc).

(* `for &b in buf { crc = TABLE[((crc as u8) ^ b) as usize] ^ (crc >> 8) }` *)
Definition tail_step (crc b : N) : N := T (u8 crc ^^ b) ^^ N.shiftr crc 8.

Fixpoint slice16_loop (crc : N) (buf : list N) {struct buf} : N :=
  match buf with
  | b0 :: b1 :: b2 :: b3 :: b4 :: b5 :: b6 :: b7 :: b8 :: b9 :: b10 :: b11 :: b12 :: b13 :: b14 :: b15 :: rest =>
      slice16_loop (slice16_step crc b0 b1 b2 b3 b4 b5 b6 b7 b8 b9 b10 b11 b12 b13 b14 b15) rest
  | _ => fold_left tail_step buf crc
  end.

Definition crc32c_slice16 (prev : N) (buf : list N) : N :=
  not32 (slice16_loop (not32 prev) buf).

(* --- CheckSummer --- *)
Record check_summer := { cs_sum : N }.
Definition summer_new : check_summer := {| cs_sum := 0 |}.
Definition summer_update (s : check_summer) (buf : list N) : check_summer :=
  {| cs_sum := crc32c_slice16 (cs_sum s) buf |}.
(* (sum.wrapping_shr(15) | sum.wrapping_shl(17)).wrapping_add(0xA282EAD8) on u32 *)
Definition summer_masked (s : check_summer) : N :=
  let sum := cs_sum s in
  N.land (N.lor (N.shiftr sum src_mask_shr) (N.land (N.shiftl sum src_mask_shl) MASK32) + src_mask_add) MASK32.

(* what CountingWriter leaves in the footer after the given sequence of accepted chunks *)
Definition summer_feed (s : check_summer) (chunks : list (list N)) : check_summer :=
  fold_left summer_update chunks s.
Definition model_masked_crc32c (buf : list N) : N := summer_masked (summer_update summer_new buf).

(* --- src/bytes.rs io_write_u32_le: n.to_le_bytes(); and the tail of raw::Builder::into_inner:
   everything written through the CountingWriter (in whatever chunks the sink accepted),
   then the masked checksum of exactly those bytes, little endian --- *)
Definition u32_to_le (n : N) : list N :=
  [u8 n; u8 (N.shiftr n 8); u8 (N.shiftr n 16); u8 (N.shiftr n 24)].
Definition writer_finish (chunks : list (list N)) : list N :=
  concat chunks ++ u32_to_le (summer_masked (summer_feed summer_new chunks)).
