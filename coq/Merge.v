(* Merge.v — model of fst-bin/src/merge.rs (the unsorted build pipeline of `fst set` / `fst map`)
   and the specification of its result.  No proofs here (see proofs/MergeProofs.v).

   Data.  The parsed input is a [list kv] (rows in the order ConcatCsv / ConcatLines yield them
   over all input files).  An intermediate FST file is abstracted as its content, a [kmap]
   (key/value pairs, keys strictly ascending); the builder/reader round trip on bytes is the
   subject of other properties.  What is kept of raw::Builder is its ordering discipline
   (OutOfOrder / DuplicateKey), because merge.rs relies on it.

   Not modelled: temp files and their names, mmap, csv/bstr parsing, I/O errors, the real
   thread interleaving.  The only effect worker scheduling has on the data flow is the ORDER in
   which `Sorters::results` concatenates the per-worker result vectors; this is an explicit
   oracle ([sched]): any permutation, per generation, possibly content dependent.  The order in
   which `raw::ops::Union` lists the values of one key is a second oracle ([uord]). *)
Require Import FstV.Base.
From Coq Require Import Permutation.

(* ---------- value mergers (cmd/map.rs:109-116; cmd/set.rs passes none) ---------- *)
Definition vmerger := option (N -> N -> N).
Definition TWO64 : N := 18446744073709551616.
(* `|x, y| x + y` on u64 in a release build without overflow checks: wrapping *)
Definition mg_sum : vmerger := Some (fun x y => (x + y) mod TWO64).
Definition mg_max : vmerger := Some N.max.
Definition mg_min : vmerger := Some N.min.
Definition mg_set : vmerger := None.

(* ---------- batcher (merge.rs:138-176) ----------
   push; if batch.len() >= batch_size then send and start a new batch; at the end send the
   non-empty remainder.  batch_size = 0 behaves like 1 (the test comes after the push). *)
Fixpoint batcher_go {T} (bs : N) (items batch : list T) : list (list T) :=
  match items with
  | [] => match batch with [] => [] | _ => [batch] end
  | x :: r =>
    let batch' := batch ++ [x] in
    if bs <=? len batch' then batch' :: batcher_go bs r [] else batcher_go bs r batch'
  end.
Definition batcher {T} (bs : N) (items : list T) : list (list T) := batcher_go bs items [].

(* ---------- the part of raw::Builder that merge.rs depends on ----------
   insert: key > last accepted key, else DuplicateKey / OutOfOrder.  KvBatch ignores
   DuplicateKey (the pair is skipped), UnionBatch propagates every error. *)
Fixpoint builder_go (ignore_dup : bool) (last : option key) (kvs : list kv) : res kmap :=
  match kvs with
  | [] => Ok []
  | (k, v) :: r =>
    match last with
    | None => do m <- builder_go ignore_dup (Some k) r; Ok ((k, v) :: m)
    | Some l =>
      match lex_cmp l k with
      | Lt => do m <- builder_go ignore_dup (Some k) r; Ok ((k, v) :: m)
      | Eq => if ignore_dup then builder_go ignore_dup last r else Err (EDuplicateKey k)
      | Gt => Err (EOutOfOrder l k)
      end
    end
  end.

(* ---------- KvBatch::create_fst (merge.rs:222-258) ---------- *)
(* `self.kvs.sort()` on Vec<(BString, u64)>: by key, then by value *)
Definition kv_leb (a b : kv) : bool :=
  match lex_cmp (fst a) (fst b) with Lt => true | Gt => false | Eq => snd a <=? snd b end.
Fixpoint kv_insert (x : kv) (l : list kv) : list kv :=
  match l with
  | [] => [x]
  | y :: r => if kv_leb x y then x :: l else y :: kv_insert x r
  end.
Definition kv_sort (l : list kv) : list kv := fold_right kv_insert [] l.

(* `last.1 = value_merger(last.1, v)` if there is a merger, otherwise the first value stays *)
Definition apply_mg (mg : vmerger) (a b : N) : N := match mg with Some f => f a b | None => a end.
(* the loop over the sorted pairs; [cur] is `merged.last_mut()`, what is emitted is the rest of `merged` *)
Fixpoint merge_from (mg : vmerger) (cur : kv) (l : list kv) : list kv :=
  match l with
  | [] => [cur]
  | (k, v) :: r =>
    if key_eqb (fst cur) k then merge_from mg (fst cur, apply_mg mg (snd cur) v) r
    else cur :: merge_from mg (k, v) r
  end.
Definition merge_runs (mg : vmerger) (l : list kv) : list kv :=
  match l with [] => [] | kv0 :: r => merge_from mg kv0 r end.
Definition kv_batch_create (mg : vmerger) (kvs : list kv) : res kmap :=
  builder_go true None (merge_runs mg (kv_sort kvs)).

(* ---------- UnionBatch::create_fst (merge.rs:268-305) ----------
   The union stream yields every key of any input once, ascending, with one IndexedValue per
   input that contains the key.  [uo] is the order oracle for those values (raw/ops.rs pops its
   heap by (key, value); nothing in merge.rs depends on that). *)
Fixpoint key_insert (k : key) (l : list key) : list key :=
  match l with
  | [] => [k]
  | x :: r => match lex_cmp k x with Lt => k :: l | Eq => l | Gt => x :: key_insert k r end
  end.
Definition key_set (ks : list key) : list key := fold_right key_insert [] ks.
Definition values_of (k : key) (fsts : list kmap) : list N :=
  flat_map (fun m => match lookup m k with Some v => [v] | None => [] end) fsts.
Definition union_stream (uo : list kmap -> key -> list N -> list N) (fsts : list kmap) : list (key * list N) :=
  map (fun k => (k, uo fsts k (values_of k fsts))) (key_set (flat_map keys_of fsts)).
(* outputs[1..].iter().fold(outputs[0].value, merger); [] cannot occur (MergeProofs.union_outputs_nonempty) *)
Definition fold1 (f : N -> N -> N) (vs : list N) : N :=
  match vs with [] => 0 | v :: r => fold_left f r v end.
(* `let mut merged = 0; if let Some(m) = value_merger { merged = fold … }` *)
Definition merge_outputs (mg : vmerger) (outs : list N) : N :=
  match mg with Some f => fold1 f outs | None => 0 end.
Definition union_batch_create (mg : vmerger) (uo : list kmap -> key -> list N -> list N) (fsts : list kmap) : res kmap :=
  builder_go false None (map (fun ko => (fst ko, merge_outputs mg (snd ko))) (union_stream uo fsts)).

(* ---------- Sorters (merge.rs:178-220) ----------
   One rendezvous channel feeds `threads` workers; every worker keeps the results of the batches
   it happened to receive and hands them over when the channel closes; `results()` concatenates
   the hand-overs in arrival order.  Data-flow effect: a permutation of the per-batch results.
   With 0 workers every receiver is gone when `new` returns and the first `send(..).unwrap()` panics. *)
Definition sorters_results {B} (threads : N) (perm : list (res kmap) -> list (res kmap))
           (create : B -> res kmap) (batches : list B) : res (list (res kmap)) :=
  match batches with
  | [] => Ok []
  | _ => if threads =? 0 then Panic else Ok (perm (map create batches))
  end.
(* the `?` on every element (first failure in list order wins; no failure can occur, see proofs) *)
Fixpoint seq_res {A} (l : list (res A)) : res (list A) :=
  match l with
  | [] => Ok []
  | r :: t => do a <- r; do t' <- seq_res t; Ok (a :: t')
  end.

(* scheduling and union-order oracles *)
Record oracle := {
  sched : nat -> list (res kmap) -> list (res kmap);      (* generation number (0 = KvBatch round) -> reordering *)
  uord : list kmap -> key -> list N -> list N             (* inputs of a union, key -> order of its values *)
}.
Definition oracle_ok (o : oracle) : Prop :=
  (forall g l, Permutation l (sched o g l)) /\ (forall fs k l, Permutation l (uord o fs k l)).

(* ---------- Merger::merge (merge.rs:85-135) ---------- *)
Inductive run (A : Type) :=
| Returns (r : res A)
| Diverges.
Arguments Returns {A} r.
Arguments Diverges {A}.

(* `assert_eq!(results.len(), 1); results.pop().unwrap()` *)
Definition finish (results : list kmap) : res kmap :=
  match results with [r] => Ok r | _ => Panic end.

(* `while results.len() > 1 { … gen += 1 }`; the loop is unbounded in the code, [fuel] bounds the
   number of generations the model is willing to run; running out is the outcome [Diverges]. *)
Fixpoint union_gens (fuel : nat) (mg : vmerger) (o : oracle) (fd threads : N) (gen : nat)
         (results : list kmap) : run kmap :=
  if (length results <=? 1)%nat then Returns (finish results) else
  match fuel with
  | O => Diverges
  | S fuel' =>
    match sorters_results threads (sched o (S gen)) (union_batch_create mg (uord o)) (batcher fd results) with
    | Ok rs =>
      match seq_res rs with
      | Ok results' => union_gens fuel' mg o fd threads (S gen) results'
      | Err e => Returns (Err e)
      | Panic => Returns Panic
      end
    | Err e => Returns (Err e)
    | Panic => Returns Panic
    end
  end.

Definition merge_all_fuel (fuel : nat) (mg : vmerger) (o : oracle) (bs fd threads : N) (input : list kv) : run kmap :=
  match sorters_results threads (sched o O) (kv_batch_create mg) (batcher bs input) with
  | Ok rs =>
    match seq_res rs with
    | Ok [] => Returns (Ok [])                 (* `if results.is_empty()`: the empty FST *)
    | Ok results => union_gens fuel mg o fd threads O results
    | Err e => Returns (Err e)
    | Panic => Returns Panic
    end
  | Err e => Returns (Err e)
  | Panic => Returns Panic
  end.
(* one generation per initial batch is always enough when fd_limit >= 2 (MergeProofs.merge_all_correct) *)
Definition merge_all (mg : vmerger) (o : oracle) (bs fd threads : N) (input : list kv) : run kmap :=
  merge_all_fuel (length (batcher bs input)) mg o bs fd threads input.

(* shape of the union generations for [n] initial FSTs: per generation, the number of inputs of
   every union batch in index order (what the VERIF-TRACE hook shows) *)
Fixpoint union_shape (fuel : nat) (fd : N) (n : nat) : list (list N) :=
  if (n <=? 1)%nat then [] else
  match fuel with
  | O => []
  | S fuel' => let bs := batcher fd (repeat tt n) in map len bs :: union_shape fuel' fd (length bs)
  end.

(* ---------- specification ---------- *)
Definition values_in (k : key) (input : list kv) : list N :=
  map snd (filter (fun x => key_eqb (fst x) k) input).
(* for every distinct key, ascending: the merger folded over all values given for the key, in
   input order, starting from the first one; without a merger (sets) the value is 0 *)
Definition spec_merge (mg : vmerger) (input : list kv) : kmap :=
  map (fun k => (k, merge_outputs mg (values_in k input))) (key_set (keys_of input)).

(* side conditions on the merger: associative and commutative; without a merger the CLI only
   ever supplies the value 0 (`(line, 0)` in cmd/set.rs) *)
Definition assoc_comm (f : N -> N -> N) : Prop :=
  (forall a b c, f (f a b) c = f a (f b c)) /\ (forall a b, f a b = f b a).
Definition merger_ok (mg : vmerger) (input : list kv) : Prop :=
  match mg with
  | Some f => assoc_comm f
  | None => Forall (fun x => snd x = 0) input
  end.

(* ---------- concrete oracles for the executable model ---------- *)
Fixpoint remove_nth {A} (n : nat) (l : list A) : list A :=
  match l, n with
  | [], _ => []
  | _ :: r, O => r
  | x :: r, S m => x :: remove_nth m r
  end.
(* Lehmer-code style: every code list denotes a permutation, every permutation has a code *)
Fixpoint pick_perm {A} (code : list N) (l : list A) : list A :=
  match code with
  | [] => l
  | c :: code' =>
    match l with
    | [] => []
    | d :: _ => let j := N.to_nat (c mod len l) in nth j l d :: pick_perm code' (remove_nth j l)
    end
  end.
Fixpoint n_insert (x : N) (l : list N) : list N :=
  match l with [] => [x] | y :: r => if x <=? y then x :: l else y :: n_insert x r end.
Definition n_sort (l : list N) : list N := fold_right n_insert [] l.
(* codes: one code per generation; desc = list the values of a key descending instead of ascending *)
Definition oracle_of (codes : list (list N)) (desc : bool) : oracle := {|
  sched := fun g l => pick_perm (nth g codes []) l;
  uord := fun _ _ l => if desc then rev (n_sort l) else n_sort l |}.
