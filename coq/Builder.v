(* Builder.v — model of src/raw/build.rs (over an all-accepting sink: the output is the
   list of write_all chunks, newest first), and of the thin front ends in map.rs / set.rs. *)
Require Import FstV.Base FstV.Pack FstV.Node FstV.Registry FstV.Generated.SrcParams.

Record unf := mkUnf { u_node : bnode; u_last : option (N * N) }.   (* last = (inp, out) *)

Record builder := mkB {
  b_out : list (list N);      (* chunks written through the counting writer, newest first *)
  b_count : N;                (* CountingWriter.cnt *)
  b_stack : list unf;         (* UnfinishedNodes.stack, bottom (root) first *)
  b_reg : registry;
  b_last : option key;
  b_last_addr : N;
  b_len : N;
  b_stats : N * N * N * N;    (* hook H2: hits, misses, evictions, rejected *)
  b_version : N               (* 3 for the real builder; 1, 2: reference encoders for C10 *)
}.

Definition chunks_len (cs : list (list N)) : N := fold_left (fun a c => a + len c) cs 0.

Definition b_write (b : builder) (cs : list (list N)) : builder :=
  mkB (rev cs ++ b_out b) (b_count b + chunks_len cs) (b_stack b) (b_reg b) (b_last b) (b_last_addr b)
      (b_len b) (b_stats b) (b_version b).

Definition new_builder_v (version ty rows cols : N) : builder :=
  b_write (mkB [] 0 [mkUnf (empty_bnode false) None] (reg_new rows cols) None NONE_ADDRESS 0 (0, 0, 0, 0) version)
          [u64_le version; u64_le ty].
Definition new_builder (ty rows cols : N) : builder := new_builder_v src_VERSION ty rows cols.

(* ---------- UnfinishedNodes ---------- *)
Definition freeze (u : unf) (addr : N) : bnode :=
  match u_last u with
  | Some (i, o) => mkBnode (n_final (u_node u)) (n_fout (u_node u)) (n_trans (u_node u) ++ [mkTrans i o addr])
  | None => u_node u
  end.

Definition add_output_prefix (u : unf) (p : N) : unf :=
  mkUnf (mkBnode (n_final (u_node u))
                 (if n_final (u_node u) then p + n_fout (u_node u) else n_fout (u_node u))
                 (map (fun t => mkTrans (t_inp t) (p + t_out t) (t_addr t)) (n_trans (u_node u))))
        (match u_last u with Some (i, o) => Some (i, p + o) | None => None end).

(* find_common_prefix (no outputs): longest i with stack[j].last.inp = bs[j] for all j < i *)
Fixpoint fcp0 (stack : list unf) (bs : key) : nat :=
  match bs, stack with
  | b :: bs', u :: rest =>
    match u_last u with
    | Some (i, _) => if i =? b then S (fcp0 rest bs') else O
    | None => O
    end
  | _, _ => O
  end.

(* find_common_prefix_and_set_output. `self.stack[i]` with i out of range panics. *)
Fixpoint fcp (stack : list unf) (bs : key) (out : N) : res (list unf * nat * N) :=
  match bs with
  | [] => Ok (stack, O, out)
  | b :: bs' =>
    match stack with
    | [] => Panic
    | u :: rest =>
      match u_last u with
      | Some (i, o) =>
        if i =? b then
          let common := N.min o out in
          let addp := o - common in
          let out' := out - common in
          let u' := mkUnf (u_node u) (Some (i, common)) in
          do rest' <- (if addp =? 0 then Ok rest
                       else match rest with r :: rr => Ok (add_output_prefix r addp :: rr) | [] => Panic end);
          do x <- fcp rest' bs' out';
          let '(st, n, o2) := x in Ok (u' :: st, S n, o2)
        else Ok (stack, O, out)
      | None => Ok (stack, O, out)
      end
    end
  end.

Fixpoint suffix_nodes (bs : key) : list unf :=
  match bs with
  | [] => [mkUnf (empty_bnode true) None]
  | b :: r => mkUnf (empty_bnode false) (Some (b, 0)) :: suffix_nodes r
  end.

(* add_suffix: `assert!(self.stack[last].last.is_none())` *)
Definition add_suffix (stack : list unf) (bs : key) (out : N) : res (list unf) :=
  match bs with
  | [] => Ok stack
  | b :: r =>
    match rev stack with
    | [] => Panic
    | top :: below =>
      match u_last top with
      | Some _ => Panic
      | None => Ok (rev below ++ [mkUnf (u_node top) (Some (b, out))] ++ suffix_nodes r)
      end
    end
  end.

(* ---------- Builder::compile ---------- *)
Definition bump (s : N * N * N * N) (e : entry) (ev : bool) : N * N * N * N :=
  let '(h, m, v, r) := s in
  match e with
  | Found _ => (h + 1, m, v, r)
  | NotFound _ => (h, m + 1, if ev then v + 1 else v, r)
  | Rejected => (h, m, v, r + 1)
  end.

Definition compile (b : builder) (n : bnode) : builder * res N :=
  if n_final n && (match n_trans n with [] => true | _ => false end) && (n_fout n =? 0)
  then (b, Ok EMPTY_ADDRESS) else
  let '(reg0, e) := reg_entry (b_reg b) n in
  let b1 := mkB (b_out b) (b_count b) (b_stack b) reg0 (b_last b) (b_last_addr b) (b_len b)
                (bump (b_stats b) e (entry_evicts reg0 e)) (b_version b) in
  match e with
  | Found a => (b1, Ok a)
  | _ =>
    match compile_node (b_version b) (b_last_addr b) (b_count b) n with
    | Ok cs =>
      let b2 := b_write b1 cs in
      let la := b_count b2 - 1 in
      let reg2 := match e with NotFound idx => reg_insert (b_reg b2) idx la | _ => b_reg b2 end in
      (mkB (b_out b2) (b_count b2) (b_stack b2) reg2 (b_last b2) la (b_len b2) (b_stats b2) (b_version b2), Ok la)
    | Err x => (b1, Err x)
    | Panic => (b1, Panic)
    end
  end.

Definition with_stack (b : builder) (st : list unf) : builder :=
  mkB (b_out b) (b_count b) st (b_reg b) (b_last b) (b_last_addr b) (b_len b) (b_stats b) (b_version b).

(* compile_from(istate): rstack is the stack top first; pops while istate + 1 < len *)
Fixpoint compile_from_rev (b : builder) (rstack : list unf) (keep : nat) (addr : option N)
  : builder * res (list unf) :=
  match rstack with
  | [] => (b, Panic)          (* top_last_freeze on an empty stack: checked_sub(1).unwrap() *)
  | u :: rest =>
    if Nat.ltb (S keep) (length rstack) then
      match (match addr with
             | None => match u_last u with None => Ok (u_node u) | Some _ => Panic end   (* pop_empty asserts *)
             | Some a => Ok (freeze u a) end) with
      | Ok n =>
        let '(b', r) := compile b n in
        match r with
        | Ok a => if a =? NONE_ADDRESS then (b', Panic) else compile_from_rev b' rest keep (Some a)
        | Err x => (b', Err x)
        | Panic => (b', Panic)
        end
      | Err x => (b, Err x)
      | Panic => (b, Panic)
      end
    else
      (b, Ok (match addr with
              | None => match u_last u with
                        | Some _ => mkUnf (freeze u NONE_ADDRESS) None :: rest
                        | None => u :: rest end
              | Some a => mkUnf (freeze u a) None :: rest end))
  end.

Definition compile_from (b : builder) (istate : nat) : builder * res unit :=
  let '(b', r) := compile_from_rev b (rev (b_stack b)) istate None in
  match r with
  | Ok rst => (with_stack b' (rev rst), Ok tt)
  | Err x => (b', Err x)
  | Panic => (b', Panic)
  end.

(* ---------- check_last_key / insert_output ---------- *)
Definition with_last (b : builder) (l : option key) : builder :=
  mkB (b_out b) (b_count b) (b_stack b) (b_reg b) l (b_last_addr b) (b_len b) (b_stats b) (b_version b).
Definition with_len (b : builder) (l : N) : builder :=
  mkB (b_out b) (b_count b) (b_stack b) (b_reg b) (b_last b) (b_last_addr b) l (b_stats b) (b_version b).

Definition check_last_key (b : builder) (bs : key) (check_dupe : bool) : builder * res unit :=
  match b_last b with
  | Some last =>
    if check_dupe && key_eqb bs last then (b, Err (EDuplicateKey bs))
    else if key_ltb bs last then (b, Err (EOutOfOrder last bs))
    else (with_last b (Some bs), Ok tt)
  | None => (with_last b (Some bs), Ok tt)
  end.

Definition set_root_output (st : list unf) (out : N) : res (list unf) :=
  match st with
  | r :: rest => Ok (mkUnf (mkBnode true out (n_trans (u_node r))) (u_last r) :: rest)
  | [] => Panic
  end.

Definition insert_output (b : builder) (bs : key) (out : option N) : builder * res unit :=
  match bs with
  | [] =>
    (* a repeated `add` of the empty key keeps the output it already has *)
    let keep := match out, b_stack b with
                | None, r :: _ => n_final (u_node r)
                | _, _ => false end in
    if keep then (with_len b 1, Ok tt) else
    match set_root_output (b_stack b) (match out with Some o => o | None => 0 end) with
    | Ok st => (with_stack (with_len b 1) st, Ok tt)
    | Err x => (b, Err x)
    | Panic => (b, Panic)
    end
  | _ =>
    (* adding the previous key again is a no-op and moves no outputs *)
    if (match out with None => true | Some _ => false end) && Nat.eqb (fcp0 (b_stack b) bs) (length bs)
    then (b, Ok tt) else
    match fcp (b_stack b) bs (match out with Some o => o | None => 0 end) with
    | Ok (st, p, o) =>
      let b1 := with_stack b st in
      if Nat.eqb p (length bs) then
        (if o =? 0 then (b1, Ok tt) else (b1, Panic))       (* assert!(out.is_zero()) *)
      else
        let b2 := with_len b1 (b_len b1 + 1) in
        let '(b3, r) := compile_from b2 p in
        match r with
        | Ok _ =>
          match add_suffix (b_stack b3) (skipn p bs) o with
          | Ok st' => (with_stack b3 st', Ok tt)
          | Err x => (b3, Err x)
          | Panic => (b3, Panic)
          end
        | Err x => (b3, Err x)
        | Panic => (b3, Panic)
        end
    | Err x => (b, Err x)
    | Panic => (b, Panic)
    end
  end.

Definition b_add (b : builder) (bs : key) : builder * res unit :=
  let '(b1, r) := check_last_key b bs false in
  match r with Ok _ => insert_output b1 bs None | Err x => (b1, Err x) | Panic => (b1, Panic) end.
Definition b_insert (b : builder) (bs : key) (v : N) : builder * res unit :=
  let '(b1, r) := check_last_key b bs true in
  match r with Ok _ => insert_output b1 bs (Some v) | Err x => (b1, Err x) | Panic => (b1, Panic) end.

(* into_inner: the complete file (all chunks in write order, then the 4 checksum bytes).
   [summer] = masked checksum of the bytes written through the counting writer. *)
Definition b_finish_full (summer : list N -> N) (b : builder) : res (list N * (N * N * N * N)) :=
  let '(b1, r) := compile_from b O in
  match r with
  | Ok _ =>
    match b_stack b1 with
    | [root] =>
      match u_last root with
      | Some _ => Panic                                   (* pop_root asserts *)
      | None =>
        let '(b2, r2) := compile b1 (u_node root) in
        match r2 with
        | Ok root_addr =>
          let b3 := b_write b2 [u64_le (b_len b2); u64_le root_addr] in
          let body := concat (rev (b_out b3)) in
          Ok (body ++ (if 3 <=? b_version b3 then u32_le (summer body) else []), b_stats b3)
        | Err x => Err x
        | Panic => Panic
        end
      end
    | _ => Panic
    end
  | Err x => Err x
  | Panic => Panic
  end.

Definition b_finish (summer : list N -> N) (b : builder) : res (list N) :=
  match b_finish_full summer b with Ok x => Ok (fst x) | Err e => Err e | Panic => Panic end.

(* ---------- front ends ---------- *)
Inductive op := OpInsert (k : key) (v : N) | OpAdd (k : key).
Definition apply_op (b : builder) (o : op) : builder * res unit :=
  match o with OpInsert k v => b_insert b k v | OpAdd k => b_add b k end.

(* single calls: the caller sees each result and may go on after a rejected insert *)
Fixpoint run_calls (b : builder) (ops : list op) : builder * list (res unit) :=
  match ops with
  | [] => (b, [])
  | o :: r => let '(b1, x) := apply_op b o in let '(b2, xs) := run_calls b1 r in (b2, x :: xs)
  end.

(* extend_iter / extend_stream / from_iter: stop at the first error *)
Fixpoint run_extend (b : builder) (ops : list op) : builder * res unit :=
  match ops with
  | [] => (b, Ok tt)
  | o :: r => let '(b1, x) := apply_op b o in
              match x with Ok _ => run_extend b1 r | _ => (b1, x) end
  end.

(* several extend_iter / extend_stream calls on ONE builder: every batch stops at its first
   rejected item and returns that error (the rest of that batch is not looked at); the builder
   lives on and the next batch continues from the state the previous one left.  One result per
   batch. *)
Fixpoint run_batches (b : builder) (batches : list (list op)) : builder * list (res unit) :=
  match batches with
  | [] => (b, [])
  | ops :: r => let '(b1, x) := run_extend b ops in let '(b2, xs) := run_batches b1 r in (b2, x :: xs)
  end.
(* bytes_written after every batch (what the caller can observe between two batches) *)
Fixpoint batches_written (b : builder) (batches : list (list op)) : list N :=
  match batches with
  | [] => []
  | ops :: r => let b1 := fst (run_extend b ops) in b_count b1 :: batches_written b1 r
  end.

Definition build_ops (summer : list N -> N) (ty rows cols : N) (ops : list op) : res (list N) :=
  let '(b, r) := run_extend (new_builder ty rows cols) ops in
  match r with Ok _ => b_finish summer b | Err x => Err x | Panic => Panic end.
Definition build_map (summer : list N -> N) (ty rows cols : N) (kvs : kmap) : res (list N) :=
  build_ops summer ty rows cols (map (fun '(k, v) => OpInsert k v) kvs).
Definition build_set (summer : list N -> N) (ty rows cols : N) (ks : list key) : res (list N) :=
  build_ops summer ty rows cols (map OpAdd ks).
(* reference encoders of the older formats *)
Definition build_map_v (summer : list N -> N) (version ty : N) (kvs : kmap) : res (list N) :=
  let '(b, r) := run_extend (new_builder_v version ty src_registry_rows src_registry_cols)
                            (map (fun '(k, v) => OpInsert k v) kvs) in
  match r with Ok _ => b_finish summer b | Err x => Err x | Panic => Panic end.
