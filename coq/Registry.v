(* Registry.v — model of src/raw/registry.rs: a table of rows x cols cells, FNV-1a bucket
   choice, most-recently-used order inside a bucket. The table is sparse: a missing
   entry is the `none` cell. *)
Require Import FstV.Base FstV.Node FstV.Generated.SrcParams.
Require Import Coq.FSets.FMapPositive.

Record cell := mkCell { c_addr : N; c_node : bnode }.
Definition none_cell : cell := mkCell NONE_ADDRESS (empty_bnode false).
Definition cell_is_none (c : cell) : bool := c_addr c =? NONE_ADDRESS.

Record registry := mkReg { r_table : PositiveMap.t cell; r_rows : N; r_cols : N }.
Definition reg_new (rows cols : N) : registry := mkReg (PositiveMap.empty cell) rows cols.

Definition rget (r : registry) (i : N) : cell :=
  match PositiveMap.find (N.succ_pos i) (r_table r) with Some c => c | None => none_cell end.
Definition rset (r : registry) (i : N) (c : cell) : registry :=
  mkReg (PositiveMap.add (N.succ_pos i) c (r_table r)) (r_rows r) (r_cols r).

(* The bucket function is whatever `Registry::hash` computes in the current source: its body is
   translated into [src_hash_raw] on every run (tools/rusthash.py -> Generated/SrcParams.v).  At the
   pinned revision that is FNV-1a over is_final, final_output and every (inp, out, addr), with u64
   wrapping multiplication.  No proof looks inside it: the registry lemmas only use that the bucket
   index is [fnv_node n mod rows]. *)
Definition fnv_node (n : bnode) : N :=
  src_hash_raw (if n_final n then 1 else 0) (n_fout n) (N.of_nat (length (n_trans n)))
               (map (fun t => (t_inp t, t_out t, t_addr t)) (n_trans n)).
Definition reg_hash (r : registry) (n : bnode) : N := fnv_node n mod r_rows r.

Inductive entry := Found (addr : N) | NotFound (idx : N) | Rejected.

Definition cell_matches (c : cell) (n : bnode) : bool := negb (cell_is_none c) && bnode_eqb (c_node c) n.
(* clone_from: the node is replaced, the address is kept until `insert` *)
Definition cell_with_node (c : cell) (n : bnode) : cell := mkCell (c_addr c) n.

(* first index in [start, start + k) whose cell matches *)
Fixpoint find_cell (r : registry) (n : bnode) (start : N) (k : nat) (i : N) : option N :=
  match k with
  | O => None
  | S m => if cell_matches (rget r (start + i)) n then Some i else find_cell r n start m (i + 1)
  end.

(* promote(i): while i > 0 { swap(i-1, i); i -= 1 } — rotates cell i to the front *)
Fixpoint promote (r : registry) (start : N) (i : nat) : registry :=
  match i with
  | O => r
  | S j =>
    let a := rget r (start + N.of_nat j) in
    let b := rget r (start + N.of_nat i) in
    promote (rset (rset r (start + N.of_nat j) b) (start + N.of_nat i) a) start j
  end.

Definition reg_entry (r : registry) (n : bnode) : registry * entry :=
  if (r_rows r * r_cols r) =? 0 then (r, Rejected) else
  let start := r_cols r * reg_hash r n in
  let cols := r_cols r in
  if cols =? 1 then
    let c := rget r start in
    if cell_matches c n then (r, Found (c_addr c))
    else (rset r start (cell_with_node c n), NotFound start)
  else if cols =? 2 then
    let c1 := rget r start in
    if cell_matches c1 n then (r, Found (c_addr c1)) else
    let c2 := rget r (start + 1) in
    if cell_matches c2 n then (rset (rset r start c2) (start + 1) c1, Found (c_addr c2))
    else (rset (rset r start (cell_with_node c2 n)) (start + 1) c1, NotFound start)
  else
    match find_cell r n start (N.to_nat cols) 0 with
    | Some i => (promote r start (N.to_nat i), Found (c_addr (rget r (start + i))))
    | None =>
      let lastc := cols - 1 in
      let r1 := rset r (start + lastc) (cell_with_node (rget r (start + lastc)) n) in
      (promote r1 start (N.to_nat lastc), NotFound start)
    end.

Definition reg_insert (r : registry) (idx addr : N) : registry :=
  rset r idx (mkCell addr (c_node (rget r idx))).

(* hook H2: was the cell that NotFound hands out occupied (an eviction)? *)
Definition entry_evicts (r' : registry) (e : entry) : bool :=
  match e with NotFound idx => negb (cell_is_none (rget r' idx)) | _ => false end.
