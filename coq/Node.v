(* Node.v — model of src/raw/node.rs.
   Part 1: compilation of a builder node into bytes (three node forms), as the list of
           `write_all` chunks the code performs, in order.
   Part 2: Node::new and its accessors over an abstract byte-access function `get`
           (None = out of bounds = the slice index panics). *)
Require Import FstV.Base FstV.Pack FstV.Generated.SrcParams.

Record trans := mkTrans { t_inp : N; t_out : N; t_addr : N }.
Record bnode := mkBnode { n_final : bool; n_fout : N; n_trans : list trans }.

Definition trans_eqb (a b : trans) : bool :=
  (t_inp a =? t_inp b) && (t_out a =? t_out b) && (t_addr a =? t_addr b).
Definition bnode_eqb (a b : bnode) : bool :=
  Bool.eqb (n_final a) (n_final b) && (n_fout a =? n_fout b) && list_eqb trans_eqb (n_trans a) (n_trans b).
Definition empty_bnode (f : bool) : bnode := mkBnode f 0 [].

Definition EMPTY_ADDRESS : N := src_EMPTY_ADDRESS.
Definition NONE_ADDRESS : N := src_NONE_ADDRESS.
Definition TRANS_INDEX_THRESHOLD : N := src_TRANS_INDEX_THRESHOLD.

(* common_idx / common_input *)
Definition common_idx (input max : N) : N :=
  let v := (nth (N.to_nat input) src_COMMON_INPUTS 0 + 1) mod 256 in
  if max <? v then 0 else v.
Definition common_input (idx : N) : option N :=
  if idx =? 0 then None else Some (nth (N.to_nat (idx - 1)) src_COMMON_INPUTS_INV 0).

(* checked usize subtraction *)
Definition csub (a b : N) : res N := if b <=? a then Ok (a - b) else Panic.

Definition delta_of (node_addr trans_addr : N) : res N :=
  if trans_addr =? EMPTY_ADDRESS then Ok EMPTY_ADDRESS else csub node_addr trans_addr.
Definition pack_delta_size (node_addr trans_addr : N) : res N :=
  do d <- delta_of node_addr trans_addr; Ok (pack_size d).
Definition pack_delta_in (node_addr trans_addr nbytes : N) : res (list N) :=
  do d <- delta_of node_addr trans_addr; pack_uint_in d nbytes.

Fixpoint res_map {A B} (f : A -> res B) (l : list A) : res (list B) :=
  match l with
  | [] => Ok []
  | x :: r => do y <- f x; do ys <- res_map f r; Ok (y :: ys)
  end.

(* ---------- Part 1: compile ---------- *)
Definition compile_otn (input : N) : res (list (list N)) :=
  let st := 192 + common_idx input 63 in
  Ok ((match common_input (st mod 64) with None => [[input]] | Some _ => [] end) ++ [[st]]).

Definition compile_ot (addr : N) (t : trans) : res (list (list N)) :=
  let out := t_out t in
  let osize := if out =? 0 then 0 else pack_size out in
  do obytes <- (if out =? 0 then Ok [] else do b <- pack_uint_in out osize; Ok [b]);
  do tsize <- pack_delta_size addr (t_addr t);
  do tbytes <- pack_delta_in addr (t_addr t) tsize;
  let sizes := tsize * 16 + osize in
  let st := 128 + common_idx (t_inp t) 63 in
  Ok (obytes ++ [tbytes] ++ [[sizes]]
      ++ (match common_input (st mod 64) with None => [[t_inp t]] | Some _ => [] end) ++ [[st]]).

Fixpoint index_table (ts : list trans) (i : N) (tbl : list N) : list N :=
  match ts with
  | [] => tbl
  | t :: r => index_table r (i + 1) (set_nth tbl (N.to_nat (t_inp t)) (i mod 256))
  end.

Definition compile_any (version addr : N) (node : bnode) : res (list (list N)) :=
  let ts := n_trans node in
  let ntr := len ts in
  if 256 <? ntr then Panic else
  do tsizes <- res_map (fun t => pack_delta_size addr (t_addr t)) ts;
  let tsize := fold_left N.max tsizes 0 in
  let osize := fold_left N.max (map (fun t => pack_size (t_out t)) ts) (pack_size (n_fout node)) in
  let any_outs := negb (n_fout node =? 0) || existsb (fun t => negb (t_out t =? 0)) ts in
  let sizes := tsize * 16 + (if any_outs then osize else 0) in
  let st := (if n_final node then 64 else 0) + (if ntr <=? 63 then ntr else 0) in
  do fo <- (if any_outs && n_final node then do b <- pack_uint_in (n_fout node) osize; Ok [b] else Ok []);
  do outs <- (if any_outs then res_map (fun t => pack_uint_in (t_out t) osize) (rev ts) else Ok []);
  do deltas <- res_map (fun t => pack_delta_in addr (t_addr t) tsize) (rev ts);
  let inputs := map (fun t => [t_inp t]) (rev ts) in
  let index := if (2 <=? version) && (TRANS_INDEX_THRESHOLD <? ntr)
               then [index_table ts 0 (repeatN 255 256)] else [] in
  let nbyte := if (st mod 64) =? 0 then [[if ntr =? 256 then 1 else ntr]] else [] in
  Ok (fo ++ outs ++ deltas ++ inputs ++ index ++ [[sizes]] ++ nbyte ++ [[st]]).

(* Node::compile. [version] is 3 for the real builder; 1 and 2 give the reference
   encoders of the older formats (C10). *)
Definition compile_node (version last_addr addr : N) (node : bnode) : res (list (list N)) :=
  match n_trans node with
  | [] => if n_final node && (n_fout node =? 0) then Ok [] else compile_any version addr node
  | [t] => if n_final node then compile_any version addr node
           else if (t_addr t =? last_addr) && (t_out t =? 0) then compile_otn (t_inp t)
           else compile_ot addr t
  | _ => compile_any version addr node
  end.

(* ---------- Part 2: Node::new and accessors ---------- *)
Inductive nstate := OneTransNext (v : N) | OneTrans (v : N) | AnyTrans (v : N) | EmptyFinal.

Record node := mkNode {
  nd_version : N;
  nd_state : nstate;
  nd_start : N;          (* address = index of the state byte *)
  nd_end : N;
  nd_final : bool;
  nd_ntrans : N;
  nd_sizes : N;          (* PackSizes byte *)
  nd_fout : N
}.

Section Access.
Variable get : N -> option N.     (* data[i]; None = out of bounds *)

(* a node only ever looks at `&data[..addr + 1]`: index i of that slice, [lim] = addr *)
Definition rd (lim i : N) : res N :=
  if i <=? lim then match get i with Some b => Ok b | None => Panic end else Panic.
(* unpack_uint(&data[i..], nbytes): asserts 1 <= nbytes <= 8, reads nbytes bytes *)
Fixpoint rd_le (lim i : N) (nbytes : nat) : res N :=
  match nbytes with
  | O => Ok 0
  | S k => do b <- rd lim i; do r <- rd_le lim (i + 1) k; Ok (b + 256 * r)
  end.
Definition unpack_uint (lim i nbytes : N) : res N :=
  if (1 <=? nbytes) && (nbytes <=? 8) then rd_le lim i (N.to_nat nbytes) else Panic.
(* unpack_delta(slice, trans_pack_size, node_addr) *)
Definition unpack_delta (lim i tsize node_end : N) : res N :=
  do d <- unpack_uint lim i tsize;
  if d =? EMPTY_ADDRESS then Ok EMPTY_ADDRESS else csub node_end d.

Definition tsize_of (sizes : N) : N := sizes / 16.
Definition osize_of (sizes : N) : N := sizes mod 16.
Definition input_len (v : N) : N := match common_input (v mod 64) with None => 1 | Some _ => 0 end.
Definition any_ntrans_len (v : N) : N := if (v mod 64) =? 0 then 1 else 0.
Definition any_is_final (v : N) : bool := ((v / 64) mod 2) =? 1.
Definition trans_index_size (version ntrans : N) : N :=
  if (2 <=? version) && (TRANS_INDEX_THRESHOLD <? ntrans) then 256 else 0.
Definition total_trans_size (version sizes ntrans : N) : N :=
  ntrans + ntrans * tsize_of sizes + trans_index_size version ntrans.

(* `let data = &data[..addr + 1]` then data.len() = addr + 1 *)
Definition node_new (version addr : N) : res node :=
  if addr =? EMPTY_ADDRESS then
    Ok (mkNode version EmptyFinal EMPTY_ADDRESS EMPTY_ADDRESS true 0 0 0)
  else
  do v <- rd addr addr;
  let dlen := addr + 1 in
  match v / 64 with
  | 3 => (* OneTransNext *)
    do e <- csub (dlen - 1) (input_len v);
    Ok (mkNode version (OneTransNext v) addr e false 1 0 0)
  | 2 => (* OneTrans *)
    do i <- csub (dlen - 1) (input_len v + 1);
    do sizes <- rd addr i;
    do e <- csub (dlen - 1) (input_len v + 1 + tsize_of sizes + osize_of sizes);
    Ok (mkNode version (OneTrans v) addr e false 1 sizes 0)
  | _ => (* AnyTrans *)
    do i <- csub (dlen - 1) (any_ntrans_len v + 1);
    do sizes <- rd addr i;
    do ntrans <- (if (v mod 64) =? 0
                  then do j <- csub dlen 2; do n <- rd addr j; Ok (if n =? 1 then 256 else n)
                  else Ok (v mod 64));
    let osize := osize_of sizes in
    let final_osize := if any_is_final v then osize else 0 in
    do e <- csub (dlen - 1) (any_ntrans_len v + 1 + total_trans_size version sizes ntrans
                              + ntrans * osize + final_osize);
    do fo <- (if (osize =? 0) || negb (any_is_final v) then Ok 0
              else do at_ <- csub (dlen - 1) (any_ntrans_len v + 1 + total_trans_size version sizes ntrans
                                               + ntrans * osize + osize);
                   unpack_uint addr at_ osize);
    Ok (mkNode version (AnyTrans v) addr e (any_is_final v) ntrans sizes fo)
  end.

Definition one_input (nd : node) (v : N) : res N :=
  match common_input (v mod 64) with
  | Some b => Ok b
  | None => do i <- csub (nd_start nd) 1; rd (nd_start nd) i
  end.

(* Node::transition(i) *)
Definition transition (nd : node) (i : N) : res trans :=
  match nd_state nd with
  | OneTransNext v =>
    if negb (i =? 0) then Panic else
    do inp <- one_input nd v;
    do a <- csub (nd_end nd) 1;
    Ok (mkTrans inp 0 a)
  | OneTrans v =>
    if negb (i =? 0) then Panic else
    do inp <- one_input nd v;
    let osize := osize_of (nd_sizes nd) in
    let tsize := tsize_of (nd_sizes nd) in
    do out <- (if osize =? 0 then Ok 0
               else do at_ <- csub (nd_start nd) (input_len v + 1 + tsize + osize); unpack_uint (nd_start nd) at_ osize);
    do at_ <- csub (nd_start nd) (input_len v + 1 + tsize);
    do a <- unpack_delta (nd_start nd) at_ tsize (nd_end nd);
    Ok (mkTrans inp out a)
  | AnyTrans v =>
    let osize := osize_of (nd_sizes nd) in
    let tsize := tsize_of (nd_sizes nd) in
    let ntrans := nd_ntrans nd in
    (* order of evaluation in the code: inp, out, addr (struct literal order) *)
    do ati <- csub (nd_start nd) (any_ntrans_len v + 1 + trans_index_size (nd_version nd) ntrans + i + 1);
    do inp <- rd (nd_start nd) ati;
    do out <- (if osize =? 0 then Ok 0
               else do at_ <- csub (nd_start nd) (any_ntrans_len v + 1 + total_trans_size (nd_version nd) (nd_sizes nd) ntrans
                                                   + i * osize + osize);
                    unpack_uint (nd_start nd) at_ osize);
    if negb (i <? ntrans) then Panic else
    do at_ <- csub (nd_start nd) (any_ntrans_len v + 1 + trans_index_size (nd_version nd) ntrans + ntrans
                                    + i * tsize + tsize);
    do a <- unpack_delta (nd_start nd) at_ tsize (nd_end nd);
    Ok (mkTrans inp out a)
  | EmptyFinal => Panic
  end.

Definition transition_addr (nd : node) (i : N) : res N :=
  match nd_state nd with
  | OneTransNext v => if negb (i =? 0) then Panic else csub (nd_end nd) 1
  | OneTrans v =>
    if negb (i =? 0) then Panic else
    let tsize := tsize_of (nd_sizes nd) in
    do at_ <- csub (nd_start nd) (input_len v + 1 + tsize);
    unpack_delta (nd_start nd) at_ tsize (nd_end nd)
  | AnyTrans v =>
    let tsize := tsize_of (nd_sizes nd) in
    let ntrans := nd_ntrans nd in
    if negb (i <? ntrans) then Panic else
    do at_ <- csub (nd_start nd) (any_ntrans_len v + 1 + trans_index_size (nd_version nd) ntrans + ntrans
                                    + i * tsize + tsize);
    unpack_delta (nd_start nd) at_ tsize (nd_end nd)
  | EmptyFinal => Panic
  end.

(* linear scan of inputs[start..end] for the first position holding b *)
Fixpoint scan_inputs (lim start : N) (n : nat) (k : N) (b : N) : res (option N) :=
  match n with
  | O => Ok None
  | S m => do x <- rd lim (start + k);
           if x =? b then Ok (Some k) else scan_inputs lim start m (k + 1) b
  end.

Definition find_input (nd : node) (b : N) : res (option N) :=
  match nd_state nd with
  | OneTransNext v => do inp <- one_input nd v; Ok (if inp =? b then Some 0 else None)
  | OneTrans v => do inp <- one_input nd v; Ok (if inp =? b then Some 0 else None)
  | AnyTrans v =>
    let ntrans := nd_ntrans nd in
    if (2 <=? nd_version nd) && (TRANS_INDEX_THRESHOLD <? ntrans) then
      do start <- csub (nd_start nd) (any_ntrans_len v + 1 + trans_index_size (nd_version nd) ntrans);
      do i <- rd (nd_start nd) (start + b);
      Ok (if ntrans <=? i then None else Some i)
    else
      do start <- csub (nd_start nd) (any_ntrans_len v + 1 + ntrans);
      (* `&node.data[start..end]` is bounds-checked as a whole before the scan *)
      do _ <- (if ntrans =? 0 then Ok 0 else rd (nd_start nd) (start + ntrans - 1));
      do r <- scan_inputs (nd_start nd) start (N.to_nat ntrans) 0 b;
      Ok (match r with Some k => Some (ntrans - k - 1) | None => None end)
  | EmptyFinal => Ok None
  end.

(* all transitions, in index order (what `transitions()` yields) *)
Fixpoint transitions_from (nd : node) (i : N) (n : nat) : res (list trans) :=
  match n with
  | O => Ok []
  | S m => do t <- transition nd i; do r <- transitions_from nd (i + 1) m; Ok (t :: r)
  end.
Definition transitions (nd : node) : res (list trans) := transitions_from nd 0 (N.to_nat (nd_ntrans nd)).
End Access.
