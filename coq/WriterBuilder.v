(* WriterBuilder.v — the write session of a builder run, computed from the builder model.
   Writer.v takes, per API call, the list of write_all chunks that call pushes through the
   CountingWriter as GIVEN.  Here that list is derived from Builder.v: [b_out] is append-only
   (newest first), so the chunks of one call are the difference of [b_out] before and after it.
   Also: the real checksum (Crc.v) as the instance of Writer.v's abstract crc_update / masked.
   Definitions only; proofs in proofs/WriterBuilderProofs.v. *)
Require Import FstV.Base FstV.Pack FstV.Node FstV.Registry FstV.Generated.SrcParams.
Require Import FstV.Builder FstV.Crc FstV.Writer.

(* chunks appended between two builder states, in write order *)
Definition new_chunks (b b' : builder) : list (list N) :=
  rev (firstn (length (b_out b') - length (b_out b)) (b_out b')).

Definition chunks_of_call (b : builder) (o : op) : list (list N) :=
  new_chunks b (fst (apply_op b o)).

(* one chunk list per add/insert call, rejected calls included (they write nothing) *)
Fixpoint calls_of (b : builder) (ops : list op) : list (list (list N)) :=
  match ops with
  | [] => []
  | o :: r => chunks_of_call b o :: calls_of (fst (apply_op b o)) r
  end.

(* the builder state after each call *)
Fixpoint states_of (b : builder) (ops : list op) : list builder :=
  match ops with
  | [] => []
  | o :: r => fst (apply_op b o) :: states_of (fst (apply_op b o)) r
  end.

(* into_inner up to its last write through the CountingWriter (remaining nodes, root, len,
   root address): the same steps as Builder.b_finish_full, returning the builder *)
Definition b_finish_builder (b : builder) : res builder :=
  let '(b1, r) := compile_from b O in
  match r with
  | Ok _ =>
    match b_stack b1 with
    | [root] =>
      match u_last root with
      | Some _ => Panic
      | None =>
        let '(b2, r2) := compile b1 (u_node root) in
        match r2 with
        | Ok root_addr => Ok (b_write b2 [u64_le (b_len b2); u64_le root_addr])
        | Err x => Err x
        | Panic => Panic
        end
      end
    | _ => Panic
    end
  | Err x => Err x
  | Panic => Panic
  end.

Definition fin_chunks (b : builder) : list (list N) :=
  match b_finish_builder b with Ok b3 => new_chunks b b3 | _ => [] end.

(* (chunks of new :: chunks of every add/insert, chunks of into_inner) *)
Definition session_of (ty rows cols : N) (ops : list op) : list (list (list N)) * list (list N) :=
  let b0 := new_builder ty rows cols in
  (rev (b_out b0) :: calls_of b0 ops, fin_chunks (fst (Builder.run_calls b0 ops))).

(* bytes_written() the builder model predicts after new and after every call *)
Definition counts_of (ty rows cols : N) (ops : list op) : list N :=
  let b0 := new_builder ty rows cols in
  b_count b0 :: map b_count (states_of b0 ops).

(* ---------- the real checksum as the instance of Writer.v's parameters ---------- *)
(* CountingWriter: self.summer.update(&buf[..n]) ; masked_checksum() = self.summer.masked() *)
Definition real_update (s : N) (buf : list N) : N := cs_sum (summer_update {| cs_sum := s |} buf).
Definition real_masked (s : N) : N := summer_masked {| cs_sum := s |}.

Definition real_sink_session := run_sink_session real_update real_masked false.
Definition real_buf_session := run_buf_session real_update real_masked false.
