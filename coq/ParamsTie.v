(* ParamsTie.v — the constants the model takes from /repo's current sources (regenerated into
   Generated/SrcParams.v on every run) equal the constants the format pins. A changed
   constant in the source breaks one of these proof obligations by name. *)
Require Import FstV.Base FstV.Node FstV.Format FstV.Generated.SrcParams.

Lemma tie_version : src_VERSION = 3. Proof. reflexivity. Qed.
Lemma tie_empty_address : src_EMPTY_ADDRESS = 0. Proof. reflexivity. Qed.
Lemma tie_none_address : src_NONE_ADDRESS = 1. Proof. reflexivity. Qed.
Lemma tie_index_threshold : src_TRANS_INDEX_THRESHOLD = FMT_INDEX_THRESHOLD. Proof. reflexivity. Qed.
Lemma tie_open_sizes :
  (src_open_empty_total_v12, src_open_addr_offset_v12, src_open_empty_total_v3, src_open_addr_offset_v3)
  = (32, 17, 36, 21).
Proof. reflexivity. Qed.
Lemma tie_crc_poly : src_CASTAGNOLI_POLY = 2197175160. Proof. reflexivity. Qed.   (* 0x82F63B78 *)
Lemma tie_mask : (src_mask_shr, src_mask_shl, src_mask_add) = (15, 17, 2726488792). Proof. reflexivity. Qed.
(* The FNV prime and basis of the node cache are NOT pinned: they are no part of the format and no
   property depends on their values; the registry model takes them from the source as they are. *)

(* the 63 common inputs reachable through a 6-bit index are the pinned ones *)
Lemma tie_common_inv : firstn 63 src_COMMON_INPUTS_INV = FMT_COMMON_INV.
Proof. vm_compute. reflexivity. Qed.
Lemma tie_table_lengths : length src_COMMON_INPUTS = 256%nat /\ length src_COMMON_INPUTS_INV = 256%nat.
Proof. vm_compute. split; reflexivity. Qed.

(* the two tables are mutually inverse: INV[COMMON[b]] = b for every byte (a finite domain) *)
Definition inv_ok_b : bool :=
  forallb (fun b => nth (N.to_nat (nth (N.to_nat b) src_COMMON_INPUTS 0)) src_COMMON_INPUTS_INV 0 =? b)
          (map N.of_nat (seq 0 256)).
Lemma tie_tables_inverse : inv_ok_b = true.
Proof. vm_compute. reflexivity. Qed.
Lemma tables_inverse : forall b, b < 256 ->
  nth (N.to_nat (nth (N.to_nat b) src_COMMON_INPUTS 0)) src_COMMON_INPUTS_INV 0 = b.
Proof.
  intros b Hb. pose proof tie_tables_inverse as H. unfold inv_ok_b in H.
  rewrite forallb_forall in H. apply N.eqb_eq. apply H. apply in_map_iff.
  exists (N.to_nat b). split; [apply N2Nat.id|]. apply in_seq. lia.
Qed.

(* encoder and decoder agree on which bytes get a 6-bit code and what it decodes to *)
Lemma common_idx_roundtrip : forall b, b < 256 ->
  match common_input (common_idx b 63) with
  | Some b' => b' = b
  | None => common_idx b 63 = 0
  end.
Proof.
  intros b Hb.
  assert (H : forallb (fun b => match common_input (common_idx b 63) with
                                | Some b' => b' =? b | None => common_idx b 63 =? 0 end)
                      (map N.of_nat (seq 0 256)) = true) by (vm_compute; reflexivity).
  rewrite forallb_forall in H. specialize (H b).
  assert (In b (map N.of_nat (seq 0 256))) as Hin
    by (apply in_map_iff; exists (N.to_nat b); split; [apply N2Nat.id|apply in_seq; lia]).
  specialize (H Hin). destruct (common_input (common_idx b 63)); apply N.eqb_eq; exact H.
Qed.
(* the decoder of Format.v and the decoder of Node.v use the same table *)
Lemma common_of_eq : forall c, 1 <= c -> c < 64 -> common_of c = common_input c.
Proof.
  intros c H1 H2.
  assert (H : forallb (fun c => match common_of c, common_input c with
                                | Some a, Some b => a =? b | _, _ => false end)
                      (map N.of_nat (seq 1 63)) = true) by (vm_compute; reflexivity).
  rewrite forallb_forall in H. specialize (H c).
  assert (In c (map N.of_nat (seq 1 63))) as Hin
    by (apply in_map_iff; exists (N.to_nat c); split; [apply N2Nat.id|apply in_seq; lia]).
  specialize (H Hin). destruct (common_of c), (common_input c); try discriminate.
  apply N.eqb_eq in H. now subst.
Qed.

(* ---------- node state bytes, masks and shifts (src/raw/node.rs) = the documented layout ---------- *)
Lemma tie_state_bytes :
  (src_state_otn, src_state_ot, src_state_any, src_any_final_flag) = (192, 128, 0, 64).
Proof. reflexivity. Qed.
Lemma tie_state_decode :
  (src_state_kind_mask, src_state_kind_shift, src_state_kind_otn, src_state_kind_ot) = (192, 6, 3, 2).
Proof. reflexivity. Qed.
Lemma tie_ntrans_encoding :
  (src_any_ntrans_max_inline, src_any_ntrans_mask, src_ntrans_256_marker, src_max_trans) = (63, 63, 1, 256).
Proof. reflexivity. Qed.
Lemma tie_common_masks :
  (src_otn_common_max, src_ot_common_max, src_common_input_mask) = (63, 63, 63).
Proof. reflexivity. Qed.
Lemma tie_packsizes : (src_packsizes_tshift, src_packsizes_tmask, src_packsizes_omask) = (4, 240, 15).
Proof. reflexivity. Qed.
Lemma tie_index : (src_index_absent, src_index_len, src_version_index_min) = (255, 256, 2).
Proof. reflexivity. Qed.
Lemma tie_open_lengths :
  (src_open_min_len, src_open_min_len_v3, src_checksum_version_max_without) = (32, 36, 2).
Proof. reflexivity. Qed.
(* bytes.rs pack_size: thresholds 2^8 .. 2^56 returning 1 .. 8, as in Pack.pack_size *)
Lemma tie_pack_size : src_pack_size_shifts = [8; 16; 24; 32; 40; 48; 56] /\
                      src_pack_size_results = [1; 2; 3; 4; 5; 6; 7; 8].
Proof. split; reflexivity. Qed.
Lemma pack_size_thresholds : forall n,
  Pack.pack_size n = nth (length (filter (fun s => 2 ^ s <=? n) src_pack_size_shifts)) src_pack_size_results 0.
Proof.
  intros n. unfold Pack.pack_size. cbn [src_pack_size_shifts src_pack_size_results filter].
  change (2 ^ 8) with 256. change (2 ^ 16) with 65536. change (2 ^ 24) with 16777216.
  change (2 ^ 32) with 4294967296. change (2 ^ 40) with 1099511627776.
  change (2 ^ 48) with 281474976710656. change (2 ^ 56) with 72057594037927936.
  repeat match goal with
         | |- context [?a <? ?b] => destruct (N.ltb_spec a b)
         | |- context [?a <=? ?b] => destruct (N.leb_spec a b)
         end; cbn [length nth]; try reflexivity; lia.
Qed.
