(* extraction of the byte-bound formula of C13 (the model side prints it as M); ExtrOcamlBasic only *)
Require Import FstV.Base FstV.Mem.
Require Extraction.
Require Import ExtrOcamlBasic.
Extraction Language OCaml.
(* Nat.add only so that the type nat exists for ocaml/conv.ml *)
Extraction "c13_model.ml" c13_bound builder_bound Nat.add.
