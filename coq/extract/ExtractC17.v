(* extraction of the Levenshtein model and specification for the C17 correspondence; ExtrOcamlBasic only *)
Require Import FstV.Base FstV.Automaton FstV.Levenshtein.
Require Extraction.
Require Import ExtrOcamlBasic.
Extraction Language OCaml.
Definition lev_accepts (d : dfa) (w : list N) : bool := accepts (lev_aut d) w.
Definition lev_start_trace (d : dfa) (w : list N) : list (option nat) := lev_trace d (start (lev_aut d)) w.
Extraction "c17_model.ml" lev spec_match is_scalar utf8_encode utf8_bytes utf8_decode utf8_valid
  utf8_sequences lev_new_with_limit lev_new lev_accepts lev_start_trace st_next st_match.
