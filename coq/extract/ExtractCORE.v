(* extraction of builder/reader/spec for the core correspondence; ExtrOcamlBasic only *)
Require Import FstV.Generated.SrcParams FstV.Base FstV.Pack FstV.Node FstV.Registry FstV.Builder FstV.Reader FstV.Automaton FstV.Fst FstV.Format FstV.Crc.
Require Extraction.
Require Import ExtrOcamlBasic.
Extraction Language OCaml.
Extraction "core_model.ml"
  new_builder new_builder_v run_calls run_extend run_batches batches_written apply_op b_finish b_finish_full b_count b_stats b_len build_map_v
  view_of fst_get fst_contains get_key range search_with_state api_get api_contains api_get_key api_range api_search api_search_with_state api_stream api_len read_meta
  spec_calls spec_content accepted_prefix spec_batches spec_range spec_search spec_get_key lookup
  src_registry_rows src_registry_cols model_masked_crc32c denote run spec_open_class spec_parse wf_fst_b spec_read.
