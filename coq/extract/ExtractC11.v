(* extraction of the write path model for the C11 correspondence; ExtrOcamlBasic only *)
Require Import FstV.Base FstV.Writer.
Require Extraction.
Require Import ExtrOcamlBasic.
Extraction Language OCaml.
Extraction "c11_model.ml" x_sink_session x_buf_session x_mem_session x_buf_drop cont_spec_finished x_cont_session
  o_calls o_fin o_final o_cnt s_data s_calls s_flushes s_unflushed b_inner b_buf.
