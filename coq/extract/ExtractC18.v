(* extraction of the automaton model for the C18 correspondence; ExtrOcamlBasic only *)
Require Import FstV.Base FstV.Automaton.
Require Extraction.
Require Import ExtrOcamlBasic.
Extraction Language OCaml.
Extraction "c18_model.ml" denote sem trace_exp accepts run.
