(* extraction of the merge pipeline model for the C19 correspondence; ExtrOcamlBasic only *)
Require Import FstV.Base FstV.Merge.
Require Extraction.
Require Import ExtrOcamlBasic.
Extraction Language OCaml.
Extraction "c19_model.ml" merge_all spec_merge oracle_of union_shape batcher key_set keys_of
  mg_sum mg_max mg_min mg_set len.
