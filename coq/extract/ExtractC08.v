(* extraction of the CRC and open/verify models for the C08 correspondence; ExtrOcamlBasic only *)
Require Import FstV.Base FstV.Crc FstV.Open.
Require Extraction.
Require Import ExtrOcamlBasic.
Extraction Language OCaml.
Extraction "c08_model.ml" spec_crc32c spec_masked spec_masked_crc32c crc32c_slice16 model_masked_crc32c
  summer_feed summer_masked summer_new writer_finish fst_new verify fst_len fst_is_empty fst_size fst_type
  set_nth.
