(* extraction of the open/verify model for the C20 correspondence; ExtrOcamlBasic only *)
Require Import FstV.Base FstV.Crc FstV.Open.
Require Extraction.
Require Import ExtrOcamlBasic.
Extraction Language OCaml.
Extraction "c20_model.ml" fst_new verify open_verify fst_len fst_is_empty fst_size fst_type fst_as_bytes.
