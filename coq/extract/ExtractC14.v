(* extraction of the byte-bound formulas of C14 (the model side prints them as M); ExtrOcamlBasic only *)
Require Import FstV.Base FstV.Mem.
Require Extraction.
Require Import ExtrOcamlBasic.
Extraction Language OCaml.
(* Nat.add only so that the type nat exists for ocaml/conv.ml *)
Extraction "c14_model.ml" c14_stream_bound c14_ops_bound stream_bound ops_bound Nat.add.
