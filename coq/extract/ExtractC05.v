(* extraction of the set-operation model for the C05 correspondence; ExtrOcamlBasic only *)
Require Import FstV.Base FstV.Ops.
Require Extraction.
Require Import ExtrOcamlBasic.
Extraction Language OCaml.
Extraction "c05_model.ml" run_union run_sel run_difference is_disjoint is_subset is_superset
  run_union_on run_sel_on run_difference_on is_disjoint_on is_subset_on is_superset_on poisoned inert
  pop_min_left pop_min_right spec_union spec_sel spec_difference
  spec_disjoint spec_subset spec_superset canon.
