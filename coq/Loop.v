(* Loop.v — binary-fuel loop combinator: runs f at most 2^(psize p) times. *)
From Coq Require Import PArith NArith Lia List Arith.
Local Open Scope nat_scope.
Set Implicit Arguments.
Section Loop.
  Variables (A B : Type) (f : A -> A + B).
  (* runs f at most 2^(size p) times, stops at the first inr; cost = number of iterations actually run *)
  Fixpoint loop (p : positive) (a : A) : A + B :=
    match p with
    | xH => f a
    | xO q | xI q => match loop q a with inl a' => loop q a' | inr b => inr b end
    end.
  (* reference semantics: nat-indexed iteration *)
  Fixpoint iter (n : nat) (a : A) : A + B :=
    match n with O => inl a | S n' => match f a with inl a' => iter n' a' | inr b => inr b end end.
  Fixpoint psize (p : positive) : nat := match p with xH => 0 | xO q | xI q => S (psize q) end.
  Lemma iter_add n m a : iter (n + m) a = match iter n a with inl a' => iter m a' | inr b => inr b end.
  Proof. revert a; induction n as [|n IH]; intros a; cbn [iter Nat.add]; [reflexivity|].
    destruct (f a); [apply IH|reflexivity]. Qed.
  Lemma loop_iter p a : loop p a = iter (2 ^ psize p) a.
  Proof. revert a; induction p as [q IH|q IH|]; intros a; cbn [loop psize].
    - rewrite Nat.pow_succ_r'.
      replace (2 * 2 ^ psize q) with (2 ^ psize q + 2 ^ psize q) by lia.
      rewrite iter_add, IH. destruct (iter _ a); [apply IH|reflexivity].
    - rewrite Nat.pow_succ_r'.
      replace (2 * 2 ^ psize q) with (2 ^ psize q + 2 ^ psize q) by lia.
      rewrite iter_add, IH. destruct (iter _ a); [apply IH|reflexivity].
    - cbn. destruct (f a); reflexivity.
  Qed.
  Lemma iter_done_mono n m a b : iter n a = inr b -> n <= m -> iter m a = inr b.
  Proof. intros H Hle. replace m with (n + (m - n)) by lia. rewrite iter_add, H. reflexivity. Qed.
  Theorem loop_complete p n a b : iter n a = inr b -> n <= 2 ^ psize p -> loop p a = inr b.
  Proof. intros. rewrite loop_iter. eapply iter_done_mono; eauto. Qed.
End Loop.
