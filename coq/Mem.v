(* Mem.v — C13 / C14: the LOGICAL size of the model states (builder, stream, set operation),
   the bounds proved for them in proofs/MemProofs.v, and the byte conversion of those bounds
   that the harness compares the MEASURED heap of the real code with.  Definitions only.

   What these definitions can and cannot say.  The models hold mathematical lists and a sparse
   map; they have no allocator, no Vec capacity, no `clone_from` reuse, no realloc.  The logical
   size counts the ELEMENTS a state holds, weighted by the byte size of the Rust struct that
   holds each element on a 64-bit target; the theorems bound the element counts for every
   reachable state and every number of keys.  The step from "at most n elements" to "at most
   [vcap n] slots of capacity" is the growth policy of Rust's RawVec (amortised doubling, never
   shrinking); it is NOT modelled or proved: it is the formula [mem_bound_bytes_*] below, whose
   value the harness checks against the heap it measures with a counting allocator. *)
Require Import FstV.Base FstV.Node FstV.Registry FstV.Builder FstV.Automaton FstV.Reader FstV.Ops.
Require Import Coq.FSets.FMapPositive.

(* ---------- unit weights: std::mem::size_of on a 64-bit target (checked by the harness) ---------- *)
Definition TRANS : N := 24.        (* raw::Transition { inp: u8, out: Output, addr: usize } *)
Definition CELL : N := 48.         (* registry::RegistryCell { addr, node: BuilderNode } *)
Definition UNF : N := 64.          (* build::BuilderNodeUnfinished { node, last: Option<LastTransition> } *)
Definition FRAME_BASE : N := 80.   (* StreamState<()> { node: Node (64), trans, out } *)
Definition FRAME (statesz : N) : N := FRAME_BASE + statesz.   (* + size_of::<A::State>() *)
Definition SLOT : N := 40.         (* ops::Slot { idx, input: Vec<u8>, output } *)
Definition IV : N := 16.           (* ops::IndexedValue *)
Definition STREAMBOX : N := 120.   (* size_of::<raw::Stream>(): what OpBuilder::push boxes *)
Definition BOXPTR : N := 16.       (* Box<dyn Streamer> *)

(* ---------- C13: builder ---------- *)
Definition ntrans (n : bnode) : nat := length (n_trans n).
Definition table_cells (r : registry) : list cell := map snd (PositiveMap.elements (r_table r)).
Definition sum_nat {A} (f : A -> nat) (l : list A) : nat := fold_right (fun x a => (f x + a)%nat) O l.
Definition max_nat {A} (f : A -> nat) (l : list A) : nat := fold_right (fun x a => Nat.max (f x) a) O l.

(* table entries present (a missing entry is the `none` cell, which owns no heap) *)
Definition reg_cells (b : builder) : N := N.of_nat (PositiveMap.cardinal (r_table (b_reg b))).
(* transitions held by the cells' nodes *)
Definition reg_trans (b : builder) : N := N.of_nat (sum_nat (fun c => ntrans (c_node c)) (table_cells (b_reg b))).
Definition reg_max_fan (b : builder) : nat := max_nat (fun c => ntrans (c_node c)) (table_cells (b_reg b)).
(* an unfinished node: its transitions plus the pending `last` one, which `last_compiled`
   pushes onto the same Vec when the node is frozen *)
Definition unf_trans (u : unf) : nat :=
  (ntrans (u_node u) + match u_last u with Some _ => 1 | None => 0 end)%nat.
Definition stack_depth (b : builder) : N := len (b_stack b).
Definition stack_trans (b : builder) : N := N.of_nat (sum_nat unf_trans (b_stack b)).
Definition stack_max_fan (b : builder) : nat := max_nat unf_trans (b_stack b).
Definition last_len (b : builder) : N := match b_last b with Some k => len k | None => 0 end.

(* [b_out] is the sink's content, not the builder's; [b_stats] is the hook's counters *)
Definition builder_logical_size (b : builder) : N :=
  reg_cells b * CELL + reg_trans b * TRANS + stack_depth b * UNF + stack_trans b * TRANS + last_len b.

Definition builder_bound (rows cols maxfan maxkey : N) : N :=
  rows * cols * CELL + rows * cols * maxfan * TRANS
  + (maxkey + 1) * UNF + (maxkey + 1) * maxfan * TRANS + maxkey.

(* ---------- C14: streams ---------- *)
Section StreamSize.
Variable A : automaton.
Definition stream_logical_size (statesz : N) (s : stream A) : N :=
  len (s_stack A s) * FRAME statesz + len (s_inp A s).
End StreamSize.
Definition stream_bound (statesz maxkey : N) : N := (maxkey + 1) * FRAME statesz + maxkey.

(* ---------- C14: set operations ---------- *)
Definition slot_size (s : slot) : N := SLOT + len (input s).
Definition slots_size (l : list slot) : N := fold_right (fun s a => slot_size s + a) 0 l.
Definition cur_slots (c : option slot) : list slot := match c with Some s => [s] | None => [] end.
(* union / intersection / symmetric difference *)
Definition ops_logical_size (st : opstate) : N :=
  slots_size (heap (o_heap st)) + slots_size (cur_slots (o_cur st)) + len (o_outs st) * IV.
(* difference: the heap over the other streams, the copied key, outs *)
Definition diff_logical_size (st : dstate) : N :=
  slots_size (heap (d_heap st)) + len (d_key st) + len (d_outs st) * IV.
Definition ops_bound (k maxkey : N) : N := k * (SLOT + maxkey) + k * IV.

(* ---------- byte conversion (NOT proved: Vec growth policy + fixed allowances) ---------- *)
(* capacity of a Vec that never holds more than n elements and grows by RawVec's amortised
   policy, new capacity = max(2 * cap, required, 4): by pushes it is the next power of two
   >= 4 (< 2n), by `reserve`-style growth (clone_from's extend) max(2 * cap, required) < 2n *)
Definition vcap (n : N) : N := N.max 4 (2 * n).
Definition STACK0 : N := 64.        (* UnfinishedNodes::new: Vec::with_capacity(64) *)
Definition ALLOWANCE : N := 65536.  (* fixed slack (64 KiB): hook counters, and room for harmless changes of initial capacities *)
Definition INP0 : N := 16.          (* StreamWithState::new: inp = Vec::with_capacity(16) *)
Definition SLOT_INPUT0 : N := 64.   (* Slot::new: input = Vec::with_capacity(64) *)
Definition ALLOWANCE_S : N := 4096. (* fixed slack for streams and set operations (initial capacities may change harmlessly) *)

Definition mem_bound_bytes_builder (rows cols maxfan maxkey : N) : N :=
  rows * cols * CELL                      (* the table, allocated once *)
  + rows * cols * vcap maxfan * TRANS     (* one Vec<Transition> per cell, capacity retained *)
  + N.max STACK0 (vcap (maxkey + 1)) * UNF   (* the stack of unfinished nodes *)
  + (maxkey + 1) * vcap maxfan * TRANS    (* one Vec<Transition> per unfinished node *)
  + N.max 8 (2 * maxkey)                  (* `last`: Vec<u8>, minimum non-zero capacity 8 *)
  + ALLOWANCE.

(* maxkey also bounds the two range bounds a StreamBuilder copies (ge/gt and le/lt) *)
Definition mem_bound_bytes_stream (maxkey statesz : N) : N :=
  vcap (maxkey + 1) * FRAME statesz + N.max INP0 (2 * maxkey) + 2 * maxkey + ALLOWANCE_S.

Definition mem_bound_bytes_ops (k maxkey : N) : N :=
  k * (STREAMBOX + mem_bound_bytes_stream maxkey 0)   (* the k boxed input streams *)
  + vcap k * BOXPTR                                   (* rdrs: Vec<Box<dyn Streamer>> *)
  + vcap k * SLOT                                     (* BinaryHeap<Slot> *)
  + k * N.max SLOT_INPUT0 (2 * maxkey)                (* each slot's input buffer *)
  + vcap k * IV                                       (* outs *)
  + N.max 8 (2 * maxkey)                              (* Difference::key *)
  + ALLOWANCE_S.

(* what the two sides of the correspondence print *)
Definition c13_bound (rows cols fanout maxkey : N) : N := mem_bound_bytes_builder rows cols fanout maxkey.
Definition c14_stream_bound (maxkey statesz : N) : N := mem_bound_bytes_stream maxkey statesz.
Definition c14_ops_bound (k maxkey : N) : N := mem_bound_bytes_ops k maxkey.
