(* CodecSpec.v — the statements that connect the three byte-level definitions:
   Node.compile_node (what the builder writes), Format.spec_node (the documented layout) and
   Node.node_new + accessors (what the reader does).  Statements only; they are proved in
   proofs/NodeProofs.v and used as hypotheses-by-name in BuilderProofs / the C01 C02 C09 files. *)
Require Import FstV.Base FstV.Pack FstV.Node FstV.Reader FstV.GraphSem FstV.Format FstV.Fst.

Definition U64 : N := 18446744073709551616.

(* a builder node that may be written at address [addr] (= number of bytes already written) *)
Definition bnode_ok (last_addr addr : N) (n : bnode) : Prop :=
  (length (n_trans n) <= 256)%nat /\
  n_fout n < U64 /\
  (n_final n = false -> n_fout n = 0) /\
  inputs_increasing (n_trans n) = true /\
  (forall t, In t (n_trans n) ->
     t_inp t < 256 /\ t_out t < U64 /\ (t_addr t = 0 \/ (16 <= t_addr t /\ t_addr t < addr))) /\
  (* the compact one-transition form points at the node just below *)
  (forall t, In t (n_trans n) -> t_addr t = last_addr -> last_addr + 1 = addr) /\
  16 <= addr /\ addr < U64 /\
  (* the empty final node with zero output is never written *)
  ~ (n_final n = true /\ n_trans n = [] /\ n_fout n = 0).

(* 1. printer/parser law: what compile_node writes at [addr] is read back by the format
      specification, from the node's last byte, as exactly that node. *)
Definition codec_statement : Prop :=
  forall (version last_addr addr : N) (n : bnode) (cs : list (list N)) (pre : list N),
    1 <= version -> version <= 3 ->
    len pre = addr ->
    bnode_ok last_addr addr n ->
    compile_node version last_addr addr n = Ok cs ->
    let body := concat cs in
    0 < len body /\
    spec_node version (rev (pre ++ body)) (addr + len body - 1)
      = Some (mkSnode (n_final n) (n_fout n) (n_trans n) (len body)).

(* compile_node cannot fail on such a node *)
Definition compile_total_statement : Prop :=
  forall (version last_addr addr : N) (n : bnode),
    1 <= version -> version <= 3 -> bnode_ok last_addr addr n ->
    exists cs, compile_node version last_addr addr n = Ok cs.

(* 2. reader = specification: where the format specification parses a structurally valid node,
      Node::new and its accessors return the same node (and never panic). *)
Definition reader_eq_spec_statement : Prop :=
  forall (version : N) (bs : list N) (a : N) (sn : snode),
    1 <= version -> version <= 3 ->
    Forall (fun b => b < 256) bs ->
    a <> 0 -> a < len bs ->
    spec_node version (rev (firstn (N.to_nat a + 1) bs)) a = Some sn ->
    snode_ok (a + 1 - sn_size sn) sn = true ->
    exists v, concrete_node_at (list_get bs) version a = Ok v /\
              nv_addr v = a /\ nv_final v = sn_final sn /\ nv_fout v = sn_fout sn /\
              nv_trans v = sn_trans sn /\
              forall b, b < 256 -> nv_find v b = Ok (find_pos b (sn_trans sn) 0).

(* the extraction-time byte map and the list view used in proofs are the same function *)
Definition data_get_statement : Prop :=
  forall (bs : list N) (i : N), data_get (data_of bs) i = list_get bs i.

(* 3. consequence for whole files: a file accepted by the format specification presents its
      graph to the reader model. *)
Definition parse_views_statement : Prop :=
  forall (bs : list N) (p : parsed),
    Forall (fun b => b < 256) bs ->
    spec_parse bs = Some p ->
    let g := graph_of (node_table (p_nodes p)) in
    wf_graph g /\
    views g (concrete_node_at (list_get bs) (p_version p)) /\
    (exists r, gget g (p_root p) = Some r) /\
    p_content p = L g (p_root p) /\
    m_version (read_meta bs) = p_version p /\ m_root (read_meta bs) = p_root p /\
    m_len (read_meta bs) = p_len p /\ m_ty (read_meta bs) = p_ty p.
