(* GraphSem.v — the meaning of an FST as a graph: nodes addressed by N, address 0 is the shared
   empty final node, every transition points to a strictly smaller address. All reader-side
   theorems are stated against this interface; Format.v instantiates it from bytes. *)
Require Import FstV.Base FstV.Node FstV.Reader.

Record gnode := mkG { g_final : bool; g_fout : N; g_trans : list trans }.
Definition graph := N -> option gnode.
Definition g_empty_final : gnode := mkG true 0 [].
(* address 0 never holds a real node *)
Definition gget (g : graph) (a : N) : option gnode := if a =? 0 then Some g_empty_final else g a.

Fixpoint inputs_increasing (ts : list trans) : bool :=
  match ts with
  | a :: ((b :: _) as r) => (t_inp a <? t_inp b) && inputs_increasing r
  | _ => true
  end.

Definition wf_graph (g : graph) : Prop :=
  forall a n, gget g a = Some n ->
    inputs_increasing (g_trans n) = true /\
    forall t, In t (g_trans n) -> t_inp t < 256 /\ t_addr t < a /\ exists n', gget g (t_addr t) = Some n'.

(* the pairs reachable from an address, in key order; [fuel] bounds the depth of the walk
   (any fuel above the address suffices on a well-formed graph: lang_fuel in GraphProofs) *)
Fixpoint lang (g : graph) (fuel : nat) (a : N) : option kmap :=
  match fuel with
  | O => None
  | S f =>
    match gget g a with
    | None => None
    | Some n =>
      let subs := map (fun t => match lang g f (t_addr t) with
                                | Some l => Some (map (fun kv => (t_inp t :: fst kv, t_out t + snd kv)) l)
                                | None => None end) (g_trans n) in
      if forallb (fun o => match o with Some _ => true | None => false end) subs then
        Some ((if g_final n then [([], g_fout n)] else []) ++
              concat (map (fun o => match o with Some l => l | None => [] end) subs))
      else None
    end
  end.

(* the language of a well-formed graph at an address: fuel = address + 1 *)
Definition L (g : graph) (a : N) : kmap :=
  match lang g (S (N.to_nat a)) a with Some l => l | None => [] end.

(* index of the transition taking input b *)
Fixpoint find_pos (b : N) (ts : list trans) (i : N) : option N :=
  match ts with
  | [] => None
  | t :: r => if t_inp t =? b then Some i else find_pos b r (i + 1)
  end.

(* a node-access function (Reader.v's interface) presents the graph g *)
Definition views (g : graph) (node_at : N -> res nview) : Prop :=
  forall a n, gget g a = Some n ->
    exists v, node_at a = Ok v /\ nv_addr v = a /\ nv_final v = g_final n /\ nv_fout v = g_fout n /\
              nv_trans v = g_trans n /\ forall b, b < 256 -> nv_find v b = Ok (find_pos b (g_trans n) 0).

(* canonical outputs (C16): every value reachable through a transition is at least the
   transition's own output, and the smallest value below a transition is exactly its output;
   stated on languages: for every node, the residual minimum of each transition target is 0 *)
Definition min_value (m : kmap) : option N :=
  match m with [] => None | (_, v) :: r => Some (fold_left N.min (map snd r) v) end.
Definition canonical_outputs (g : graph) : Prop :=
  forall a n t, a <> 0 -> gget g a = Some n -> In t (g_trans n) ->
    min_value (L g (t_addr t)) = Some 0.
