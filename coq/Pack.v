(* Pack.v — model of src/bytes.rs: little-endian fixed-width and packed integers. *)
Require Import FstV.Base.

(* pack_size: smallest number of bytes (1..8) that can hold n *)
Definition pack_size (n : N) : N :=
  if n <? 256 then 1
  else if n <? 65536 then 2
  else if n <? 16777216 then 3
  else if n <? 4294967296 then 4
  else if n <? 1099511627776 then 5
  else if n <? 281474976710656 then 6
  else if n <? 72057594037927936 then 7
  else 8.

(* pack_uint_in: the low `nbytes` bytes of n, least significant first (`n as u8; n >>= 8`) *)
Fixpoint le_bytes (n : N) (nbytes : nat) : list N :=
  match nbytes with
  | O => []
  | S k => (n mod 256) :: le_bytes (n / 256) k
  end.

(* `assert!(1 <= nbytes && nbytes <= 8)` *)
Definition pack_uint_in (n : N) (nbytes : N) : res (list N) :=
  if (1 <=? nbytes) && (nbytes <=? 8) then Ok (le_bytes n (N.to_nat nbytes)) else Panic.

(* unpack_uint over exactly the given bytes: sum b_i * 256^i *)
Fixpoint le_value (l : list N) : N :=
  match l with
  | [] => 0
  | b :: r => b + 256 * le_value r
  end.

Definition u64_le (n : N) : list N := le_bytes n 8.
Definition u32_le (n : N) : list N := le_bytes n 4.
