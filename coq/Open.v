(* Open.v — model of Fst::new, Fst::verify and the metadata accessors of src/raw/mod.rs
   (as they are in /repo now).  Every slice, index and subtraction is a checked operation
   that yields [Panic] where Rust would panic.  No proofs here (proofs/OpenProofs.v).
   Target assumption: 64-bit usize (u64_to_usize is then the identity cast). *)
Require Import FstV.Base FstV.Generated.SrcParams FstV.Crc.

Record meta := {
  m_version : N;
  m_root_addr : N;
  m_ty : N;
  m_len : N;
  m_checksum : option N
}.

(* ---------- checked primitives ---------- *)
(* `a - b` on usize: panics under overflow checks; without them the wrapped value then
   fails the slice bound check, so the observable outcome is a panic either way *)
Definition usize_sub (a b : N) : res N := if b <=? a then Ok (a - b) else Panic.
(* `a + b` on usize under overflow checks (the harness profile) *)
Definition usize_add (a b : N) : res N := if a + b <=? U64MAX then Ok (a + b) else Panic.
(* `&s[i..]` and `&s[..i]` *)
Definition slice_from (s : list N) (i : N) : res (list N) :=
  if i <=? len s then Ok (skipn (N.to_nat i) s) else Panic.
Definition slice_to (s : list N) (i : N) : res (list N) :=
  if i <=? len s then Ok (firstn (N.to_nat i) s) else Panic.
Definition u64_to_usize (n : N) : N := n.

(* ---------- Fst::new ---------- *)
Definition fst_new (bytes : list N) : res meta :=
  let n := len bytes in
  if n <? 32 then Err (EFormat n) else
  do version <- read_u64_le bytes;
  if (version =? 0) || (src_VERSION <? version) then Err (EVersion src_VERSION version) else
  if (3 <=? version) && (n <? 36) then Err (EFormat n) else
  do s8 <- slice_from bytes 8;
  do ty <- read_u64_le s8;
  do ec <- (if version <=? 2 then Ok (n, None)
            else do k <- usize_sub n 4;
                 do s <- slice_from bytes k;
                 do checksum <- read_u32_le s;
                 do e <- usize_sub n 4;
                 Ok (e, Some checksum));
  let '(end_, checksum) := ec in
  do k1 <- usize_sub end_ 8;
  do last <- slice_from bytes k1;
  do ra <- read_u64_le last;
  let root_addr := u64_to_usize ra in
  do k2 <- usize_sub end_ 16;
  do last2 <- slice_from bytes k2;
  do ln <- read_u64_le last2;
  let ln := u64_to_usize ln in
  let '(empty_total, addr_offset) :=
    if version <=? 2 then (src_open_empty_total_v12, src_open_addr_offset_v12)
    else (src_open_empty_total_v3, src_open_addr_offset_v3) in
  let m := {| m_version := version; m_root_addr := root_addr; m_ty := ty; m_len := ln; m_checksum := checksum |} in
  (* (root_addr == EMPTY_ADDRESS && bytes.len() != empty_total) && root_addr + addr_offset != bytes.len()
     — `&&` evaluates its right operand only when the left one is true *)
  if (root_addr =? src_EMPTY_ADDRESS) && negb (n =? empty_total) then
    do s <- usize_add root_addr addr_offset;
    if negb (s =? n) then Err (EFormat n) else Ok m
  else Ok m.

(* ---------- Fst::verify ---------- *)
Definition verify (bytes : list N) (m : meta) : res unit :=
  match m_checksum m with
  | None => Err EChecksumMissing
  | Some expected =>
    let summer := summer_new in
    do k <- usize_sub (len bytes) 4;
    do s <- slice_to bytes k;
    let summer := summer_update summer s in
    let got := summer_masked summer in
    if expected =? got then Ok tt else Err (EChecksumMismatch expected got)
  end.

(* ---------- accessors: plain field reads / slice length, total by construction ---------- *)
Definition fst_len (m : meta) : N := m_len m.
Definition fst_is_empty (m : meta) : bool := m_len m =? 0.
Definition fst_size (bytes : list N) : N := len bytes.
Definition fst_type (m : meta) : N := m_ty m.
Definition fst_as_bytes (bytes : list N) : list N := bytes.

(* open, then verify: the integrity gate *)
Definition open_verify (bytes : list N) : res meta :=
  do m <- fst_new bytes; do _ <- verify bytes m; Ok m.
