(* Base.v — shared vocabulary of the FstV development (Coq 8.16, stdlib only).
   bytes, u32, u64, usize are all [N]; range facts are explicit predicates. *)
From Coq Require Export NArith List Bool Lia PeanoNat.
Export ListNotations.
Open Scope N_scope.

Arguments N.add : simpl never.
Arguments N.sub : simpl never.
Arguments N.mul : simpl never.
Arguments N.eqb : simpl never.
Arguments N.ltb : simpl never.
Arguments N.leb : simpl never.
Arguments N.div : simpl never.
Arguments N.modulo : simpl never.
Arguments N.pow : simpl never.

Definition byte := N.
Definition key := list N.
Definition kv := (key * N)%type.
Definition kmap := list kv.

Definition is_byte (b : N) : bool := b <? 256.
Definition is_u64 (n : N) : bool := n <? 18446744073709551616.
Definition U64MAX : N := 18446744073709551615.

(* ---------- outcomes: panics and errors are values ---------- *)
Inductive ioerr :=
| IoOther | IoBrokenPipe | IoWriteZero | IoInterrupted | IoKind (k : N).

Inductive err :=
| EDuplicateKey (got : key)
| EOutOfOrder (prev got : key)
| EIo (k : ioerr)
| EFormat (size : N)
| EVersion (expected got : N)
| EChecksumMismatch (expected got : N)
| EChecksumMissing
| ETooManyStates (limit : N).

Inductive res (A : Type) :=
| Ok (a : A)
| Err (e : err)
| Panic.
Arguments Ok {A} a.
Arguments Err {A} e.
Arguments Panic {A}.

Definition bind {A B} (r : res A) (f : A -> res B) : res B :=
  match r with Ok a => f a | Err e => Err e | Panic => Panic end.
Notation "'do' x <- r ; k" := (bind r (fun x => k))
  (at level 200, x pattern, r at level 100, k at level 200, right associativity).

(* ---------- lexicographic order on byte strings ---------- *)
Fixpoint lex_cmp (a b : key) : comparison :=
  match a, b with
  | [], [] => Eq
  | [], _ :: _ => Lt
  | _ :: _, [] => Gt
  | x :: a', y :: b' =>
    match N.compare x y with
    | Eq => lex_cmp a' b'
    | c => c
    end
  end.
Definition key_ltb a b := match lex_cmp a b with Lt => true | _ => false end.
Definition key_leb a b := match lex_cmp a b with Gt => false | _ => true end.
Definition key_eqb a b := match lex_cmp a b with Eq => true | _ => false end.

Fixpoint list_eqb {A} (e : A -> A -> bool) (a b : list A) : bool :=
  match a, b with
  | [], [] => true
  | x :: a', y :: b' => e x y && list_eqb e a' b'
  | _, _ => false
  end.

Fixpoint sorted_strict (l : list key) : bool :=
  match l with
  | [] => true
  | a :: r => match r with [] => true | b :: _ => key_ltb a b && sorted_strict r end
  end.
Definition keys_of (m : kmap) : list key := map fst m.
Definition kmap_ok (m : kmap) : bool := sorted_strict (keys_of m).

Fixpoint lookup (m : kmap) (k : key) : option N :=
  match m with
  | [] => None
  | (k', v) :: r => if key_eqb k k' then Some v else lookup r k
  end.

(* ---------- small list helpers used by several models ---------- *)
Definition nth_opt {A} (l : list A) (i : N) : option A := nth_error l (N.to_nat i).
Definition len {A} (l : list A) : N := N.of_nat (length l).
Fixpoint repeatN {A} (x : A) (n : nat) : list A := match n with O => [] | S m => x :: repeatN x m end.
Fixpoint set_nth {A} (l : list A) (i : nat) (x : A) : list A :=
  match l, i with
  | [], _ => []
  | _ :: r, O => x :: r
  | y :: r, S j => y :: set_nth r j x
  end.
Fixpoint last_opt {A} (l : list A) : option A :=
  match l with [] => None | [x] => Some x | _ :: r => last_opt r end.
Fixpoint find_index {A} (p : A -> bool) (l : list A) : option nat :=
  match l with
  | [] => None
  | x :: r => if p x then Some O else option_map S (find_index p r)
  end.

(* ---------- basic facts about lex_cmp ---------- *)
Lemma lex_cmp_refl a : lex_cmp a a = Eq.
Proof. induction a as [|x a IH]; cbn; [reflexivity|]. now rewrite N.compare_refl. Qed.

Lemma lex_cmp_eq a b : lex_cmp a b = Eq <-> a = b.
Proof.
  revert b; induction a as [|x a IH]; intros [|y b]; cbn; try (split; congruence).
  destruct (N.compare_spec x y) as [E|L|G].
  - subst. rewrite IH. split; congruence.
  - split; [discriminate|]. intros H; inversion H; lia.
  - split; [discriminate|]. intros H; inversion H; lia.
Qed.

Lemma lex_cmp_antisym a b : lex_cmp b a = CompOpp (lex_cmp a b).
Proof.
  revert b; induction a as [|x a IH]; intros [|y b]; cbn; try reflexivity.
  rewrite (N.compare_antisym x y). destruct (N.compare x y); cbn; auto.
Qed.

Lemma lex_cmp_trans_lt a b c : lex_cmp a b = Lt -> lex_cmp b c = Lt -> lex_cmp a c = Lt.
Proof.
  revert b c; induction a as [|x a IH]; intros [|y b] [|z c]; cbn; try congruence.
  destruct (N.compare_spec x y) as [E|L|G]; try discriminate.
  - subst. destruct (N.compare_spec y z); try discriminate; auto. intros; eapply IH; eauto.
  - intros _. destruct (N.compare_spec y z) as [E|L2|G2]; try discriminate.
    + subst. intros _. apply N.compare_lt_iff in L. now rewrite L.
    + intros _. assert (x < z) by lia. apply N.compare_lt_iff in H. now rewrite H.
Qed.

Lemma key_eqb_eq a b : key_eqb a b = true <-> a = b.
Proof. unfold key_eqb. rewrite <- lex_cmp_eq. destruct (lex_cmp a b); split; congruence. Qed.
Lemma key_eqb_refl a : key_eqb a a = true.
Proof. now apply key_eqb_eq. Qed.
