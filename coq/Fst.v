(* Fst.v — glue: byte strings as indexable data, header/footer fields, and the API-level
   entry points (build, open, get, range, search, get_key) used by the correspondence. *)
Require Import FstV.Base FstV.Pack FstV.Node FstV.Registry FstV.Builder FstV.Reader FstV.Automaton.
Require Import FstV.Generated.SrcParams.
Require Import Coq.FSets.FMapPositive.

(* indexable view of a byte list (a balanced map: O(log n) access in the extracted code) *)
Fixpoint data_fill (l : list N) (i : N) (m : PositiveMap.t N) : PositiveMap.t N :=
  match l with
  | [] => m
  | b :: r => data_fill r (i + 1) (PositiveMap.add (N.succ_pos i) b m)
  end.
Definition data_of (l : list N) : PositiveMap.t N := data_fill l 0 (PositiveMap.empty N).
Definition data_get (m : PositiveMap.t N) (i : N) : option N := PositiveMap.find (N.succ_pos i) m.
(* the same view straight from the list (used in proofs) *)
Definition list_get (l : list N) (i : N) : option N := nth_error l (N.to_nat i).

(* header / footer fields of an opened file; the error paths of Fst::new are modelled in Open.v *)
Record fmeta := mkMeta { m_version : N; m_ty : N; m_root : N; m_len : N }.
Definition slice (l : list N) (from n : nat) : list N := firstn n (skipn from l).
Definition read_meta (bs : list N) : fmeta :=
  let n := length bs in
  let version := le_value (slice bs 0 8) in
  let e := if version <=? 2 then n else (n - 4)%nat in
  mkMeta version (le_value (slice bs 8 8)) (le_value (slice bs (e - 8) 8)) (le_value (slice bs (e - 16) 8)).

Definition view_of (bs : list N) : (N -> res nview) * N :=
  let m := read_meta bs in
  let d := data_of bs in
  (concrete_node_at (data_get d) (m_version m), m_root m).

Definition api_get (bs : list N) (k : key) : res (option N) := let '(na, r) := view_of bs in fst_get na r k.
Definition api_contains (bs : list N) (k : key) : res bool := let '(na, r) := view_of bs in fst_contains na r k.
Definition api_get_key (bs : list N) (v : N) : res (option key) := let '(na, r) := view_of bs in get_key na r v.
Definition api_range (bs : list N) (cs : list bcall) : res (list (key * N)) := let '(na, r) := view_of bs in range na r cs.
Definition api_search (bs : list N) (A : automaton) (cs : list bcall) : res (list (key * N)) :=
  let '(na, r) := view_of bs in search na r A cs.
Definition api_search_with_state (bs : list N) (A : automaton) (cs : list bcall) : res (list (key * N * St A)) :=
  let '(na, r) := view_of bs in search_with_state na r A cs.
Definition api_stream (bs : list N) : res (list (key * N)) := api_range bs [].
Definition api_len (bs : list N) : N := m_len (read_meta bs).

(* ---------- specification side: what a sequence of builder calls must produce ---------- *)
(* accepted calls (C06): map insert iff strictly greater than the last accepted key, add iff >= *)
Definition spec_call (last : option key) (o : op) : option key * res unit :=
  let '(k, dup) := match o with OpInsert k _ => (k, true) | OpAdd k => (k, false) end in
  match last with
  | None => (Some k, Ok tt)
  | Some l =>
    if dup && key_eqb k l then (last, Err (EDuplicateKey k))
    else if key_ltb k l then (last, Err (EOutOfOrder l k))
    else (Some k, Ok tt)
  end.
Fixpoint spec_calls (last : option key) (ops : list op) : list (res unit) :=
  match ops with
  | [] => []
  | o :: r => let '(l', x) := spec_call last o in x :: spec_calls l' r
  end.
(* content after the accepted calls: repeated `add` of the same key is a no-op *)
Fixpoint spec_content (last : option key) (ops : list op) (acc : kmap) : kmap :=
  match ops with
  | [] => rev acc
  | o :: r =>
    let '(l', x) := spec_call last o in
    match x with
    | Ok _ =>
      let kv := match o with OpInsert k v => (k, v) | OpAdd k => (k, 0) end in
      let repeat_ := match last with Some l => key_eqb (fst kv) l | None => false end in
      spec_content l' r (if repeat_ then acc else kv :: acc)
    | _ => spec_content l' r acc
    end
  end.
(* extend / from_iter: the prefix before the first rejected item *)
Fixpoint accepted_prefix (last : option key) (ops : list op) : list op * res unit :=
  match ops with
  | [] => ([], Ok tt)
  | o :: r =>
    let '(l', x) := spec_call last o in
    match x with
    | Ok _ => let '(p, y) := accepted_prefix l' r in (o :: p, y)
    | _ => ([], x)
    end
  end.

(* the last accepted key after a sequence of calls: only accepted items advance it *)
Fixpoint spec_last (last : option key) (ops : list op) : option key :=
  match ops with
  | [] => last
  | o :: r => spec_last (fst (spec_call last o)) r
  end.
(* several extend batches on one builder (C06): per batch the accepted prefix, judged from the
   last accepted key so far, and that batch's result; the items after a rejected one are skipped,
   the next batch is judged from the last ACCEPTED key.  Result: the accepted items overall, one
   result per batch, the last accepted key. *)
Fixpoint spec_batches (last : option key) (batches : list (list op)) : list op * list (res unit) * option key :=
  match batches with
  | [] => ([], [], last)
  | ops :: r =>
    let '(p, x) := accepted_prefix last ops in
    let '(acc, xs, l') := spec_batches (spec_last last p) r in
    (p ++ acc, x :: xs, l')
  end.

(* range / search / get_key on the abstract map *)
Definition in_bounds (mn mx : bound) (k : key) : bool :=
  (match mn with Included v => key_leb v k | Excluded v => key_ltb v k | Unbounded => true end) &&
  negb (exceeded_by mx k).
Definition spec_range (m : kmap) (cs : list bcall) : kmap :=
  let '(mn, mx) := bounds_of cs in filter (fun kv => in_bounds mn mx (fst kv)) m.
Definition spec_search (m : kmap) (A : automaton) (cs : list bcall) : list (key * N * St A) :=
  let '(mn, mx) := bounds_of cs in
  flat_map (fun kv => let s := run A (start A) (fst kv) in
                      if in_bounds mn mx (fst kv) && is_match A s then [(fst kv, snd kv, s)] else []) m.
Fixpoint spec_get_key (m : kmap) (v : N) : option key :=
  match m with
  | [] => None
  | (k, v') :: r => if v' =? v then Some k else spec_get_key r v
  end.

(* what Fst::new must answer for a header-only probe of the given length and version field
   (C10): 1 = Version error, 2 = Format error, 3 = Version or Format (the text of the property
   leaves inputs shorter than 32 bytes with an unsupported version open), 4 = long enough for its
   version: whether it opens depends on the content (well-formed files are the `old` cases) *)
Definition spec_open_class (length version : N) : N :=
  let bad_version := (version =? 0) || (3 <? version) in
  if length <? 8 then 2
  else if length <? 32 then (if bad_version then 3 else 2)
  else if bad_version then 1
  else if (3 <=? version) && (length <? 36) then 2
  else 4.
