(* Levenshtein.v — model of src/automaton/levenshtein.rs and the specification it is
   checked against (C17).  No proofs here; see proofs/LevProofs.v.

   Conventions.  A query / key is a list of Unicode scalar values ([N]); bytes are [N];
   entries of a DP row, DFA state indices, lengths are [nat] (they are bounded by the
   number of states / characters actually allocated, far below usize::MAX; `dist + 1`
   cannot wrap because `dist` comes from a u32).
   Indexing that would panic in Rust (`state[i]`, `states[si]`, `next[b]`) is totalised
   with a default; LevProofs shows that every index used is in range (row_length,
   build_wf), so no theorem is true because of a default value.

   The crate `utf8-ranges` is modelled, not verified: only the two shapes of
   `Utf8Sequences::new` that levenshtein.rs uses are given, as data (utf8_sequences);
   the harness re-checks both against the real crate on every run. *)
Require Import FstV.Base FstV.Loop FstV.Automaton.
Open Scope N_scope.

(* ================= SPECIFICATION ================= *)

(* edit distance (insert / delete / substitute, unit costs) on lists of scalar values *)
Fixpoint lev (q w : list N) : nat :=
  match q with
  | [] => length w
  | a :: q' =>
    (fix lev_q (w : list N) : nat :=
       match w with
       | [] => length q
       | b :: w' =>
         Nat.min (Nat.min (lev q' w + 1) (lev_q w' + 1))
                 (lev q' w' + (if N.eqb a b then 0 else 1))
       end) w
  end.

(* Unicode scalar values and their UTF-8 encoding *)
Definition is_scalar (c : N) : bool := (c <? 0xD800) || ((0xDFFF <? c) && (c <? 0x110000)).

Definition utf8_encode (c : N) : list N :=
  if c <? 0x80 then [c]
  else if c <? 0x800 then [0xC0 + c / 64; 0x80 + c mod 64]
  else if c <? 0x10000 then [0xE0 + c / 4096; 0x80 + (c / 64) mod 64; 0x80 + c mod 64]
  else [0xF0 + c / 262144; 0x80 + (c / 4096) mod 64; 0x80 + (c / 64) mod 64; 0x80 + c mod 64].

Definition utf8_bytes (k : list N) : list N := flat_map utf8_encode k.

(* decoder (used by the driver to read keys; strictness comes from utf8_valid) *)
Fixpoint utf8_decode (bs : list N) : option (list N) :=
  match bs with
  | [] => Some []
  | b0 :: r =>
    if b0 <? 0x80 then option_map (cons b0) (utf8_decode r)
    else if b0 <? 0xC0 then None
    else if b0 <? 0xE0 then
      match r with
      | b1 :: r1 => option_map (cons ((b0 - 0xC0) * 64 + (b1 - 0x80))) (utf8_decode r1)
      | _ => None
      end
    else if b0 <? 0xF0 then
      match r with
      | b1 :: b2 :: r2 =>
        option_map (cons ((b0 - 0xE0) * 4096 + (b1 - 0x80) * 64 + (b2 - 0x80))) (utf8_decode r2)
      | _ => None
      end
    else
      match r with
      | b1 :: b2 :: b3 :: r3 =>
        option_map (cons ((b0 - 0xF0) * 262144 + (b1 - 0x80) * 4096 + (b2 - 0x80) * 64 + (b3 - 0x80)))
                   (utf8_decode r3)
      | _ => None
      end
  end.

(* a byte string is valid UTF-8 iff it is the encoding of a list of scalar values *)
Definition utf8_valid (bs : list N) : bool :=
  match utf8_decode bs with
  | Some k => forallb is_scalar k && list_eqb N.eqb (utf8_bytes k) bs
  | None => false
  end.

(* ================= MODEL ================= *)

(* ---- utf8-ranges (modelled, not verified) ---- *)
Definition utf8_seq := list (N * N).          (* Utf8Sequence: 1..4 inclusive byte ranges *)

Definition utf8_sequences_all : list utf8_seq :=
  [ [(0x00, 0x7F)];
    [(0xC2, 0xDF); (0x80, 0xBF)];
    [(0xE0, 0xE0); (0xA0, 0xBF); (0x80, 0xBF)];
    [(0xE1, 0xEC); (0x80, 0xBF); (0x80, 0xBF)];
    [(0xED, 0xED); (0x80, 0x9F); (0x80, 0xBF)];
    [(0xEE, 0xEF); (0x80, 0xBF); (0x80, 0xBF)];
    [(0xF0, 0xF0); (0x90, 0xBF); (0x80, 0xBF); (0x80, 0xBF)];
    [(0xF1, 0xF3); (0x80, 0xBF); (0x80, 0xBF); (0x80, 0xBF)];
    [(0xF4, 0xF4); (0x80, 0x8F); (0x80, 0xBF); (0x80, 0xBF)] ].

(* Utf8Sequences::new(lo, hi).collect(): the two shapes levenshtein.rs asks for *)
Definition utf8_sequences (lo hi : N) : list utf8_seq :=
  if N.eqb lo hi then [map (fun b => (b, b)) (utf8_encode lo)]
  else if N.eqb lo 0 && N.eqb hi 0x10FFFF then utf8_sequences_all
  else [].                                    (* not modelled: never requested *)

(* ---- DynamicLevenshtein ---- *)
Record dynlev := { dl_query : list N; dl_dist : nat }.
Definition row := list nat.

(* (0..query.chars().count() + 1).collect() *)
Definition dl_start (L : dynlev) : row := seq 0 (length (dl_query L) + 1).

(* state.last().map(|&n| n <= dist).unwrap_or(false) *)
Definition dl_is_match (L : dynlev) (s : row) : bool :=
  match last_opt s with Some n => n <=? dl_dist L | None => false end%nat.

(* state.iter().min().map(|&n| n <= dist).unwrap_or(false) *)
Definition row_min (s : row) : option nat :=
  match s with [] => None | x :: r => Some (fold_left Nat.min r x) end.
Definition dl_can_match (L : dynlev) (s : row) : bool :=
  match row_min s with Some n => n <=? dl_dist L | None => false end%nat.

Definition chr_eqb (c : N) (chr : option N) : bool :=
  match chr with Some x => N.eqb c x | None => false end.

(* the body of `for (i, c) in query.chars().enumerate()`; [prev] is next[i],
   [st] is state[i..] *)
Fixpoint dl_accept_go (dist : nat) (chr : option N) (q : list N) (prev : nat) (st : row) : row :=
  match q, st with
  | c :: q', si :: ((si1 :: _) as st') =>
    let cost := if chr_eqb c chr then 0 else 1 in
    let v := Nat.min (Nat.min (prev + 1) (si1 + 1)) (si + cost) in
    let v' := Nat.min v (dist + 1) in
    v' :: dl_accept_go dist chr q' v' st'
  | _, _ => []
  end%nat.

Definition dl_accept (L : dynlev) (st : row) (chr : option N) : row :=
  match st with
  | [] => []
  | s0 :: _ => (s0 + 1)%nat :: dl_accept_go (dl_dist L) chr (dl_query L) (s0 + 1)%nat st
  end.

(* ---- Dfa ---- *)
Record state := { st_next : list (option nat); st_match : bool }.
Definition dfa := list state.
Definition empty_next : list (option nat) := repeatN None 256.
Definition new_st (m : bool) : state := {| st_next := empty_next; st_match := m |}.

(* states[i].next[b] *)
Definition get_next (d : dfa) (i b : nat) : option nat :=
  match nth_error d i with Some s => nth b (st_next s) None | None => None end.

(* ---- DfaBuilder ---- *)
Record builder := { b_dfa : dfa; b_cache : list (row * nat) }.
Definition with_dfa (B : builder) (d : dfa) : builder := {| b_dfa := d; b_cache := b_cache B |}.

Definition row_eqb (a b : row) : bool := list_eqb Nat.eqb a b.
Fixpoint cache_get (k : row) (c : list (row * nat)) : option nat :=
  match c with
  | [] => None
  | (k', v) :: r => if row_eqb k k' then Some v else cache_get k r
  end.

(* fn cached: None if the row cannot match; otherwise (index, was already present) *)
Definition cached (L : dynlev) (B : builder) (s : row) : builder * option (nat * bool) :=
  if negb (dl_can_match L s) then (B, None)
  else match cache_get s (b_cache B) with
       | Some i => (B, Some (i, true))
       | None =>
         let i := length (b_dfa B) in
         ({| b_dfa := b_dfa B ++ [new_st (dl_is_match L s)]; b_cache := (s, i) :: b_cache B |},
          Some (i, false))
       end.

Definition cached_state (L : dynlev) (B : builder) (s : row) : builder * option nat :=
  let (B', r) := cached L B s in (B', option_map fst r).

(* fn new_state *)
Definition new_state (d : dfa) (m : bool) : dfa * nat := (d ++ [new_st m], length d).

(* for b in start..end+1 { if overwrite || next[b].is_none() { next[b] = Some(to) } }
   as one pass over the table: [skip] entries untouched, then [cnt] entries filled *)
Fixpoint tbl_fill (ow : bool) (to : nat) (skip cnt : nat) (t : list (option nat)) : list (option nat) :=
  match t with
  | [] => []
  | e :: r =>
    match skip with
    | S k => e :: tbl_fill ow to k cnt r
    | O => match cnt with
           | O => t
           | S c => (if ow then Some to else match e with None => Some to | Some _ => e end)
                      :: tbl_fill ow to O c r
           end
    end
  end.

Definition add_utf8_range (ow : bool) (d : dfa) (from to : nat) (r : N * N) : dfa :=
  match nth_error d from with
  | Some s =>
    set_nth d from {| st_next := tbl_fill ow to (N.to_nat (fst r)) (N.to_nat (snd r + 1 - fst r)) (st_next s);
                      st_match := st_match s |}
  | None => d
  end.

(* states[tsi].next = states[old].next *)
Definition copy_next (d : dfa) (tsi old : nat) : dfa :=
  match nth_error d tsi, nth_error d old with
  | Some t, Some o => set_nth d tsi {| st_next := st_next o; st_match := st_match t |}
  | _, _ => d
  end.

(* one iteration of `for seq in Utf8Sequences::new(..)`; [fsi] is the running from-state *)
Fixpoint add_utf8_seq (ow : bool) (d : dfa) (fsi to_si : nat) (rs : utf8_seq) : dfa :=
  match rs with
  | [] => d                                   (* utf8-ranges never yields an empty sequence *)
  | [r] => add_utf8_range ow d fsi to_si r
  | r :: rest =>
    let (d1, tsi) := new_state d false in
    let d2 := if ow then
                match get_next d1 fsi (N.to_nat (fst r)) with
                | Some old => copy_next d1 tsi old
                | None => d1
                end
              else d1 in
    let d3 := add_utf8_range ow d2 fsi tsi r in
    add_utf8_seq ow d3 tsi to_si rest
  end.

Definition add_utf8_sequences (ow : bool) (d : dfa) (from_si to_si : nat) (from_chr to_chr : N) : dfa :=
  fold_left (fun d seq => add_utf8_seq ow d from_si to_si seq) (utf8_sequences from_chr to_chr) d.

Definition add_mismatch_utf8_states (L : dynlev) (B : builder) (from_si : nat) (lev_state : row)
  : builder * option (nat * row) :=
  let mismatch_state := dl_accept L lev_state None in
  match cached L B mismatch_state with
  | (B1, None) => (B1, None)
  | (B1, Some (to_si, _)) =>
    (with_dfa B1 (add_utf8_sequences false (b_dfa B1) from_si to_si 0 0x10FFFF),
     Some (to_si, mismatch_state))
  end.

(* if !seen.contains(&si) { seen.insert(si); stack.push(r) } *)
Definition push_unseen (si : nat) (r : row) (stack : list row) (seen : list nat)
  : list row * list nat :=
  if existsb (Nat.eqb si) seen then (stack, seen) else (r :: stack, si :: seen).

(* for (i, c) in query.chars().enumerate() { ... } *)
Fixpoint chars_loop (L : dynlev) (dfa_si : nat) (lev_state : row) (i : nat) (cs : list N)
         (B : builder) (stack : list row) (seen : list nat) : builder * list row * list nat :=
  match cs with
  | [] => (B, stack, seen)
  | c :: cs' =>
    if (dl_dist L <? nth i lev_state 0)%nat
    then chars_loop L dfa_si lev_state (S i) cs' B stack seen
    else
      let lev_next := dl_accept L lev_state (Some c) in
      match cached_state L B lev_next with
      | (B1, Some next_si) =>
        let B2 := with_dfa B1 (add_utf8_sequences true (b_dfa B1) dfa_si next_si c c) in
        let (stack1, seen1) := push_unseen next_si lev_next stack seen in
        chars_loop L dfa_si lev_state (S i) cs' B2 stack1 seen1
      | (B1, None) => chars_loop L dfa_si lev_state (S i) cs' B1 stack seen
      end
  end.

(* the work stack: head = top (Vec::push / Vec::pop) *)
Record bstate := { bs_b : builder; bs_stack : list row; bs_seen : list nat }.

(* one iteration of `while let Some(lev_state) = stack.pop()` *)
Definition build_step (L : dynlev) (limit : N) (S0 : bstate) : bstate + res dfa :=
  match bs_stack S0 with
  | [] => inr (Ok (b_dfa (bs_b S0)))
  | lev_state :: stack0 =>
    match cached_state L (bs_b S0) lev_state with
    | (_, None) => inr Panic                                   (* .unwrap() *)
    | (B1, Some dfa_si) =>
      let (B2, mismatch) := add_mismatch_utf8_states L B1 dfa_si lev_state in
      let (stack1, seen1) :=
          match mismatch with
          | Some (next_si, lev_next) => push_unseen next_si lev_next stack0 (bs_seen S0)
          | None => (stack0, bs_seen S0)
          end in
      let '(B3, stack2, seen2) :=
          chars_loop L dfa_si lev_state 0 (dl_query L) B2 stack1 seen1 in
      if limit <? N.of_nat (length (b_dfa B3))
      then inr (Err (ETooManyStates limit))
      else inl {| bs_b := B3; bs_stack := stack2; bs_seen := seen2 |}
    end
  end.

Definition build_init (L : dynlev) : bstate :=
  {| bs_b := {| b_dfa := []; b_cache := [] |}; bs_stack := [dl_start L]; bs_seen := [] |}.

(* fuel: 2^64 iterations.  Every iteration pops a row that is in the cache and was never
   popped before, so there are at most states.len() + 1 <= usize::MAX iterations
   (LevProofs: build_iterations_bound).  [None] = fuel exhausted (model artefact). *)
Definition build_fuel : positive := 18446744073709551616.

Definition build_with_limit (L : dynlev) (limit : N) : option (res dfa) :=
  match loop (build_step L limit) build_fuel (build_init L) with
  | inr r => Some r
  | inl _ => None
  end.

Definition DEFAULT_STATE_LIMIT : N := 10000.
Definition build (L : dynlev) : option (res dfa) := build_with_limit L DEFAULT_STATE_LIMIT.

(* ---- Levenshtein: the public automaton ---- *)
Definition lev_aut (d : dfa) : automaton := {|
  St := option nat;
  start := Some O;
  is_match := fun s => match s with
                       | Some i => match nth_error d i with Some st => st_match st | None => false end
                       | None => false end;
  can_match := fun s => match s with Some _ => true | None => false end;
  will_always_match := fun _ => false;
  accept := fun s b => match s with Some i => get_next d i (N.to_nat b) | None => None end;
  accept_eof := fun _ => None |}.

(* Levenshtein::new_with_limit(query, distance, state_limit) *)
Definition lev_new_with_limit (q : list N) (dist : nat) (limit : N) : option (res dfa) :=
  build_with_limit {| dl_query := q; dl_dist := dist |} limit.
Definition lev_new (q : list N) (dist : nat) : option (res dfa) :=
  build {| dl_query := q; dl_dist := dist |}.

(* observation for the correspondence: DFA state after each byte *)
Fixpoint lev_trace (d : dfa) (s : option nat) (w : list N) : list (option nat) :=
  match w with
  | [] => []
  | b :: w' => let s' := accept (lev_aut d) s b in s' :: lev_trace d s' w'
  end.

(* Set/Map::search(lev): the keys (valid UTF-8) of a set that the query must return *)
Definition spec_match (q : list N) (dist : nat) (k : list N) : bool := (lev q k <=? dist)%nat.
