(* Reader.v — model of the read side of src/raw/mod.rs: get, contains_key, get_key_into,
   StreamBuilder bounds, seek_min and next_with, written against a node-access
   interface [node_at]; the concrete instance decodes nodes with Node.node_new. *)
Require Import FstV.Base FstV.Loop FstV.Node FstV.Automaton.

Record nview := mkView {
  nv_addr : N;
  nv_final : bool;
  nv_fout : N;
  nv_trans : list trans;                 (* transition(i) for i in 0..len, in order *)
  nv_find : N -> res (option N)          (* find_input *)
}.

Definition concrete_node_at (get : N -> option N) (version : N) (a : N) : res nview :=
  do nd <- node_new get version a;
  do ts <- transitions get nd;
  Ok (mkView (nd_start nd) (nd_final nd) (nd_fout nd) ts (find_input get nd)).

Inductive bound := Included (k : key) | Excluded (k : key) | Unbounded.
Definition exceeded_by (b : bound) (inp : key) : bool :=
  match b with
  | Included v => key_ltb v inp
  | Excluded v => key_leb v inp
  | Unbounded => false
  end.
Definition bound_is_empty (b : bound) : bool :=
  match b with Included v | Excluded v => match v with [] => true | _ => false end | Unbounded => true end.
Definition bound_is_inclusive (b : bound) : bool := match b with Excluded _ => false | _ => true end.

(* the four builder calls; the last ge/gt and the last le/lt win *)
Inductive bcall := BGe (k : key) | BGt (k : key) | BLe (k : key) | BLt (k : key).
Definition apply_bcall (mm : bound * bound) (c : bcall) : bound * bound :=
  match c with
  | BGe k => (Included k, snd mm)
  | BGt k => (Excluded k, snd mm)
  | BLe k => (fst mm, Included k)
  | BLt k => (fst mm, Excluded k)
  end.
Definition bounds_of (cs : list bcall) : bound * bound := fold_left apply_bcall cs (Unbounded, Unbounded).

(* 2^64 iterations: more than any loop below can need on a file that fits in memory *)
Definition FUEL : positive := 18446744073709551616%positive.

Section Reader.
Variable node_at : N -> res nview.
Variable root_addr : N.

Definition root : res nview := node_at root_addr.

(* ---------- point lookups ---------- *)
Fixpoint get_from (nd : nview) (k : key) (out : N) : res (option N) :=
  match k with
  | [] => Ok (if nv_final nd then Some (out + nv_fout nd) else None)
  | b :: k' =>
    do fi <- nv_find nd b;
    match fi with
    | None => Ok None
    | Some i =>
      match nth_error (nv_trans nd) (N.to_nat i) with
      | None => Panic
      | Some t => do nd' <- node_at (t_addr t); get_from nd' k' (out + t_out t)
      end
    end
  end.
Definition fst_get (k : key) : res (option N) := do r <- root; get_from r k 0.

Fixpoint contains_from (nd : nview) (k : key) : res bool :=
  match k with
  | [] => Ok (nv_final nd)
  | b :: k' =>
    do fi <- nv_find nd b;
    match fi with
    | None => Ok false
    | Some i =>
      match nth_error (nv_trans nd) (N.to_nat i) with
      | None => Panic
      | Some t => do nd' <- node_at (t_addr t); contains_from nd' k'
      end
    end
  end.
Definition fst_contains (k : key) : res bool := do r <- root; contains_from r k.

(* ---------- get_key_into ---------- *)
(* `.take_while(|t| t.out <= value).last()` *)
Fixpoint last_le (ts : list trans) (value : N) (acc : option trans) : option trans :=
  match ts with
  | [] => acc
  | t :: r => if t_out t <=? value then last_le r value (Some t) else acc
  end.

Definition gk_step (st : nview * N * list N) : (nview * N * list N) + res (bool * list N) :=
  let '(nd, value, keyrev) := st in
  if nv_final nd && (value =? nv_fout nd) then inr (Ok (true, rev keyrev)) else
  match last_le (nv_trans nd) value None with
  | None => inr (Ok (false, rev keyrev))
  | Some t =>
    match node_at (t_addr t) with
    | Ok nd' => inl (nd', value - t_out t, t_inp t :: keyrev)
    | Err e => inr (Err e)
    | Panic => inr Panic
    end
  end.
(* returns (found, bytes appended to the caller's buffer) *)
Definition get_key_into (value : N) : res (bool * list N) :=
  do r <- root;
  match loop gk_step FUEL (r, value, []) with
  | inr x => x
  | inl _ => Panic       (* out of fuel: excluded by the theorems *)
  end.
Definition get_key (value : N) : res (option (list N)) :=
  do x <- get_key_into value; Ok (if fst x then Some (snd x) else None).

(* ---------- streams ---------- *)
Variable A : automaton.

Record frame := mkFrame { f_node : nview; f_trans : N; f_out : N; f_aut : St A }.
Record stream := mkStream {
  s_inp : list N;                     (* reversed: head = last byte pushed *)
  s_empty_output : option N;
  s_stack : list frame;               (* top first *)
  s_end_at : bound
}.

Definition empty_final_output : res (option N) :=
  do r <- root; Ok (if nv_final r then Some (nv_fout r) else None).

(* position(|t| t.inp > b).unwrap_or(len) *)
Fixpoint first_gt (ts : list trans) (b : N) (i : N) : N :=
  match ts with
  | [] => i
  | t :: r => if b <? t_inp t then i else first_gt r b (i + 1)
  end.

(* the `for &b in key` loop of seek_min; returns (inp_rev, stack top-first, finished?, node, out, aut) *)
Fixpoint seek_loop (k : key) (nd : nview) (out : N) (aut : St A) (inp : list N) (stack : list frame)
  : res (list N * list frame * bool * nview * N * St A) :=
  match k with
  | [] => Ok (inp, stack, false, nd, out, aut)
  | b :: k' =>
    do fi <- nv_find nd b;
    match fi with
    | Some i =>
      match nth_error (nv_trans nd) (N.to_nat i) with
      | None => Panic
      | Some t =>
        let prev := aut in
        let aut' := accept A prev b in
        do nd' <- node_at (t_addr t);
        seek_loop k' nd' (out + t_out t) aut' (b :: inp) (mkFrame nd (i + 1) out prev :: stack)
      end
    | None =>
      Ok (inp, mkFrame nd (first_gt (nv_trans nd) b 0) out aut :: stack, true, nd, out, aut)
    end
  end.

Definition seek_min (min max : bound) : res stream :=
  if bound_is_empty min then
    do eo <- (if bound_is_inclusive min then empty_final_output else Ok None);
    do r <- root;
    Ok (mkStream [] eo [mkFrame r 0 0 (start A)] max)
  else
    let '(k, inclusive) := match min with
                           | Excluded k => (k, false) | Included k => (k, true) | Unbounded => ([], true) end in
    do r <- root;
    do x <- seek_loop k r 0 (start A) [] [];
    let '(inp, stack, early, nd, out, aut) := x in
    if early then Ok (mkStream inp None stack max) else
    match stack with
    | [] => Ok (mkStream inp None stack max)
    | top :: rest =>
      if inclusive then
        (* `self.stack[last].trans -= 1` (usize underflow would panic); `self.inp.pop()` *)
        if f_trans top =? 0 then Panic else
        Ok (mkStream (tl inp) None (mkFrame (f_node top) (f_trans top - 1) (f_out top) (f_aut top) :: rest) max)
      else
        if f_trans top =? 0 then Panic else
        match nth_error (nv_trans (f_node top)) (N.to_nat (f_trans top - 1)) with
        | None => Panic
        | Some t =>
          do nd' <- node_at (t_addr t);
          Ok (mkStream inp None (mkFrame nd' 0 out aut :: stack) max)
        end
    end.

Definition item := (key * N * St A)%type.

(* one iteration of `while let Some(state) = self.stack.pop()` *)
Definition next_step (s : stream) : stream + res (stream * option item) :=
  match s_stack s with
  | [] => inr (Ok (s, None))
  | f :: rest =>
    if (len (nv_trans (f_node f)) <=? f_trans f) || negb (can_match A (f_aut f)) then
      if negb (nv_addr (f_node f) =? root_addr) then
        match s_inp s with
        | [] => inr Panic                               (* self.inp.pop().unwrap() *)
        | _ :: inp' => inl (mkStream inp' (s_empty_output s) rest (s_end_at s))
        end
      else inl (mkStream (s_inp s) (s_empty_output s) rest (s_end_at s))
    else
      match nth_error (nv_trans (f_node f)) (N.to_nat (f_trans f)) with
      | None => inr Panic
      | Some t =>
        let out := f_out f + t_out t in
        let next_state := accept A (f_aut f) (t_inp t) in
        match node_at (t_addr t) with
        | Ok next_node =>
          let is_m := if nv_final next_node
                      then match accept_eof A next_state with
                           | Some e => is_match A e
                           | None => is_match A next_state end
                      else is_match A next_state in
          let inp' := t_inp t :: s_inp s in
          let stack' := mkFrame next_node 0 out next_state
                        :: mkFrame (f_node f) (f_trans f + 1) (f_out f) (f_aut f) :: rest in
          if exceeded_by (s_end_at s) (rev inp') then
            inr (Ok (mkStream inp' (s_empty_output s) [] (s_end_at s), None))
          else if nv_final next_node && is_m then
            inr (Ok (mkStream inp' (s_empty_output s) stack' (s_end_at s),
                     Some (rev inp', out + nv_fout next_node, next_state)))
          else inl (mkStream inp' (s_empty_output s) stack' (s_end_at s))
        | Err e => inr (Err e)
        | Panic => inr Panic
        end
      end
  end.

Definition next_with (s : stream) : res (stream * option item) :=
  let run (s : stream) :=
    match loop next_step FUEL s with
    | inr x => x
    | inl _ => Panic
    end in
  match s_empty_output s with
  | Some out =>
    let s0 := mkStream (s_inp s) None (s_stack s) (s_end_at s) in     (* .take() *)
    if exceeded_by (s_end_at s) [] then Ok (mkStream (s_inp s) None [] (s_end_at s), None)
    else if is_match A (start A) then Ok (s0, Some ([], out, start A))
    else run s0
  | None => run s
  end.

(* drain a stream: into_byte_vec and friends *)
Definition collect_step (st : stream * list item) : (stream * list item) + res (list item) :=
  let '(s, acc) := st in
  match next_with s with
  | Ok (s', Some it) => inl (s', it :: acc)
  | Ok (_, None) => inr (Ok (rev acc))
  | Err e => inr (Err e)
  | Panic => inr Panic
  end.
Definition collect (s : stream) : res (list item) :=
  match loop collect_step FUEL (s, []) with
  | inr x => x
  | inl _ => Panic
  end.

Definition search_with_state (cs : list bcall) : res (list item) :=
  let '(mn, mx) := bounds_of cs in
  do s <- seek_min mn mx; collect s.
End Reader.

Definition search (node_at : N -> res nview) (root_addr : N) (A : automaton) (cs : list bcall)
  : res (list (key * N)) :=
  do l <- search_with_state node_at root_addr A cs; Ok (map (fun it => (fst (fst it), snd (fst it))) l).
Definition range (node_at : N -> res nview) (root_addr : N) (cs : list bcall) : res (list (key * N)) :=
  search node_at root_addr always_aut cs.
Definition stream_all (node_at : N -> res nview) (root_addr : N) : res (list (key * N)) :=
  range node_at root_addr [].
