(* Automaton.v — model of src/automaton/mod.rs: the Automaton trait as a record,
   the shipped automata and combinators, a table DFA used by the harness, and an
   expression language so that compositions can be named in test cases. *)
Require Import FstV.Base.

Record automaton := {
  St : Type;
  start : St;
  is_match : St -> bool;
  can_match : St -> bool;
  will_always_match : St -> bool;
  accept : St -> N -> St;
  accept_eof : St -> option St
}.

Definition run (A : automaton) (s : St A) (w : list N) : St A := fold_left (accept A) w s.
Definition accepts (A : automaton) (w : list N) : bool := is_match A (run A (start A) w).

(* --- Str --- state: Option<usize> *)
Definition str_aut (q : list N) : automaton := {|
  St := option nat;
  start := Some O;
  is_match := fun s => match s with Some p => Nat.eqb p (length q) | None => false end;
  can_match := fun s => match s with Some _ => true | None => false end;
  will_always_match := fun _ => false;
  accept := fun s b => match s with
                       | Some p => match nth_error q p with
                                   | Some c => if N.eqb c b then Some (S p) else None
                                   | None => None end
                       | None => None end;
  accept_eof := fun _ => None |}.

(* --- Subsequence --- state: usize. `self.subseq[state]` panics for state > len;
   such a state is unreachable from start (see AutomatonProofs.subseq_state_le). *)
Definition subseq_aut (q : list N) : automaton := {|
  St := nat;
  start := O;
  is_match := fun s => Nat.eqb s (length q);
  can_match := fun _ => true;
  will_always_match := fun s => Nat.eqb s (length q);
  accept := fun s b => if Nat.eqb s (length q) then s else
                       match nth_error q s with
                       | Some c => if N.eqb b c then S s else s
                       | None => s end;
  accept_eof := fun _ => None |}.

(* --- AlwaysMatch --- *)
Definition always_aut : automaton := {|
  St := unit; start := tt;
  is_match := fun _ => true; can_match := fun _ => true; will_always_match := fun _ => true;
  accept := fun _ _ => tt; accept_eof := fun _ => None |}.

(* --- StartsWith --- state: Done | Running(inner); None = Done *)
Definition starts_with_aut (A : automaton) : automaton := {|
  St := option (St A);
  start := let i := start A in if is_match A i then None else Some i;
  is_match := fun s => match s with None => true | Some _ => false end;
  can_match := fun s => match s with None => true | Some i => can_match A i end;
  will_always_match := fun s => match s with None => true | Some _ => false end;
  accept := fun s b => match s with
                       | None => None
                       | Some i => let n := accept A i b in if is_match A n then None else Some n end;
  accept_eof := fun _ => None |}.

Definition union_aut (A B : automaton) : automaton := {|
  St := (St A * St B)%type;
  start := (start A, start B);
  is_match := fun s => is_match A (fst s) || is_match B (snd s);
  can_match := fun s => can_match A (fst s) || can_match B (snd s);
  will_always_match := fun s => will_always_match A (fst s) || will_always_match B (snd s);
  accept := fun s b => (accept A (fst s) b, accept B (snd s) b);
  accept_eof := fun _ => None |}.

Definition inter_aut (A B : automaton) : automaton := {|
  St := (St A * St B)%type;
  start := (start A, start B);
  is_match := fun s => is_match A (fst s) && is_match B (snd s);
  can_match := fun s => can_match A (fst s) && can_match B (snd s);
  will_always_match := fun s => will_always_match A (fst s) && will_always_match B (snd s);
  accept := fun s b => (accept A (fst s) b, accept B (snd s) b);
  accept_eof := fun _ => None |}.

Definition compl_aut (A : automaton) : automaton := {|
  St := St A;
  start := start A;
  is_match := fun s => negb (is_match A s);
  can_match := fun s => negb (will_always_match A s);
  will_always_match := fun s => negb (can_match A s);
  accept := accept A;
  accept_eof := fun _ => None |}.

(* --- table DFA (what the harness implements in Rust as a user automaton) ---
   [t_cls b] maps a byte to a symbol class; [t_next] is indexed state-major:
   next state of (s, c) is nth (s * t_ncls + c); out-of-table = stay at state 0. *)
Record table := {
  t_ncls : nat;
  t_cls : list nat;            (* 256 entries: byte -> class; missing = class 0 *)
  t_next : list nat;
  t_match : list bool;
  t_can : list bool;
  t_will : list bool;
  t_start : nat
}.
Definition table_aut (T : table) : automaton := {|
  St := nat;
  start := t_start T;
  is_match := fun s => nth s (t_match T) false;
  can_match := fun s => nth s (t_can T) true;
  will_always_match := fun s => nth s (t_will T) false;
  accept := fun s b => nth (s * t_ncls T + nth (N.to_nat b) (t_cls T) O) (t_next T) O;
  accept_eof := fun _ => None |}.

(* --- expressions naming compositions --- *)
Inductive aexp :=
| AStr (q : list N)
| ASubseq (q : list N)
| AAlways
| ATable (T : table)
| AStartsWith (a : aexp)
| AUnion (a b : aexp)
| AInter (a b : aexp)
| ACompl (a : aexp).

Fixpoint denote (e : aexp) : automaton :=
  match e with
  | AStr q => str_aut q
  | ASubseq q => subseq_aut q
  | AAlways => always_aut
  | ATable T => table_aut T
  | AStartsWith a => starts_with_aut (denote a)
  | AUnion a b => union_aut (denote a) (denote b)
  | AInter a b => inter_aut (denote a) (denote b)
  | ACompl a => compl_aut (denote a)
  end.

(* ---------- specification: the language each automaton must accept ---------- *)
Fixpoint is_subseq (q w : list N) : bool :=
  match q with
  | [] => true
  | c :: q' => (fix go (w : list N) : bool :=
                  match w with
                  | [] => false
                  | b :: w' => if N.eqb b c then is_subseq q' w' else go w'
                  end) w
  end.

Fixpoint prefixes {A} (w : list A) : list (list A) :=
  match w with [] => [[]] | x :: r => [] :: map (cons x) (prefixes r) end.

Fixpoint sem (e : aexp) (w : list N) : bool :=
  match e with
  | AStr q => list_eqb N.eqb q w
  | ASubseq q => is_subseq q w
  | AAlways => true
  | ATable T => accepts (table_aut T) w
  | AStartsWith a => existsb (sem a) (prefixes w)
  | AUnion a b => sem a w || sem b w
  | AInter a b => sem a w && sem b w
  | ACompl a => negb (sem a w)
  end.

(* hint contract, as Props over all continuations *)
Definition can_match_sound (A : automaton) : Prop :=
  forall s, can_match A s = false -> forall w, is_match A (run A s w) = false.
Definition will_always_sound (A : automaton) : Prop :=
  forall s, will_always_match A s = true -> forall w, is_match A (run A s w) = true.
Definition no_eof_hook (A : automaton) : Prop := forall s, accept_eof A s = None.

(* observation used by the correspondence: after every prefix of w, the three flags *)
Definition flags (A : automaton) (s : St A) : bool * bool * bool :=
  (is_match A s, can_match A s, will_always_match A s).
Fixpoint trace (A : automaton) (s : St A) (w : list N) : list (bool * bool * bool) :=
  flags A s :: match w with [] => [] | b :: w' => trace A (accept A s b) w' end.
Definition trace_exp (e : aexp) (w : list N) := trace (denote e) (start (denote e)) w.
