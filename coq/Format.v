(* Format.v — the on-disk format (versions 1, 2, 3) written down as an independent
   decoder, from the documented layout and NOT from Node::new: a file is read backwards
   from the root node, every field of a node lies below its state byte, so the decoder is
   an ordinary forward parser over the reversed byte string.

   file  = version:u64le  type:u64le  node*  len:u64le  root_addr:u64le  [checksum:u32le (v3)]
   node  = (read downwards from its address, the state byte)
     state 11cccccc  one transition to the node just below, output 0
                     c = index+1 into the common-input table, 0 => explicit input byte follows
     state 10cccccc  one transition: [input byte if c = 0] sizes delta(tsize, big endian when read
                     downwards) output(osize)
     state 0fnnnnnn  f = final; n = number of transitions, 0 => a count byte follows (1 means 256)
                     sizes  [256-byte index if version >= 2 and n > 32]  inputs(n)
                     deltas(n * tsize)  outputs(n * osize)  [final output (osize) if f]
     sizes = tsize << 4 | osize;  delta 0 = the shared empty final node (address 0),
     otherwise target = (address of this node's first byte) - delta. *)
Require Import FstV.Base FstV.Pack FstV.Node FstV.GraphSem.
Require Import Coq.FSets.FMapPositive.

(* pinned constants of the format (never read from the source; ParamsTie.v proves the source agrees) *)
Definition FMT_INDEX_THRESHOLD : N := 32.
Definition FMT_COMMON_INV : list N :=
  [116; 101; 47; 111; 97; 115; 114; 105; 112; 99; 110; 119; 46; 104; 108; 109; 45; 100; 117; 48; 49; 50; 103; 61; 58; 98; 102; 51; 121; 53; 38; 95; 52; 118; 57; 54; 55; 56; 107; 37; 63; 120; 67; 68; 65; 83; 70; 73; 66; 69; 106; 80; 84; 122; 82; 78; 77; 43; 76; 79; 113; 72; 71].
(* only the first 63 entries are reachable through a 6-bit index *)

Record snode := mkSnode { sn_final : bool; sn_fout : N; sn_trans : list trans; sn_size : N }.

(* k bytes, most significant first *)
Fixpoint take_be (k : nat) (l : list N) (acc : N) : option (N * list N) :=
  match k with
  | O => Some (acc, l)
  | S k' => match l with b :: r => take_be k' r (acc * 256 + b) | [] => None end
  end.
Fixpoint take_n {A} (k : nat) (l : list A) : option (list A * list A) :=
  match k with
  | O => Some ([], l)
  | S k' => match l with x :: r => match take_n k' r with Some (a, b) => Some (x :: a, b) | None => None end | [] => None end
  end.
Fixpoint take_nums (n : nat) (k : nat) (l : list N) : option (list N * list N) :=
  match n with
  | O => Some ([], l)
  | S n' => match take_be k l 0 with
            | Some (x, r) => match take_nums n' k r with Some (xs, r') => Some (x :: xs, r') | None => None end
            | None => None end
  end.

Definition common_of (c : N) : option N := nth_error FMT_COMMON_INV (N.to_nat (c - 1)).

(* [rv]: the bytes from the node's address downwards; [addr]: its address.
   Targets are resolved against the node's first byte addr + 1 - size. *)
Definition spec_node (version : N) (rv : list N) (addr : N) : option snode :=
  match rv with
  | [] => None
  | s :: r0 =>
    let resolve (size delta : N) : option N :=
      if delta =? 0 then Some 0
      else let first := addr + 1 - size in if delta <=? first then Some (first - delta) else None in
    if 192 <=? s then
      (* one transition, next *)
      let c := s mod 64 in
      match (if c =? 0 then match r0 with b :: _ => Some (b, 2) | [] => None end
             else match common_of c with Some b => Some (b, 1) | None => None end) with
      | Some (inp, size) =>
        if size <=? addr then Some (mkSnode false 0 [mkTrans inp 0 (addr - size)] size) else None
      | None => None
      end
    else if 128 <=? s then
      let c := s mod 64 in
      match (if c =? 0 then match r0 with b :: r => Some (b, r, 2) | [] => None end
             else match common_of c with Some b => Some (b, r0, 1) | None => None end) with
      | Some (inp, r1, used) =>
        match r1 with
        | sizes :: r2 =>
          let tsize := sizes / 16 in let osize := sizes mod 16 in
          if (tsize =? 0) || (8 <? tsize) || (8 <? osize) then None else
          match take_be (N.to_nat tsize) r2 0 with
          | Some (delta, r3) =>
            match take_be (N.to_nat osize) r3 0 with
            | Some (out, _) =>
              let size := used + 1 + tsize + osize in
              if addr + 1 <? size then None else
              match resolve size delta with
              | Some tgt => Some (mkSnode false 0 [mkTrans inp out tgt] size)
              | None => None end
            | None => None end
          | None => None end
        | [] => None end
      | None => None end
    else
      let final := 64 <=? s in
      let n6 := s mod 64 in
      match (if n6 =? 0 then match r0 with b :: r => Some ((if b =? 1 then 256 else b), r, 2) | [] => None end
             else Some (n6, r0, 1)) with
      | Some (ntrans, r1, used) =>
        match r1 with
        | sizes :: r2 =>
          let tsize := sizes / 16 in let osize := sizes mod 16 in
          if (8 <? tsize) || (8 <? osize) || ((tsize =? 0) && negb (ntrans =? 0)) then None else
          let has_index := (2 <=? version) && (FMT_INDEX_THRESHOLD <? ntrans) in
          match (if has_index then take_n 256 r2 else Some ([], r2)) with
          | Some (index_rev, r3) =>
            match take_n (N.to_nat ntrans) r3 with
            | Some (inputs, r4) =>
              match take_nums (N.to_nat ntrans) (N.to_nat tsize) r4 with
              | Some (deltas, r5) =>
                match take_nums (N.to_nat ntrans) (N.to_nat osize) r5 with
                | Some (outs, r6) =>
                  match (if final then take_be (N.to_nat osize) r6 0 else Some (0, r6)) with
                  | Some (fout, _) =>
                    let size := used + 1 + (if has_index then 256 else 0) + ntrans + ntrans * tsize
                                + ntrans * osize + (if final then osize else 0) in
                    if addr + 1 <? size then None else
                    let tgts := map (resolve size) deltas in
                    if forallb (fun o => match o with Some _ => true | None => false end) tgts then
                      let ts := map (fun x => mkTrans (fst (fst x)) (snd (fst x)) (match snd x with Some a => a | None => 0 end))
                                    (combine (combine inputs outs) tgts) in
                      (* the index, when present, maps each input byte to its transition and every other byte to >= ntrans *)
                      let index := rev index_rev in
                      let index_ok :=
                        negb has_index ||
                        forallb (fun b => let e := nth (N.to_nat b) index 255 in
                                          match find_index (fun i => i =? b) inputs with
                                          | Some i => e =? (N.of_nat i) mod 256
                                          | None => ntrans <=? e end)
                                (map N.of_nat (seq 0 256)) in
                      if index_ok then Some (mkSnode final fout ts size) else None
                    else None
                  | None => None end
                | None => None end
              | None => None end
            | None => None end
          | None => None end
        | [] => None end
      | None => None end
  end.

(* structural validity of one node *)
Fixpoint strictly_increasing (l : list N) : bool :=
  match l with
  | a :: ((b :: _) as r) => (a <? b) && strictly_increasing r
  | _ => true
  end.
Definition snode_ok (first : N) (n : snode) : bool :=
  strictly_increasing (map t_inp (sn_trans n)) &&
  (len (sn_trans n) <=? 256) &&
  forallb (fun t => (t_inp t <? 256) && ((t_addr t =? 0) || ((16 <=? t_addr t) && (t_addr t <? first)))) (sn_trans n).

(* walk the node area downwards from the root: nodes must tile bytes 16 .. root *)
Fixpoint tiles (version : N) (fuel : nat) (rv : list N) (addr : N) (acc : list (N * snode))
  : option (list (N * snode)) :=
  match fuel with
  | O => None
  | S f =>
    if addr =? 15 then Some acc else
    match spec_node version rv addr with
    | Some n =>
      if negb (snode_ok (addr + 1 - sn_size n) n) then None else
      if addr <? 15 + sn_size n then None else
      tiles version f (skipn (N.to_nat (sn_size n)) rv) (addr - sn_size n) ((addr, n) :: acc)
    | None => None
    end
  end.

Definition node_table (l : list (N * snode)) : PositiveMap.t snode :=
  fold_left (fun m x => PositiveMap.add (N.succ_pos (fst x)) (snd x) m) l (PositiveMap.empty snode).
Definition empty_final : snode := mkSnode true 0 [] 0.
Definition tbl_get (m : PositiveMap.t snode) (a : N) : option snode :=
  if a =? 0 then Some empty_final else PositiveMap.find (N.succ_pos a) m.

(* the graph a node table denotes; the language of an address is GraphSem.lang over it *)
Definition gnode_of (n : snode) : gnode := mkG (sn_final n) (sn_fout n) (sn_trans n).
Definition graph_of (m : PositiveMap.t snode) : graph :=
  fun a => match PositiveMap.find (N.succ_pos a) m with Some n => Some (gnode_of n) | None => None end.

Record parsed := mkParsed { p_version : N; p_ty : N; p_len : N; p_root : N; p_checksum : option N;
                            p_nodes : list (N * snode); p_content : kmap }.

Definition spec_parse (bs : list N) : option parsed :=
  let n := length bs in
  if Nat.ltb n 32 then None else
  let version := le_value (firstn 8 bs) in
  let ty := le_value (firstn 8 (skipn 8 bs)) in
  if (version =? 0) || (3 <? version) then None else
  let foot := if 3 <=? version then 20%nat else 16%nat in
  if Nat.ltb n (16 + foot) then None else
  let body_end := (n - foot)%nat in                       (* index of the first footer byte *)
  let flen := le_value (firstn 8 (skipn body_end bs)) in
  let root := le_value (firstn 8 (skipn (body_end + 8) bs)) in
  let cks := if 3 <=? version then Some (le_value (firstn 4 (skipn (body_end + 16) bs))) else None in
  (* the root node is the last node: its address is the byte just before the footer,
     or 0 when the whole FST is the shared empty final node and there is no node area *)
  let rv := rev (firstn body_end bs) in
  if (root =? 0) then
    if Nat.eqb body_end 16 then
      Some (mkParsed version ty flen root cks [] [([], 0)])
    else None
  else
  if negb (N.of_nat body_end =? root + 1) then None else
  match tiles version (S n) rv root [] with
  | None => None
  | Some nodes =>
    let tbl := node_table nodes in
    (* every transition target is 0 or the address of a node *)
    if negb (forallb (fun x => forallb (fun t => match tbl_get tbl (t_addr t) with Some _ => true | None => false end)
                                       (sn_trans (snd x))) nodes) then None else
    match lang (graph_of tbl) (S n) root with
    | Some content => Some (mkParsed version ty flen root cks nodes content)
    | None => None
    end
  end.

(* a well-formed file: parses, the recorded length is the number of keys, keys strictly increase *)
Definition wf_fst_b (bs : list N) : bool :=
  match spec_parse bs with
  | Some p => (p_len p =? len (p_content p)) && kmap_ok (p_content p) &&
              forallb (fun kv => snd kv <? 18446744073709551616) (p_content p)
  | None => false
  end.
Definition spec_read (bs : list N) : option (N * N * kmap) :=
  match spec_parse bs with
  | Some p => if wf_fst_b bs then Some (p_version p, p_ty p, p_content p) else None
  | None => None
  end.
