(* SrcFunBase.v — what SrcFunTie.v and the generated sampling files share: finite domains lifted with
   forallb_forall, decidable equality on the result types of translated functions, and the two generic
   tactics (exhaustive evaluation over byte domains; case analysis + lia over u64/usize). *)
Require Import FstV.Base.
Require Import Lia ZifyN ZifyBool ZifyNat.
Require Import ZArith.
Open Scope N_scope.

(* ---------- fixed vocabulary of the translation (tools/rustfun_tr.py emits these names) ---------- *)
(* `a..b`, `.iter().enumerate()`, `==` on Option<integer>, and a generic parameter `A: Automaton` *)
Definition src_range (a b : N) : list N := map N.of_nat (seq (N.to_nat a) (N.to_nat (b - a))).
Definition src_enumerate (l : list N) : list (N * N) := combine (src_range 0 (len l)) l.
Definition src_opt_eqb (a b : option N) : bool :=
  match a, b with Some x, Some y => x =? y | None, None => true | _, _ => false end.
Record src_aut := { src_St : Type; src_start : src_St; src_is_match : src_St -> bool; src_can_match : src_St -> bool;
                    src_will_always_match : src_St -> bool; src_accept : src_St -> N -> src_St }.
(* `.iter().min()` on a list of integers; the UTF-8 length of a string given as its scalar values *)
Definition src_list_min (l : list N) : option N := match l with [] => None | x :: r => Some (fold_left N.min r x) end.
Definition src_utf8_len1 (c : N) : N := if c <? 128 then 1 else if c <? 2048 then 2 else if c <? 65536 then 3 else 4.
Definition src_utf8_len (q : list N) : N := fold_left (fun n c => n + src_utf8_len1 c) q 0.
Definition is_bytes (l : list N) : bool := forallb (fun b => b <? 256) l.
(* `while x.len() >= K { ...; x = &x[k..] }` (k >= 1): at most `length x` iterations *)
Fixpoint src_while {S} (fuel : nat) (c : S -> bool) (f : S -> S) (s : S) : S :=
  match fuel with O => s | S k => if c s then src_while k c f (f s) else s end.
Fixpoint src_while_res {S} (fuel : nat) (c : S -> bool) (f : S -> res S) (s : S) : res S :=
  match fuel with O => Ok s | S k => if c s then (do s' <- f s; src_while_res k c f s') else Ok s end.
(* uN::from_le_bytes of exactly N/8 bytes (elements are bytes) *)
Fixpoint le_lor (l : list N) : N := match l with [] => 0 | b :: r => N.lor b (N.shiftl (le_lor r) 8) end.
(* little-endian value, arithmetically *)
Fixpoint le_val (l : list N) : N := match l with [] => 0 | b :: r => b + 256 * le_val r end.

(* ---------- finite domains ---------- *)
Definition bytes256 : list N := map N.of_nat (seq 0 256).
Lemma in_bytes256 : forall b, b < 256 -> In b bytes256.
Proof.
  intros b Hb. apply in_map_iff. exists (N.to_nat b). split; [apply N2Nat.id|]. apply in_seq. lia.
Qed.
Lemma all_bytes : forall (P : N -> bool), forallb P bytes256 = true -> forall b, b < 256 -> P b = true.
Proof. intros P H b Hb. rewrite forallb_forall in H. apply H. now apply in_bytes256. Qed.
Lemma all_bytes2 : forall (P : N -> N -> bool),
  forallb (fun a => forallb (P a) bytes256) bytes256 = true -> forall a b, a < 256 -> b < 256 -> P a b = true.
Proof.
  intros P H a b Ha Hb. apply (all_bytes (fun a => forallb (P a) bytes256)) with (b := a) in H; [|assumption].
  now apply all_bytes.
Qed.

(* ---------- decidable equality on result types ---------- *)
Definition opt_eqb (a b : option N) : bool :=
  match a, b with Some x, Some y => x =? y | None, None => true | _, _ => false end.
Definition res_eqb {A} (e : A -> A -> bool) (a b : res A) : bool :=
  match a, b with Ok x, Ok y => e x y | Panic, Panic => true | _, _ => false end.
Lemma opt_eqb_eq : forall a b, opt_eqb a b = true -> a = b.
Proof. intros [x|] [y|]; cbn; try discriminate; auto. intros H. apply N.eqb_eq in H. now subst. Qed.
Lemma res_eqb_eq : forall A (e : A -> A -> bool), (forall x y, e x y = true -> x = y) ->
  forall a b, res_eqb e a b = true -> a = b.
Proof. intros A e He [x|?|] [y|?|]; cbn; try discriminate; auto. intros H. f_equal. now apply He. Qed.
Lemma N_eqb_eq' : forall x y : N, (x =? y) = true -> x = y.
Proof. intros. now apply N.eqb_eq. Qed.
Lemma bool_eqb_eq' : forall x y : bool, Bool.eqb x y = true -> x = y.
Proof. intros. now apply Bool.eqb_prop. Qed.

(* heterogeneous comparison used by the sampling files: a plain value equals [Ok] of itself, so a
   translated function whose type moved between T and res T can still be compared with the model *)
Class SfEq (A B : Type) := sf_eqb : A -> B -> bool.
#[export] Instance SfEq_N : SfEq N N := N.eqb.
#[export] Instance SfEq_bool : SfEq bool bool := Bool.eqb.
#[export] Instance SfEq_unit : SfEq unit unit := fun _ _ => true.
#[export] Instance SfEq_opt {A B} `{SfEq A B} : SfEq (option A) (option B) :=
  fun a b => match a, b with Some x, Some y => sf_eqb x y | None, None => true | _, _ => false end.
#[export] Instance SfEq_prod {A B C D} `{SfEq A C} `{SfEq B D} : SfEq (A * B) (C * D) :=
  fun a b => sf_eqb (fst a) (fst b) && sf_eqb (snd a) (snd b).
#[export] Instance SfEq_nat : SfEq nat nat := Nat.eqb.
#[export] Instance SfEq_list {A B} `{SfEq A B} : SfEq (list A) (list B) :=
  fix go (a : list A) (b : list B) : bool :=
    match a, b with [] , [] => true | x :: a', y :: b' => sf_eqb x y && go a' b' | _, _ => false end.
#[export] Instance SfEq_cmp : SfEq comparison comparison :=
  fun a b => match a, b with Eq, Eq | Lt, Lt | Gt, Gt => true | _, _ => false end.
#[export] Instance SfEq_res {A B} `{SfEq A B} : SfEq (res A) (res B) :=
  fun a b => match a, b with Ok x, Ok y => sf_eqb x y | Panic, Panic => true | Err _, Err _ => true | _, _ => false end.
(* (error payloads are not compared: the translated functions never build one themselves) *)
#[export] Instance SfEq_res_l {A B} `{SfEq A B} : SfEq (res A) B | 10 :=
  fun a b => match a with Ok x => sf_eqb x b | _ => false end.
#[export] Instance SfEq_res_r {A B} `{SfEq A B} : SfEq A (res B) | 10 :=
  fun a b => match b with Ok y => sf_eqb a y | _ => false end.

(* ---------- tactic 1: exhaustive evaluation over byte domains ----------
   The goal is  forall a [b], a < 256 -> [b < 256 ->] f a b = g a b  with a result type among
   N, bool, option N, res N, res bool, res (option N). ANY extensionally equal rewrite of f proves. *)
Ltac to_eqb :=
  first [ apply N_eqb_eq' | apply bool_eqb_eq' | apply opt_eqb_eq
        | apply (res_eqb_eq _ _ N_eqb_eq') | apply (res_eqb_eq _ _ bool_eqb_eq') | apply (res_eqb_eq _ _ opt_eqb_eq) ].
Ltac by_bytes1 :=
  let a := fresh "a" in let Ha := fresh "Ha" in
  intros a Ha; to_eqb; revert a Ha; apply all_bytes; vm_compute; reflexivity.
Ltac by_bytes2 :=
  let a := fresh "a" in let b := fresh "b" in let Ha := fresh "Ha" in let Hb := fresh "Hb" in
  intros a b Ha Hb; to_eqb; revert a b Ha Hb; apply all_bytes2; vm_compute; reflexivity.

(* ---------- tactic 2: case analysis on every comparison, then linear arithmetic ---------- *)
Ltac Zify.zify_post_hook ::= Z.div_mod_to_equations.
Lemma land_ones_mod : forall x k, N.land x (N.ones k) = x mod 2 ^ k.
Proof. intros. apply N.land_ones. Qed.

(* leading_zeros: 64 - N.size n; the byte thresholds of N.size *)
Lemma size_le_iff : forall n k, N.size n <= k <-> n < 2 ^ k.
Proof.
  intros n k. destruct (N.eq_dec n 0) as [->|Hn].
  - cbn. split; intros _; [apply N.neq_0_lt_0, N.pow_nonzero; discriminate | lia].
  - rewrite N.size_log2 by assumption. rewrite N.log2_lt_pow2 by lia. lia.
Qed.
Lemma size_bytes : forall n,
  (N.size n <= 8 <-> n < 256) /\ (N.size n <= 16 <-> n < 65536) /\ (N.size n <= 24 <-> n < 16777216) /\
  (N.size n <= 32 <-> n < 4294967296) /\ (N.size n <= 40 <-> n < 1099511627776) /\
  (N.size n <= 48 <-> n < 281474976710656) /\ (N.size n <= 56 <-> n < 72057594037927936) /\
  (N.size n <= 64 <-> n < 18446744073709551616).
Proof. intros n. repeat split; intros H; first [apply (size_le_iff n _) in H; exact H | apply (size_le_iff n _); exact H]. Qed.
Ltac size_facts :=
  repeat match goal with
  | |- context [N.size ?n] =>
    lazymatch goal with | _ : (N.size n <= 8 <-> _) |- _ => fail | _ => idtac end;
    let H := fresh "Hsz" in pose proof (size_bytes n) as H; destruct H as (?&?&?&?&?&?&?&?)
  end.

Ltac tie_reduce := cbv beta iota zeta delta [andb orb negb bind].
Ltac tie_case :=
  match goal with
  | |- context [N.ltb ?a ?b] => destruct (N.ltb_spec a b)
  | |- context [N.leb ?a ?b] => destruct (N.leb_spec a b)
  | |- context [N.eqb ?a ?b] => destruct (N.eqb_spec a b)
  | |- context [if ?c then _ else _] => is_var c; destruct c
  end; tie_reduce.
(* products of two unknowns: the right factor is a pack size (at most 15) *)
Ltac bound_muls :=
  repeat match goal with
  | |- context [?a * ?b] =>
    lazymatch goal with | _ : a * b <= a * 15 |- _ => fail | _ => idtac end;
    assert (a * b <= a * 15) by (apply N.mul_le_mono_l; lia)
  end.
Ltac tie_leaf :=
  first [ reflexivity | exfalso; lia | lia | apply f_equal; lia | do 2 apply f_equal; lia ].
Ltac tie_arith :=
  tie_reduce; size_facts; bound_muls; repeat (tie_case; try (exfalso; lia)); tie_leaf.

(* ---------- loops: enumerate as an explicit recursion, and the little-endian accumulation ---------- *)
Fixpoint enum_from (j : nat) (l : list N) : list (N * N) :=
  match l with [] => [] | b :: r => (N.of_nat j, b) :: enum_from (S j) r end.
Lemma combine_seq_enum : forall l j, combine (map N.of_nat (seq j (length l))) l = enum_from j l.
Proof. induction l as [|b r IH]; intros j; cbn [length seq map combine enum_from]; [reflexivity|]. now rewrite IH. Qed.
Lemma src_enumerate_from : forall l, src_enumerate l = enum_from 0 l.
Proof.
  intros l. unfold src_enumerate, src_range, len. rewrite N.sub_0_r, Nat2N.id. change (N.to_nat 0) with 0%nat.
  apply combine_seq_enum.
Qed.
Lemma fold_left_ext : forall {A B} (f g : A -> B -> A), (forall a b, f a b = g a b) ->
  forall l a, fold_left f l a = fold_left g l a.
Proof. intros A B f g H l. induction l as [|x r IH]; intros a; cbn [fold_left]; [reflexivity|]. now rewrite H, IH. Qed.
Lemma lor_shiftl_add : forall a b k, a < 2 ^ k -> N.lor a (N.shiftl b k) = a + b * 2 ^ k.
Proof.
  intros a b k Ha. rewrite N.shiftl_mul_pow2.
  assert (Hl : N.land a (b * 2 ^ k) = 0).
  { apply N.bits_inj. intros i. rewrite N.land_spec, N.bits_0.
    destruct (N.lt_ge_cases i k) as [Hi|Hi].
    - rewrite N.mul_pow2_bits_low by assumption. apply Bool.andb_false_r.
    - destruct (N.eq_dec a 0) as [->|Hn]; [now rewrite N.bits_0|].
      rewrite (N.bits_above_log2 a i); [reflexivity|].
      apply N.log2_lt_pow2; [lia|]. eapply N.lt_le_trans; [exact Ha|]. apply N.pow_le_mono_r; lia. }
  rewrite <- N.lxor_lor by assumption. symmetry. now apply N.add_nocarry_lxor.
Qed.
(* `n = n | (b as u64) << (8 * i)` over an enumerated byte list = little-endian value *)
Lemma fold_lor_le : forall l j acc, is_bytes l = true -> acc < 2 ^ (8 * N.of_nat j) ->
  fold_left (fun n (e : N * N) => N.lor n (N.shiftl (snd e) (8 * fst e))) (enum_from j l) acc
  = acc + 2 ^ (8 * N.of_nat j) * le_val l.
Proof.
  induction l as [|b r IH]; intros j acc Hb Ha; cbn [enum_from fold_left le_val fst snd].
  - lia.
  - cbn [is_bytes forallb] in Hb. apply Bool.andb_true_iff in Hb. destruct Hb as [Hb Hr]. apply N.ltb_lt in Hb.
    rewrite lor_shiftl_add by assumption.
    assert (Hp : 2 ^ (8 * N.of_nat (S j)) = 2 ^ (8 * N.of_nat j) * 256).
    { replace (8 * N.of_nat (S j)) with (8 * N.of_nat j + 8) by lia. rewrite N.pow_add_r. reflexivity. }
    rewrite IH; [|assumption|].
    + rewrite Hp. lia.
    + rewrite Hp. nia.
Qed.
