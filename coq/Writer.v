(* Writer.v — model of the write path of the builder:
     std::io::Write::write_all (default loop), std::io::BufWriter (write / write_all / flush),
     src/raw/counting_writer.rs (CountingWriter), and the way src/raw/build.rs, src/bytes.rs and
     src/raw/node.rs drive them: every emission is a `write_all` of a small buffer through the
     CountingWriter, except the 4 checksum bytes of `into_inner`, which go to the INNER writer,
     followed by `flush`.
   The sink is an oracle: a script of responses consumed one per `write` call. It also keeps the
   number of bytes it accepted since its last successful flush (s_unflushed): a buffering or
   commit-on-flush writer loses exactly those, so "into_inner returned Ok" must imply that this
   number is 0 (the order `checksum; flush` of into_inner matters). Bytes sitting in a BufWriter's
   own buffer are not in the sink at all (b_buf).
   The checksum is abstract (Section variables); the CRC model lives elsewhere.
   No proofs here. *)
Require Import FstV.Base.

(* ---------- io::Result as a value; Diverge = the Rust loop would not terminate ---------- *)
Inductive iores (A : Type) :=
| IoOk (a : A)
| IoErr (k : ioerr)
| IoPanic
| IoDiverge.
Arguments IoOk {A} a.
Arguments IoErr {A} k.
Arguments IoPanic {A}.
Arguments IoDiverge {A}.

(* `?` on io::Result inside a function returning fst::Result: From<io::Error> for Error = Error::Io *)
Definition to_res (r : iores unit) : res unit :=
  match r with
  | IoOk _ => Ok tt
  | IoErr k => Err (EIo k)
  | IoPanic | IoDiverge => Panic
  end.

Definition is_interrupted (k : ioerr) : bool :=
  match k with IoInterrupted => true | _ => false end.

(* ---------- a writer: what io::Write offers to the code above it ---------- *)
Record writer (W : Type) := mkWriter {
  w_write : W -> list N -> iores nat * W;
  w_write_all : W -> list N -> iores unit * W;
  w_flush : W -> iores unit * W;
  (* number of scripted sink responses still to come: bounds the retries of every loop *)
  w_budget : W -> nat
}.
Arguments mkWriter {W} _ _ _ _.
Arguments w_write {W} _ _ _.
Arguments w_write_all {W} _ _ _.
Arguments w_flush {W} _ _.
Arguments w_budget {W} _ _.

(* ---------- the documented write_all loop ----------
   while !buf.is_empty() { match self.write(buf) {
       Ok(0) => return Err(WriteZero), Ok(n) => buf = &buf[n..],
       Err(e) if e.is_interrupted() => {}, Err(e) => return Err(e) } } Ok(())
   Also returns the part of buf not yet accepted (BufWriter::flush_buf keeps it). *)
Section WriteLoop.
  Context {W : Type}.
  Variable write : W -> list N -> iores nat * W.

  Fixpoint write_loop (fuel : nat) (st : W) (buf : list N) : iores unit * W * list N :=
    match buf with
    | [] => (IoOk tt, st, [])
    | _ :: _ =>
      match fuel with
      | O => (IoDiverge, st, buf)
      | S f =>
        match write st buf with
        | (IoOk O, st') => (IoErr IoWriteZero, st', buf)
        | (IoOk (S m), st') =>
          (* &buf[n..] panics for n > len *)
          if (S m <=? length buf)%nat then write_loop f st' (skipn (S m) buf)
          else (IoPanic, st', buf)
        | (IoErr k, st') =>
          if is_interrupted k then write_loop f st' buf else (IoErr k, st', buf)
        | (IoPanic, st') => (IoPanic, st', buf)
        | (IoDiverge, st') => (IoDiverge, st', buf)
        end
      end
    end.
End WriteLoop.

(* fuel that cannot run out: every iteration takes a byte or consumes a scripted response *)
Definition loop_fuel {W} (budget : W -> nat) (st : W) (buf : list N) : nat :=
  (length buf + budget st + 1)%nat.

Definition default_write_all {W} (write : W -> list N -> iores nat * W) (budget : W -> nat)
           (st : W) (buf : list N) : iores unit * W :=
  let '(r, st', _) := write_loop write (loop_fuel budget st buf) st buf in (r, st').

(* ---------- the scripted sink ---------- *)
Inductive resp :=
| Accept (n : nat)        (* accepts min n (len buf) bytes; n >= 1 for a benign response *)
| Interrupted             (* Err(ErrorKind::Interrupted) *)
| Zero                    (* Ok(0) *)
| Fail (k : ioerr).       (* Err(kind) *)

Inductive fresp := FlushOk | FlushFail (k : ioerr).

Record sink := mkSink {
  s_data : list N;        (* bytes accepted so far, including the prefill *)
  s_oracle : list resp;   (* responses not yet consumed; exhausted = accept everything *)
  s_calls : nat;          (* number of write calls received *)
  s_fresp : fresp;        (* response of every flush call *)
  s_flushes : nat;        (* number of flush calls that succeeded *)
  s_unflushed : nat       (* bytes accepted since the last successful flush (since construction, if
                             there was none): what a commit-on-flush sink would lose *)
}.

Definition sink_write (s : sink) (buf : list N) : iores nat * sink :=
  match s_oracle s with
  | [] => (IoOk (length buf),
           mkSink (s_data s ++ buf) [] (S (s_calls s)) (s_fresp s) (s_flushes s)
                  (s_unflushed s + length buf))
  | Accept n :: o =>
    let m := Nat.min n (length buf) in
    (IoOk m, mkSink (s_data s ++ firstn m buf) o (S (s_calls s)) (s_fresp s) (s_flushes s)
                    (s_unflushed s + m))
  | Interrupted :: o =>
    (IoErr IoInterrupted, mkSink (s_data s) o (S (s_calls s)) (s_fresp s) (s_flushes s) (s_unflushed s))
  | Zero :: o =>
    (IoOk O, mkSink (s_data s) o (S (s_calls s)) (s_fresp s) (s_flushes s) (s_unflushed s))
  | Fail k :: o =>
    (IoErr k, mkSink (s_data s) o (S (s_calls s)) (s_fresp s) (s_flushes s) (s_unflushed s))
  end.

Definition sink_flush (s : sink) : iores unit * sink :=
  match s_fresp s with
  (* a successful flush commits everything accepted so far; a failing one commits nothing *)
  | FlushOk => (IoOk tt, mkSink (s_data s) (s_oracle s) (s_calls s) (s_fresp s) (S (s_flushes s)) O)
  | FlushFail k => (IoErr k, s)
  end.

Definition sink_budget (s : sink) : nat := length (s_oracle s).

(* the harness sink implements only write and flush: write_all is the default loop *)
Definition sink_writer : writer sink :=
  mkWriter sink_write (default_write_all sink_write sink_budget) sink_flush sink_budget.

(* ---------- std::io::BufWriter ---------- *)
Record bufw (W : Type) := mkBuf {
  b_inner : W;
  b_buf : list N;
  b_cap : nat
}.
Arguments mkBuf {W} _ _ _.
Arguments b_inner {W} _.
Arguments b_buf {W} _.
Arguments b_cap {W} _.

Section BufWriter.
  Context {W : Type}.
  Variable wr : writer W.

  Definition bw_spare (b : bufw W) : nat := (b_cap b - length (b_buf b))%nat.

  (* flush_buf: write loop over inner.write on the buffered bytes; whatever was written is
     drained from the buffer even on error (BufGuard::drop) *)
  Definition bw_flush_buf (b : bufw W) : iores unit * bufw W :=
    let '(r, i', rest) :=
        write_loop (w_write wr) (loop_fuel (w_budget wr) (b_inner b) (b_buf b)) (b_inner b) (b_buf b) in
    (r, mkBuf i' rest (b_cap b)).

  (* write: if buf.len() < spare { buffer } else { write_cold } *)
  Definition bw_write (b : bufw W) (buf : list N) : iores nat * bufw W :=
    if (length buf <? bw_spare b)%nat then
      (IoOk (length buf), mkBuf (b_inner b) (b_buf b ++ buf) (b_cap b))
    else
      (* write_cold *)
      let '(r, b1) := if (bw_spare b <? length buf)%nat then bw_flush_buf b else (IoOk tt, b) in
      match r with
      | IoOk _ =>
        if (b_cap b1 <=? length buf)%nat then
          let '(r2, i') := w_write wr (b_inner b1) buf in (r2, mkBuf i' (b_buf b1) (b_cap b1))
        else
          (IoOk (length buf), mkBuf (b_inner b1) (b_buf b1 ++ buf) (b_cap b1))
      | IoErr k => (IoErr k, b1)
      | IoPanic => (IoPanic, b1)
      | IoDiverge => (IoDiverge, b1)
      end.

  (* write_all is overridden: same shape, but the large case uses inner.write_all *)
  Definition bw_write_all (b : bufw W) (buf : list N) : iores unit * bufw W :=
    if (length buf <? bw_spare b)%nat then
      (IoOk tt, mkBuf (b_inner b) (b_buf b ++ buf) (b_cap b))
    else
      let '(r, b1) := if (bw_spare b <? length buf)%nat then bw_flush_buf b else (IoOk tt, b) in
      match r with
      | IoOk _ =>
        if (b_cap b1 <=? length buf)%nat then
          let '(r2, i') := w_write_all wr (b_inner b1) buf in (r2, mkBuf i' (b_buf b1) (b_cap b1))
        else
          (IoOk tt, mkBuf (b_inner b1) (b_buf b1 ++ buf) (b_cap b1))
      | _ => (r, b1)
      end.

  (* flush: self.flush_buf().and_then(|()| self.get_mut().flush()) *)
  Definition bw_flush (b : bufw W) : iores unit * bufw W :=
    let '(r, b1) := bw_flush_buf b in
    match r with
    | IoOk _ => let '(r2, i') := w_flush wr (b_inner b1) in (r2, mkBuf i' (b_buf b1) (b_cap b1))
    | _ => (r, b1)
    end.

  (* Drop for BufWriter: `if !self.panicked { let _r = self.flush_buf(); }` - what happens to a
     BufWriter the builder drops on an error path; the result is ignored *)
  Definition bw_drop (b : bufw W) : bufw W := snd (bw_flush_buf b).

  Definition bufw_writer : writer (bufw W) :=
    mkWriter bw_write bw_write_all bw_flush (fun b => w_budget wr (b_inner b)).
End BufWriter.

(* ---------- the builder side ---------- *)
Definition le32 (x : N) : list N :=
  [x mod 256; (x / 256) mod 256; (x / 65536) mod 256; (x / 16777216) mod 256].

Record cw (W : Type) := mkCw {
  c_inner : W;
  c_cnt : N;       (* u64; assumed not to overflow (2^64 bytes) *)
  c_sum : N        (* CheckSummer.sum *)
}.
Arguments mkCw {W} _ _ _.
Arguments c_inner {W} _.
Arguments c_cnt {W} _.
Arguments c_sum {W} _.

(* per API call: status, bytes_written() after it, number of write calls the sink has seen,
   number of bytes the writer below the CountingWriter holds (prefill included) *)
Definition callres := (iores unit * N * nat * nat)%type.

Record outcome (W : Type) := mkOutcome {
  o_calls : list callres;          (* new, insert... up to and including the first failure *)
  o_fin : option callres;          (* into_inner, if it was reached *)
  o_final : W;                     (* the writer below the CountingWriter at the end *)
  o_cnt : N;                       (* CountingWriter.cnt at the end *)
  o_sum : N                        (* CountingWriter.summer.sum at the end *)
}.
Arguments mkOutcome {W} _ _ _ _ _.
Arguments o_calls {W} _.
Arguments o_fin {W} _.
Arguments o_final {W} _.
Arguments o_cnt {W} _.
Arguments o_sum {W} _.

Section Builder.
  Variable crc_update : N -> list N -> N.
  Variable masked : N -> N.
  Context {W : Type}.
  Variable wr : writer W.
  (* [old = true] is the behaviour before the C07 repair: checksum the whole buffer before the
     inner write, on every attempt. Kept only as a regression witness. *)
  Variable old : bool.
  (* observations only: write calls the bottom sink has received; bytes accepted by the writer
     directly below the CountingWriter (for a BufWriter: inner data + buffered) *)
  Variable wcalls : W -> nat.
  Variable wacc : W -> nat.

  (* CountingWriter::write:
       let n = self.wtr.write(buf)?; self.summer.update(&buf[..n]); self.cnt += n; Ok(n) *)
  Definition cw_write (c : cw W) (buf : list N) : iores nat * cw W :=
    let sum0 := if old then crc_update (c_sum c) buf else c_sum c in
    match w_write wr (c_inner c) buf with
    | (IoOk n, i') =>
      if (n <=? length buf)%nat then
        (IoOk n, mkCw i' (c_cnt c + N.of_nat n)
                      (if old then sum0 else crc_update (c_sum c) (firstn n buf)))
      else (IoPanic, mkCw i' (c_cnt c) sum0)
    | (IoErr k, i') => (IoErr k, mkCw i' (c_cnt c) sum0)
    | (IoPanic, i') => (IoPanic, mkCw i' (c_cnt c) sum0)
    | (IoDiverge, i') => (IoDiverge, mkCw i' (c_cnt c) sum0)
    end.

  Definition cw_budget (c : cw W) : nat := w_budget wr (c_inner c).

  (* CountingWriter does not override write_all *)
  Definition cw_write_all (c : cw W) (buf : list N) : iores unit * cw W :=
    default_write_all cw_write cw_budget c buf.

  (* one API call = its write_all chunks in order, `?` after each *)
  Fixpoint cw_write_chunks (c : cw W) (chunks : list (list N)) : iores unit * cw W :=
    match chunks with
    | [] => (IoOk tt, c)
    | ch :: r =>
      match cw_write_all c ch with
      | (IoOk _, c') => cw_write_chunks c' r
      | (e, c') => (e, c')
      end
    end.

  Definition mk_res (s : iores unit) (c : cw W) : callres := (s, c_cnt c, wcalls (c_inner c), wacc (c_inner c)).

  (* new + insert/add calls; stops at the first failing call *)
  Fixpoint run_calls (c : cw W) (calls : list (list (list N))) : list callres * cw W * bool :=
    match calls with
    | [] => ([], c, true)
    | ca :: r =>
      match cw_write_chunks c ca with
      | (IoOk _, c') =>
        let '(rs, c'', alive) := run_calls c' r in (mk_res (IoOk tt) c' :: rs, c'', alive)
      | (e, c') => ([mk_res e c'], c', false)
      end
    end.

  (* into_inner: remaining nodes, len, root_addr through the CountingWriter; then
       let sum = self.wtr.masked_checksum(); let mut wtr = self.wtr.into_inner();
       io_write_u32_le(sum, &mut wtr)?; wtr.flush()?; Ok(wtr) *)
  Definition run_finish (c : cw W) (fin : list (list N)) : iores unit * cw W :=
    match cw_write_chunks c fin with
    | (IoOk _, c1) =>
      match w_write_all wr (c_inner c1) (le32 (masked (c_sum c1))) with
      | (IoOk _, i2) =>
        let '(r3, i3) := w_flush wr i2 in (r3, mkCw i3 (c_cnt c1) (c_sum c1))
      | (e, i2) => (e, mkCw i2 (c_cnt c1) (c_sum c1))
      end
    | (e, c1) => (e, c1)
    end.

  (* REGRESSION WITNESS ONLY (seeded change C07-4), never used by run_session: into_inner with its
     last two steps swapped, `wtr.flush()?; io_write_u32_le(sum, &mut wtr)?; Ok(wtr)` - the sink ends
     up with the same bytes, but the checksum reaches it after its last flush *)
  Definition run_finish_flush_first (c : cw W) (fin : list (list N)) : iores unit * cw W :=
    match cw_write_chunks c fin with
    | (IoOk _, c1) =>
      match w_flush wr (c_inner c1) with
      | (IoOk _, i2) =>
        let '(r3, i3) := w_write_all wr i2 (le32 (masked (c_sum c1))) in
        (r3, mkCw i3 (c_cnt c1) (c_sum c1))
      | (e, i2) => (e, mkCw i2 (c_cnt c1) (c_sum c1))
      end
    | (e, c1) => (e, c1)
    end.

  Definition run_session (st0 : W) (calls : list (list (list N))) (fin : list (list N)) : outcome W :=
    let '(rs, c, alive) := run_calls (mkCw st0 0 0) calls in
    if alive then
      let '(r, c') := run_finish c fin in
      mkOutcome rs (Some (mk_res r c')) (c_inner c') (c_cnt c') (c_sum c')
    else mkOutcome rs None (c_inner c) (c_cnt c) (c_sum c).

  (* A caller that IGNORES the error of a failed call and keeps calling (harness family `cont`).
     `calls` = the constructor's chunks followed by those of every add/insert. When the constructor
     fails there is no builder to go on with. A failed write inside add/insert sets
     `Builder::io_failed` (src/raw/build.rs); from then on add, insert (hence the extend calls) and
     into_inner return Err(Io(Other)) from `check_io_failed` before they look at the key or touch
     the writer, so nothing is written after the failed call. *)
  Fixpoint run_calls_cont (failed : bool) (c : cw W) (calls : list (list (list N))) : list callres * cw W * bool :=
    match calls with
    | [] => ([], c, failed)
    | ca :: r =>
      if failed then
        let '(rs, c'', f) := run_calls_cont true c r in (mk_res (IoErr IoOther) c :: rs, c'', f)
      else
        match cw_write_chunks c ca with
        | (IoOk _, c') =>
          let '(rs, c'', f) := run_calls_cont false c' r in (mk_res (IoOk tt) c' :: rs, c'', f)
        | (e, c') =>
          let '(rs, c'', f) := run_calls_cont true c' r in (mk_res e c' :: rs, c'', f)
        end
    end.

  Definition run_session_cont (st0 : W) (calls : list (list (list N))) (fin : list (list N)) : outcome W :=
    match calls with
    | [] => run_session st0 calls fin
    | cnew :: rest =>
      match cw_write_chunks (mkCw st0 0 0) cnew with
      | (IoOk _, c0) =>
        let '(rs, c, failed) := run_calls_cont false c0 rest in
        if failed then
          mkOutcome (mk_res (IoOk tt) c0 :: rs) (Some (mk_res (IoErr IoOther) c)) (c_inner c) (c_cnt c) (c_sum c)
        else
          let '(r, c') := run_finish c fin in
          mkOutcome (mk_res (IoOk tt) c0 :: rs) (Some (mk_res r c')) (c_inner c') (c_cnt c') (c_sum c')
      | (e, c0) => mkOutcome [mk_res e c0] None (c_inner c0) (c_cnt c0) (c_sum c0)
      end
    end.
End Builder.

(* ---------- the two stacks the harness drives ---------- *)
Definition new_sink (oracle : list resp) (fl : fresp) (prefill : list N) : sink :=
  (* the prefill was there before the session: it is not pending *)
  mkSink prefill oracle O fl O O.

Definition run_sink_session crc_update masked (old : bool)
           (oracle : list resp) (fl : fresp) (prefill : list N) calls fin : outcome sink :=
  run_session crc_update masked sink_writer old s_calls (fun s => length (s_data s)) (new_sink oracle fl prefill) calls fin.

Definition run_buf_session crc_update masked (old : bool) (cap : nat)
           (oracle : list resp) (fl : fresp) (prefill : list N) calls fin : outcome (bufw sink) :=
  run_session crc_update masked (bufw_writer sink_writer) old (fun b => s_calls (b_inner b))
              (fun b => (length (s_data (b_inner b)) + length (b_buf b))%nat)
              (mkBuf (new_sink oracle fl prefill) [] cap) calls fin.

(* the in-memory build: Vec<u8> accepts everything, flush succeeds *)
Definition mem_session crc_update masked calls fin : outcome sink :=
  run_sink_session crc_update masked false [] FlushOk [] calls fin.

(* what the theorems need of the checksum (proved for the real CRC by the CRC model) *)
Definition chunk_law (crc_update : N -> list N -> N) : Prop :=
  (forall s a b, crc_update (crc_update s a) b = crc_update s (a ++ b)) /\
  (forall s, crc_update s [] = s).

(* ---------- a stand-in checksum for execution (NOT the CRC; satisfies the chunking law) ---------- *)
Definition M32 : N := 4294967295.
Definition standin_update (s : N) (l : list N) : N :=
  fold_left (fun h b => N.land (h * 31 + b + 1) M32) l s.
Definition standin_masked (s : N) : N :=
  N.land (N.lor (N.shiftr s 15) (N.land (N.shiftl s 17) M32) + 2726488792) M32.

(* Specification for a caller that KEEPS GOING after an error (C11, last clause; family `cont` of
   the harness): write call number k of a build that needs w write calls fails once. If the fault
   is consumed (k < w) at least one byte was never accepted, so the build may not be reported
   finished. The model of that caller is [run_session_cont] above (the builder refuses every
   call after a failed write). *)
Definition cont_spec_finished (k w : nat) : bool := negb (k <? w)%nat.

(* entry points of the extracted model (stand-in checksum, repaired CountingWriter) *)
Definition run_sink_session_cont crc_update masked
  (oracle : list resp) (fl : fresp) (prefill : list N) calls fin : outcome sink :=
  run_session_cont crc_update masked sink_writer false s_calls (fun s => length (s_data s))
                   (new_sink oracle fl prefill) calls fin.
Definition x_sink_session := run_sink_session standin_update standin_masked false.
Definition x_cont_session := run_sink_session_cont standin_update standin_masked.
Definition x_buf_session := run_buf_session standin_update standin_masked false.
Definition x_mem_session := mem_session standin_update standin_masked.
Definition x_buf_drop : bufw sink -> bufw sink := bw_drop sink_writer.
