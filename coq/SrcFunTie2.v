(* SrcFunTie2.v — ties of the automata of src/automaton/mod.rs (translated on every run into
   Generated/SrcFuns.v) to coq/Automaton.v, for ALL component automata, states and bytes.
   A generic parameter `A: Automaton` of the source is a record [src_aut] of the five methods;
   [to_src] turns a model automaton into one.  States the source keeps as usize / Option<usize> are N /
   option N in the translation and nat / option nat in the model: the statements convert explicitly.
   Same format as SrcFunTie.v (tools/srcfun_tie.py reads the statements). *)
Require Import FstV.Base FstV.Automaton FstV.Levenshtein FstV.Generated.SrcParams FstV.Generated.SrcFuns.
Require Import FstV.SrcFunBase.
Require Import Lia ZifyN ZifyBool ZifyNat.
Require Import ZArith.
Open Scope N_scope.
Set Default Timeout 120.

Definition P64 : N := 18446744073709551616.
Definition to_src (A : automaton) : src_aut :=
  {| src_St := St A; src_start := start A; src_is_match := is_match A; src_can_match := can_match A;
     src_will_always_match := will_always_match A; src_accept := accept A |}.
(* StartsWithStateKind::{Done, Running(s)} is None / Some s in the model *)
Definition sw_of_src (A : automaton) (s : src_StartsWithStateKind (to_src A)) : option (St A) :=
  match s with src_StartsWithStateKind_Done _ => None | src_StartsWithStateKind_Running _ i => Some i end.
Definition onat (p : option N) : option nat := option_map N.to_nat p.
Definition oN (p : option nat) : option N := option_map N.of_nat p.

Lemma len_eqb : forall (q : list N) p, (p =? len q) = Nat.eqb (N.to_nat p) (length q).
Proof.
  intros q p. unfold len. destruct (N.eqb_spec p (N.of_nat (length q))) as [->|H].
  - rewrite Nat2N.id. symmetry. apply Nat.eqb_refl.
  - symmetry. apply Nat.eqb_neq. intros E. apply H. rewrite <- E. now rewrite N2Nat.id.
Qed.

(* rows of the Levenshtein DP: usize entries are N in the translation and nat in the model *)
Definition mkL (q : list N) (dist : N) : dynlev := {| dl_query := q; dl_dist := N.to_nat dist |}.
Lemma N_leb_nat : forall a b, (a <=? b) = Nat.leb (N.to_nat a) (N.to_nat b).
Proof.
  intros a b. destruct (N.leb_spec a b); symmetry; [apply Nat.leb_le|apply Nat.leb_gt]; lia.
Qed.
Lemma last_opt_map : forall {A B} (f : A -> B) l, last_opt (map f l) = option_map f (last_opt l).
Proof.
  intros A B f l. induction l as [|x r IH]; [reflexivity|]. destruct r as [|y r]; [reflexivity|].
  change (last_opt (map f (x :: y :: r))) with (last_opt (map f (y :: r))).
  change (last_opt (x :: y :: r)) with (last_opt (y :: r)). exact IH.
Qed.
Lemma fold_min_nat : forall r x, N.to_nat (fold_left N.min r x) = fold_left Nat.min (map N.to_nat r) (N.to_nat x).
Proof. induction r as [|y r IH]; intros x; cbn [fold_left map]; [reflexivity|]. rewrite IH. f_equal. lia. Qed.

(* ==== TIES ==== *)

(* ---- Str (state Option<usize>) ---- *)
Lemma tie_Str_start : forall (q : list N), src_fn_Str_start q = oN (start (str_aut q)).
Proof. reflexivity. Qed.
Lemma tie_Str_is_match : forall (q : list N) (pos : option N),
  src_fn_Str_is_match q pos = is_match (str_aut q) (onat pos).
Proof. intros q [p|]; cbn; [apply len_eqb|reflexivity]. Qed.
Lemma tie_Str_can_match : forall (q : list N) (pos : option N),
  src_fn_Str_can_match q pos = can_match (str_aut q) (onat pos).
Proof. intros q [p|]; reflexivity. Qed.
(* `Some(pos + 1)` cannot overflow: pos indexes the string *)
Lemma tie_Str_accept : forall (q : list N) (pos : option N) (b : N), len q < P64 ->
  src_fn_Str_accept q pos b = Ok (oN (accept (str_aut q) (onat pos) b)).
Proof.
  intros q [p|] b Hq; cbn; [|reflexivity].
  destruct (nth_error q (N.to_nat p)) as [c|] eqn:E; cbn; [|reflexivity].
  destruct (c =? b); cbn; [|reflexivity].
  assert (N.to_nat p < length q)%nat by (apply nth_error_Some; congruence).
  unfold len, P64 in Hq. destruct (N.leb_spec (p + 1) 18446744073709551615); [|lia].
  cbn. do 2 f_equal. lia.
Qed.

(* ---- Subsequence (state usize); `self.subseq[state]` panics for state > len, unreachable from start ---- *)
Lemma tie_Subsequence_start : forall (q : list N), src_fn_Subsequence_start q = N.of_nat (start (subseq_aut q)).
Proof. reflexivity. Qed.
Lemma tie_Subsequence_is_match : forall (q : list N) (s : N),
  src_fn_Subsequence_is_match q s = is_match (subseq_aut q) (N.to_nat s).
Proof. intros. apply len_eqb. Qed.
Lemma tie_Subsequence_can_match : forall (q : list N) (s : N),
  src_fn_Subsequence_can_match q s = can_match (subseq_aut q) (N.to_nat s).
Proof. reflexivity. Qed.
Lemma tie_Subsequence_will_always_match : forall (q : list N) (s : N),
  src_fn_Subsequence_will_always_match q s = will_always_match (subseq_aut q) (N.to_nat s).
Proof. intros. apply len_eqb. Qed.
Lemma tie_Subsequence_accept : forall (q : list N) (s b : N), len q < P64 ->
  src_fn_Subsequence_accept q s b
  = if s <=? len q then Ok (N.of_nat (accept (subseq_aut q) (N.to_nat s) b)) else Panic.
Proof.
  intros q s b Hq. unfold src_fn_Subsequence_accept. cbn [accept subseq_aut]. rewrite len_eqb.
  destruct (Nat.eqb (N.to_nat s) (length q)) eqn:E.
  - apply Nat.eqb_eq in E. unfold len. destruct (N.leb_spec s (N.of_nat (length q))); [|lia]. now rewrite N2Nat.id.
  - apply Nat.eqb_neq in E. unfold len, P64 in *.
    destruct (N.ltb_spec s (N.of_nat (length q))); destruct (N.leb_spec s (N.of_nat (length q))); try lia; cbn [bind]; [|reflexivity].
    assert (Hs : (N.to_nat s < length q)%nat) by lia.
    rewrite (nth_error_nth' q 0 Hs).
    destruct (b =? nth (N.to_nat s) q 0);
      match goal with |- context [?x <=? ?y] => destruct (N.leb_spec x y) end; try lia; f_equal; lia.
Qed.

(* ---- AlwaysMatch ---- *)
Lemma tie_AlwaysMatch_start : src_fn_AlwaysMatch_start = start always_aut.
Proof. reflexivity. Qed.
Lemma tie_AlwaysMatch_is_match : forall (s : unit), src_fn_AlwaysMatch_is_match s = is_match always_aut s.
Proof. reflexivity. Qed.
Lemma tie_AlwaysMatch_can_match : forall (s : unit), src_fn_AlwaysMatch_can_match s = can_match always_aut s.
Proof. reflexivity. Qed.
Lemma tie_AlwaysMatch_will_always_match : forall (s : unit),
  src_fn_AlwaysMatch_will_always_match s = will_always_match always_aut s.
Proof. reflexivity. Qed.
Lemma tie_AlwaysMatch_accept : forall (s : unit) (b : N), src_fn_AlwaysMatch_accept s b = accept always_aut s b.
Proof. reflexivity. Qed.

(* ---- StartsWith<A> ---- *)
Lemma tie_StartsWith_start : forall (A : automaton),
  sw_of_src A (src_fn_StartsWith_start (to_src A)) = start (starts_with_aut A).
Proof. intros A. unfold src_fn_StartsWith_start. cbn. destruct (is_match A (start A)); reflexivity. Qed.
Lemma tie_StartsWith_is_match : forall (A : automaton) (s : src_StartsWithStateKind (to_src A)),
  src_fn_StartsWith_is_match (to_src A) s = is_match (starts_with_aut A) (sw_of_src A s).
Proof. intros A [|i]; reflexivity. Qed.
Lemma tie_StartsWith_can_match : forall (A : automaton) (s : src_StartsWithStateKind (to_src A)),
  src_fn_StartsWith_can_match (to_src A) s = can_match (starts_with_aut A) (sw_of_src A s).
Proof. intros A [|i]; reflexivity. Qed.
Lemma tie_StartsWith_will_always_match : forall (A : automaton) (s : src_StartsWithStateKind (to_src A)),
  src_fn_StartsWith_will_always_match (to_src A) s = will_always_match (starts_with_aut A) (sw_of_src A s).
Proof. intros A [|i]; reflexivity. Qed.
Lemma tie_StartsWith_accept : forall (A : automaton) (s : src_StartsWithStateKind (to_src A)) (b : N),
  sw_of_src A (src_fn_StartsWith_accept (to_src A) s b) = accept (starts_with_aut A) (sw_of_src A s) b.
Proof. intros A [|i] b; unfold src_fn_StartsWith_accept; cbn; [reflexivity|]. destruct (is_match A (accept A i b)); reflexivity. Qed.

(* ---- Union<A, B>, Intersection<A, B> (state = pair of component states) ---- *)
Lemma tie_Union_start : forall (A B : automaton), src_fn_Union_start (to_src A) (to_src B) = start (union_aut A B).
Proof. reflexivity. Qed.
Lemma tie_Union_is_match : forall (A B : automaton) (s : St A * St B),
  src_fn_Union_is_match (to_src A) (to_src B) s = is_match (union_aut A B) s.
Proof. reflexivity. Qed.
Lemma tie_Union_can_match : forall (A B : automaton) (s : St A * St B),
  src_fn_Union_can_match (to_src A) (to_src B) s = can_match (union_aut A B) s.
Proof. reflexivity. Qed.
Lemma tie_Union_will_always_match : forall (A B : automaton) (s : St A * St B),
  src_fn_Union_will_always_match (to_src A) (to_src B) s = will_always_match (union_aut A B) s.
Proof. reflexivity. Qed.
Lemma tie_Union_accept : forall (A B : automaton) (s : St A * St B) (b : N),
  src_fn_Union_accept (to_src A) (to_src B) s b = accept (union_aut A B) s b.
Proof. reflexivity. Qed.
Lemma tie_Intersection_start : forall (A B : automaton),
  src_fn_Intersection_start (to_src A) (to_src B) = start (inter_aut A B).
Proof. reflexivity. Qed.
Lemma tie_Intersection_is_match : forall (A B : automaton) (s : St A * St B),
  src_fn_Intersection_is_match (to_src A) (to_src B) s = is_match (inter_aut A B) s.
Proof. reflexivity. Qed.
Lemma tie_Intersection_can_match : forall (A B : automaton) (s : St A * St B),
  src_fn_Intersection_can_match (to_src A) (to_src B) s = can_match (inter_aut A B) s.
Proof. reflexivity. Qed.
Lemma tie_Intersection_will_always_match : forall (A B : automaton) (s : St A * St B),
  src_fn_Intersection_will_always_match (to_src A) (to_src B) s = will_always_match (inter_aut A B) s.
Proof. reflexivity. Qed.
Lemma tie_Intersection_accept : forall (A B : automaton) (s : St A * St B) (b : N),
  src_fn_Intersection_accept (to_src A) (to_src B) s b = accept (inter_aut A B) s b.
Proof. reflexivity. Qed.

(* ---- Complement<A> ---- *)
Lemma tie_Complement_start : forall (A : automaton), src_fn_Complement_start (to_src A) = start (compl_aut A).
Proof. reflexivity. Qed.
Lemma tie_Complement_is_match : forall (A : automaton) (s : St A),
  src_fn_Complement_is_match (to_src A) s = is_match (compl_aut A) s.
Proof. reflexivity. Qed.
Lemma tie_Complement_can_match : forall (A : automaton) (s : St A),
  src_fn_Complement_can_match (to_src A) s = can_match (compl_aut A) s.
Proof. reflexivity. Qed.
Lemma tie_Complement_will_always_match : forall (A : automaton) (s : St A),
  src_fn_Complement_will_always_match (to_src A) s = will_always_match (compl_aut A) s.
Proof. reflexivity. Qed.
Lemma tie_Complement_accept : forall (A : automaton) (s : St A) (b : N),
  src_fn_Complement_accept (to_src A) s b = accept (compl_aut A) s b.
Proof. reflexivity. Qed.

(* ---- impl Automaton for &T: every method forwards to the same-named method of T ---- *)
Lemma tie_Ref_start : forall (A : automaton), src_fn_Ref_start (to_src A) = start A.
Proof. reflexivity. Qed.
Lemma tie_Ref_is_match : forall (A : automaton) (s : St A), src_fn_Ref_is_match (to_src A) s = is_match A s.
Proof. reflexivity. Qed.
Lemma tie_Ref_can_match : forall (A : automaton) (s : St A), src_fn_Ref_can_match (to_src A) s = can_match A s.
Proof. reflexivity. Qed.
Lemma tie_Ref_will_always_match : forall (A : automaton) (s : St A),
  src_fn_Ref_will_always_match (to_src A) s = will_always_match A s.
Proof. reflexivity. Qed.
Lemma tie_Ref_accept : forall (A : automaton) (s : St A) (b : N), src_fn_Ref_accept (to_src A) s b = accept A s b.
Proof. reflexivity. Qed.

(* ---- src/automaton/levenshtein.rs DynamicLevenshtein (rows of the DP; the query is its list of scalar values) ---- *)
(* dl_start:  (0..query.chars().count() + 1).collect()  -- sized by CHARACTERS, not bytes *)
Lemma tie_DynamicLevenshtein_start : forall (q : list N) (dist : N), len q < P64 - 1 ->
  src_fn_DynamicLevenshtein_start q dist = Ok (map N.of_nat (dl_start (mkL q dist))).
Proof.
  intros q dist Hq. unfold src_fn_DynamicLevenshtein_start, dl_start, mkL, P64 in *. cbn [dl_query].
  match goal with |- context [?a <=? ?b] => destruct (N.leb_spec a b) end; [|lia].
  cbn [bind]. unfold src_range, len. rewrite N.sub_0_r. change (N.to_nat 0) with 0%nat.
  replace (N.to_nat (N.of_nat (length q) + 1)) with (length q + 1)%nat by lia. reflexivity.
Qed.
Lemma tie_DynamicLevenshtein_is_match : forall (q : list N) (dist : N) (st : list N),
  src_fn_DynamicLevenshtein_is_match q dist st = dl_is_match (mkL q dist) (map N.to_nat st).
Proof.
  intros. unfold src_fn_DynamicLevenshtein_is_match, dl_is_match, mkL. cbn [dl_dist]. rewrite last_opt_map.
  destruct (last_opt st); cbn [option_map]; [apply N_leb_nat|reflexivity].
Qed.
Lemma tie_DynamicLevenshtein_can_match : forall (q : list N) (dist : N) (st : list N),
  src_fn_DynamicLevenshtein_can_match q dist st = dl_can_match (mkL q dist) (map N.to_nat st).
Proof.
  intros. unfold src_fn_DynamicLevenshtein_can_match, dl_can_match, mkL, src_list_min, row_min. cbn [dl_dist].
  destruct st as [|x r]; cbn [map]; [reflexivity|]. rewrite <- fold_min_nat. apply N_leb_nat.
Qed.

(* ==== END ==== *)
Print Assumptions tie_DynamicLevenshtein_start.
Print Assumptions tie_DynamicLevenshtein_is_match.
Print Assumptions tie_DynamicLevenshtein_can_match.
Print Assumptions tie_Str_start.
Print Assumptions tie_Str_is_match.
Print Assumptions tie_Str_can_match.
Print Assumptions tie_Str_accept.
Print Assumptions tie_Subsequence_start.
Print Assumptions tie_Subsequence_is_match.
Print Assumptions tie_Subsequence_can_match.
Print Assumptions tie_Subsequence_will_always_match.
Print Assumptions tie_Subsequence_accept.
Print Assumptions tie_AlwaysMatch_start.
Print Assumptions tie_AlwaysMatch_is_match.
Print Assumptions tie_AlwaysMatch_can_match.
Print Assumptions tie_AlwaysMatch_will_always_match.
Print Assumptions tie_AlwaysMatch_accept.
Print Assumptions tie_StartsWith_start.
Print Assumptions tie_StartsWith_is_match.
Print Assumptions tie_StartsWith_can_match.
Print Assumptions tie_StartsWith_will_always_match.
Print Assumptions tie_StartsWith_accept.
Print Assumptions tie_Union_start.
Print Assumptions tie_Union_is_match.
Print Assumptions tie_Union_can_match.
Print Assumptions tie_Union_will_always_match.
Print Assumptions tie_Union_accept.
Print Assumptions tie_Intersection_start.
Print Assumptions tie_Intersection_is_match.
Print Assumptions tie_Intersection_can_match.
Print Assumptions tie_Intersection_will_always_match.
Print Assumptions tie_Intersection_accept.
Print Assumptions tie_Complement_start.
Print Assumptions tie_Complement_is_match.
Print Assumptions tie_Complement_can_match.
Print Assumptions tie_Complement_will_always_match.
Print Assumptions tie_Complement_accept.
Print Assumptions tie_Ref_start.
Print Assumptions tie_Ref_is_match.
Print Assumptions tie_Ref_can_match.
Print Assumptions tie_Ref_will_always_match.
Print Assumptions tie_Ref_accept.
