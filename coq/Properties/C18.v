(* C18 — built-in automata and combinators match their specs with sound pruning hints.
   Statements only; proofs live in proofs/AutomatonProofs.v. *)
Require Import FstV.Base FstV.Automaton FstV.proofs.AutomatonProofs.

(* acceptance: for every expression built from Str, Subsequence, AlwaysMatch, table DFAs,
   StartsWith, Union, Intersection, Complement, and every byte string *)
Theorem C18_acceptance : forall e w, accepts (denote e) w = sem e w.
Proof. exact sem_correct. Qed.

(* StartsWith means "some prefix is accepted" *)
Theorem C18_starts_with_prefix : forall (A : automaton) w,
  accepts (starts_with_aut A) w = true <-> exists u v, w = u ++ v /\ accepts A u = true.
Proof. intros A w. rewrite sw_accepts. apply existsb_prefixes_spec. Qed.

(* hints: for every state (reachable or not) and every continuation, given sound components *)
Theorem C18_hints : forall e, tables_sound e ->
  can_match_sound (denote e) /\ will_always_sound (denote e).
Proof. exact hints_sound. Qed.

(* generic in the component automata, not only in expressions *)
Theorem C18_generic : forall A B : automaton,
  (can_match_sound A -> can_match_sound (starts_with_aut A)) /\
  will_always_sound (starts_with_aut A) /\
  (can_match_sound A -> can_match_sound B -> can_match_sound (union_aut A B)) /\
  (will_always_sound A -> will_always_sound B -> will_always_sound (union_aut A B)) /\
  (can_match_sound A -> can_match_sound B -> can_match_sound (inter_aut A B)) /\
  (will_always_sound A -> will_always_sound B -> will_always_sound (inter_aut A B)) /\
  (will_always_sound A -> can_match_sound (compl_aut A)) /\
  (can_match_sound A -> will_always_sound (compl_aut A)).
Proof.
  intros A B. repeat split.
  - apply sw_can_sound. - apply sw_will_sound.
  - apply union_can_sound. - apply union_will_sound.
  - apply inter_can_sound. - apply inter_will_sound.
  - apply compl_can_sound. - apply compl_will_sound.
Qed.

Theorem C18_subseq_index_safe : forall q w, (run (subseq_aut q) (start (subseq_aut q)) w <= length q)%nat.
Proof. intros q w. apply subseq_state_le. cbn. lia. Qed.

(* non-vacuity: a depth-3 composition, a string it accepts and one it rejects *)
Example C18_nonvacuous :
  let e := AInter (AStartsWith (AStr [97; 98])) (ACompl (ASubseq [122])) in
  accepts (denote e) [97; 98; 99] = true /\ accepts (denote e) [97; 98; 122] = false /\ tables_sound e.
Proof. cbn. repeat split. Qed.

Check C18_acceptance : forall e w, accepts (denote e) w = sem e w.
Check C18_hints : forall e, tables_sound e -> can_match_sound (denote e) /\ will_always_sound (denote e).
Print Assumptions C18_acceptance.
Print Assumptions C18_starts_with_prefix.
Print Assumptions C18_hints.
Print Assumptions C18_generic.
Print Assumptions C18_subseq_index_safe.
