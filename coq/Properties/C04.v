(* C04 — automaton search: "For any built map or set, any bounds, and any automaton that obeys the
   Automaton contract (deterministic start/accept/is_match, can_match never false while a match is
   still reachable, no end-of-key hook), search yields exactly the in-range keys whose byte sequence
   the automaton accepts, in ascending order with correct values; search_with_state additionally
   reports for each key the automaton state reached after consuming it. The result does not depend on
   how precise the optional pruning hints are."
   Statements only; proofs live in proofs/StreamProofs.v and proofs/StreamSpecProofs.v.

   Vocabulary as in C03.v (reader model against [node_at], [views g node_at], [L g root], [fuel_ok],
   [calls_bytes]); the link from the bytes of a built file to a graph is
   [CodecSpec.parse_views_statement] (proved elsewhere).  An automaton is a record of functions
   (FstV.Automaton), so start/accept/is_match are deterministic by construction;
   [can_match_sound A]: can_match s = false implies that no continuation of s matches;
   [no_eof_hook A]: accept_eof is always None (the trait's default).  will_always_match is never
   consulted by the stream. *)
Require Import FstV.Base FstV.Loop FstV.Node FstV.Automaton FstV.Reader FstV.GraphSem FstV.Fst.
Require Import FstV.proofs.StreamGraphLemmas FstV.proofs.StreamSorted FstV.proofs.StreamProofs
               FstV.proofs.StreamSpecProofs.

(* ---------- search_with_state yields exactly the specified triples, then ends ---------- *)
Theorem C04_search_with_state :
  forall (g : graph) (node_at : N -> res nview) (root : N) (A : automaton),
    wf_graph g -> views g node_at -> (exists r, gget g root = Some r) ->
    can_match_sound A -> no_eof_hook A -> fuel_ok g root ->
    forall cs : list bcall, calls_bytes cs ->
      search_with_state node_at root A cs = Ok (spec_search (L g root) A cs).
Proof. exact search_correct. Qed.

(* search: the same without the states *)
Theorem C04_search :
  forall (g : graph) (node_at : N -> res nview) (root : N) (A : automaton),
    wf_graph g -> views g node_at -> (exists r, gget g root = Some r) ->
    can_match_sound A -> no_eof_hook A -> fuel_ok g root ->
    forall cs : list bcall, calls_bytes cs ->
      search node_at root A cs = Ok (map proj_kv (spec_search (L g root) A cs)).
Proof. exact search_correct_plain. Qed.

(* ---------- what the specified list is ---------- *)
(* a triple is listed iff its (key, value) is in the map, the key is in range and accepted, and the
   state is the one reached from start after consuming the key *)
Theorem C04_spec_exact : forall (m : kmap) (A : automaton) (cs : list bcall) (k : key) (v : N) (s : St A),
  In (k, v, s) (spec_search m A cs) <->
  In (k, v) m /\ in_bounds (fst (bounds_of cs)) (snd (bounds_of cs)) k = true /\ accepts A k = true /\
  s = run A (start A) k.
Proof. exact spec_search_in. Qed.

(* without the states it is the sub-list of the map selected by "in range and accepted" *)
Theorem C04_spec_proj : forall (m : kmap) (A : automaton) (cs : list bcall),
  map proj_kv (spec_search m A cs) =
  filter (fun x => in_bounds (fst (bounds_of cs)) (snd (bounds_of cs)) (fst x) && accepts A (fst x)) m.
Proof. exact spec_search_proj. Qed.

(* in ascending order *)
Theorem C04_spec_sorted : forall (g : graph) (a : N) (A : automaton) (cs : list bcall), wf_graph g ->
  sorted_strict (keys_of (map proj_kv (spec_search (L g a) A cs))) = true.
Proof. exact spec_search_sorted. Qed.

(* ---------- the pruning hints do not matter ---------- *)
(* [with_hints A cm wam] is A with can_match / will_always_match replaced; as long as both versions of
   can_match are sound the stream of results, states included, is the same *)
Theorem C04_hints_irrelevant :
  forall (g : graph) (node_at : N -> res nview) (root : N) (A : automaton) (cm wam : St A -> bool),
    wf_graph g -> views g node_at -> (exists r, gget g root = Some r) -> fuel_ok g root ->
    no_eof_hook A -> can_match_sound A -> can_match_sound (with_hints A cm wam) ->
    forall cs : list bcall, calls_bytes cs ->
      search_with_state node_at root (with_hints A cm wam) cs = search_with_state node_at root A cs.
Proof. exact hints_irrelevant. Qed.
(* the least precise hints are always allowed *)
Theorem C04_trivial_hints_sound : forall (A : automaton) (wam : St A -> bool),
  can_match_sound (with_hints A (fun _ => true) wam).
Proof. intros A wam s H. discriminate. Qed.

(* ---------- non-vacuity: {"a" -> 5, "ab" -> 7, "b" -> 9}; Str("ab"), Subsequence("b") ---------- *)
Example C04_example :
  wf_graph ex_graph /\ views ex_graph ex_node_at /\ (exists r, gget ex_graph ex_root = Some r) /\
  fuel_ok ex_graph ex_root /\
  search_with_state ex_node_at ex_root (str_aut [97; 98]) [] = Ok [([97; 98], 7, Some 2%nat)] /\
  search_with_state ex_node_at ex_root (subseq_aut [98]) [] = Ok [([97; 98], 7, 1%nat); ([98], 9, 1%nat)] /\
  search ex_node_at ex_root (subseq_aut [98]) [BLt [98]] = Ok [([97; 98], 7)] /\
  search ex_node_at ex_root (compl_aut (subseq_aut [98])) [BGe []] = Ok [([97], 5)].
Proof.
  split; [exact ex_wf|]. split; [exact ex_views|]. split; [exact ex_root_ok|]. split; [exact ex_fuel|].
  repeat split; vm_compute; reflexivity.
Qed.

Check C04_search_with_state :
  forall (g : graph) (node_at : N -> res nview) (root : N) (A : automaton),
    wf_graph g -> views g node_at -> (exists r, gget g root = Some r) ->
    can_match_sound A -> no_eof_hook A -> fuel_ok g root ->
    forall cs : list bcall, calls_bytes cs ->
      search_with_state node_at root A cs = Ok (spec_search (L g root) A cs).
Check C04_search :
  forall (g : graph) (node_at : N -> res nview) (root : N) (A : automaton),
    wf_graph g -> views g node_at -> (exists r, gget g root = Some r) ->
    can_match_sound A -> no_eof_hook A -> fuel_ok g root ->
    forall cs : list bcall, calls_bytes cs ->
      search node_at root A cs = Ok (map proj_kv (spec_search (L g root) A cs)).
Check C04_spec_exact : forall (m : kmap) (A : automaton) (cs : list bcall) (k : key) (v : N) (s : St A),
  In (k, v, s) (spec_search m A cs) <->
  In (k, v) m /\ in_bounds (fst (bounds_of cs)) (snd (bounds_of cs)) k = true /\ accepts A k = true /\
  s = run A (start A) k.
Check C04_hints_irrelevant :
  forall (g : graph) (node_at : N -> res nview) (root : N) (A : automaton) (cm wam : St A -> bool),
    wf_graph g -> views g node_at -> (exists r, gget g root = Some r) -> fuel_ok g root ->
    no_eof_hook A -> can_match_sound A -> can_match_sound (with_hints A cm wam) ->
    forall cs : list bcall, calls_bytes cs ->
      search_with_state node_at root (with_hints A cm wam) cs = search_with_state node_at root A cs.

Print Assumptions C04_search_with_state.
Print Assumptions C04_search.
Print Assumptions C04_spec_exact.
Print Assumptions C04_spec_proj.
Print Assumptions C04_spec_sorted.
Print Assumptions C04_hints_irrelevant.
Print Assumptions C04_trivial_hints_sound.
Print Assumptions C04_example.

(* ---------- composition with the builder and codec theorems ---------- *)
Require Import FstV.Builder FstV.Fst FstV.CodecSpec FstV.proofs.Closed FstV.proofs.StreamProofs FstV.proofs.ReaderProofs.

(* end to end: on the bytes a builder writes for ANY key list, values, type and cache geometry *)
Theorem C04_on_built_maps : forall summer ty rows cols kvs,
  input_ok kvs -> ty < U64 -> (forall l, summer l < 4294967296) ->
  exists bs, build_map summer ty rows cols kvs = Ok bs /\
    forall A cs, can_match_sound A -> no_eof_hook A -> calls_bytes cs ->
      api_search_with_state bs A cs = Ok (spec_search kvs A cs) /\
      api_search bs A cs = Ok (map (fun it => (fst (fst it), snd (fst it))) (spec_search kvs A cs)).
Proof. exact C04_closed. Qed.
Print Assumptions C04_on_built_maps.
