(* C15 — the emitted bytes are a pure function of the FST type and the accepted (key, value)
   sequence: raw / set / map builders, single inserts, extend_iter, extend_stream and from_iter
   produce byte-identical output for the same sequence.  Statements only; proofs in
   proofs/BuilderBasics.v.

   In the model every front end is literally a list of [op]s fed to [run_calls] (single calls)
   or [run_extend] (extend_iter / extend_stream / from_iter), followed by [b_finish]; the
   theorems below say these coincide (streaming a union of other FSTs into extend_stream is
   [run_extend] over the (key, value) list that union stream yields — what that list is belongs
   to C05).  Determinism itself is definitional here — [build_ops] is
   a Gallina function, so equal arguments give equal bytes; that the Rust code computes this
   function on every run, in every process and thread (no dependence on addresses, hash seeds,
   time, or scheduling) is NOT a theorem of this file: it is covered by the correspondence run
   only (same cases built repeatedly, in several threads and in child processes, compared byte
   for byte against each other and against [build_ops]). *)
Require Import FstV.Base FstV.Builder FstV.CodecSpec FstV.Fst.
Require Import FstV.proofs.BuilderInv FstV.proofs.BuilderBasics FstV.proofs.BuilderNoPanic.

(* SetBuilder::insert(k) = raw add(k) and MapBuilder::insert(k, 0) = raw insert(k, 0) agree on
   every state reached from a new builder by calls none of which panicked (a Rust panic leaves no
   builder to talk about), unless k repeats the last key: then the map builder reports
   DuplicateKey and the set builder returns early, leaving the state untouched *)
Theorem C15_add_eq_insert0 : forall ty rows cols ops k,
  let b := fst (run_calls (new_builder ty rows cols) ops) in
  Forall (fun r => r <> Panic) (snd (run_calls (new_builder ty rows cols) ops)) ->
  b_last b <> Some k -> b_add b k = b_insert b k 0.
Proof. exact add_eq_insert0. Qed.

(* for arbitrary states the statement needs two facts about the unfinished stack, both invariants
   of the builder: the root is not final before the first key, and the stack spells the last key
   ([stack_ok]; then a key that passes the ordering check and differs from the last key cannot
   match the whole stack path, so the duplicate early-return of `add` is not taken) ... *)
Theorem C15_add_eq_insert0_gen : forall b k,
  b_last b <> Some k -> (k = [] -> root_fresh b) -> (k <> [] -> stack_ok b) -> b_add b k = b_insert b k 0.
Proof. exact add_eq_insert0_gen. Qed.
Theorem C15_stack_ok_calls : forall ops b, stack_ok b ->
  Forall (fun r => r <> Panic) (snd (run_calls b ops)) -> stack_ok (fst (run_calls b ops)).
Proof. exact stack_ok_calls. Qed.
Theorem C15_fcp0_not_full : forall b k,
  stack_ok b -> lex_cmp (last_key b) k <> Gt -> last_key b <> k -> fcp0 (b_stack b) k <> length k.
Proof. exact fcp0_not_full. Qed.

(* ... because without them "b_last b <> Some k -> b_add b k = b_insert b k 0" is false:
   (1) on a (not reachable) state whose root is already final with output 5 and no last key,
   add("") keeps the 5 (a repeated add keeps the output) while insert("", 0) sets it to 0;
   (2) on a (not reachable) state with no last key whose stack already spells "a" with output 5,
   add("a") takes the duplicate early-return while insert("a", 0) pushes the 5 down *)
Example add_eq_insert0_needs_fresh_root :
  let b := mkB [] 16 [mkUnf (Node.mkBnode true 5 []) None] (Registry.reg_new 4 2) None 1 0 (0, 0, 0, 0) 3 in
  b_last b <> Some [] /\ b_add b [] <> b_insert b [] 0.
Proof. vm_compute. split; discriminate. Qed.
Example add_eq_insert0_needs_stack_ok :
  let b := mkB [] 16 [mkUnf (Node.empty_bnode false) (Some (97, 5)); mkUnf (Node.empty_bnode true) None]
               (Registry.reg_new 4 2) None 1 1 (0, 0, 0, 0) 3 in
  b_last b <> Some [97] /\ b_add b [97] <> b_insert b [97] 0.
Proof. vm_compute. split; discriminate. Qed.

(* single calls that all succeed, then finish = from_iter / extend_iter / extend_stream *)
Theorem C15_calls_eq_extend : forall ops b,
  Forall (fun r => r = Ok tt) (snd (run_calls b ops)) ->
  run_extend b ops = (fst (run_calls b ops), Ok tt).
Proof. exact calls_eq_extend. Qed.

Theorem C15_calls_then_finish_eq_build : forall summer ty rows cols ops,
  Forall (fun r => r = Ok tt) (snd (run_calls (new_builder ty rows cols) ops)) ->
  b_finish summer (fst (run_calls (new_builder ty rows cols) ops)) = build_ops summer ty rows cols ops.
Proof. exact calls_then_finish_eq_build. Qed.

(* several extend calls = one extend call over the concatenation *)
Theorem C15_extend_app : forall ops1 b ops2,
  snd (run_extend b ops1) = Ok tt ->
  run_extend b (ops1 ++ ops2) = run_extend (fst (run_extend b ops1)) ops2.
Proof. exact extend_app. Qed.

(* set and map builders are the raw builder *)
Theorem C15_build_set_eq : forall summer ty rows cols ks,
  build_set summer ty rows cols ks = build_ops summer ty rows cols (map OpAdd ks).
Proof. exact build_set_eq. Qed.
Theorem C15_build_map_eq : forall summer ty rows cols kvs,
  build_map summer ty rows cols kvs = build_ops summer ty rows cols (map (fun '(k, v) => OpInsert k v) kvs).
Proof. exact build_map_eq. Qed.

(* a set of strictly increasing keys is byte-identical to the map sending every key to 0 *)
Theorem C15_build_set_eq_map0 : forall summer ty rows cols ks,
  sorted_strict ks = true ->
  build_set summer ty rows cols ks = build_map summer ty rows cols (map (fun k => (k, 0)) ks).
Proof. exact build_set_eq_map0. Qed.

(* with rejected single calls in between, the bytes are those of from_iter over the accepted ones *)
Theorem C15_bytes_function_of_accepted : forall summer ty rows cols ops,
  Forall (fun r => r <> Panic) (snd (run_calls (new_builder ty rows cols) ops)) ->
  b_finish summer (fst (run_calls (new_builder ty rows cols) ops)) =
  build_ops summer ty rows cols (accepted_ops None ops).
Proof. exact rejected_leave_no_trace_build. Qed.

(* ---------- closed forms: no "no call panicked" premise ----------
   within the byte / value bounds and the size budget of C01 over the accepted calls, no call
   panics (C06_calls_never_panic), so: *)
Theorem C15_add_eq_insert0_closed : forall ty rows cols ops k,
  Forall (fun o => Forall (fun b => b < 256) (op_key o) /\ op_val o < U64) ops ->
  size_ok_ops (accepted_ops None ops) ->
  let b := fst (run_calls (new_builder ty rows cols) ops) in
  b_last b <> Some k -> b_add b k = b_insert b k 0.
Proof. exact add_eq_insert0_closed. Qed.

Theorem C15_bytes_function_of_accepted_closed : forall summer ty rows cols ops,
  Forall (fun o => Forall (fun b => b < 256) (op_key o) /\ op_val o < U64) ops ->
  size_ok_ops (accepted_ops None ops) ->
  b_finish summer (fst (run_calls (new_builder ty rows cols) ops)) =
  build_ops summer ty rows cols (accepted_ops None ops).
Proof. exact bytes_function_of_accepted_closed. Qed.

(* non-vacuity: the same three pairs through single calls, through two extend calls, and through
   from_iter give the same (successful) bytes; set = map with zeros *)
Example C15_nonvacuous :
  let ops := [OpInsert [97] 7; OpInsert [97; 98] 300; OpInsert [98] 7] in
  let b0 := new_builder 0 4 2 in
  (exists bytes, build_ops (fun _ => 0) 0 4 2 ops = Ok bytes /\
     b_finish (fun _ => 0) (fst (run_calls b0 ops)) = Ok bytes /\
     b_finish (fun _ => 0) (fst (run_extend (fst (run_extend b0 (firstn 1 ops))) (skipn 1 ops))) = Ok bytes /\
     build_map (fun _ => 0) 0 4 2 [([97], 7); ([97; 98], 300); ([98], 7)] = Ok bytes) /\
  (exists bytes, build_set (fun _ => 0) 0 4 2 [[97]; [97; 98]; [98]] = Ok bytes /\
     build_map (fun _ => 0) 0 4 2 [([97], 0); ([97; 98], 0); ([98], 0)] = Ok bytes).
Proof. vm_compute. split; eexists; repeat split. Qed.

Check C15_add_eq_insert0 : forall ty rows cols ops k,
  let b := fst (run_calls (new_builder ty rows cols) ops) in
  Forall (fun r => r <> Panic) (snd (run_calls (new_builder ty rows cols) ops)) ->
  b_last b <> Some k -> b_add b k = b_insert b k 0.
Check C15_calls_eq_extend : forall ops b,
  Forall (fun r => r = Ok tt) (snd (run_calls b ops)) -> run_extend b ops = (fst (run_calls b ops), Ok tt).
Print Assumptions C15_add_eq_insert0.
Print Assumptions C15_add_eq_insert0_gen.
Print Assumptions C15_stack_ok_calls.
Print Assumptions C15_fcp0_not_full.
Print Assumptions add_eq_insert0_needs_fresh_root.
Print Assumptions add_eq_insert0_needs_stack_ok.
Print Assumptions C15_calls_eq_extend.
Print Assumptions C15_calls_then_finish_eq_build.
Print Assumptions C15_extend_app.
Print Assumptions C15_build_set_eq.
Print Assumptions C15_build_map_eq.
Print Assumptions C15_build_set_eq_map0.
Print Assumptions C15_bytes_function_of_accepted.
Print Assumptions C15_add_eq_insert0_closed.
Print Assumptions C15_bytes_function_of_accepted_closed.
Print Assumptions C15_nonvacuous.
