(* C11 — a failing sink surfaces as Err(Io) from the builder call in progress: never a panic,
   never success; a build is reported finished only if every byte was accepted and then flushed
   (nothing is written after the last flush).
   Statements only; proofs in proofs/WriterProofs.v.  wc_of r = number of write calls the sink had
   received when the API call returned, so "the call that consumed response number K" is the
   first record with wc_of r > K. *)
Require Import FstV.Base FstV.Writer FstV.proofs.WriterProofs.

(* the error kind the caller sees: WriteZero for Ok(0), the sink's own kind for Err(kind)
   (kind <> Interrupted: an Interrupted error is retried, see C07) *)
Definition fault_kind (bad : resp) (kf : ioerr) : Prop :=
  (bad = Zero /\ kf = IoWriteZero) \/ (bad = Fail kf /\ kf <> IoInterrupted).

(* script = K benign responses, then one Zero / Fail, then anything.
   Every API call that returned before the fault was consumed returned Ok; the call during which
   it was consumed returns Err(Io kf), it is the last one of the session, and it is never Panic.
   If the fault is not consumed before into_inner's flush, into_inner's result is the flush's. *)
Theorem C11_fault : forall crc_update masked pre bad kf post fl prefill calls fin,
  Forall benign pre -> fault_kind bad kf ->
  let K := length pre in
  let o := run_sink_session crc_update masked false (pre ++ bad :: post) fl prefill calls fin in
  let before r := (wc_of r <= K)%nat /\ to_res (st_of r) = Ok tt in
  let at_fault r := wc_of r = S K /\ to_res (st_of r) = Err (EIo kf) in
  match o_fin o with
  | Some rf => Forall before (o_calls o) /\ wc_of rf = s_calls (o_final o) /\
               (((wc_of rf <= K)%nat /\ to_res (st_of rf) = to_res (flush_status fl)) \/ at_fault rf)
  | None => exists rs0 r, o_calls o = rs0 ++ [r] /\ Forall before rs0 /\ at_fault r
  end.
Proof.
  intros crc masked pre bad kf post fl prefill calls fin Hb Hk.
  assert (Hf : faulty bad kf).
  { destruct Hk as [H|[H1 H2]]; [left; exact H|right; split; auto].
    destruct kf; cbn; auto. congruence. }
  pose proof (sink_session_fault (length pre) bad kf post fl Hf crc masked pre prefill calls fin Hb eq_refl) as H.
  cbv zeta in *. destruct (o_fin _) as [rf|].
  - destruct H as (A & B & C). split; [|split; auto].
    + eapply Forall_impl; [|exact A]. intros r [H1 H2]. split; auto. now rewrite H2.
    + destruct C as [[C1 C2]|[C1 C2]]; [left|right]; split; auto; now rewrite C2.
  - destruct H as (rs0 & r & A & B & [C1 C2]). exists rs0, r. repeat split; auto.
    + eapply Forall_impl; [|exact B]. intros x [H1 H2]. split; auto. now rewrite H2.
    + now rewrite C2.
Qed.

(* consequence: once the fault has been consumed the session is not reported finished *)
Corollary C11_fault_not_finished : forall crc_update masked pre bad kf post fl prefill calls fin,
  Forall benign pre -> fault_kind bad kf ->
  let o := run_sink_session crc_update masked false (pre ++ bad :: post) fl prefill calls fin in
  (length pre < s_calls (o_final o))%nat ->
  forall rf, o_fin o = Some rf -> to_res (st_of rf) = Err (EIo kf).
Proof.
  intros crc masked pre bad kf post fl prefill calls fin Hb Hk o Hc rf Hrf.
  pose proof (C11_fault crc masked pre bad kf post fl prefill calls fin Hb Hk) as H.
  cbv zeta in H. fold o in H. rewrite Hrf in H. destruct H as (_ & B & [[C _]|[_ C]]); auto. lia.
Qed.

(* a failing flush under an otherwise benign script: every call succeeds, every byte is
   accepted, and into_inner returns the flush error *)
Theorem C11_flush : forall crc_update masked, chunk_law crc_update ->
  forall oracle k prefill calls fin, Forall benign oracle ->
  let o := run_sink_session crc_update masked false oracle (FlushFail k) prefill calls fin in
  Forall (fun r => to_res (st_of r) = Ok tt) (o_calls o) /\ length (o_calls o) = length calls /\
  (exists rf, o_fin o = Some rf /\ to_res (st_of rf) = Err (EIo k)) /\
  s_data (o_final o) = prefill ++ file_bytes crc_update masked calls fin.
Proof.
  intros crc masked [Ha Hn] oracle k prefill calls fin Hb.
  pose proof (sink_session_flush crc masked _ _ (uncond_law crc Ha Hn) oracle (FlushFail k) prefill calls fin (forall_forall_true _) (forall_true _) Hb) as (A & B & (rf & C1 & C2) & D).
  cbv zeta. repeat split; auto.
  - eapply Forall_impl; [|exact A]. intros r ->. reflexivity.
  - exists rf. rewrite C2. auto.
Qed.

(* ANY script and flush response (several faults, faults after Interrupted, ...):
   no call panics or diverges; only the last call of a session can fail and it fails with Io;
   into_inner = Ok implies that the sink holds prefill ++ every chunk byte ++ the 4 checksum bytes
   and that it is committed (WriterProofs.sink_committed): a flush succeeded and the sink accepted
   nothing after its last successful flush - the checksum bytes were written BEFORE it *)
Definition io_or_ok (r : res unit) : Prop :=
  match r with Ok _ => True | Err (EIo _) => True | _ => False end.

Theorem C11_finished_means_complete : forall crc_update masked, chunk_law crc_update ->
  forall oracle fl prefill calls fin,
  let o := run_sink_session crc_update masked false oracle fl prefill calls fin in
  Forall (fun r => io_or_ok (to_res (st_of r))) (o_calls o) /\
  match o_fin o with
  | None => exists rs0 r k, o_calls o = rs0 ++ [r] /\ Forall (fun r => to_res (st_of r) = Ok tt) rs0 /\
                            to_res (st_of r) = Err (EIo k)
  | Some rf =>
    Forall (fun r => to_res (st_of r) = Ok tt) (o_calls o) /\ length (o_calls o) = length calls /\
    io_or_ok (to_res (st_of rf)) /\
    (to_res (st_of rf) = Ok tt ->
       s_data (o_final o) = prefill ++ file_bytes crc_update masked calls fin /\
       sink_committed (o_final o))
  end.
Proof.
  intros crc masked [Ha Hn] oracle fl prefill calls fin.
  pose proof (sink_session_sane crc masked _ _ (uncond_law crc Ha Hn) oracle fl prefill calls fin (forall_forall_true _) (forall_true _)) as H.
  cbv zeta in *. destruct H as [A B]. split.
  - eapply Forall_impl; [|exact A]. intros r [H _]. destruct (st_of r); cbn in *; auto.
  - destruct (o_fin _) as [rf|] eqn:Ef.
    + destruct B as (B1 & B2 & B3 & B4). split; [|split; [exact B2|split]].
      * eapply Forall_impl; [|exact B1]. intros r ->. reflexivity.
      * destruct (st_of rf); cbn in *; auto.
      * intros H. destruct (st_of rf) as [[]| | |]; cbn in H; try discriminate.
        destruct (B4 eq_refl) as (X & _ & Y & _). auto.
    + destruct B as (rs0 & r & k & B1 & B2 & B3 & _). exists rs0, r, k. split; [exact B1|split].
      * eapply Forall_impl; [|exact B2]. intros x ->. reflexivity.
      * now rewrite B3.
Qed.

(* the same with a BufWriter of any capacity between the builder and the sink: Ok from
   into_inner means the buffer is empty and the sink itself holds everything *)
Theorem C11_finished_means_complete_bufwriter : forall crc_update masked, chunk_law crc_update ->
  forall cap oracle fl prefill calls fin,
  let o := run_buf_session crc_update masked false cap oracle fl prefill calls fin in
  Forall (fun r => io_or_ok (to_res (st_of r))) (o_calls o) /\
  match o_fin o with
  | None => exists rs0 r k, o_calls o = rs0 ++ [r] /\ Forall (fun r => to_res (st_of r) = Ok tt) rs0 /\
                            to_res (st_of r) = Err (EIo k)
  | Some rf =>
    Forall (fun r => to_res (st_of r) = Ok tt) (o_calls o) /\ length (o_calls o) = length calls /\
    io_or_ok (to_res (st_of rf)) /\
    (to_res (st_of rf) = Ok tt ->
       s_data (b_inner (o_final o)) = prefill ++ file_bytes crc_update masked calls fin /\
       b_buf (o_final o) = [] /\ sink_committed (b_inner (o_final o)))
  end.
Proof.
  intros crc masked [Ha Hn] cap oracle fl prefill calls fin.
  pose proof (buf_session_sane crc masked _ _ (uncond_law crc Ha Hn) cap oracle fl prefill calls fin (forall_forall_true _) (forall_true _)) as H.
  cbv zeta in *. destruct H as [A B]. split.
  - eapply Forall_impl; [|exact A]. intros r [H _]. destruct (st_of r); cbn in *; auto.
  - destruct (o_fin _) as [rf|] eqn:Ef.
    + destruct B as (B1 & B2 & B3 & B4). split; [|split; [exact B2|split]].
      * eapply Forall_impl; [|exact B1]. intros r ->. reflexivity.
      * destruct (st_of rf); cbn in *; auto.
      * intros H. destruct (st_of rf) as [[]| | |]; cbn in H; try discriminate.
        destruct (B4 eq_refl) as (X & _ & (Y & Z) & _). auto.
    + destruct B as (rs0 & r & k & B1 & B2 & B3 & _). exists rs0, r, k. split; [exact B1|split].
      * eapply Forall_impl; [|exact B2]. intros x ->. reflexivity.
      * now rewrite B3.
Qed.

(* A caller that KEEPS GOING after an error (harness family `cont`): it ignores the Err(Io) of the
   failed call and issues the remaining add/insert calls and into_inner. The specification: once the
   fault at write call k < w has been consumed the build may not be reported finished
   ([cont_spec_finished]). The model of that caller is Writer.run_session_cont: a failed write inside
   add/insert marks the builder (`Builder::io_failed`), and every later add/insert/into_inner returns
   Err(Io(Other)) before touching anything.  (Before the repair recorded in known-findings.txt the
   builder went on with a half-popped stack of unfinished nodes: later calls panicked or into_inner
   reported success for a damaged file.)

   C11_keep_going: the caller that keeps going sees exactly what the caller that stops at the first
   error sees, followed by one refusal per remaining call and one for into_inner; the sink and the
   byte counter are those of the stopping caller: nothing is written after the failed call. Every
   theorem above about [run_sink_session] therefore speaks about the continuing caller too. *)
Require Import FstV.proofs.WriterCont.

Theorem C11_cont_spec : forall k w : nat, (k < w)%nat -> cont_spec_finished k w = false.
Proof. intros k w H. unfold cont_spec_finished. apply Nat.ltb_lt in H. now rewrite H. Qed.

Theorem C11_keep_going : forall crc_update masked oracle fl prefill calls fin,
  let o := run_sink_session crc_update masked false oracle fl prefill calls fin in
  let oc := run_sink_session_cont crc_update masked oracle fl prefill calls fin in
  match o_fin o with
  | Some _ => oc = o                                   (* no call failed before into_inner *)
  | None =>
    let refusal : callres := (IoErr IoOther, o_cnt o, s_calls (o_final o), length (s_data (o_final o))) in
    (length (o_calls o) = 1%nat -> oc = o) /\            (* the constructor failed: no builder *)
    ((1 < length (o_calls o))%nat ->
       o_calls oc = o_calls o ++ map (fun _ => refusal) (skipn (length (o_calls o)) calls) /\
       o_fin oc = Some refusal /\
       o_final oc = o_final o /\ o_cnt oc = o_cnt o /\ o_sum oc = o_sum o)
  end.
Proof.
  intros crc masked oracle fl prefill calls fin.
  exact (cont_is_stop_plus_refusals crc masked sink_writer false s_calls (fun s => length (s_data s))
           (new_sink oracle fl prefill) calls fin).
Qed.

(* the last clause of the property for the continuing caller: once the fault was consumed, into_inner
   (if there is a builder to call it on) returns Err(Io _) - the build is never reported finished *)
Theorem C11_keep_going_never_finished : forall crc_update masked pre bad kf post fl prefill calls fin,
  Forall benign pre -> fault_kind bad kf ->
  let oc := run_sink_session_cont crc_update masked (pre ++ bad :: post) fl prefill calls fin in
  (length pre < s_calls (o_final oc))%nat ->
  forall rf, o_fin oc = Some rf -> exists k, to_res (st_of rf) = Err (EIo k).
Proof.
  intros crc masked pre bad kf post fl prefill calls fin Hb Hk oc Hc rf Hrf.
  pose proof (C11_keep_going crc masked (pre ++ bad :: post) fl prefill calls fin) as T.
  cbv zeta in T. fold oc in T.
  destruct (o_fin (run_sink_session crc masked false (pre ++ bad :: post) fl prefill calls fin)) as [rf'|] eqn:Ef.
  - (* same session as the stopping caller *)
    rewrite T in Hrf, Hc. exists kf.
    pose proof (C11_fault_not_finished crc masked pre bad kf post fl prefill calls fin Hb Hk) as F.
    cbv zeta in F. apply (F Hc). exact Hrf.
  - destruct T as [T1 T2].
    destruct (Nat.eq_dec (length (o_calls (run_sink_session crc masked false (pre ++ bad :: post) fl prefill calls fin))) 1) as [e|ne].
    + rewrite (T1 e), Ef in Hrf. discriminate.
    + pose proof (cont_never_finishes_after_a_failure crc masked sink_writer false s_calls (fun s => length (s_data s))
                    (new_sink (pre ++ bad :: post) fl prefill) calls fin Ef) as N.
      fold (run_sink_session_cont crc masked (pre ++ bad :: post) fl prefill calls fin) in N. fold oc in N.
      rewrite Hrf in N. destruct rf as [[[st bw] wc] wa]. subst st. exists IoOther. reflexivity.
Qed.

(* non-vacuity: a fault at response 3 (inside the second call) and a failing flush *)
Example C11_nonvacuous :
  let calls := [[[1; 2; 3]; [4]]; [[5; 6]]; [[7]]] in
  let o := run_sink_session standin_update standin_masked false
             [Accept 2; Interrupted; Accept 1; Accept 1; Fail IoBrokenPipe]%nat FlushOk [] calls [[8]] in
  let z := run_sink_session standin_update standin_masked false
             [Accept 9; Accept 9; Zero]%nat FlushOk [] calls [[8]] in
  let f := run_sink_session standin_update standin_masked false [] (FlushFail IoOther) [] calls [[8]] in
  map (fun r => (to_res (st_of r), bw_of r, wc_of r)) (o_calls o) = [(Ok tt, 4, 4%nat); (Err (EIo IoBrokenPipe), 4, 5%nat)] /\
  o_fin o = None /\ s_data (o_final o) = [1; 2; 3; 4] /\
  map (fun r => (to_res (st_of r), bw_of r, wc_of r)) (o_calls z) = [(Ok tt, 4, 2%nat); (Err (EIo IoWriteZero), 4, 3%nat)] /\
  option_map (fun r => to_res (st_of r)) (o_fin f) = Some (Err (EIo IoOther)) /\
  length (s_data (o_final f)) = 12%nat.
Proof. vm_compute. repeat split. Qed.

(* ================= end to end with the builder model and the real checksum =================
   C11_fault on the session the builder model itself produces (WriterBuilder.session_of: the
   chunk lists of new, of every add/insert call of [ops], and of into_inner) and the model of the
   real CheckSummer: with the first fault at sink response K, every API call that completed
   before it returned Ok (as far as I/O goes: st_of is the I/O status; a rejected key writes
   nothing), the call during which response K is consumed returns Err(Io kf) and is the last,
   and into_inner is not Ok once the fault was consumed.  No premise on [ops] is needed: the
   statement is about whatever chunks the model emits. *)
Require Import FstV.Builder FstV.WriterBuilder.

Theorem C11_end_to_end : forall ty rows cols ops pre bad kf post fl prefill,
  Forall benign pre -> fault_kind bad kf ->
  let '(calls, fin) := session_of ty rows cols ops in
  let K := length pre in
  let o := real_sink_session (pre ++ bad :: post) fl prefill calls fin in
  let before r := (wc_of r <= K)%nat /\ to_res (st_of r) = Ok tt in
  let at_fault r := wc_of r = S K /\ to_res (st_of r) = Err (EIo kf) in
  match o_fin o with
  | Some rf => Forall before (o_calls o) /\ wc_of rf = s_calls (o_final o) /\
               (((wc_of rf <= K)%nat /\ to_res (st_of rf) = to_res (flush_status fl)) \/ at_fault rf)
  | None => exists rs0 r, o_calls o = rs0 ++ [r] /\ Forall before rs0 /\ at_fault r
  end.
Proof.
  intros ty rows cols ops pre bad kf post fl prefill Hb Hk.
  destruct (session_of ty rows cols ops) as [calls fin].
  exact (C11_fault real_update real_masked pre bad kf post fl prefill calls fin Hb Hk).
Qed.

Corollary C11_end_to_end_not_finished : forall ty rows cols ops pre bad kf post fl prefill,
  Forall benign pre -> fault_kind bad kf ->
  let '(calls, fin) := session_of ty rows cols ops in
  let o := real_sink_session (pre ++ bad :: post) fl prefill calls fin in
  (length pre < s_calls (o_final o))%nat ->
  forall rf, o_fin o = Some rf -> to_res (st_of rf) = Err (EIo kf).
Proof.
  intros ty rows cols ops pre bad kf post fl prefill Hb Hk.
  destruct (session_of ty rows cols ops) as [calls fin].
  exact (C11_fault_not_finished real_update real_masked pre bad kf post fl prefill calls fin Hb Hk).
Qed.

Check C11_fault : forall crc_update masked pre bad kf post fl prefill calls fin,
  Forall benign pre -> fault_kind bad kf ->
  let K := length pre in
  let o := run_sink_session crc_update masked false (pre ++ bad :: post) fl prefill calls fin in
  let before r := (wc_of r <= K)%nat /\ to_res (st_of r) = Ok tt in
  let at_fault r := wc_of r = S K /\ to_res (st_of r) = Err (EIo kf) in
  match o_fin o with
  | Some rf => Forall before (o_calls o) /\ wc_of rf = s_calls (o_final o) /\
               (((wc_of rf <= K)%nat /\ to_res (st_of rf) = to_res (flush_status fl)) \/ at_fault rf)
  | None => exists rs0 r, o_calls o = rs0 ++ [r] /\ Forall before rs0 /\ at_fault r
  end.
Print Assumptions C11_fault.
Print Assumptions C11_fault_not_finished.
Print Assumptions C11_flush.
Print Assumptions C11_finished_means_complete.
Print Assumptions C11_finished_means_complete_bufwriter.
Print Assumptions C11_cont_spec.
Print Assumptions C11_keep_going.
Print Assumptions C11_keep_going_never_finished.
Print Assumptions C11_nonvacuous.
Print Assumptions C11_end_to_end.
Print Assumptions C11_end_to_end_not_finished.
