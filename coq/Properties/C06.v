(* C06 — a map builder accepts a key iff it is strictly greater than the last accepted key, a set
   builder iff it is greater than or equal (a repeat is a no-op); otherwise the call returns
   OutOfOrder / DuplicateKey carrying the offending key(s); a rejected call leaves the builder
   exactly as it was; from_iter / extend_iter / extend_stream stop at the first rejected item with
   that same error.  Statements only; proofs in proofs/BuilderBasics.v.

   Model: Builder.v ([apply_op] = one `insert` / `add` call on raw::Builder, [run_calls] = a
   sequence of single calls whose results the caller sees, [run_extend] = extend_iter /
   extend_stream / from_iter).  Specification of the check: Fst.v ([spec_call], [spec_calls],
   [accepted_prefix]).  "The finished FST contains exactly the accepted keys and values" is then
   C01 (builder output is a well-formed FST with content [spec_content]) applied to the accepted
   calls: by [C06_rejected_leave_no_trace_build] the bytes are those of from_iter over
   [accepted_ops None ops]. *)
Require Import FstV.Base FstV.Builder FstV.Format FstV.CodecSpec FstV.Fst.
Require Import FstV.proofs.BuilderInv FstV.proofs.BuilderBasics FstV.proofs.BuilderNoPanic.

(* one call, any builder state (reachable or not).  Clause 2 needs no "and it is not the duplicate
   case": key_ltb k l = true already excludes k = l.  Clause 5 is the acceptance criterion of the
   property text: strictly greater for insert, greater or equal for add. *)
Theorem C06_reject_iff : forall (b : builder) (o : op),
  (forall k, snd (apply_op b o) = Err (EDuplicateKey k) <->
             (exists v, o = OpInsert k v) /\ b_last b = Some k) /\
  (forall l k, snd (apply_op b o) = Err (EOutOfOrder l k) <->
             op_key o = k /\ b_last b = Some l /\ key_ltb k l = true) /\
  (forall e, snd (apply_op b o) = Err e -> is_order_err e /\ fst (apply_op b o) = b) /\
  ((forall e, snd (apply_op b o) <> Err e) -> b_last (fst (apply_op b o)) = Some (op_key o)) /\
  ((forall e, snd (apply_op b o) <> Err e) <->
     match b_last b with
     | None => True
     | Some l => match o with OpInsert k _ => key_ltb l k = true | OpAdd k => key_leb l k = true end
     end).
Proof. exact reject_iff. Qed.

(* a rejected call returns the very same state (stronger than observational equivalence);
   ordering errors are the only errors the model of the builder can produce (the sink of the
   model accepts everything: I/O errors are C07's subject) *)
Theorem C06_reject_state_identity : forall b o b' e,
  apply_op b o = (b', Err e) -> b' = b /\ is_order_err e.
Proof. exact reject_state_identity. Qed.

(* single calls: per-call results are the specified ones as long as no call panics ... *)
Theorem C06_calls_results_spec : forall ty rows cols ops,
  Forall (fun r => r = Ok tt \/ exists e, r = Err e /\ is_order_err e)
         (snd (run_calls (new_builder ty rows cols) ops)) ->
  snd (run_calls (new_builder ty rows cols) ops) = spec_calls None ops.
Proof.
  intros ty rows cols ops H. apply no_panic_iff in H.
  now rewrite (calls_results_spec ops _ H), new_builder_last.
Qed.

(* ... and in any case each result is the specified one or a panic of an accepted call *)
Theorem C06_calls_results_rel : forall ops b,
  Forall2 (fun r s => r = s \/ (r = Panic /\ s = Ok tt)) (snd (run_calls b ops)) (spec_calls (b_last b) ops).
Proof. exact calls_results_rel. Qed.

Theorem C06_calls_results_shape : forall ops b,
  Forall (fun r => r = Ok tt \/ r = Panic \/ exists e, r = Err e /\ is_order_err e) (snd (run_calls b ops)).
Proof. exact calls_results_shape. Qed.

(* the state after all calls is the state after the accepted calls only (unconditionally) *)
Theorem C06_calls_state_accepted : forall ops b,
  fst (run_calls b ops) = fst (run_calls b (accepted_ops (b_last b) ops)).
Proof. exact calls_state_accepted. Qed.

Theorem C06_rejected_leave_no_trace : forall summer ops b,
  b_finish summer (fst (run_calls b ops)) =
  b_finish summer (fst (run_calls b (accepted_ops (b_last b) ops))).
Proof. exact rejected_leave_no_trace. Qed.

Theorem C06_rejected_leave_no_trace_build : forall summer ty rows cols ops,
  Forall (fun r => r <> Panic) (snd (run_calls (new_builder ty rows cols) ops)) ->
  b_finish summer (fst (run_calls (new_builder ty rows cols) ops)) =
  build_ops summer ty rows cols (accepted_ops None ops).
Proof. exact rejected_leave_no_trace_build. Qed.

(* specification side: content and results of all calls = those of the accepted calls alone, so
   C01 (finished bytes are a well-formed FST whose content is spec_content) applied to
   [accepted_ops None ops] gives "the finished FST contains exactly the accepted keys and values" *)
Theorem C06_spec_content_accepted : forall ops last acc,
  spec_content last ops acc = spec_content last (accepted_ops last ops) acc.
Proof. exact spec_content_accepted. Qed.
Theorem C06_spec_calls_accepted : forall ops last,
  Forall (fun r => r = Ok tt) (spec_calls last (accepted_ops last ops)).
Proof. exact spec_calls_accepted. Qed.

(* extend_iter / extend_stream / from_iter: the result is the first non-Ok single-call result,
   the state is the state after the accepted prefix, the error (if any) is an ordering error *)
Theorem C06_extend_first_error : forall ops b,
  snd (run_extend b ops) = first_non_ok (snd (run_calls b ops)).
Proof. exact extend_first_error. Qed.

Theorem C06_extend_stops_at_first_error : forall ops b,
  snd (run_extend b ops) <> Panic ->
  run_extend b ops = (fst (run_calls b (fst (accepted_prefix (b_last b) ops))),
                      snd (accepted_prefix (b_last b) ops)) /\
  Forall (fun r => r = Ok tt) (snd (run_calls b (fst (accepted_prefix (b_last b) ops)))) /\
  (forall e, snd (run_extend b ops) = Err e -> is_order_err e).
Proof. exact extend_stops_at_first_error. Qed.

(* ---------- closed forms: no "no call panicked" premise ----------
   The builder model cannot panic on inputs within the bounds below, whatever mix of valid,
   duplicate, smaller and empty keys it is fed: the full builder invariant (proofs/BuilderInv.v,
   kept by every accepted call: BuilderProofs4.apply_op_ok, with the codec laws proved in
   NodeCodec.v) survives rejected calls because they return the same state.  Bounds: key bytes
   < 256 and values < 2^64 (what u8 / u64 give for free), and the size budget of C01
   ([size_ok_ops]: NODE_MAX * (1 + total key bytes) + 100 < 2^64, so that no address wraps) over
   the ACCEPTED calls only — rejected calls cost nothing. *)
Definition ops_in_range (ops : list op) : Prop :=
  Forall (fun o => Forall (fun b => b < 256) (op_key o) /\ op_val o < U64) ops.

Theorem C06_calls_never_panic : forall ty rows cols ops,
  ops_in_range ops -> size_ok_ops (accepted_ops None ops) ->
  Forall (fun r => r <> Panic) (snd (run_calls (new_builder ty rows cols) ops)).
Proof. exact calls_never_panic. Qed.

(* the budget over all calls is enough *)
Theorem C06_size_ok_accepted : forall ops last, size_ok_ops ops -> size_ok_ops (accepted_ops last ops).
Proof. exact size_ok_accepted. Qed.

Theorem C06_calls_results_closed : forall ty rows cols ops,
  ops_in_range ops -> size_ok_ops (accepted_ops None ops) ->
  snd (run_calls (new_builder ty rows cols) ops) = spec_calls None ops.
Proof. exact calls_results_closed. Qed.

(* after any such session, finish writes exactly the bytes of from_iter over the accepted calls,
   and (C01, build_ops_correct) those bytes are a well-formed FST whose content is the content
   specified for the whole session: exactly the accepted keys and values *)
Theorem C06_rejected_leave_no_trace_closed : forall summer ty rows cols ops,
  ops_in_range ops -> size_ok_ops (accepted_ops None ops) ->
  ty < U64 -> (forall l, summer l < 4294967296) ->
  exists bs p,
    b_finish summer (fst (run_calls (new_builder ty rows cols) ops)) = Ok bs /\
    build_ops summer ty rows cols (accepted_ops None ops) = Ok bs /\
    spec_parse bs = Some p /\
    p_version p = 3 /\ p_ty p = ty /\ p_len p = len (spec_content None ops []) /\
    p_content p = spec_content None ops [] /\
    p_checksum p = Some (summer (firstn (length bs - 4) bs)) /\
    wf_fst_b bs = true.
Proof. exact rejected_leave_no_trace_closed. Qed.

(* extend_iter / extend_stream / from_iter never panic, stop at the first rejected item with the
   specified ordering error, in the state reached by the accepted prefix; only the prefix is
   executed, so only the prefix counts for the budget *)
Theorem C06_extend_closed : forall ty rows cols ops,
  ops_in_range ops -> size_ok_ops (fst (accepted_prefix None ops)) ->
  let b0 := new_builder ty rows cols in
  run_extend b0 ops = (fst (run_calls b0 (fst (accepted_prefix None ops))), snd (accepted_prefix None ops)) /\
  Forall (fun r => r = Ok tt) (snd (run_calls b0 (fst (accepted_prefix None ops)))) /\
  snd (run_extend b0 ops) <> Panic /\
  (forall e, snd (run_extend b0 ops) = Err e -> is_order_err e).
Proof. exact extend_closed. Qed.

(* non-vacuity: a map session with an out-of-order and a duplicate insert in the middle, and a
   set session with a repeat; the rejected calls change nothing and the bytes are those of the
   accepted calls alone *)
Definition ex_ops : list op :=
  [OpInsert [98] 1; OpInsert [97] 2; OpInsert [98] 3; OpInsert [98; 99] 4; OpInsert [] 9; OpInsert [100] 5].
Example C06_nonvacuous_map :
  snd (run_calls (new_builder 0 4 2) ex_ops) =
    [Ok tt; Err (EOutOfOrder [98] [97]); Err (EDuplicateKey [98]); Ok tt; Err (EOutOfOrder [98; 99] []); Ok tt] /\
  accepted_ops None ex_ops = [OpInsert [98] 1; OpInsert [98; 99] 4; OpInsert [100] 5] /\
  run_extend (new_builder 0 4 2) ex_ops =
    (fst (run_calls (new_builder 0 4 2) [OpInsert [98] 1]), Err (EOutOfOrder [98] [97])) /\
  (exists bytes, b_finish (fun _ => 0) (fst (run_calls (new_builder 0 4 2) ex_ops)) = Ok bytes /\
                 build_ops (fun _ => 0) 0 4 2 (accepted_ops None ex_ops) = Ok bytes /\ length bytes = 50%nat).
Proof. vm_compute. repeat split. eexists. repeat split. Qed.

Example C06_nonvacuous_set :
  snd (run_calls (new_builder 0 4 2) [OpAdd [97]; OpAdd [97]; OpAdd []; OpAdd [98]]) =
    [Ok tt; Ok tt; Err (EOutOfOrder [97] []); Ok tt] /\
  build_ops (fun _ => 0) 0 4 2 [OpAdd [97]; OpAdd [97]; OpAdd [98]] =
  build_ops (fun _ => 0) 0 4 2 [OpAdd [97]; OpAdd [98]].
Proof. vm_compute. split; reflexivity. Qed.

(* the premises of the closed forms hold of the example session *)
Example C06_closed_nonvacuous :
  ops_in_range ex_ops /\ size_ok_ops (accepted_ops None ex_ops) /\ size_ok_ops (fst (accepted_prefix None ex_ops)).
Proof. split; [repeat constructor|split; reflexivity]. Qed.

Check C06_reject_state_identity : forall b o b' e, apply_op b o = (b', Err e) -> b' = b /\ is_order_err e.
Check C06_calls_state_accepted : forall ops b,
  fst (run_calls b ops) = fst (run_calls b (accepted_ops (b_last b) ops)).
Check C06_extend_first_error : forall ops b, snd (run_extend b ops) = first_non_ok (snd (run_calls b ops)).
Check C06_calls_never_panic : forall ty rows cols ops,
  Forall (fun o => Forall (fun b => b < 256) (op_key o) /\ op_val o < U64) ops ->
  NODE_MAX * (1 + key_bytes (map op_key (accepted_ops None ops))) + 100 < U64 ->
  Forall (fun r => r <> Panic) (snd (run_calls (new_builder ty rows cols) ops)).
Print Assumptions C06_reject_iff.
Print Assumptions C06_reject_state_identity.
Print Assumptions C06_calls_results_spec.
Print Assumptions C06_calls_results_rel.
Print Assumptions C06_calls_results_shape.
Print Assumptions C06_calls_state_accepted.
Print Assumptions C06_rejected_leave_no_trace.
Print Assumptions C06_rejected_leave_no_trace_build.
Print Assumptions C06_spec_content_accepted.
Print Assumptions C06_spec_calls_accepted.
Print Assumptions C06_extend_first_error.
Print Assumptions C06_extend_stops_at_first_error.
Print Assumptions C06_calls_never_panic.
Print Assumptions C06_size_ok_accepted.
Print Assumptions C06_calls_results_closed.
Print Assumptions C06_rejected_leave_no_trace_closed.
Print Assumptions C06_extend_closed.
Print Assumptions C06_closed_nonvacuous.
Print Assumptions C06_nonvacuous_map.
Print Assumptions C06_nonvacuous_set.
