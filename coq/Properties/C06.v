(* C06 — a map builder accepts a key iff it is strictly greater than the last accepted key, a set
   builder iff it is greater than or equal (a repeat is a no-op); otherwise the call returns
   OutOfOrder / DuplicateKey carrying the offending key(s); a rejected call leaves the builder
   exactly as it was; from_iter / extend_iter / extend_stream stop at the first rejected item with
   that same error.  Statements only; proofs in proofs/BuilderBasics.v.

   Model: Builder.v ([apply_op] = one `insert` / `add` call on raw::Builder, [run_calls] = a
   sequence of single calls whose results the caller sees, [run_extend] = extend_iter /
   extend_stream / from_iter).  Specification of the check: Fst.v ([spec_call], [spec_calls],
   [accepted_prefix]).  "The finished FST contains exactly the accepted keys and values" is then
   C01 (builder output is a well-formed FST with content [spec_content]) applied to the accepted
   calls: by [C06_rejected_leave_no_trace_build] the bytes are those of from_iter over
   [accepted_ops None ops]. *)
Require Import FstV.Base FstV.Builder FstV.Format FstV.CodecSpec FstV.Fst.
Require Import FstV.proofs.BuilderInv FstV.proofs.BuilderBasics FstV.proofs.BuilderNoPanic FstV.proofs.BuilderBatches.

(* one call, any builder state (reachable or not).  Clause 2 needs no "and it is not the duplicate
   case": key_ltb k l = true already excludes k = l.  Clause 5 is the acceptance criterion of the
   property text: strictly greater for insert, greater or equal for add. *)
Theorem C06_reject_iff : forall (b : builder) (o : op),
  (forall k, snd (apply_op b o) = Err (EDuplicateKey k) <->
             (exists v, o = OpInsert k v) /\ b_last b = Some k) /\
  (forall l k, snd (apply_op b o) = Err (EOutOfOrder l k) <->
             op_key o = k /\ b_last b = Some l /\ key_ltb k l = true) /\
  (forall e, snd (apply_op b o) = Err e -> is_order_err e /\ fst (apply_op b o) = b) /\
  ((forall e, snd (apply_op b o) <> Err e) -> b_last (fst (apply_op b o)) = Some (op_key o)) /\
  ((forall e, snd (apply_op b o) <> Err e) <->
     match b_last b with
     | None => True
     | Some l => match o with OpInsert k _ => key_ltb l k = true | OpAdd k => key_leb l k = true end
     end).
Proof. exact reject_iff. Qed.

(* a rejected call returns the very same state (stronger than observational equivalence);
   ordering errors are the only errors the model of the builder can produce (the sink of the
   model accepts everything: I/O errors are C07's subject) *)
Theorem C06_reject_state_identity : forall b o b' e,
  apply_op b o = (b', Err e) -> b' = b /\ is_order_err e.
Proof. exact reject_state_identity. Qed.

(* single calls: per-call results are the specified ones as long as no call panics ... *)
Theorem C06_calls_results_spec : forall ty rows cols ops,
  Forall (fun r => r = Ok tt \/ exists e, r = Err e /\ is_order_err e)
         (snd (run_calls (new_builder ty rows cols) ops)) ->
  snd (run_calls (new_builder ty rows cols) ops) = spec_calls None ops.
Proof.
  intros ty rows cols ops H. apply no_panic_iff in H.
  now rewrite (calls_results_spec ops _ H), new_builder_last.
Qed.

(* ... and in any case each result is the specified one or a panic of an accepted call *)
Theorem C06_calls_results_rel : forall ops b,
  Forall2 (fun r s => r = s \/ (r = Panic /\ s = Ok tt)) (snd (run_calls b ops)) (spec_calls (b_last b) ops).
Proof. exact calls_results_rel. Qed.

Theorem C06_calls_results_shape : forall ops b,
  Forall (fun r => r = Ok tt \/ r = Panic \/ exists e, r = Err e /\ is_order_err e) (snd (run_calls b ops)).
Proof. exact calls_results_shape. Qed.

(* the state after all calls is the state after the accepted calls only (unconditionally) *)
Theorem C06_calls_state_accepted : forall ops b,
  fst (run_calls b ops) = fst (run_calls b (accepted_ops (b_last b) ops)).
Proof. exact calls_state_accepted. Qed.

Theorem C06_rejected_leave_no_trace : forall summer ops b,
  b_finish summer (fst (run_calls b ops)) =
  b_finish summer (fst (run_calls b (accepted_ops (b_last b) ops))).
Proof. exact rejected_leave_no_trace. Qed.

Theorem C06_rejected_leave_no_trace_build : forall summer ty rows cols ops,
  Forall (fun r => r <> Panic) (snd (run_calls (new_builder ty rows cols) ops)) ->
  b_finish summer (fst (run_calls (new_builder ty rows cols) ops)) =
  build_ops summer ty rows cols (accepted_ops None ops).
Proof. exact rejected_leave_no_trace_build. Qed.

(* specification side: content and results of all calls = those of the accepted calls alone, so
   C01 (finished bytes are a well-formed FST whose content is spec_content) applied to
   [accepted_ops None ops] gives "the finished FST contains exactly the accepted keys and values" *)
Theorem C06_spec_content_accepted : forall ops last acc,
  spec_content last ops acc = spec_content last (accepted_ops last ops) acc.
Proof. exact spec_content_accepted. Qed.
Theorem C06_spec_calls_accepted : forall ops last,
  Forall (fun r => r = Ok tt) (spec_calls last (accepted_ops last ops)).
Proof. exact spec_calls_accepted. Qed.

(* extend_iter / extend_stream / from_iter: the result is the first non-Ok single-call result,
   the state is the state after the accepted prefix, the error (if any) is an ordering error *)
Theorem C06_extend_first_error : forall ops b,
  snd (run_extend b ops) = first_non_ok (snd (run_calls b ops)).
Proof. exact extend_first_error. Qed.

Theorem C06_extend_stops_at_first_error : forall ops b,
  snd (run_extend b ops) <> Panic ->
  run_extend b ops = (fst (run_calls b (fst (accepted_prefix (b_last b) ops))),
                      snd (accepted_prefix (b_last b) ops)) /\
  Forall (fun r => r = Ok tt) (snd (run_calls b (fst (accepted_prefix (b_last b) ops)))) /\
  (forall e, snd (run_extend b ops) = Err e -> is_order_err e).
Proof. exact extend_stops_at_first_error. Qed.

(* ---------- closed forms: no "no call panicked" premise ----------
   The builder model cannot panic on inputs within the bounds below, whatever mix of valid,
   duplicate, smaller and empty keys it is fed: the full builder invariant (proofs/BuilderInv.v,
   kept by every accepted call: BuilderProofs4.apply_op_ok, with the codec laws proved in
   NodeCodec.v) survives rejected calls because they return the same state.  Bounds: key bytes
   < 256 and values < 2^64 (what u8 / u64 give for free), and the size budget of C01
   ([size_ok_ops]: NODE_MAX * (1 + total key bytes) + 100 < 2^64, so that no address wraps) over
   the ACCEPTED calls only — rejected calls cost nothing. *)
Definition ops_in_range (ops : list op) : Prop :=
  Forall (fun o => Forall (fun b => b < 256) (op_key o) /\ op_val o < U64) ops.

Theorem C06_calls_never_panic : forall ty rows cols ops,
  ops_in_range ops -> size_ok_ops (accepted_ops None ops) ->
  Forall (fun r => r <> Panic) (snd (run_calls (new_builder ty rows cols) ops)).
Proof. exact calls_never_panic. Qed.

(* the budget over all calls is enough *)
Theorem C06_size_ok_accepted : forall ops last, size_ok_ops ops -> size_ok_ops (accepted_ops last ops).
Proof. exact size_ok_accepted. Qed.

Theorem C06_calls_results_closed : forall ty rows cols ops,
  ops_in_range ops -> size_ok_ops (accepted_ops None ops) ->
  snd (run_calls (new_builder ty rows cols) ops) = spec_calls None ops.
Proof. exact calls_results_closed. Qed.

(* after any such session, finish writes exactly the bytes of from_iter over the accepted calls,
   and (C01, build_ops_correct) those bytes are a well-formed FST whose content is the content
   specified for the whole session: exactly the accepted keys and values *)
Theorem C06_rejected_leave_no_trace_closed : forall summer ty rows cols ops,
  ops_in_range ops -> size_ok_ops (accepted_ops None ops) ->
  ty < U64 -> (forall l, summer l < 4294967296) ->
  exists bs p,
    b_finish summer (fst (run_calls (new_builder ty rows cols) ops)) = Ok bs /\
    build_ops summer ty rows cols (accepted_ops None ops) = Ok bs /\
    spec_parse bs = Some p /\
    p_version p = 3 /\ p_ty p = ty /\ p_len p = len (spec_content None ops []) /\
    p_content p = spec_content None ops [] /\
    p_checksum p = Some (summer (firstn (length bs - 4) bs)) /\
    wf_fst_b bs = true.
Proof. exact rejected_leave_no_trace_closed. Qed.

(* extend_iter / extend_stream / from_iter never panic, stop at the first rejected item with the
   specified ordering error, in the state reached by the accepted prefix; only the prefix is
   executed, so only the prefix counts for the budget *)
Theorem C06_extend_closed : forall ty rows cols ops,
  ops_in_range ops -> size_ok_ops (fst (accepted_prefix None ops)) ->
  let b0 := new_builder ty rows cols in
  run_extend b0 ops = (fst (run_calls b0 (fst (accepted_prefix None ops))), snd (accepted_prefix None ops)) /\
  Forall (fun r => r = Ok tt) (snd (run_calls b0 (fst (accepted_prefix None ops)))) /\
  snd (run_extend b0 ops) <> Panic /\
  (forall e, snd (run_extend b0 ops) = Err e -> is_order_err e).
Proof. exact extend_closed. Qed.

(* non-vacuity: a map session with an out-of-order and a duplicate insert in the middle, and a
   set session with a repeat; the rejected calls change nothing and the bytes are those of the
   accepted calls alone *)
Definition ex_ops : list op :=
  [OpInsert [98] 1; OpInsert [97] 2; OpInsert [98] 3; OpInsert [98; 99] 4; OpInsert [] 9; OpInsert [100] 5].
Example C06_nonvacuous_map :
  snd (run_calls (new_builder 0 4 2) ex_ops) =
    [Ok tt; Err (EOutOfOrder [98] [97]); Err (EDuplicateKey [98]); Ok tt; Err (EOutOfOrder [98; 99] []); Ok tt] /\
  accepted_ops None ex_ops = [OpInsert [98] 1; OpInsert [98; 99] 4; OpInsert [100] 5] /\
  run_extend (new_builder 0 4 2) ex_ops =
    (fst (run_calls (new_builder 0 4 2) [OpInsert [98] 1]), Err (EOutOfOrder [98] [97])) /\
  (exists bytes, b_finish (fun _ => 0) (fst (run_calls (new_builder 0 4 2) ex_ops)) = Ok bytes /\
                 build_ops (fun _ => 0) 0 4 2 (accepted_ops None ex_ops) = Ok bytes /\ length bytes = 50%nat).
Proof. vm_compute. repeat split. eexists. repeat split. Qed.

Example C06_nonvacuous_set :
  snd (run_calls (new_builder 0 4 2) [OpAdd [97]; OpAdd [97]; OpAdd []; OpAdd [98]]) =
    [Ok tt; Ok tt; Err (EOutOfOrder [97] []); Ok tt] /\
  build_ops (fun _ => 0) 0 4 2 [OpAdd [97]; OpAdd [97]; OpAdd [98]] =
  build_ops (fun _ => 0) 0 4 2 [OpAdd [97]; OpAdd [98]].
Proof. vm_compute. split; reflexivity. Qed.

(* the premises of the closed forms hold of the example session *)
Example C06_closed_nonvacuous :
  ops_in_range ex_ops /\ size_ok_ops (accepted_ops None ex_ops) /\ size_ok_ops (fst (accepted_prefix None ex_ops)).
Proof. split; [repeat constructor|split; reflexivity]. Qed.

(* ---------- several extend batches on ONE builder ----------
   extend_iter / extend_stream may be called several times on the same builder; a batch that stops
   at a rejected item returns that error and leaves a builder that is used further.  Model:
   [Builder.run_batches] (fold of [run_extend], one result per batch) and [Builder.batches_written];
   specification: [Fst.spec_batches last batches] = (accepted items overall, one result per batch,
   last accepted key): per batch [accepted_prefix] judged from the last ACCEPTED key so far.
   Proofs in proofs/BuilderBatches.v.  Premises as above: bytes / values in range, and the size
   budget over the accepted items only (neither a rejected item nor the skipped rest of a failed
   batch costs anything). *)
Definition batches_in_range (batches : list (list op)) : Prop := Forall ops_in_range batches.

(* (a) every batch returns the specified result: never Panic, Ok or an ordering error, namely the
   first non-Ok result its items would get one by one ([first_non_ok] of [spec_calls], equally of
   the model's [run_calls] from the state the earlier batches left), judged from the last key
   accepted in the batches before it *)
Theorem C06_batches_results : forall ty rows cols batches,
  batches_in_range batches -> size_ok_ops (fst (fst (spec_batches None batches))) ->
  let b0 := new_builder ty rows cols in
  snd (run_batches b0 batches) = snd (fst (spec_batches None batches)) /\
  Forall (fun r => r <> Panic) (snd (run_batches b0 batches)) /\
  Forall (fun r => r = Ok tt \/ exists e, r = Err e /\ is_order_err e) (snd (run_batches b0 batches)) /\
  (forall pre ops post, batches = pre ++ ops :: post ->
     nth_error (snd (run_batches b0 batches)) (length pre) =
       Some (first_non_ok (spec_calls (snd (spec_batches None pre)) ops)) /\
     first_non_ok (spec_calls (snd (spec_batches None pre)) ops) =
       first_non_ok (snd (run_calls (fst (run_batches b0 pre)) ops))).
Proof. exact batches_results. Qed.

(* the same for every builder reachable from a new one by an earlier history of batches (single
   calls are batches of one item: [C06_calls_are_batches]): the further batches are judged from
   the last key the history got accepted, none panics, and the state afterwards is the state
   after the accepted items alone *)
Theorem C06_batches_results_reachable : forall ty rows cols history batches,
  batches_in_range (history ++ batches) ->
  size_ok_ops (fst (fst (spec_batches None (history ++ batches)))) ->
  let b := fst (run_batches (new_builder ty rows cols) history) in
  b_last b = snd (spec_batches None history) /\
  snd (run_batches b batches) = snd (fst (spec_batches (b_last b) batches)) /\
  Forall (fun r => r <> Panic) (snd (run_batches b batches)) /\
  fst (run_batches b batches) = fst (run_calls b (fst (fst (spec_batches (b_last b) batches)))).
Proof. exact batches_results_reachable. Qed.

Theorem C06_calls_are_batches : forall ops b, run_batches b (map (fun o => [o]) ops) = run_calls b ops.
Proof. exact calls_are_batches. Qed.

Theorem C06_run_batches_app : forall bs1 b bs2,
  run_batches b (bs1 ++ bs2) =
  (fst (run_batches (fst (run_batches b bs1)) bs2),
   snd (run_batches b bs1) ++ snd (run_batches (fst (run_batches b bs1)) bs2)).
Proof. exact run_batches_app. Qed.

(* (b) rejected items and the skipped rest of a failed batch leave no trace: the state after the
   batches is the state after the accepted items alone (as single calls, all Ok, or as one
   extend), so finish writes the bytes of from_iter over the accepted items, and those bytes are
   a well-formed FST whose content is exactly the accepted keys and values *)
Theorem C06_batches_leave_no_trace : forall summer ty rows cols batches,
  batches_in_range batches -> size_ok_ops (fst (fst (spec_batches None batches))) ->
  ty < U64 -> (forall l, summer l < 4294967296) ->
  let b0 := new_builder ty rows cols in
  let accepted := fst (fst (spec_batches None batches)) in
  fst (run_batches b0 batches) = fst (run_calls b0 accepted) /\
  run_extend b0 accepted = (fst (run_batches b0 batches), Ok tt) /\
  Forall (fun r => r = Ok tt) (snd (run_calls b0 accepted)) /\
  b_last (fst (run_batches b0 batches)) = snd (spec_batches None batches) /\
  exists bs p,
    b_finish summer (fst (run_batches b0 batches)) = Ok bs /\
    build_ops summer ty rows cols accepted = Ok bs /\
    spec_parse bs = Some p /\
    p_version p = 3 /\ p_ty p = ty /\ p_len p = len (spec_content None accepted []) /\
    p_content p = spec_content None accepted [] /\
    p_checksum p = Some (summer (firstn (length bs - 4) bs)) /\
    wf_fst_b bs = true.
Proof. exact batches_leave_no_trace. Qed.

(* the accepted items, replayed alone, are all accepted *)
Theorem C06_batches_accepted_accepted : forall batches last,
  accepted_ops last (fst (fst (spec_batches last batches))) = fst (fst (spec_batches last batches)).
Proof. exact sb_accepted_accepted. Qed.

(* (c) cutting a sequence into batches changes nothing but where processing stops: while the
   batches so far were fully accepted, a further batch behaves like the tail of one long extend
   (state and result); if every batch is fully accepted, the batches end in the state of one
   extend over their concatenation.  Unconditional, for every starting state. *)
Theorem C06_batches_eq_calls_gen : forall pre b ops,
  Forall (fun r => r = Ok tt) (snd (run_batches b pre)) ->
  run_extend b (concat pre ++ ops) = run_extend (fst (run_batches b pre)) ops.
Proof. exact batches_eq_extend_gen. Qed.

Theorem C06_batches_eq_calls : forall b batches,
  Forall (fun r => r = Ok tt) (snd (run_batches b batches)) ->
  run_extend b (concat batches) = (fst (run_batches b batches), Ok tt).
Proof. exact batches_eq_extend. Qed.

Theorem C06_spec_batches_all_ok : forall batches last,
  Forall (fun r => r = Ok tt) (snd (fst (spec_batches last batches))) ->
  fst (fst (spec_batches last batches)) = concat batches.
Proof. exact sb_all_ok. Qed.

(* bytes_written after every batch is b_count of the state after that many batches *)
Theorem C06_batches_written : forall batches b,
  batches_written b batches =
  map (fun n => b_count (fst (run_batches b (firstn n batches)))) (seq 1 (length batches)).
Proof. exact batches_written_spec. Qed.

(* (d) non-vacuity: three batches over the keys a, b, d, c, e.  The second batch fails in the
   middle (c after d: OutOfOrder with previous = d, e is not looked at); inserting the failed key
   again on the builder it left is rejected with the same previous, inserting d again is
   DuplicateKey, both leave that builder as it is; the third batch adds e.  The rejected calls put
   in between as batches of one item change nothing.  The finished file holds a, b, d, e. *)
Definition ex_batches : list (list op) :=
  [[OpInsert [97] 1; OpInsert [98] 2]; [OpInsert [100] 3; OpInsert [99] 4; OpInsert [101] 5]; [OpInsert [101] 6]].
Definition ex_batches_retry : list (list op) :=
  [[OpInsert [97] 1; OpInsert [98] 2]; [OpInsert [100] 3; OpInsert [99] 4; OpInsert [101] 5];
   [OpInsert [99] 7]; [OpInsert [100] 8]; [OpInsert [101] 6]].
Example C06_batches_nonvacuous :
  let b0 := new_builder 0 4 2 in
  let b2 := fst (run_batches b0 (firstn 2 ex_batches)) in
  snd (run_batches b0 ex_batches) = [Ok tt; Err (EOutOfOrder [100] [99]); Ok tt] /\
  spec_batches None ex_batches =
    ([OpInsert [97] 1; OpInsert [98] 2; OpInsert [100] 3; OpInsert [101] 6],
     [Ok tt; Err (EOutOfOrder [100] [99]); Ok tt], Some [101]) /\
  apply_op b2 (OpInsert [99] 7) = (b2, Err (EOutOfOrder [100] [99])) /\
  apply_op b2 (OpInsert [100] 8) = (b2, Err (EDuplicateKey [100])) /\
  snd (run_batches b0 ex_batches_retry) =
    [Ok tt; Err (EOutOfOrder [100] [99]); Err (EOutOfOrder [100] [99]); Err (EDuplicateKey [100]); Ok tt] /\
  fst (run_batches b0 ex_batches_retry) = fst (run_batches b0 ex_batches) /\
  fst (fst (spec_batches None ex_batches_retry)) = fst (fst (spec_batches None ex_batches)) /\
  batches_written b0 ex_batches = [16; 16; 16] /\
  spec_content None (fst (fst (spec_batches None ex_batches))) [] = [([97], 1); ([98], 2); ([100], 3); ([101], 6)] /\
  (* finish: the bytes of from_iter over the four accepted items; the format specification reads
     exactly a, b, d, e out of them *)
  b_finish (fun _ => 0) (fst (run_batches b0 ex_batches)) =
    build_ops (fun _ => 0) 0 4 2 [OpInsert [97] 1; OpInsert [98] 2; OpInsert [100] 3; OpInsert [101] 6] /\
  match b_finish (fun _ => 0) (fst (run_batches b0 ex_batches)) with
  | Ok bytes => option_map (fun p => (p_content p, p_len p, wf_fst_b bytes)) (spec_parse bytes)
  | _ => None
  end = Some ([([97], 1); ([98], 2); ([100], 3); ([101], 6)], 4, true).
Proof. vm_compute. repeat split. Qed.

(* the premises of the batch theorems hold of the example *)
Example C06_batches_closed_nonvacuous :
  batches_in_range ex_batches_retry /\ size_ok_ops (fst (fst (spec_batches None ex_batches_retry))).
Proof. split; [repeat constructor|reflexivity]. Qed.

Check C06_reject_state_identity : forall b o b' e, apply_op b o = (b', Err e) -> b' = b /\ is_order_err e.
Check C06_calls_state_accepted : forall ops b,
  fst (run_calls b ops) = fst (run_calls b (accepted_ops (b_last b) ops)).
Check C06_extend_first_error : forall ops b, snd (run_extend b ops) = first_non_ok (snd (run_calls b ops)).
Check C06_calls_never_panic : forall ty rows cols ops,
  Forall (fun o => Forall (fun b => b < 256) (op_key o) /\ op_val o < U64) ops ->
  NODE_MAX * (1 + key_bytes (map op_key (accepted_ops None ops))) + 100 < U64 ->
  Forall (fun r => r <> Panic) (snd (run_calls (new_builder ty rows cols) ops)).
Print Assumptions C06_reject_iff.
Print Assumptions C06_reject_state_identity.
Print Assumptions C06_calls_results_spec.
Print Assumptions C06_calls_results_rel.
Print Assumptions C06_calls_results_shape.
Print Assumptions C06_calls_state_accepted.
Print Assumptions C06_rejected_leave_no_trace.
Print Assumptions C06_rejected_leave_no_trace_build.
Print Assumptions C06_spec_content_accepted.
Print Assumptions C06_spec_calls_accepted.
Print Assumptions C06_extend_first_error.
Print Assumptions C06_extend_stops_at_first_error.
Print Assumptions C06_calls_never_panic.
Print Assumptions C06_size_ok_accepted.
Print Assumptions C06_calls_results_closed.
Print Assumptions C06_rejected_leave_no_trace_closed.
Print Assumptions C06_extend_closed.
Print Assumptions C06_closed_nonvacuous.
Print Assumptions C06_nonvacuous_map.
Print Assumptions C06_nonvacuous_set.
Check C06_batches_results : forall ty rows cols batches,
  Forall (Forall (fun o => Forall (fun b => b < 256) (op_key o) /\ op_val o < U64)) batches ->
  NODE_MAX * (1 + key_bytes (map op_key (fst (fst (spec_batches None batches))))) + 100 < U64 ->
  let b0 := new_builder ty rows cols in
  snd (run_batches b0 batches) = snd (fst (spec_batches None batches)) /\
  Forall (fun r => r <> Panic) (snd (run_batches b0 batches)) /\
  Forall (fun r => r = Ok tt \/ exists e, r = Err e /\ is_order_err e) (snd (run_batches b0 batches)) /\
  (forall pre ops post, batches = pre ++ ops :: post ->
     nth_error (snd (run_batches b0 batches)) (length pre) =
       Some (first_non_ok (spec_calls (snd (spec_batches None pre)) ops)) /\
     first_non_ok (spec_calls (snd (spec_batches None pre)) ops) =
       first_non_ok (snd (run_calls (fst (run_batches b0 pre)) ops))).
Check C06_batches_eq_calls : forall b batches,
  Forall (fun r => r = Ok tt) (snd (run_batches b batches)) ->
  run_extend b (concat batches) = (fst (run_batches b batches), Ok tt).
Print Assumptions C06_batches_results.
Print Assumptions C06_batches_results_reachable.
Print Assumptions C06_calls_are_batches.
Print Assumptions C06_run_batches_app.
Print Assumptions C06_batches_leave_no_trace.
Print Assumptions C06_batches_accepted_accepted.
Print Assumptions C06_batches_eq_calls_gen.
Print Assumptions C06_batches_eq_calls.
Print Assumptions C06_spec_batches_all_ok.
Print Assumptions C06_batches_written.
Print Assumptions C06_batches_nonvacuous.
Print Assumptions C06_batches_closed_nonvacuous.
