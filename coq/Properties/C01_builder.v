(* C01 (builder side) — whatever the node cache does, the file written by Builder is accepted by
   the format specification and denotes exactly the accepted pairs.
   Statements only; proofs live in proofs/BuilderProofs1..5.v (vocabulary in proofs/BuilderInv.v).

   The two codec laws of CodecSpec.v (what compile_node writes is read back by Format.spec_node as
   the same node; compile_node is total on well-formed nodes) are hypotheses by name here; they are
   proved separately in proofs/NodeProofs.v.

   [summer] is the masked checksum function (any function into u32);  [rows cols] is the geometry of
   the node cache: EVERY geometry is covered, including rows * cols = 0 (every lookup Rejected) and
   geometries that evict on every insert — nothing about the hash function is used.

   [size_ok kvs] = NODE_MAX * (1 + total key bytes) + 100 < 2^64 with NODE_MAX = 5000.  It keeps the
   file below 2^64 bytes (so that usize/u64 counters and addresses never wrap): a node occupies at
   most 2 + 1 + 256 + 256 * (1 + 8 + 8) + 8 = 4619 <= NODE_MAX bytes, at most one node is created per
   key byte pushed on the unfinished stack plus the root, and header + footer + checksum are 36 bytes. *)
Require Import FstV.Base FstV.Pack FstV.Node FstV.Registry FstV.Builder FstV.GraphSem FstV.Format
               FstV.CodecSpec FstV.Fst.
Require Import FstV.proofs.BuilderInv FstV.proofs.BuilderProofs5.
Require Import FstV.proofs.ReaderProofs FstV.proofs.StreamProofs.

(* maps: keys strictly increasing *)
Theorem build_map_correct :
  codec_statement -> compile_total_statement ->
  forall (summer : list N -> N) (ty rows cols : N) (kvs : kmap),
    kmap_ok kvs = true ->
    Forall (fun kv => Forall (fun b => b < 256) (fst kv) /\ snd kv < U64) kvs ->
    ty < U64 -> (forall l, summer l < 4294967296) ->
    size_ok kvs ->
    exists bs p,
      build_map summer ty rows cols kvs = Ok bs /\
      spec_parse bs = Some p /\
      p_version p = 3 /\ p_ty p = ty /\ p_len p = len kvs /\ p_content p = kvs /\
      p_checksum p = Some (summer (firstn (length bs - 4) bs)) /\
      wf_fst_b bs = true.
Proof.
  intros Hc Ht summer ty rows cols kvs H1 H2 H3 H4 H5.
  destruct (build_map_correct_proof Hc Ht summer ty rows cols kvs H1 H2 H3 H4 H5) as (bs & Hb & p & Hp).
  exists bs, p. tauto.
Qed.

(* sets: keys non-decreasing, repeats allowed; the content is the de-duplicated key list, value 0 *)
Theorem build_set_correct :
  codec_statement -> compile_total_statement ->
  forall (summer : list N -> N) (ty rows cols : N) (ks : list key),
    sorted_weak ks = true ->
    Forall (Forall (fun b => b < 256)) ks ->
    ty < U64 -> (forall l, summer l < 4294967296) ->
    size_ok_keys ks ->
    exists bs p,
      build_set summer ty rows cols ks = Ok bs /\
      spec_parse bs = Some p /\
      p_version p = 3 /\ p_ty p = ty /\ p_len p = len (dedup ks) /\
      p_content p = map (fun k => (k, 0)) (dedup ks) /\
      p_checksum p = Some (summer (firstn (length bs - 4) bs)) /\
      wf_fst_b bs = true.
Proof.
  intros Hc Ht summer ty rows cols ks H1 H2 H3 H4 H5.
  destruct (build_set_correct_proof Hc Ht summer ty rows cols ks H1 H2 H3 H4 H5) as (bs & Hb & p & Hp).
  exists bs, p. destruct Hp as (A1 & A2 & A3 & A4 & A5 & A6 & A7 & _).
  repeat split; auto. rewrite A4. unfold len. rewrite map_length. reflexivity.
Qed.

(* any sequence of calls (insert and add mixed) that the call specification accepts *)
Theorem build_ops_correct :
  codec_statement -> compile_total_statement ->
  forall (summer : list N -> N) (ty rows cols : N) (ops : list op),
    Forall (fun r => r = Ok tt) (spec_calls None ops) ->
    Forall (fun o => Forall (fun b => b < 256) (op_key o) /\ op_val o < U64) ops ->
    ty < U64 -> (forall l, summer l < 4294967296) ->
    size_ok_ops ops ->
    exists bs p,
      build_ops summer ty rows cols ops = Ok bs /\
      spec_parse bs = Some p /\
      p_version p = 3 /\ p_ty p = ty /\ p_len p = len (spec_content None ops []) /\
      p_content p = spec_content None ops [] /\
      p_checksum p = Some (summer (firstn (length bs - 4) bs)) /\
      wf_fst_b bs = true.
Proof.
  intros Hc Ht summer ty rows cols ops H1 H2 H3 H4 H5.
  destruct (build_ops_correct_proof Hc Ht summer ty rows cols ops H1 H2 H3 H4 H5) as (bs & Hb & p & Hp).
  exists bs, p. tauto.
Qed.

(* ---------- the strengthened forms: what the reader-side theorems need from a built file ----------
   With g := the graph the format specification reads from the file:
   * every element of the file is a byte;
   * StreamProofs.fuel_ok g root: the unfolded graph has at most 1 + (total key bytes) nodes (every
     node of a built file has a non-empty language, so each path from the root is a distinct
     prefix of a key), hence the 2^64 iterations of the stream loops suffice;
   * GraphSem.canonical_outputs g: below every transition the smallest residual value is 0
     (find_common_prefix_and_set_output keeps on each transition the minimum of the values below
     it); this needs the repaired `add` (a repeated add of the last key moves no outputs);
   * the root address fits u64. *)
Definition built_extras (bs : list N) (p : parsed) : Prop :=
  let g := graph_of (node_table (p_nodes p)) in
  Forall (fun x => x < 256) bs /\ fuel_ok g (p_root p) /\ canonical_outputs g /\ p_root p < 2 ^ 64.

Theorem build_map_correct_full :
  codec_statement -> compile_total_statement ->
  forall (summer : list N -> N) (ty rows cols : N) (kvs : kmap),
    kmap_ok kvs = true ->
    Forall (fun kv => Forall (fun b => b < 256) (fst kv) /\ snd kv < U64) kvs ->
    ty < U64 -> (forall l, summer l < 4294967296) ->
    size_ok kvs ->
    exists bs p,
      build_map summer ty rows cols kvs = Ok bs /\
      spec_parse bs = Some p /\
      p_version p = 3 /\ p_ty p = ty /\ p_len p = len kvs /\ p_content p = kvs /\
      p_checksum p = Some (summer (firstn (length bs - 4) bs)) /\
      wf_fst_b bs = true /\
      built_extras bs p.
Proof.
  intros Hc Ht summer ty rows cols kvs H1 H2 H3 H4 H5.
  destruct (build_map_correct_proof Hc Ht summer ty rows cols kvs H1 H2 H3 H4 H5) as (bs & Hb & p & Hp).
  exists bs, p. unfold built_extras. change (2 ^ 64) with U64. tauto.
Qed.

Theorem build_set_correct_full :
  codec_statement -> compile_total_statement ->
  forall (summer : list N -> N) (ty rows cols : N) (ks : list key),
    sorted_weak ks = true ->
    Forall (Forall (fun b => b < 256)) ks ->
    ty < U64 -> (forall l, summer l < 4294967296) ->
    size_ok_keys ks ->
    exists bs p,
      build_set summer ty rows cols ks = Ok bs /\
      spec_parse bs = Some p /\
      p_version p = 3 /\ p_ty p = ty /\ p_len p = len (dedup ks) /\
      p_content p = map (fun k => (k, 0)) (dedup ks) /\
      p_checksum p = Some (summer (firstn (length bs - 4) bs)) /\
      wf_fst_b bs = true /\
      built_extras bs p.
Proof.
  intros Hc Ht summer ty rows cols ks H1 H2 H3 H4 H5.
  destruct (build_set_correct_proof Hc Ht summer ty rows cols ks H1 H2 H3 H4 H5) as (bs & Hb & p & Hp).
  exists bs, p. destruct Hp as (A1 & A2 & A3 & A4 & A5 & A6 & A7 & A8).
  unfold built_extras. change (2 ^ 64) with U64.
  repeat split; try tauto. rewrite A4. unfold len. rewrite map_length. reflexivity.
Qed.

Theorem build_ops_correct_full :
  codec_statement -> compile_total_statement ->
  forall (summer : list N -> N) (ty rows cols : N) (ops : list op),
    Forall (fun r => r = Ok tt) (spec_calls None ops) ->
    Forall (fun o => Forall (fun b => b < 256) (op_key o) /\ op_val o < U64) ops ->
    ty < U64 -> (forall l, summer l < 4294967296) ->
    size_ok_ops ops ->
    exists bs p,
      build_ops summer ty rows cols ops = Ok bs /\
      spec_parse bs = Some p /\
      p_version p = 3 /\ p_ty p = ty /\ p_len p = len (spec_content None ops []) /\
      p_content p = spec_content None ops [] /\
      p_checksum p = Some (summer (firstn (length bs - 4) bs)) /\
      wf_fst_b bs = true /\
      built_extras bs p.
Proof.
  intros Hc Ht summer ty rows cols ops H1 H2 H3 H4 H5.
  destruct (build_ops_correct_proof Hc Ht summer ty rows cols ops H1 H2 H3 H4 H5) as (bs & Hb & p & Hp).
  exists bs, p. unfold built_extras. change (2 ^ 64) with U64. tauto.
Qed.

(* the three extras one by one, for the map front end (the names used by the end-to-end composition) *)
Theorem build_map_bytes_ok :
  codec_statement -> compile_total_statement ->
  forall summer ty rows cols kvs, kmap_ok kvs = true ->
    Forall (fun kv => Forall (fun b => b < 256) (fst kv) /\ snd kv < U64) kvs ->
    ty < U64 -> (forall l, summer l < 4294967296) -> size_ok kvs ->
    forall bs, build_map summer ty rows cols kvs = Ok bs -> Forall (fun x => x < 256) bs.
Proof.
  intros Hc Ht summer ty rows cols kvs H1 H2 H3 H4 H5 bs Hbs.
  destruct (build_map_correct_full Hc Ht summer ty rows cols kvs H1 H2 H3 H4 H5) as (bs' & p & Hb & _ & _ & _ & _ & _ & _ & _ & Hx & _).
  rewrite Hbs in Hb. inversion Hb; subst. exact Hx.
Qed.

Theorem build_map_fuel_ok :
  codec_statement -> compile_total_statement ->
  forall summer ty rows cols kvs, kmap_ok kvs = true ->
    Forall (fun kv => Forall (fun b => b < 256) (fst kv) /\ snd kv < U64) kvs ->
    ty < U64 -> (forall l, summer l < 4294967296) -> size_ok kvs ->
    forall bs p, build_map summer ty rows cols kvs = Ok bs -> spec_parse bs = Some p ->
      fuel_ok (graph_of (node_table (p_nodes p))) (p_root p).
Proof.
  intros Hc Ht summer ty rows cols kvs H1 H2 H3 H4 H5 bs p Hbs Hp.
  destruct (build_map_correct_full Hc Ht summer ty rows cols kvs H1 H2 H3 H4 H5) as (bs' & p' & Hb & Hp' & _ & _ & _ & _ & _ & _ & _ & Hx & _).
  rewrite Hbs in Hb. inversion Hb; subst. rewrite Hp in Hp'. inversion Hp'; subst. exact Hx.
Qed.

Theorem build_map_canonical :
  codec_statement -> compile_total_statement ->
  forall summer ty rows cols kvs, kmap_ok kvs = true ->
    Forall (fun kv => Forall (fun b => b < 256) (fst kv) /\ snd kv < U64) kvs ->
    ty < U64 -> (forall l, summer l < 4294967296) -> size_ok kvs ->
    forall bs p, build_map summer ty rows cols kvs = Ok bs -> spec_parse bs = Some p ->
      canonical_outputs (graph_of (node_table (p_nodes p))).
Proof.
  intros Hc Ht summer ty rows cols kvs H1 H2 H3 H4 H5 bs p Hbs Hp.
  destruct (build_map_correct_full Hc Ht summer ty rows cols kvs H1 H2 H3 H4 H5) as (bs' & p' & Hb & Hp' & _ & _ & _ & _ & _ & _ & _ & _ & Hx & _).
  rewrite Hbs in Hb. inversion Hb; subst. rewrite Hp in Hp'. inversion Hp'; subst. exact Hx.
Qed.

(* the same for arbitrary accepted call sequences (this is the form that was false before the
   repair of `add`: insert("\x01",5); insert("\x02",7); add("\x02") gave get_key(5) = None) *)
Theorem build_ops_canonical :
  codec_statement -> compile_total_statement ->
  forall summer ty rows cols ops,
    Forall (fun r => r = Ok tt) (spec_calls None ops) ->
    Forall (fun o => Forall (fun b => b < 256) (op_key o) /\ op_val o < U64) ops ->
    ty < U64 -> (forall l, summer l < 4294967296) -> size_ok_ops ops ->
    forall bs p, build_ops summer ty rows cols ops = Ok bs -> spec_parse bs = Some p ->
      canonical_outputs (graph_of (node_table (p_nodes p))) /\
      fuel_ok (graph_of (node_table (p_nodes p))) (p_root p) /\
      Forall (fun x => x < 256) bs.
Proof.
  intros Hc Ht summer ty rows cols ops H1 H2 H3 H4 H5 bs p Hbs Hp.
  destruct (build_ops_correct_full Hc Ht summer ty rows cols ops H1 H2 H3 H4 H5) as (bs' & p' & Hb & Hp' & _ & _ & _ & _ & _ & _ & Hb1 & Hb2 & Hb3 & _).
  rewrite Hbs in Hb. inversion Hb; subst. rewrite Hp in Hp'. inversion Hp'; subst. auto.
Qed.

(* C16 from the builder side: a map whose values strictly increase in key order gives a file that
   satisfies every builder-side premise of C16_get_key (canonical outputs, root < 2^64, and
   values_increasing of the content, which is kvs itself); the remaining premises of C16
   (wf_graph, views, the root exists, p_content p = L g root) come from parse_views_statement *)
Theorem build_map_c16_ready :
  codec_statement -> compile_total_statement ->
  forall summer ty rows cols kvs, kmap_ok kvs = true ->
    Forall (fun kv => Forall (fun b => b < 256) (fst kv) /\ snd kv < U64) kvs ->
    ty < U64 -> (forall l, summer l < 4294967296) -> size_ok kvs ->
    values_increasing kvs = true ->
    exists bs p, build_map summer ty rows cols kvs = Ok bs /\ spec_parse bs = Some p /\
      canonical_outputs (graph_of (node_table (p_nodes p))) /\ p_root p < 2 ^ 64 /\
      values_increasing (p_content p) = true.
Proof.
  intros Hc Ht summer ty rows cols kvs H1 H2 H3 H4 H5 Hv.
  destruct (build_map_correct_full Hc Ht summer ty rows cols kvs H1 H2 H3 H4 H5) as
    (bs & p & Hb & Hp & _ & _ & _ & Hcont & _ & _ & _ & _ & Hx & Hr).
  exists bs, p. rewrite Hcont. auto.
Qed.

(* non-vacuity: the hypotheses on the input are satisfiable and the conclusion is what the model
   computes, for a map with the empty key, shared prefixes and suffixes and non-monotone values,
   under the default geometry, a one-cell cache and no cache at all *)
Definition C01_kvs : kmap :=
  [([], 7); ([1], 5); ([1;2], 3); ([1;2;3], 9); ([1;3], 4); ([2;2;3], 9); ([2;3], 1); ([3;2;3], 2)].
Definition C01_summer (l : list N) : N := (fold_left N.add l 7) mod 4294967296.
Example C01_builder_nonvacuous :
  kmap_ok C01_kvs = true /\
  Forall (fun kv => Forall (fun b => b < 256) (fst kv) /\ snd kv < U64) C01_kvs /\
  size_ok C01_kvs /\
  forall g, In g [(10000, 2); (1, 1); (0, 0)] ->
    match build_map C01_summer 5 (fst g) (snd g) C01_kvs with
    | Ok bs => match spec_parse bs with
               | Some p => p_content p = C01_kvs /\ p_len p = 8 /\ wf_fst_b bs = true
               | None => False end
    | _ => False end.
Proof.
  split; [reflexivity|]. split.
  { repeat constructor. }
  split; [reflexivity|].
  intros g [<-|[<-|[<-|[]]]]; vm_compute; repeat split.
Qed.

Check build_map_correct.
Check build_set_correct.
Check build_ops_correct.
Print Assumptions build_map_correct.
Print Assumptions build_set_correct.
Print Assumptions build_ops_correct.
Print Assumptions build_map_correct_full.
Print Assumptions build_set_correct_full.
Print Assumptions build_ops_correct_full.
Print Assumptions build_map_bytes_ok.
Print Assumptions build_map_fuel_ok.
Print Assumptions build_map_canonical.
Print Assumptions build_ops_canonical.
Print Assumptions build_map_c16_ready.
