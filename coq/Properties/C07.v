(* C07 — the bytes a sink ends up with do not depend on how it accepts writes; bytes_written()
   is the number of bytes accepted so far. Statements only; proofs in proofs/WriterProofs.v.
   The checksum is abstract: any function with the chunking law (the CRC model proves it for the
   real one). A script is benign when every response is Accept n (n >= 1) or Interrupted; an
   exhausted script accepts everything, so any finite number of short writes and Interrupted
   returns, in any order, is covered.
   "Flushed" is sink_committed: at least one flush succeeded AND the sink accepted nothing after
   its last successful flush (s_unflushed = 0) - every byte of the file, the 4 trailing checksum
   bytes included, reached the sink BEFORE the flush that into_inner ends with. A buffering or
   commit-on-flush writer therefore holds the complete file. Behind a BufWriter, additionally the
   BufWriter's own buffer is empty. C07_flush_order_guard / C07_flush_first_refuted show that the
   predicate fails as soon as something is written after the last flush. *)
Require Import FstV.Base FstV.Writer FstV.proofs.WriterProofs.

(* write_all (std's default loop): fuel len buf + len script + 1 can never run out, because each
   iteration takes a byte or consumes a scripted response *)
Theorem write_all_delivers : forall (s : sink) (buf : list N) (fuel : nat),
  Forall benign (s_oracle s) -> (length buf + length (s_oracle s) + 1 <= fuel)%nat ->
  exists s', write_loop sink_write fuel s buf = (IoOk tt, s', []) /\
             s_data s' = s_data s ++ buf /\ Forall benign (s_oracle s') /\
             (length (s_oracle s') <= length (s_oracle s))%nat.
Proof. exact write_all_delivers_fuel. Qed.

Theorem write_all_delivers_default : forall (s : sink) (buf : list N),
  Forall benign (s_oracle s) ->
  exists s', w_write_all sink_writer s buf = (IoOk tt, s') /\ s_data s' = s_data s ++ buf /\
             Forall benign (s_oracle s').
Proof. exact write_all_delivers_sink. Qed.

(* content: prefill ++ exactly the in-memory bytes; every call succeeds *)
Theorem C07_content : forall crc_update masked, chunk_law crc_update ->
  forall oracle prefill calls fin, Forall benign oracle ->
  let o := run_sink_session crc_update masked false oracle FlushOk prefill calls fin in
  let m := mem_session crc_update masked calls fin in
  s_data (o_final o) = prefill ++ s_data (o_final m) /\
  s_data (o_final m) = file_bytes crc_update masked calls fin /\
  Forall (fun r => to_res (st_of r) = Ok tt) (o_calls o) /\ length (o_calls o) = length calls /\
  (exists rf, o_fin o = Some rf /\ to_res (st_of rf) = Ok tt) /\
  sink_committed (o_final o).
Proof.
  intros crc masked [Ha Hn] oracle prefill calls fin Hb.
  pose proof (sink_session_good crc masked _ _ (uncond_law crc Ha Hn) oracle prefill calls fin (forall_forall_true _) (forall_true _) Hb) as (A & B & (rf & C1 & C2 & _) & D & E & _).
  pose proof (sink_session_good crc masked _ _ (uncond_law crc Ha Hn) [] [] calls fin (forall_forall_true _) (forall_true _) (Forall_nil _)) as (_ & _ & _ & D' & _).
  cbv zeta. unfold mem_session. rewrite D'. cbn [app].
  split; [exact D|]. split; [reflexivity|]. split; [|split; [exact B|split; [|exact E]]].
  - eapply Forall_impl; [|exact A]. intros r ->. reflexivity.
  - exists rf. rewrite C2. auto.
Qed.

(* count: after any sequence of API calls, under ANY script (faults included), the counter is the
   number of bytes the sink accepted since construction and the checksum state is that of exactly
   those bytes; each recorded bytes_written() equals the sink's length minus the prefill *)
Theorem C07_count : forall crc_update, chunk_law crc_update ->
  forall oracle fl prefill calls,
  let '(rs, c, _) := run_calls crc_update sink_writer false s_calls (fun s => length (s_data s))
                               (mkCw (new_sink oracle fl prefill) 0 0) calls in
  (exists bytes, s_data (c_inner c) = prefill ++ bytes /\ c_cnt c = len bytes /\
                 c_sum c = crc_update 0 bytes) /\
  Forall (fun r => N.of_nat (wa_of r) = len prefill + bw_of r) rs.
Proof.
  intros crc [Ha Hn] oracle fl prefill calls.
  pose proof (sink_calls_count crc _ _ (uncond_law crc Ha Hn) oracle fl prefill calls (forall_forall_true _)) as H.
  destruct (run_calls _ _ _ _ _ _ _) as [[rs c] al]. destruct H as [H1 H2]. split; auto.
  eapply Forall_impl; [|exact H2]. intros r [_ H]. exact H.
Qed.

(* BufWriter of any capacity (0 included: std then passes every write through) *)
Theorem C07_bufwriter : forall crc_update masked, chunk_law crc_update ->
  forall cap oracle prefill calls fin, Forall benign oracle ->
  let o := run_buf_session crc_update masked false cap oracle FlushOk prefill calls fin in
  let m := mem_session crc_update masked calls fin in
  s_data (b_inner (o_final o)) = prefill ++ s_data (o_final m) /\
  b_buf (o_final o) = [] /\
  Forall (fun r => to_res (st_of r) = Ok tt) (o_calls o) /\ length (o_calls o) = length calls /\
  (exists rf, o_fin o = Some rf /\ to_res (st_of rf) = Ok tt) /\
  sink_committed (b_inner (o_final o)).
Proof.
  intros crc masked [Ha Hn] cap oracle prefill calls fin Hb.
  pose proof (buf_session_good crc masked _ _ (uncond_law crc Ha Hn) cap oracle prefill calls fin (forall_forall_true _) (forall_true _) Hb) as (A & B & (rf & C1 & C2 & _) & D & E & F & _).
  pose proof (sink_session_good crc masked _ _ (uncond_law crc Ha Hn) [] [] calls fin (forall_forall_true _) (forall_true _) (Forall_nil _)) as (_ & _ & _ & D' & _).
  cbv zeta. unfold mem_session. rewrite D'. cbn [app].
  split; [exact D|]. split; [exact E|]. split; [|split; [exact B|split; [|exact F]]].
  - eapply Forall_impl; [|exact A]. intros r ->. reflexivity.
  - exists rf. rewrite C2. auto.
Qed.

Theorem C07_count_bufwriter : forall crc_update, chunk_law crc_update ->
  forall cap oracle fl prefill calls,
  let '(rs, c, _) := run_calls crc_update (bufw_writer sink_writer) false
                               (fun b => s_calls (b_inner b))
                               (fun b => (length (s_data (b_inner b)) + length (b_buf b))%nat)
                               (mkCw (mkBuf (new_sink oracle fl prefill) [] cap) 0 0) calls in
  (exists bytes, s_data (b_inner (c_inner c)) ++ b_buf (c_inner c) = prefill ++ bytes /\
                 c_cnt c = len bytes /\ c_sum c = crc_update 0 bytes) /\
  Forall (fun r => N.of_nat (wa_of r) = len prefill + bw_of r) rs.
Proof.
  intros crc [Ha Hn] cap oracle fl prefill calls.
  pose proof (buf_calls_count crc _ _ (uncond_law crc Ha Hn) cap oracle fl prefill calls (forall_forall_true _)) as H.
  destruct (run_calls _ _ _ _ _ _ _) as [[rs c] al]. destruct H as [H1 H2]. split; auto.
  eapply Forall_impl; [|exact H2]. intros r [_ H]. exact H.
Qed.

(* the committed predicate is not vacuous. For ANY sink that accepts writes benignly and whose flush
   succeeds, the sequence `flush; write_all buf` (buf non-empty) succeeds, leaves the bytes in the
   sink and the sink flushed - but NOT committed: exactly len buf bytes are pending *)
Theorem C07_flush_order_guard : forall (s : sink) (buf : list N),
  Forall benign (s_oracle s) -> s_fresp s = FlushOk -> buf <> [] ->
  let s1 := snd (sink_flush s) in
  let s2 := snd (w_write_all sink_writer s1 buf) in
  fst (sink_flush s) = IoOk tt /\ fst (w_write_all sink_writer s1 buf) = IoOk tt /\
  s_data s2 = s_data s ++ buf /\ sink_flushed s2 /\ s_unflushed s2 = length buf /\
  ~ sink_committed s2.
Proof. exact write_after_flush_not_committed. Qed.

(* the hand-made session `flush; write [1;2;3;4]` *)
Example C07_write_after_flush_example :
  let s0 := new_sink [] FlushOk [] in
  let s1 := snd (sink_flush s0) in
  let s2 := snd (sink_write s1 [1; 2; 3; 4]) in
  sink_committed s1 /\ s_data s2 = [1; 2; 3; 4] /\ sink_flushed s2 /\ s_unflushed s2 = 4%nat /\
  ~ sink_committed s2.
Proof. vm_compute. repeat split; auto. intros [_ H]. discriminate. Qed.

(* the meaning of the counter: a write call adds exactly the bytes it made the sink accept and
   never touches the flush count; a successful flush resets it, a failing one changes nothing *)
Theorem C07_unflushed_counts_writes : forall s buf r s', sink_write s buf = (r, s') ->
  (s_unflushed s' + length (s_data s) = s_unflushed s + length (s_data s'))%nat /\
  s_flushes s' = s_flushes s.
Proof. exact sink_write_unflushed. Qed.

Theorem C07_flush_commits : forall s r s', sink_flush s = (r, s') ->
  s_data s' = s_data s /\
  match r with
  | IoOk _ => s_unflushed s' = 0%nat /\ s_flushes s' = S (s_flushes s)
  | _ => s' = s
  end.
Proof. exact sink_flush_unflushed. Qed.

(* the seeded change C07-4, into_inner with `flush` BEFORE the checksum write
   (Writer.run_finish_flush_first), on a concrete session with a short write and an Interrupted:
   the real order is committed; the swapped order returns Ok with the same 11 bytes in a direct
   sink and one successful flush, but 4 bytes pending; behind a BufWriter of capacity 8 the 4
   bytes are still in its buffer, and pending in the sink once the BufWriter is dropped *)
Theorem C07_flush_first_refuted :
  let good := run_sink_session standin_update standin_masked false [Accept 2; Interrupted]%nat FlushOk []
                               [[[1; 2; 3]]; [[4]; [5; 6]]] [[7]] in
  let '(r, c) := flush_first_sink_session [Accept 2; Interrupted]%nat [[[1; 2; 3]]; [[4]; [5; 6]]] [[7]] in
  let '(rb, cb) := flush_first_buf_session 8 [Accept 2; Interrupted]%nat [[[1; 2; 3]]; [[4]; [5; 6]]] [[7]] in
  let dropped := bw_drop sink_writer (c_inner cb) in
  (sink_committed (o_final good) /\ length (s_data (o_final good)) = 11%nat) /\
  (r = IoOk tt /\ s_data (c_inner c) = s_data (o_final good) /\ sink_flushed (c_inner c) /\
   s_unflushed (c_inner c) = 4%nat /\ ~ sink_committed (c_inner c)) /\
  (rb = IoOk tt /\ length (b_buf (c_inner cb)) = 4%nat /\ ~ buf_committed (c_inner cb) /\
   s_data (b_inner dropped) = s_data (o_final good) /\ sink_flushed (b_inner dropped) /\
   s_unflushed (b_inner dropped) = 4%nat /\ ~ sink_committed (b_inner dropped)).
Proof. exact flush_first_is_seen. Qed.

(* the stand-in used by the extracted model satisfies the law, so the theorems apply to it *)
Theorem C07_standin_law : chunk_law standin_update.
Proof. split; [exact standin_app|exact standin_nil]. Qed.

(* regression witness: the behaviour before the repair (checksum the whole buffer before the
   inner write) gives a different checksum - hence different bytes - under a cap-1 sink, and
   under a single Interrupted, while counting correctly *)
Theorem C07_old_behaviour_refuted :
  let o_old := run_sink_session standin_update standin_masked true [Accept 1; Accept 1; Accept 1]%nat FlushOk [] old_witness_calls [] in
  let o_new := run_sink_session standin_update standin_masked false [Accept 1; Accept 1; Accept 1]%nat FlushOk [] old_witness_calls [] in
  let m := mem_session standin_update standin_masked old_witness_calls [] in
  s_data (o_final o_new) = s_data (o_final m) /\
  s_data (o_final o_old) <> s_data (o_final m) /\
  o_sum o_old <> standin_update 0 [1; 2; 3] /\
  o_sum o_new = standin_update 0 [1; 2; 3] /\
  firstn 3 (s_data (o_final o_old)) = [1; 2; 3].
Proof. exact old_behaviour_short_write. Qed.

Theorem C07_old_behaviour_refuted_interrupted :
  let o_old := run_sink_session standin_update standin_masked true [Interrupted] FlushOk [] old_witness_calls [] in
  let m := mem_session standin_update standin_masked old_witness_calls [] in
  s_data (o_final o_old) <> s_data (o_final m) /\ o_cnt o_old = 3.
Proof. exact old_behaviour_interrupted. Qed.

(* non-vacuity: a benign script with short writes and an Interrupted, a prefill, two calls *)
Example C07_nonvacuous :
  let o := run_sink_session standin_update standin_masked false
             [Accept 1; Interrupted; Accept 2; Interrupted; Interrupted; Accept 1]%nat FlushOk [9; 9]
             [[[1; 2; 3]; [4]]; []; [[5; 6]]] [[7]; [8]] in
  Forall benign [Accept 1; Interrupted; Accept 2; Interrupted; Interrupted; Accept 1]%nat /\
  firstn 10 (s_data (o_final o)) = [9; 9; 1; 2; 3; 4; 5; 6; 7; 8] /\ length (s_data (o_final o)) = 14%nat /\
  map bw_of (o_calls o) = [4; 4; 6] /\ s_calls (o_final o) = 10%nat.
Proof. vm_compute. repeat split; repeat constructor. Qed.

(* ================= end to end with the builder model and the real checksum =================
   Up to here the per-call chunk lists were GIVEN.  WriterBuilder.session_of computes them from the
   builder model (Builder.v): new's two header chunks, for every add/insert the chunks that call
   appends to b_out (b_out is append-only: C07_chunks_append_only), and into_inner's chunks
   (remaining nodes, root, len, root address).  real_update / real_masked are the model of
   CheckSummer (Crc.v: crc32c_slice16, summer_masked); the chunking law holds for them on
   sums < 2^32 and byte buffers (C07_real_checksum_law, from C08), which is all a session uses.
   Premises (C06): key bytes < 256, values < 2^64, the size budget over the accepted calls,
   ty < 2^64 - under them the builder model never panics. Rejected calls (DuplicateKey,
   OutOfOrder) are part of [ops]: they write nothing; st_of is the I/O status only. *)
Require Import FstV.Builder FstV.Crc FstV.Format FstV.CodecSpec FstV.Fst FstV.Reader FstV.WriterBuilder.
Require Import FstV.proofs.BuilderInv FstV.proofs.BuilderBasics FstV.proofs.Closed
               FstV.proofs.WriterBuilderProofs.

Theorem C07_chunks_append_only : forall b o,
  b_out (fst (apply_op b o)) = rev (chunks_of_call b o) ++ b_out b.
Proof. exact chunks_of_call_append. Qed.

Theorem C07_real_checksum_law :
  cond_law real_update (fun s => s < POW32) (fun l => Forall (fun b => b < 256) l).
Proof. exact real_law. Qed.

(* whatever a benign sink does, it ends up with prefill ++ exactly the bytes the builder model
   finishes with (b_finish with the real checksum); every call and into_inner return Ok; every
   bytes_written() is the model's b_count after that call; and those bytes are a well-formed file
   whose content is exactly the accepted keys and values *)
Theorem C07_end_to_end : forall ty rows cols ops oracle prefill,
  Forall op_ok ops -> size_ok_ops (accepted_ops None ops) -> ty < U64 -> Forall benign oracle ->
  exists bs p,
    b_finish model_masked_crc32c (fst (Builder.run_calls (new_builder ty rows cols) ops)) = Ok bs /\
    let '(calls, fin) := session_of ty rows cols ops in
    let o := real_sink_session oracle FlushOk prefill calls fin in
    s_data (o_final o) = prefill ++ bs /\
    Forall (fun r => st_of r = IoOk tt) (o_calls o) /\
    (exists rf, o_fin o = Some rf /\ st_of rf = IoOk tt) /\
    sink_committed (o_final o) /\
    map bw_of (o_calls o) = counts_of ty rows cols ops /\
    spec_parse bs = Some p /\ p_version p = 3 /\ p_ty p = ty /\
    p_len p = len (spec_content None ops []) /\ p_content p = spec_content None ops [] /\
    wf_fst_b bs = true.
Proof. intros. now apply end_to_end_sink. Qed.

(* the same behind a BufWriter of any capacity *)
Theorem C07_end_to_end_bufwriter : forall ty rows cols ops cap oracle prefill,
  Forall op_ok ops -> size_ok_ops (accepted_ops None ops) -> ty < U64 -> Forall benign oracle ->
  exists bs,
    b_finish model_masked_crc32c (fst (Builder.run_calls (new_builder ty rows cols) ops)) = Ok bs /\
    let '(calls, fin) := session_of ty rows cols ops in
    let o := real_buf_session cap oracle FlushOk prefill calls fin in
    s_data (b_inner (o_final o)) = prefill ++ bs /\ b_buf (o_final o) = [] /\
    Forall (fun r => st_of r = IoOk tt) (o_calls o) /\
    (exists rf, o_fin o = Some rf /\ st_of rf = IoOk tt) /\
    sink_committed (b_inner (o_final o)) /\
    map bw_of (o_calls o) = counts_of ty rows cols ops.
Proof. intros. now apply end_to_end_buf. Qed.

(* maps: the sink holds exactly build_map's bytes, and (Closed.built_map_answers) every reader
   operation on them answers like the map *)
Theorem C07_sink_content_is_the_map : forall ty rows cols kvs oracle prefill,
  input_ok kvs -> ty < U64 -> Forall benign oracle ->
  let '(calls, fin) := session_of ty rows cols (ins_ops kvs) in
  let o := real_sink_session oracle FlushOk prefill calls fin in
  exists bs,
    s_data (o_final o) = prefill ++ bs /\
    build_map model_masked_crc32c ty rows cols kvs = Ok bs /\
    map bw_of (o_calls o) = counts_of ty rows cols (ins_ops kvs) /\
    spec_read bs = Some (3, ty, kvs) /\
    api_stream bs = Ok kvs /\ api_len bs = len kvs /\
    (forall k, Forall (fun b => b < 256) k ->
       api_get bs k = Ok (lookup kvs k) /\
       api_contains bs k = Ok (match lookup kvs k with Some _ => true | None => false end)).
Proof. exact sink_content_is_the_map. Qed.

(* non-vacuity: a session with a rejected call in the middle. The premises hold, the computed
   session has an empty chunk list for the rejected call, its bytes are the body of the finished
   file, and the counters are the model's.  (The checksum is left out of the computation: the CRC
   model recomputes its tables on every call under vm_compute.) *)
Example C07_end_to_end_nonvacuous :
  let ops := [OpInsert [98] 1; OpInsert [97] 2; OpInsert [98; 99] 4] in
  (Forall op_ok ops /\ size_ok_ops (accepted_ops None ops)) /\
  let '(calls, fin) := session_of 0 4 2 ops in
  length calls = 4%nat /\ nth 2 calls [[0]] = [] /\ length fin = 12%nat /\
  b_finish (fun _ => 0) (fst (Builder.run_calls (new_builder 0 4 2) ops)) =
    Ok (sess_bytes calls fin ++ [0; 0; 0; 0]) /\
  cum_lens 0 calls = counts_of 0 4 2 ops /\ counts_of 0 4 2 ops = [16; 16; 16; 16].
Proof.
  cbv zeta. split; [split; [repeat constructor|reflexivity]|].
  vm_compute. repeat split.
Qed.

Check C07_content : forall crc_update masked, chunk_law crc_update ->
  forall oracle prefill calls fin, Forall benign oracle ->
  let o := run_sink_session crc_update masked false oracle FlushOk prefill calls fin in
  let m := mem_session crc_update masked calls fin in
  s_data (o_final o) = prefill ++ s_data (o_final m) /\
  s_data (o_final m) = file_bytes crc_update masked calls fin /\
  Forall (fun r => to_res (st_of r) = Ok tt) (o_calls o) /\ length (o_calls o) = length calls /\
  (exists rf, o_fin o = Some rf /\ to_res (st_of rf) = Ok tt) /\
  sink_committed (o_final o).
Print Assumptions write_all_delivers.
Print Assumptions write_all_delivers_default.
Print Assumptions C07_content.
Print Assumptions C07_count.
Print Assumptions C07_bufwriter.
Print Assumptions C07_count_bufwriter.
Print Assumptions C07_flush_order_guard.
Print Assumptions C07_write_after_flush_example.
Print Assumptions C07_unflushed_counts_writes.
Print Assumptions C07_flush_commits.
Print Assumptions C07_flush_first_refuted.
Print Assumptions C07_standin_law.
Print Assumptions C07_old_behaviour_refuted.
Print Assumptions C07_old_behaviour_refuted_interrupted.
Print Assumptions C07_nonvacuous.
Print Assumptions C07_chunks_append_only.
Print Assumptions C07_real_checksum_law.
Print Assumptions C07_end_to_end.
Print Assumptions C07_end_to_end_bufwriter.
Print Assumptions C07_sink_content_is_the_map.
Print Assumptions C07_end_to_end_nonvacuous.
