(* C05 — set operations over k sorted streams match set theory.
   Statements only; proofs live in proofs/OpsProofs.v.

   Vocabulary (FstV.Ops): a stream is the list of (key, value) items it will yield;
   [streams_ok ss] = every stream has strictly increasing keys; [admissible pop_min] = the heap's
   pop returns a least (input, output) slot and leaves the rest (any tie-break);
   a run returns [Some (Ok out)] (finished), [Some Panic] (Rust panic) or [None] (the model's
   fuel ran out);  [out_eqv a b] = same keys in the same order and, per key, the same
   (stream index, value) entries up to order. *)
Require Import FstV.Base FstV.Ops FstV.proofs.OpsProofs.
From Coq Require Import Permutation.

(* ---------- the four operations: for any number of streams and every admissible heap ---------- *)
Theorem C05_union : forall pop_min ss, admissible pop_min -> streams_ok ss ->
  exists out, run_union pop_min ss = Some (Ok out) /\ out_eqv out (spec_union ss).
Proof. intros pop_min ss Ha Hs. exact (run_union_correct pop_min Ha ss Hs). Qed.

Theorem C05_intersection : forall pop_min ss, admissible pop_min -> streams_ok ss ->
  exists out, run_intersection pop_min ss = Some (Ok out) /\ out_eqv out (spec_intersection ss).
Proof. intros pop_min ss Ha Hs. exact (run_sel_correct pop_min Ha OpInter ss Hs). Qed.

Theorem C05_symmetric_difference : forall pop_min ss, admissible pop_min -> streams_ok ss ->
  exists out, run_symdiff pop_min ss = Some (Ok out) /\ out_eqv out (spec_symdiff ss).
Proof. intros pop_min ss Ha Hs. exact (run_sel_correct pop_min Ha OpSymdiff ss Hs). Qed.

(* difference: exactly the specified list (one entry, index 0, per key) *)
Theorem C05_difference : forall pop_min s0 rest, admissible pop_min -> streams_ok (s0 :: rest) ->
  run_difference pop_min (s0 :: rest) = Some (Ok (spec_difference (s0 :: rest))).
Proof. intros pop_min s0 rest Ha Hs. exact (run_difference_correct pop_min Ha s0 rest Hs). Qed.

(* outside the contract: OpBuilder::difference with no stream panics (swap_remove(0)) *)
Theorem C05_difference_no_stream_panics : forall pop_min, run_difference pop_min [] = Some Panic.
Proof. intros pop_min. exact (run_difference_empty pop_min). Qed.

(* termination: the fuel every loop of the model is given never runs out *)
Theorem C05_fuel_suffices : forall pop_min ss, admissible pop_min -> streams_ok ss ->
  run_union pop_min ss <> None /\ run_intersection pop_min ss <> None /\
  run_symdiff pop_min ss <> None /\ run_difference pop_min ss <> None.
Proof.
  intros pop_min ss Ha Hs. repeat split.
  - destruct (run_union_correct pop_min Ha ss Hs) as (o & -> & _). discriminate.
  - destruct (run_sel_correct pop_min Ha OpInter ss Hs) as (o & H & _). unfold run_intersection. rewrite H. discriminate.
  - destruct (run_sel_correct pop_min Ha OpSymdiff ss Hs) as (o & H & _). unfold run_symdiff. rewrite H. discriminate.
  - destruct ss as [|s0 rest].
    + rewrite run_difference_empty. discriminate.
    + rewrite (run_difference_correct pop_min Ha s0 rest Hs). discriminate.
Qed.

(* ---------- what the specification lists ---------- *)
(* keys: ascending, each once, exactly those present in at least one stream *)
Theorem C05_spec_keys : forall ss,
  map fst (spec_union ss) = all_keys ss /\ sorted_strict (all_keys ss) = true /\
  forall k, In k (all_keys ss) <-> exists s, In s ss /\ In k (keys_of s).
Proof.
  intros ss. split; [apply spec_union_keys|]. split; [apply all_keys_sorted|]. intros k. apply all_keys_in.
Qed.
(* entries of a key: one (i, v) for every stream i that has (k, v), no index twice *)
Theorem C05_spec_entries : forall k ss,
  (forall i v, In (i, v) (outs_of k ss) <-> exists s, nth_error ss i = Some s /\ lookup s k = Some v) /\
  NoDup (map fst (outs_of k ss)).
Proof. intros k ss. split; [intros i v; apply outs_of_in|apply outs_of_one_per_stream]. Qed.
(* intersection keeps the keys with as many entries as there are streams, symmetric difference
   those with an odd number; both are sub-sequences of the union's output *)
Theorem C05_spec_selection : forall op ss k o,
  In (k, o) (spec_sel op ss) <->
  In k (all_keys ss) /\ o = outs_of k ss /\
  (match op with OpInter => length o = length ss | OpSymdiff => Nat.odd (length o) = true end).
Proof.
  intros op ss k o. rewrite spec_sel_in. destruct op; cbn [keeps]; [rewrite Nat.eqb_eq|]; tauto.
Qed.
(* difference: the first stream's items whose key no other stream has, entry (0, v) *)
Theorem C05_spec_difference : forall s0 rest k o, kmap_ok s0 = true ->
  (In (k, o) (spec_difference (s0 :: rest)) <->
   exists v, lookup s0 k = Some v /\ o = [(O, v)] /\ forall s, In s rest -> ~ In k (keys_of s)).
Proof. exact spec_difference_in. Qed.

(* ---------- is_disjoint / is_subset / is_superset ---------- *)
Theorem C05_is_disjoint : forall pop_min (s0 s1 : list kv), admissible pop_min ->
  kmap_ok s0 = true -> kmap_ok s1 = true ->
  exists b, is_disjoint pop_min s0 s1 = Some (Ok b) /\
            (b = true <-> forall k, In k (keys_of s0) -> ~ In k (keys_of s1)).
Proof.
  intros pop_min s0 s1 Ha H0 H1. exists (spec_disjoint s0 s1).
  split; [exact (is_disjoint_correct pop_min Ha s0 s1 H0 H1)|apply spec_disjoint_iff].
Qed.
Theorem C05_is_subset : forall pop_min selflen (s0 s1 : list kv), admissible pop_min ->
  kmap_ok s0 = true -> kmap_ok s1 = true -> selflen = N.of_nat (length s0) ->
  exists b, is_subset pop_min selflen s0 s1 = Some (Ok b) /\
            (b = true <-> forall k, In k (keys_of s0) -> In k (keys_of s1)).
Proof.
  intros pop_min selflen s0 s1 Ha H0 H1 Hl. exists (spec_subset s0 s1).
  split; [exact (is_subset_correct pop_min Ha selflen s0 s1 H0 H1 Hl)|apply spec_subset_iff].
Qed.
Theorem C05_is_superset : forall pop_min selflen (s0 s1 : list kv), admissible pop_min ->
  kmap_ok s0 = true -> kmap_ok s1 = true -> selflen = N.of_nat (length s0) ->
  exists b, is_superset pop_min selflen s0 s1 = Some (Ok b) /\
            (b = true <-> forall k, In k (keys_of s1) -> In k (keys_of s0)).
Proof.
  intros pop_min selflen s0 s1 Ha H0 H1 Hl. exists (spec_superset s0 s1).
  split; [exact (is_superset_correct pop_min Ha selflen s0 s1 H0 H1 Hl)|apply spec_superset_iff].
Qed.
(* the boolean forms printed by the correspondence driver *)
Theorem C05_predicates_computed : forall pop_min (s0 s1 : list kv), admissible pop_min ->
  kmap_ok s0 = true -> kmap_ok s1 = true ->
  is_disjoint pop_min s0 s1 = Some (Ok (spec_disjoint s0 s1)) /\
  is_subset pop_min (N.of_nat (length s0)) s0 s1 = Some (Ok (spec_subset s0 s1)) /\
  is_superset pop_min (N.of_nat (length s0)) s0 s1 = Some (Ok (spec_superset s0 s1)).
Proof.
  intros pop_min s0 s1 Ha H0 H1. repeat split.
  - exact (is_disjoint_correct pop_min Ha s0 s1 H0 H1).
  - exact (is_subset_correct pop_min Ha _ s0 s1 H0 H1 eq_refl).
  - exact (is_superset_correct pop_min Ha _ s0 s1 H0 H1 eq_refl).
Qed.

(* ---------- the hypothesis on the heap is satisfiable: two different tie-breaks ---------- *)
Theorem C05_heaps_exist : admissible pop_min_left /\ admissible pop_min_right.
Proof. split; [exact pop_min_left_admissible|exact pop_min_right_admissible]. Qed.

(* non-vacuity: three streams with the empty key, a key that prefixes another, equal values
   (a tie for the heap) and an empty stream; the run is computed, not assumed *)
Definition ent (i : nat) (v : N) : iv := (i, v).
Example C05_nonvacuous :
  let a := [97] in let ab := [97; 98] in let b := [98] in
  let ss := [[([], 1); (a, 5); (ab, 2)]; [(a, 5); (b, 7)]; []; [(a, 3); (ab, 2); (b, 7)]] in
  streams_ok ss /\
  run_union pop_min_left ss
    = Some (Ok [([], [ent 0 1]); (a, [ent 3 3; ent 0 5; ent 1 5]); (ab, [ent 3 2; ent 0 2]); (b, [ent 3 7; ent 1 7])]) /\
  run_union pop_min_right ss
    = Some (Ok [([], [ent 0 1]); (a, [ent 3 3; ent 1 5; ent 0 5]); (ab, [ent 0 2; ent 3 2]); (b, [ent 1 7; ent 3 7])]) /\
  spec_union ss
    = [([], [ent 0 1]); (a, [ent 0 5; ent 1 5; ent 3 3]); (ab, [ent 0 2; ent 3 2]); (b, [ent 1 7; ent 3 7])] /\
  run_intersection pop_min_left [[(a, 1); (b, 2)]; [(a, 4)]] = Some (Ok [(a, [ent 0 1; ent 1 4])]) /\
  run_symdiff pop_min_left ss = Some (Ok [([], [ent 0 1]); (a, [ent 3 3; ent 0 5; ent 1 5])]) /\
  run_difference pop_min_left ss = Some (Ok [([], [ent 0 1])]).
Proof. cbv zeta. split; [repeat constructor|]. vm_compute. repeat split. Qed.

Check C05_union : forall pop_min ss, admissible pop_min -> streams_ok ss ->
  exists out, run_union pop_min ss = Some (Ok out) /\ out_eqv out (spec_union ss).
Check C05_intersection : forall pop_min ss, admissible pop_min -> streams_ok ss ->
  exists out, run_intersection pop_min ss = Some (Ok out) /\ out_eqv out (spec_intersection ss).
Check C05_symmetric_difference : forall pop_min ss, admissible pop_min -> streams_ok ss ->
  exists out, run_symdiff pop_min ss = Some (Ok out) /\ out_eqv out (spec_symdiff ss).
Check C05_difference : forall pop_min s0 rest, admissible pop_min -> streams_ok (s0 :: rest) ->
  run_difference pop_min (s0 :: rest) = Some (Ok (spec_difference (s0 :: rest))).
Print Assumptions C05_union.
Print Assumptions C05_intersection.
Print Assumptions C05_symmetric_difference.
Print Assumptions C05_difference.
Print Assumptions C05_difference_no_stream_panics.
Print Assumptions C05_fuel_suffices.
Print Assumptions C05_spec_keys.
Print Assumptions C05_spec_entries.
Print Assumptions C05_spec_selection.
Print Assumptions C05_spec_difference.
Print Assumptions C05_is_disjoint.
Print Assumptions C05_is_subset.
Print Assumptions C05_is_superset.
Print Assumptions C05_predicates_computed.
Print Assumptions C05_heaps_exist.
Print Assumptions C05_nonvacuous.
