(* C05 — set operations over k sorted streams match set theory.
   Statements only; proofs live in proofs/OpsProofs.v and proofs/OpsPolls.v.

   Vocabulary (FstV.Ops): an input [instream] is a caller-supplied Streamer, which need not be
   "fused": [s_items] is what it yields before its first None, [s_after n] what it answers to the
   n-th poll made after that None (anything; [inert] = None for ever).  The [run_..._on] functions
   take such streams and return the items emitted together with, per stream, the pair
   (polls made, polls made after its None); [run_union] etc. are the same runs over inert
   streams given as lists.  [full_polls x] = (length (s_items x) + 1, 0);
   [polls_ok x (p, a)] = p <= length (s_items x) + 1 and a = 0.
   A stream given as a list is the list of (key, value) items it will yield;
   [streams_ok ss] = every stream has strictly increasing keys; [admissible pop_min] = the heap's
   pop returns a least (input, output) slot and leaves the rest (any tie-break);
   a run returns [Some (Ok out)] (finished), [Some Panic] (Rust panic) or [None] (the model's
   fuel ran out);  [out_eqv a b] = same keys in the same order and, per key, the same
   (instream index, value) entries up to order. *)
Require Import FstV.Base FstV.Ops FstV.proofs.OpsProofs FstV.proofs.OpsPolls.
From Coq Require Import Permutation.

(* ---------- the four operations: for any number of streams and every admissible heap ---------- *)
Theorem C05_union : forall pop_min ss, admissible pop_min -> streams_ok ss ->
  exists out, run_union pop_min ss = Some (Ok out) /\ out_eqv out (spec_union ss).
Proof. intros pop_min ss Ha Hs. exact (run_union_correct pop_min Ha ss Hs). Qed.

Theorem C05_intersection : forall pop_min ss, admissible pop_min -> streams_ok ss ->
  exists out, run_intersection pop_min ss = Some (Ok out) /\ out_eqv out (spec_intersection ss).
Proof. intros pop_min ss Ha Hs. exact (run_sel_correct pop_min Ha OpInter ss Hs). Qed.

Theorem C05_symmetric_difference : forall pop_min ss, admissible pop_min -> streams_ok ss ->
  exists out, run_symdiff pop_min ss = Some (Ok out) /\ out_eqv out (spec_symdiff ss).
Proof. intros pop_min ss Ha Hs. exact (run_sel_correct pop_min Ha OpSymdiff ss Hs). Qed.

(* difference: exactly the specified list (one entry, index 0, per key) *)
Theorem C05_difference : forall pop_min s0 rest, admissible pop_min -> streams_ok (s0 :: rest) ->
  run_difference pop_min (s0 :: rest) = Some (Ok (spec_difference (s0 :: rest))).
Proof. intros pop_min s0 rest Ha Hs. exact (run_difference_correct pop_min Ha s0 rest Hs). Qed.

(* outside the contract: OpBuilder::difference with no stream panics (swap_remove(0)) *)
Theorem C05_difference_no_stream_panics : forall pop_min, run_difference pop_min [] = Some Panic.
Proof. intros pop_min. exact (run_difference_empty pop_min). Qed.

(* termination: the fuel every loop of the model is given never runs out *)
Theorem C05_fuel_suffices : forall pop_min ss, admissible pop_min -> streams_ok ss ->
  run_union pop_min ss <> None /\ run_intersection pop_min ss <> None /\
  run_symdiff pop_min ss <> None /\ run_difference pop_min ss <> None.
Proof.
  intros pop_min ss Ha Hs. repeat split.
  - destruct (run_union_correct pop_min Ha ss Hs) as (o & -> & _). discriminate.
  - destruct (run_sel_correct pop_min Ha OpInter ss Hs) as (o & H & _). unfold run_intersection. rewrite H. discriminate.
  - destruct (run_sel_correct pop_min Ha OpSymdiff ss Hs) as (o & H & _). unfold run_symdiff. rewrite H. discriminate.
  - destruct ss as [|s0 rest].
    + rewrite run_difference_empty. discriminate.
    + rewrite (run_difference_correct pop_min Ha s0 rest Hs). discriminate.
Qed.

(* ---------- what the specification lists ---------- *)
(* keys: ascending, each once, exactly those present in at least one stream *)
Theorem C05_spec_keys : forall ss,
  map fst (spec_union ss) = all_keys ss /\ sorted_strict (all_keys ss) = true /\
  forall k, In k (all_keys ss) <-> exists s, In s ss /\ In k (keys_of s).
Proof.
  intros ss. split; [apply spec_union_keys|]. split; [apply all_keys_sorted|]. intros k. apply all_keys_in.
Qed.
(* entries of a key: one (i, v) for every stream i that has (k, v), no index twice *)
Theorem C05_spec_entries : forall k ss,
  (forall i v, In (i, v) (outs_of k ss) <-> exists s, nth_error ss i = Some s /\ lookup s k = Some v) /\
  NoDup (map fst (outs_of k ss)).
Proof. intros k ss. split; [intros i v; apply outs_of_in|apply outs_of_one_per_stream]. Qed.
(* intersection keeps the keys with as many entries as there are streams, symmetric difference
   those with an odd number; both are sub-sequences of the union's output *)
Theorem C05_spec_selection : forall op ss k o,
  In (k, o) (spec_sel op ss) <->
  In k (all_keys ss) /\ o = outs_of k ss /\
  (match op with OpInter => length o = length ss | OpSymdiff => Nat.odd (length o) = true end).
Proof.
  intros op ss k o. rewrite spec_sel_in. destruct op; cbn [keeps]; [rewrite Nat.eqb_eq|]; tauto.
Qed.
(* difference: the first stream's items whose key no other stream has, entry (0, v) *)
Theorem C05_spec_difference : forall s0 rest k o, kmap_ok s0 = true ->
  (In (k, o) (spec_difference (s0 :: rest)) <->
   exists v, lookup s0 k = Some v /\ o = [(O, v)] /\ forall s, In s rest -> ~ In k (keys_of s)).
Proof. exact spec_difference_in. Qed.

(* ---------- is_disjoint / is_subset / is_superset ---------- *)
Theorem C05_is_disjoint : forall pop_min (s0 s1 : list kv), admissible pop_min ->
  kmap_ok s0 = true -> kmap_ok s1 = true ->
  exists b, is_disjoint pop_min s0 s1 = Some (Ok b) /\
            (b = true <-> forall k, In k (keys_of s0) -> ~ In k (keys_of s1)).
Proof.
  intros pop_min s0 s1 Ha H0 H1. exists (spec_disjoint s0 s1).
  split; [exact (is_disjoint_correct pop_min Ha s0 s1 H0 H1)|apply spec_disjoint_iff].
Qed.
Theorem C05_is_subset : forall pop_min selflen (s0 s1 : list kv), admissible pop_min ->
  kmap_ok s0 = true -> kmap_ok s1 = true -> selflen = N.of_nat (length s0) ->
  exists b, is_subset pop_min selflen s0 s1 = Some (Ok b) /\
            (b = true <-> forall k, In k (keys_of s0) -> In k (keys_of s1)).
Proof.
  intros pop_min selflen s0 s1 Ha H0 H1 Hl. exists (spec_subset s0 s1).
  split; [exact (is_subset_correct pop_min Ha selflen s0 s1 H0 H1 Hl)|apply spec_subset_iff].
Qed.
Theorem C05_is_superset : forall pop_min selflen (s0 s1 : list kv), admissible pop_min ->
  kmap_ok s0 = true -> kmap_ok s1 = true -> selflen = N.of_nat (length s0) ->
  exists b, is_superset pop_min selflen s0 s1 = Some (Ok b) /\
            (b = true <-> forall k, In k (keys_of s1) -> In k (keys_of s0)).
Proof.
  intros pop_min selflen s0 s1 Ha H0 H1 Hl. exists (spec_superset s0 s1).
  split; [exact (is_superset_correct pop_min Ha selflen s0 s1 H0 H1 Hl)|apply spec_superset_iff].
Qed.
(* the boolean forms printed by the correspondence driver *)
Theorem C05_predicates_computed : forall pop_min (s0 s1 : list kv), admissible pop_min ->
  kmap_ok s0 = true -> kmap_ok s1 = true ->
  is_disjoint pop_min s0 s1 = Some (Ok (spec_disjoint s0 s1)) /\
  is_subset pop_min (N.of_nat (length s0)) s0 s1 = Some (Ok (spec_subset s0 s1)) /\
  is_superset pop_min (N.of_nat (length s0)) s0 s1 = Some (Ok (spec_superset s0 s1)).
Proof.
  intros pop_min s0 s1 Ha H0 H1. repeat split.
  - exact (is_disjoint_correct pop_min Ha s0 s1 H0 H1).
  - exact (is_subset_correct pop_min Ha _ s0 s1 H0 H1 eq_refl).
  - exact (is_superset_correct pop_min Ha _ s0 s1 H0 H1 eq_refl).
Qed.

(* ---------- the polling discipline: input streams that are not inert after their None ---------- *)
(* (a) no stream is ever polled again after it has returned None.  Union, intersection and
   symmetric difference read every stream to its end: one poll per item and one for the None.
   Difference reads its first stream to the end and the others (in the order swap_remove(0) leaves
   them in) only as far as needed; is_disjoint stops at the first common key. *)
Theorem C05_no_poll_after_none : forall pop_min X, admissible pop_min -> streams_ok (map s_items X) ->
  (exists out, run_union_on pop_min X = Some (Ok (out, map full_polls X))) /\
  (exists out, run_sel_on pop_min OpInter X = Some (Ok (out, map full_polls X))) /\
  (exists out, run_sel_on pop_min OpSymdiff X = Some (Ok (out, map full_polls X))) /\
  (forall x0 rest, X = x0 :: rest -> exists out rest' polls,
     run_difference_on pop_min X = Some (Ok (out, full_polls x0 :: polls)) /\
     swap_remove0 X = Some (x0, rest') /\ Permutation rest rest' /\ Forall2 polls_ok rest' polls) /\
  (forall x0 x1, X = [x0; x1] ->
     (exists b polls, is_disjoint_on pop_min x0 x1 = Some (Ok (b, polls)) /\ Forall2 polls_ok X polls) /\
     (exists b, is_subset_on pop_min (N.of_nat (length (s_items x0))) x0 x1 = Some (Ok (b, map full_polls X))) /\
     (exists b, is_superset_on pop_min (N.of_nat (length (s_items x0))) x0 x1 = Some (Ok (b, map full_polls X)))).
Proof.
  intros pop_min X Ha Hs. split; [|split; [|split; [|split]]].
  - destruct (run_union_on_correct pop_min Ha X Hs) as (o & H & _). eauto.
  - destruct (run_sel_on_correct pop_min Ha OpInter X Hs) as (o & H & _). eauto.
  - destruct (run_sel_on_correct pop_min Ha OpSymdiff X Hs) as (o & H & _). eauto.
  - intros x0 rest ->. destruct (run_difference_on_correct pop_min Ha x0 rest Hs) as (r' & p & H). eauto.
  - intros x0 x1 ->. inversion Hs as [|? ? H0 Hs']; subst. inversion Hs' as [|? ? H1 _]; subst. split; [|split].
    + destruct (is_disjoint_on_correct pop_min Ha x0 x1 H0 H1) as (p & H & Hp). eauto.
    + eexists. exact (is_subset_on_correct pop_min Ha _ x0 x1 H0 H1 eq_refl).
    + eexists. exact (is_superset_on_correct pop_min Ha _ x0 x1 H0 H1 eq_refl).
Qed.

(* equivalently: what the streams would answer after their None has no influence on a run at
   all - not on the items, not on their order, not on the polls *)
Theorem C05_after_irrelevant : forall pop_min X X', admissible pop_min ->
  streams_ok (map s_items X) -> map s_items X = map s_items X' ->
  run_union_on pop_min X = run_union_on pop_min X' /\
  run_sel_on pop_min OpInter X = run_sel_on pop_min OpInter X' /\
  run_sel_on pop_min OpSymdiff X = run_sel_on pop_min OpSymdiff X' /\
  run_difference_on pop_min X = run_difference_on pop_min X' /\
  (forall x0 x1 x0' x1' n, X = [x0; x1] -> X' = [x0'; x1'] -> n = N.of_nat (length (s_items x0)) ->
     is_disjoint_on pop_min x0 x1 = is_disjoint_on pop_min x0' x1' /\
     is_subset_on pop_min n x0 x1 = is_subset_on pop_min n x0' x1' /\
     is_superset_on pop_min n x0 x1 = is_superset_on pop_min n x0' x1').
Proof.
  intros pop_min X X' Ha Hs He. split; [|split; [|split; [|split]]].
  - exact (union_after_irrelevant pop_min Ha X X' Hs He).
  - exact (sel_after_irrelevant pop_min Ha OpInter X X' Hs He).
  - exact (sel_after_irrelevant pop_min Ha OpSymdiff X X' Hs He).
  - exact (difference_after_irrelevant pop_min Ha X X' Hs He).
  - intros x0 x1 x0' x1' n -> -> Hn. inversion Hs as [|? ? H0 Hs']; subst. inversion Hs' as [|? ? H1 _]; subst.
    cbn [map] in He. inversion He. apply (predicates_after_irrelevant pop_min Ha); auto.
Qed.

(* (b) the correctness theorems for arbitrary, non-inert streams: the result is the set-theoretic
   combination of the items every stream yielded BEFORE its first None *)
Theorem C05_union_any_streams : forall pop_min X, admissible pop_min -> streams_ok (map s_items X) ->
  exists out, run_union_on pop_min X = Some (Ok (out, map full_polls X)) /\
              out_eqv out (spec_union (map s_items X)).
Proof. intros pop_min X Ha Hs. exact (run_union_on_correct pop_min Ha X Hs). Qed.
Theorem C05_intersection_any_streams : forall pop_min X, admissible pop_min -> streams_ok (map s_items X) ->
  exists out, run_sel_on pop_min OpInter X = Some (Ok (out, map full_polls X)) /\
              out_eqv out (spec_intersection (map s_items X)).
Proof. intros pop_min X Ha Hs. exact (run_sel_on_correct pop_min Ha OpInter X Hs). Qed.
Theorem C05_symmetric_difference_any_streams : forall pop_min X, admissible pop_min -> streams_ok (map s_items X) ->
  exists out, run_sel_on pop_min OpSymdiff X = Some (Ok (out, map full_polls X)) /\
              out_eqv out (spec_symdiff (map s_items X)).
Proof. intros pop_min X Ha Hs. exact (run_sel_on_correct pop_min Ha OpSymdiff X Hs). Qed.
Theorem C05_difference_any_streams : forall pop_min x0 rest, admissible pop_min -> streams_ok (map s_items (x0 :: rest)) ->
  exists rest' polls,
    run_difference_on pop_min (x0 :: rest)
      = Some (Ok (spec_difference (map s_items (x0 :: rest)), full_polls x0 :: polls)) /\
    swap_remove0 (x0 :: rest) = Some (x0, rest') /\ Permutation rest rest' /\ Forall2 polls_ok rest' polls.
Proof. intros pop_min x0 rest Ha Hs. exact (run_difference_on_correct pop_min Ha x0 rest Hs). Qed.
Theorem C05_predicates_any_streams : forall pop_min (x0 x1 : instream), admissible pop_min ->
  kmap_ok (s_items x0) = true -> kmap_ok (s_items x1) = true ->
  (exists polls, is_disjoint_on pop_min x0 x1 = Some (Ok (spec_disjoint (s_items x0) (s_items x1), polls)) /\
                 Forall2 polls_ok [x0; x1] polls) /\
  is_subset_on pop_min (N.of_nat (length (s_items x0))) x0 x1
    = Some (Ok (spec_subset (s_items x0) (s_items x1), [full_polls x0; full_polls x1])) /\
  is_superset_on pop_min (N.of_nat (length (s_items x0))) x0 x1
    = Some (Ok (spec_superset (s_items x0) (s_items x1), [full_polls x0; full_polls x1])).
Proof.
  intros pop_min x0 x1 Ha H0 H1. repeat split.
  - exact (is_disjoint_on_correct pop_min Ha x0 x1 H0 H1).
  - exact (is_subset_on_correct pop_min Ha _ x0 x1 H0 H1 eq_refl).
  - exact (is_superset_on_correct pop_min Ha _ x0 x1 H0 H1 eq_refl).
Qed.
(* the list-based runs of the theorems above are these runs over inert streams *)
Theorem C05_list_runs : forall pop_min ss,
  run_union pop_min ss = (fdo q <- run_union_on pop_min (map inert ss); fret (fst q)) /\
  run_intersection pop_min ss = (fdo q <- run_sel_on pop_min OpInter (map inert ss); fret (fst q)) /\
  run_symdiff pop_min ss = (fdo q <- run_sel_on pop_min OpSymdiff (map inert ss); fret (fst q)) /\
  run_difference pop_min ss = (fdo q <- run_difference_on pop_min (map inert ss); fret (fst q)).
Proof. intros; repeat split. Qed.

(* ---------- the hypothesis on the heap is satisfiable: two different tie-breaks ---------- *)
Theorem C05_heaps_exist : admissible pop_min_left /\ admissible pop_min_right.
Proof. split; [exact pop_min_left_admissible|exact pop_min_right_admissible]. Qed.

(* non-vacuity: three streams with the empty key, a key that prefixes another, equal values
   (a tie for the heap) and an empty stream; the run is computed, not assumed *)
Definition ent (i : nat) (v : N) : iv := (i, v).
Example C05_nonvacuous :
  let a := [97] in let ab := [97; 98] in let b := [98] in
  let ss := [[([], 1); (a, 5); (ab, 2)]; [(a, 5); (b, 7)]; []; [(a, 3); (ab, 2); (b, 7)]] in
  streams_ok ss /\
  run_union pop_min_left ss
    = Some (Ok [([], [ent 0 1]); (a, [ent 3 3; ent 0 5; ent 1 5]); (ab, [ent 3 2; ent 0 2]); (b, [ent 3 7; ent 1 7])]) /\
  run_union pop_min_right ss
    = Some (Ok [([], [ent 0 1]); (a, [ent 3 3; ent 1 5; ent 0 5]); (ab, [ent 0 2; ent 3 2]); (b, [ent 1 7; ent 3 7])]) /\
  spec_union ss
    = [([], [ent 0 1]); (a, [ent 0 5; ent 1 5; ent 3 3]); (ab, [ent 0 2; ent 3 2]); (b, [ent 1 7; ent 3 7])] /\
  run_intersection pop_min_left [[(a, 1); (b, 2)]; [(a, 4)]] = Some (Ok [(a, [ent 0 1; ent 1 4])]) /\
  run_symdiff pop_min_left ss = Some (Ok [([], [ent 0 1]); (a, [ent 3 3; ent 0 5; ent 1 5])]) /\
  run_difference pop_min_left ss = Some (Ok [([], [ent 0 1])]).
Proof. cbv zeta. split; [repeat constructor|]. vm_compute. repeat split. Qed.

(* (c) non-vacuity of the polling discipline: the same streams, but every one of them yields the
   key FF FE FD FC (value 57005) when it is polled again after its None.  No run picks it up, and
   the per-stream (polls, polls after None) are (items + 1, 0) - fewer polls where a run stops
   early (difference: the streams other than the first; is_disjoint). *)
Example C05_poison_not_picked_up :
  let a := [97] in let ab := [97; 98] in let b := [98] in
  let ss := [[([], 1); (a, 5); (ab, 2)]; [(a, 5); (b, 7)]; []; [(a, 3); (ab, 2); (b, 7)]] in
  let X := map poisoned ss in
  let pl := [(4, 0); (3, 0); (1, 0); (4, 0)]%nat in
  run_union_on pop_min_left X
    = Some (Ok ([([], [ent 0 1]); (a, [ent 3 3; ent 0 5; ent 1 5]); (ab, [ent 3 2; ent 0 2]); (b, [ent 3 7; ent 1 7])], pl)) /\
  run_union_on pop_min_right X
    = Some (Ok ([([], [ent 0 1]); (a, [ent 3 3; ent 1 5; ent 0 5]); (ab, [ent 0 2; ent 3 2]); (b, [ent 1 7; ent 3 7])], pl)) /\
  run_sel_on pop_min_left OpInter (map poisoned [[(a, 1); (b, 2)]; [(a, 4)]])
    = Some (Ok ([(a, [ent 0 1; ent 1 4])], [(3, 0); (2, 0)]%nat)) /\
  run_sel_on pop_min_left OpSymdiff X
    = Some (Ok ([([], [ent 0 1]); (a, [ent 3 3; ent 0 5; ent 1 5])], pl)) /\
  run_difference_on pop_min_left X
    = Some (Ok ([([], [ent 0 1])], [(4, 0); (3, 0); (2, 0); (1, 0)]%nat)) /\
  is_disjoint_on pop_min_left (poisoned [(a, 1); (b, 2)]) (poisoned [(ab, 1); (b, 2)])
    = Some (Ok (false, [(3, 0); (2, 0)]%nat)) /\
  is_subset_on pop_min_left 1 (poisoned [(a, 1)]) (poisoned [(a, 4); (b, 2)])
    = Some (Ok (true, [(2, 0); (3, 0)]%nat)) /\
  is_superset_on pop_min_left 2 (poisoned [(a, 4); (b, 2)]) (poisoned [(a, 1)])
    = Some (Ok (true, [(3, 0); (2, 0)]%nat)).
Proof. cbv zeta. vm_compute. repeat split. Qed.

(* ... and the statement can fail.  A hand-made variant of Union that fills the heap lazily,
   whenever it finds it empty (the seeded regression C05-4): over inert streams it emits the
   right items, so no list-based statement sees a difference; over the poisoned streams it polls
   both streams again after their None (last components 3, 3) and emits the poison key. *)
Definition prime (u : sheap) : res sheap :=
  match heap u with [] => refill_all u 0 (length (rdrs u)) | _ :: _ => Ok u end.
Definition union_next_lazy pop_min (st : opstate) : fres (option item * opstate) :=
  fdo u <- lift (refill_cur st); fdo u' <- lift (prime u); union_next pop_min (mkop u' (o_outs st) None).
Definition run_union_lazy pop_min (X : list instream) (n : nat) : fres (list item * list (nat * nat)) :=
  fdo q <- collect (union_next_lazy pop_min) n (mkop (mksheap (map open X) []) [] None);
  fret (fst q, op_polls (snd q)).
Example C05_repolling_variant_picks_up_poison :
  let a := [97] in let b := [98] in
  let ss := [[(a, 1)]; [(a, 2); (b, 2)]] in
  let good := [(a, [ent 0 1; ent 1 2]); (b, [ent 1 2])] in
  run_union_on pop_min_left (map poisoned ss) = Some (Ok (good, [(2, 0); (3, 0)]%nat)) /\
  run_union_lazy pop_min_left (map inert ss) 10 = Some (Ok (good, [(3, 1); (4, 1)]%nat)) /\
  run_union_lazy pop_min_left (map poisoned ss) 10
    = Some (Ok (good ++ [(fst poison_kv, [ent 1 57005; ent 0 57005])], [(5, 3); (6, 3)]%nat)).
Proof. cbv zeta. vm_compute. repeat split. Qed.

Check C05_no_poll_after_none : forall pop_min X, admissible pop_min -> streams_ok (map s_items X) ->
  (exists out, run_union_on pop_min X = Some (Ok (out, map full_polls X))) /\
  (exists out, run_sel_on pop_min OpInter X = Some (Ok (out, map full_polls X))) /\
  (exists out, run_sel_on pop_min OpSymdiff X = Some (Ok (out, map full_polls X))) /\
  (forall x0 rest, X = x0 :: rest -> exists out rest' polls,
     run_difference_on pop_min X = Some (Ok (out, full_polls x0 :: polls)) /\
     swap_remove0 X = Some (x0, rest') /\ Permutation rest rest' /\ Forall2 polls_ok rest' polls) /\
  (forall x0 x1, X = [x0; x1] ->
     (exists b polls, is_disjoint_on pop_min x0 x1 = Some (Ok (b, polls)) /\ Forall2 polls_ok X polls) /\
     (exists b, is_subset_on pop_min (N.of_nat (length (s_items x0))) x0 x1 = Some (Ok (b, map full_polls X))) /\
     (exists b, is_superset_on pop_min (N.of_nat (length (s_items x0))) x0 x1 = Some (Ok (b, map full_polls X)))).
Check C05_union_any_streams : forall pop_min X, admissible pop_min -> streams_ok (map s_items X) ->
  exists out, run_union_on pop_min X = Some (Ok (out, map full_polls X)) /\
              out_eqv out (spec_union (map s_items X)).
Check C05_union : forall pop_min ss, admissible pop_min -> streams_ok ss ->
  exists out, run_union pop_min ss = Some (Ok out) /\ out_eqv out (spec_union ss).
Check C05_intersection : forall pop_min ss, admissible pop_min -> streams_ok ss ->
  exists out, run_intersection pop_min ss = Some (Ok out) /\ out_eqv out (spec_intersection ss).
Check C05_symmetric_difference : forall pop_min ss, admissible pop_min -> streams_ok ss ->
  exists out, run_symdiff pop_min ss = Some (Ok out) /\ out_eqv out (spec_symdiff ss).
Check C05_difference : forall pop_min s0 rest, admissible pop_min -> streams_ok (s0 :: rest) ->
  run_difference pop_min (s0 :: rest) = Some (Ok (spec_difference (s0 :: rest))).
Print Assumptions C05_union.
Print Assumptions C05_intersection.
Print Assumptions C05_symmetric_difference.
Print Assumptions C05_difference.
Print Assumptions C05_difference_no_stream_panics.
Print Assumptions C05_fuel_suffices.
Print Assumptions C05_spec_keys.
Print Assumptions C05_spec_entries.
Print Assumptions C05_spec_selection.
Print Assumptions C05_spec_difference.
Print Assumptions C05_is_disjoint.
Print Assumptions C05_is_subset.
Print Assumptions C05_is_superset.
Print Assumptions C05_predicates_computed.
Print Assumptions C05_heaps_exist.
Print Assumptions C05_no_poll_after_none.
Print Assumptions C05_after_irrelevant.
Print Assumptions C05_union_any_streams.
Print Assumptions C05_intersection_any_streams.
Print Assumptions C05_symmetric_difference_any_streams.
Print Assumptions C05_difference_any_streams.
Print Assumptions C05_predicates_any_streams.
Print Assumptions C05_list_runs.
Print Assumptions C05_poison_not_picked_up.
Print Assumptions C05_repolling_variant_picks_up_poison.
Print Assumptions C05_nonvacuous.
