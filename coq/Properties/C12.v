(* C12 — as long as the builder's bounded node cache has not had to evict an entry, no two emitted
   nodes are equivalent, so a set compiles to the unique minimal acyclic DFA of its keys and a map
   contains no duplicate nodes; for every input the number of emitted nodes never exceeds that of
   the keys' prefix trie; on realistic corpora most of the achievable sharing is realised.
   Statements only; proofs in proofs/BuilderBasics.v.

   What is proved here (about the models Registry.v / Builder.v, for every registry geometry and
   all three code paths of Registry::entry — 1 column, 2 columns, the general promote loop):
     (a) cache soundness (a hit returns the address stored next to an equal node of the node's own
         bucket), cache completeness while the eviction counter of hook H2 is 0 (every node
         written so far is still found, with its address), hence: no two written nodes are equal;
     (b) the trie bound: written nodes <= number of distinct prefixes of the keys (the empty
         prefix included), with or without evictions.
   "Written nodes" is the ghost list [build_log] = the (address, node) pairs for which
   Builder::compile reaches Node::compile_to; its length is tied to the observable H2 counters:
   misses + rejected ([C12_log_is_counted]).
   NOT proved here, and not claimed:
     - the Myhill–Nerode clause (equal right languages => same node, i.e. the set automaton is
       THE minimal DFA): [C12_minimal_full_statement] below is kept as a Definition only; the
       harness checks it per case by computing the minimal DFA of the keys independently;
     - "most of the achievable sharing is realised on realistic corpora" is a measurement of the
       harness (ratio written nodes / minimal-DFA states with the production 10000 x 2 cache),
       not a theorem. *)
Require Import FstV.Base FstV.Node FstV.Registry FstV.Builder FstV.Reader FstV.GraphSem FstV.Fst.
Require Import FstV.proofs.BuilderBasics.

(* ---------- (a) the cache ---------- *)
Theorem C12_bnode_eqb_eq : forall a b : bnode, bnode_eqb a b = true <-> a = b.
Proof. exact bnode_eqb_eq. Qed.

(* soundness of a hit, any registry state *)
Theorem C12_entry_found_sound : forall r n r' a,
  reg_entry r n = (r', Found a) ->
  a <> NONE_ADDRESS /\
  exists j, j < r_cols r /\ rget r (r_cols r * reg_hash r n + j) = mkCell a n.
Proof. exact entry_found_sound. Qed.

(* the ghost invariant [reg_inv r S]: S = the (address, node) pairs inserted so far; it holds of
   the empty table, is kept by every hit, and by every miss that does not evict followed by the
   insert of a real address — i.e. by any sequence of entry / insert operations without eviction *)
Theorem C12_inv_new : forall rows cols, rows * cols <> 0 -> reg_inv (reg_new rows cols) [].
Proof. exact reg_inv_new. Qed.
Theorem C12_inv_hit : forall r S n r' a,
  reg_inv r S -> reg_entry r n = (r', Found a) -> reg_inv r' S /\ In (a, n) S.
Proof. exact inv_step_found. Qed.
Theorem C12_inv_miss : forall r S n r' idx la,
  reg_inv r S -> reg_entry r n = (r', NotFound idx) -> entry_evicts r' (NotFound idx) = false ->
  la <> NONE_ADDRESS -> reg_inv (reg_insert r' idx la) ((la, n) :: S).
Proof. exact inv_step_notfound. Qed.
Theorem C12_miss_is_fresh : forall r S n r' idx,
  reg_inv r S -> reg_entry r n = (r', NotFound idx) -> ~ In n (map snd S).
Proof. exact notfound_fresh. Qed.

(* completeness under the invariant: every inserted pair is found, with its own address *)
Theorem C12_no_evict_complete : forall r S a n,
  reg_inv r S -> In (a, n) S -> exists r', reg_entry r n = (r', Found a) /\ reg_inv r' S.
Proof. exact no_evict_complete. Qed.

(* the same through the builder: after any successful extend whose H2 eviction counter is 0, the
   cache holds exactly the nodes written so far and each is found again at its address *)
Theorem C12_cache_complete_run : forall ty rows cols ops b a n,
  rows * cols <> 0 ->
  run_extend (new_builder ty rows cols) ops = (b, Ok tt) -> evictions b = 0 ->
  In (a, n) (run_extend_log (new_builder ty rows cols) ops) ->
  exists r', reg_entry (b_reg b) n = (r', Found a).
Proof. exact cache_complete_run. Qed.

(* the ghost log is what the counters count: written nodes = misses + rejected *)
Theorem C12_log_is_counted : forall summer ty rows cols ops b bytes stats,
  run_extend (new_builder ty rows cols) ops = (b, Ok tt) ->
  b_finish_full summer b = Ok (bytes, stats) ->
  stats_writes stats = N.of_nat (length (build_log ty rows cols ops)).
Proof.
  intros summer ty rows cols ops b bytes stats H1 H2.
  assert (b = fst (run_extend (new_builder ty rows cols) ops)) by now rewrite H1. subst b.
  exact (proj1 (trie_bound _ _ _ _ _ _ _ H1 H2)).
Qed.

(* no two written nodes are equal, for maps and sets alike, when a (non-degenerate) cache did not
   evict.  rows * cols <> 0 is needed: an empty cache never evicts, rejects every node, and does
   write duplicates ([C12_empty_cache_duplicates]). *)
Theorem C12_no_dup_nodes : forall summer ty rows cols ops b bytes stats,
  rows * cols <> 0 ->
  run_extend (new_builder ty rows cols) ops = (b, Ok tt) ->
  b_finish_full summer b = Ok (bytes, stats) ->
  stats_evictions stats = 0 ->
  NoDup (map snd (build_log ty rows cols ops)).
Proof.
  intros summer ty rows cols ops b bytes stats Hg H1 H2.
  assert (b = fst (run_extend (new_builder ty rows cols) ops)) by now rewrite H1. subst b.
  exact (no_dup_nodes _ _ _ _ _ _ _ Hg H1 H2).
Qed.

(* ---------- (b) the trie bound ---------- *)
(* [trie_nodes ks] is the duplicate-free list of all prefixes of all keys, the empty one included *)
Theorem C12_trie_nodes_spec : forall ks p,
  In p (trie_nodes ks) <-> p = [] \/ exists k, In k ks /\ exists t, k = p ++ t.
Proof. exact trie_nodes_spec. Qed.
Theorem C12_trie_nodes_nodup : forall ks, NoDup (trie_nodes ks).
Proof. intros ks. apply NoDup_nodup. Qed.

(* every successful build, any cache geometry, evictions or not *)
Theorem C12_trie_bound : forall summer ty rows cols ops b bytes stats,
  run_extend (new_builder ty rows cols) ops = (b, Ok tt) ->
  b_finish_full summer b = Ok (bytes, stats) ->
  (length (build_log ty rows cols ops) <= length (trie_nodes (map op_key ops)))%nat /\
  stats_writes stats <= N.of_nat (length (trie_nodes (map op_key ops))).
Proof.
  intros summer ty rows cols ops b bytes stats H1 H2.
  assert (b = fst (run_extend (new_builder ty rows cols) ops)) by now rewrite H1. subst b.
  destruct (trie_bound _ _ _ _ _ _ _ H1 H2) as [W L]. split; [exact L|]. rewrite W. lia.
Qed.

(* the counting lemma behind it: for keys in (non-strict) lexicographic order, one plus the sum
   of |k_i| - lcp(k_(i-1), k_i) is at most the length of ANY list containing all their prefixes *)
Theorem C12_trie_lcp_le_prefixes : forall ks l,
  kle_chain [] ks -> covers_prefixes ks l -> (1 + trie_lcp [] ks <= length l)%nat.
Proof. exact trie_lcp_le_prefixes. Qed.

(* ---------- not proved: minimality ---------- *)
(* the written nodes as a graph (GraphSem.v); address 0 is the shared empty final node *)
Definition log_graph (log : list (N * bnode)) : graph :=
  fun a => match find (fun p => fst p =? a) log with
           | Some (_, n) => Some (mkG (n_final n) (n_fout n) (n_trans n))
           | None => None
           end.
(* a set built without eviction has no two distinct states with the same right language *)
Definition C12_minimal_full_statement : Prop :=
  forall summer ty rows cols ks b bytes stats,
    rows * cols <> 0 ->
    run_extend (new_builder ty rows cols) (map OpAdd ks) = (b, Ok tt) ->
    b_finish_full summer b = Ok (bytes, stats) ->
    stats_evictions stats = 0 ->
    let log := build_log ty rows cols (map OpAdd ks) in
    forall a1 a2, In a1 (0 :: map fst log) -> In a2 (0 :: map fst log) ->
      L (log_graph log) a1 = L (log_graph log) a2 -> a1 = a2.

(* ---------- non-vacuity ---------- *)
Definition ex_ops : list op := [OpAdd [97; 98]; OpAdd [99; 98]; OpAdd [99; 100]; OpAdd [101; 98]].
Definition ex_stats (rows cols : N) : option (N * N * N * N) :=
  match b_finish_full (fun _ => 0) (fst (run_extend (new_builder 0 rows cols) ex_ops)) with
  | Ok (_, s) => Some s | _ => None end.

(* 4 x 2 cache: the node {98 -> final} is written once (address 18) and hit once; 3 nodes written,
   no eviction, 8 trie nodes *)
Example C12_nonvacuous :
  snd (run_extend (new_builder 0 4 2) ex_ops) = Ok tt /\
  ex_stats 4 2 = Some (1, 3, 0, 0) /\
  map fst (build_log 0 4 2 ex_ops) = [32; 24; 18] /\
  length (trie_nodes (map op_key ex_ops)) = 8%nat.
Proof. vm_compute. repeat split. Qed.

(* 1 x 1 cache: three evictions, and the node {98 -> final} is written twice (18 and 27) *)
Example C12_eviction_duplicates :
  ex_stats 1 1 = Some (0, 4, 3, 0) /\
  exists n, In (18, n) (build_log 0 1 1 ex_ops) /\ In (27, n) (build_log 0 1 1 ex_ops).
Proof. vm_compute. split; [reflexivity|]. eexists. split; [right; right; right; left; reflexivity|]. right; left; reflexivity. Qed.

(* empty cache: nothing is ever evicted, everything is rejected, the duplicate is written *)
Example C12_empty_cache_duplicates :
  ex_stats 0 2 = Some (0, 0, 0, 4) /\
  exists n, In (18, n) (build_log 0 0 2 ex_ops) /\ In (27, n) (build_log 0 0 2 ex_ops).
Proof. vm_compute. split; [reflexivity|]. eexists. split; [right; right; right; left; reflexivity|]. right; left; reflexivity. Qed.

Check C12_no_dup_nodes : forall summer ty rows cols ops b bytes stats,
  rows * cols <> 0 -> run_extend (new_builder ty rows cols) ops = (b, Ok tt) ->
  b_finish_full summer b = Ok (bytes, stats) -> stats_evictions stats = 0 ->
  NoDup (map snd (build_log ty rows cols ops)).
Check C12_trie_bound : forall summer ty rows cols ops b bytes stats,
  run_extend (new_builder ty rows cols) ops = (b, Ok tt) ->
  b_finish_full summer b = Ok (bytes, stats) ->
  (length (build_log ty rows cols ops) <= length (trie_nodes (map op_key ops)))%nat /\
  stats_writes stats <= N.of_nat (length (trie_nodes (map op_key ops))).
Print Assumptions C12_bnode_eqb_eq.
Print Assumptions C12_entry_found_sound.
Print Assumptions C12_inv_new.
Print Assumptions C12_inv_hit.
Print Assumptions C12_inv_miss.
Print Assumptions C12_miss_is_fresh.
Print Assumptions C12_no_evict_complete.
Print Assumptions C12_cache_complete_run.
Print Assumptions C12_log_is_counted.
Print Assumptions C12_no_dup_nodes.
Print Assumptions C12_trie_nodes_spec.
Print Assumptions C12_trie_nodes_nodup.
Print Assumptions C12_trie_bound.
Print Assumptions C12_trie_lcp_le_prefixes.
Print Assumptions C12_nonvacuous.
Print Assumptions C12_eviction_duplicates.
Print Assumptions C12_empty_cache_duplicates.
