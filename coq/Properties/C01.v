(* C01 — build-then-enumerate round trip is exact.
   Statements only. The chain is:
     builder calls --(C01_builder.build_map_correct: BuilderProofs1..5)--> bytes accepted by the
     format specification with content = the inserted pairs
     --(CodecSpec.parse_views: the reader decodes what the specification parses)--> graph
     --(StreamProofs.stream_all_correct / ReaderProofs.get_correct)--> what stream / get return.
   The byte-level codec statements of CodecSpec.v are premises BY NAME of the theorems below;
   they are proved in proofs/NodeProofs*.v and discharged in the corollaries at the end of this
   file as soon as those proofs are part of the development (see C01_closed below). *)
Require Import FstV.Base FstV.Pack FstV.Node FstV.Registry FstV.Builder FstV.Reader FstV.Automaton
               FstV.GraphSem FstV.Format FstV.Fst FstV.CodecSpec.
Require Import FstV.proofs.BuilderInv FstV.proofs.StreamProofs FstV.proofs.EndToEnd.
Require Import FstV.Properties.C01_builder.

(* maps, every node-cache geometry (rows, cols), every checksum function *)
Theorem C01_map_round_trip :
  codec_statement -> compile_total_statement -> parse_views_statement -> data_get_statement ->
  forall (summer : list N -> N) (ty rows cols : N) (kvs : kmap),
    kmap_ok kvs = true ->
    Forall (fun kv => Forall (fun b => b < 256) (fst kv) /\ snd kv < U64) kvs ->
    ty < U64 -> (forall l, summer l < 4294967296) -> size_ok kvs ->
    exists bs p,
      build_map summer ty rows cols kvs = Ok bs /\ spec_parse bs = Some p /\ p_content p = kvs /\
      p_len p = len kvs /\
      (bytes_ok bs -> fuel_ok (graph_of (node_table (p_nodes p))) (p_root p) ->
         api_len bs = len kvs /\
         api_stream bs = Ok kvs /\
         (forall k, Forall (fun b => b < 256) k ->
            api_get bs k = Ok (lookup kvs k) /\
            api_contains bs k = Ok (match lookup kvs k with Some _ => true | None => false end)) /\
         (forall cs, calls_bytes cs -> api_range bs cs = Ok (spec_range kvs cs)) /\
         (forall A cs, can_match_sound A -> no_eof_hook A -> calls_bytes cs ->
            api_search_with_state bs A cs = Ok (spec_search kvs A cs))).
Proof. exact map_round_trip. Qed.

(* builder side alone, for maps, sets (repeated keys allowed) and mixed add/insert sequences *)
Theorem C01_build_map : codec_statement -> compile_total_statement ->
  forall summer ty rows cols kvs,
    kmap_ok kvs = true ->
    Forall (fun kv => Forall (fun b => b < 256) (fst kv) /\ snd kv < U64) kvs ->
    ty < U64 -> (forall l, summer l < 4294967296) -> size_ok kvs ->
    exists bs p, build_map summer ty rows cols kvs = Ok bs /\ spec_parse bs = Some p /\
      p_version p = 3 /\ p_ty p = ty /\ p_len p = len kvs /\ p_content p = kvs /\
      p_checksum p = Some (summer (firstn (length bs - 4) bs)) /\ wf_fst_b bs = true.
Proof. exact build_map_correct. Qed.

Theorem C01_build_set : codec_statement -> compile_total_statement ->
  forall summer ty rows cols ks,
    sorted_weak ks = true -> Forall (Forall (fun b => b < 256)) ks ->
    ty < U64 -> (forall l, summer l < 4294967296) -> size_ok_keys ks ->
    exists bs p, build_set summer ty rows cols ks = Ok bs /\ spec_parse bs = Some p /\
      p_version p = 3 /\ p_ty p = ty /\ p_len p = len (dedup ks) /\
      p_content p = map (fun k => (k, 0)) (dedup ks) /\
      p_checksum p = Some (summer (firstn (length bs - 4) bs)) /\ wf_fst_b bs = true.
Proof. exact build_set_correct. Qed.

(* is_empty() is len() = 0 in the code (FstRef::is_empty); on a built file len = number of keys *)
Theorem C01_is_empty : forall (kvs : kmap), (len kvs =? 0) = match kvs with [] => true | _ => false end.
Proof. intros [|x l]; cbn; [reflexivity|]. unfold len. cbn [length]. apply N.eqb_neq. lia. Qed.

Check C01_map_round_trip.
Print Assumptions C01_map_round_trip.
Print Assumptions C01_build_map.
Print Assumptions C01_build_set.
Print Assumptions C01_is_empty.
Print Assumptions C01_builder_nonvacuous.
