(* C01 — build-then-enumerate round trip is exact.  Statements only.
   The chain: builder calls --(BuilderProofs1..5: invariant of the unfinished stack, the emitted
   nodes and the node cache, for EVERY cache geometry)--> bytes accepted by the format
   specification with exactly the inserted content --(NodeCodec / NodeReader / ParseViews: what
   compile_node writes is what Format.spec_node parses is what Node::new decodes)--> graph
   --(StreamProofs / ReaderProofs)--> what stream, len, get return.  No premise is left open. *)
Require Import FstV.Base FstV.Pack FstV.Node FstV.Registry FstV.Builder FstV.Reader FstV.Automaton
               FstV.GraphSem FstV.Format FstV.Fst FstV.CodecSpec.
Require Import FstV.proofs.BuilderInv FstV.proofs.StreamProofs FstV.proofs.ReaderProofs
               FstV.proofs.NodeCodec FstV.proofs.Closed.
Require Import FstV.Properties.C01_builder.

(* maps: keys strictly increasing, bytes < 256, values < 2^64, every type, every node-cache
   geometry (rows, cols) incl. 0 x 0 and geometries that evict on every insert, every checksum
   function into u32.  [input_ok] = kmap_ok /\ bytes and values in range /\ size_ok (the file
   stays below 2^64 bytes: 5000 * (1 + total key bytes) + 100 < 2^64). *)
Theorem C01_map_round_trip : forall summer ty rows cols kvs,
  input_ok kvs -> ty < U64 -> (forall l, summer l < 4294967296) ->
  exists bs, build_map summer ty rows cols kvs = Ok bs /\
             api_stream bs = Ok kvs /\ api_len bs = len kvs /\
             ((api_len bs =? 0) = match kvs with [] => true | _ => false end).
Proof. exact C01_closed. Qed.

(* sets: non-decreasing key lists (a repeat is a no-op); len counts the distinct keys *)
Theorem C01_set_round_trip : forall summer ty rows cols ks,
  sorted_weak ks = true -> Forall (Forall (fun b => b < 256)) ks -> size_ok_keys ks ->
  ty < U64 -> (forall l, summer l < 4294967296) ->
  let content := map (fun k => (k, 0)) (dedup ks) in
  exists bs,
    build_set summer ty rows cols ks = Ok bs /\
    spec_read bs = Some (3, ty, content) /\
    api_stream bs = Ok content /\ api_len bs = len (dedup ks) /\
    (forall k, Forall (fun b => b < 256) k ->
       api_contains bs k = Ok (match lookup content k with Some _ => true | None => false end)) /\
    (forall cs, calls_bytes cs -> api_range bs cs = Ok (spec_range content cs)) /\
    (forall A cs, can_match_sound A -> no_eof_hook A -> calls_bytes cs ->
       api_search_with_state bs A cs = Ok (spec_search content A cs)).
Proof. exact built_set_answers. Qed.

(* mixed add / insert sequences accepted by the ordering contract (raw builder) *)
Theorem C01_build_ops : forall summer ty rows cols ops,
  Forall (fun r => r = Ok tt) (spec_calls None ops) ->
  Forall (fun o => Forall (fun b => b < 256) (op_key o) /\ op_val o < U64) ops ->
  ty < U64 -> (forall l, summer l < 4294967296) -> size_ok_ops ops ->
  exists bs p, build_ops summer ty rows cols ops = Ok bs /\ spec_parse bs = Some p /\
    p_content p = spec_content None ops [] /\ wf_fst_b bs = true.
Proof.
  intros summer ty rows cols ops H1 H2 H3 H4 H5.
  destruct (build_ops_correct codec_holds compile_total_holds summer ty rows cols ops H1 H2 H3 H4 H5)
    as (bs & p & Hb & Hp & _ & _ & _ & Hc & _ & Hw).
  exists bs, p. auto.
Qed.

(* non-vacuity: an 8-key example with the empty key, shared suffixes and non-monotone values,
   under geometries (10000,2), (1,1), (0,0), evaluated by the kernel *)
Definition C01_nonvacuous := C01_builder_nonvacuous.   (* stated and proved in C01_builder.v *)

Check C01_map_round_trip.
Check C01_set_round_trip.
Print Assumptions C01_map_round_trip.
Print Assumptions C01_set_round_trip.
Print Assumptions C01_build_ops.
Print Assumptions C01_builder_nonvacuous.
