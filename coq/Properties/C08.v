(* C08 — checksums.  Statements only; proofs live in proofs/CrcProofs.v and proofs/OpenProofs.v.
   Vocabulary: [spec_*] is the table-free bit-by-bit CRC-32C and the arithmetic Snappy mask (Crc.v, SPEC);
   [crc32c_slice16], [summer_*], [writer_finish] model src/raw/crc32.rs, build.rs and the tail of
   raw::Builder::into_inner; [fst_new], [verify] model Fst::new / Fst::verify (Open.v). *)
Require Import FstV.Base FstV.CodecSpec FstV.Fst FstV.Builder FstV.Crc FstV.Open FstV.proofs.CrcProofs FstV.proofs.OpenProofs.
Require Import FstV.proofs.BuilderInv FstV.proofs.Closed FstV.proofs.BuiltVerifies.


(* the standard check value, for the specification and for the model of the code *)
Theorem C08_check_value :
  spec_crc32c [49; 50; 51; 52; 53; 54; 55; 56; 57] = 0xE3069283 /\
  crc32c_slice16 0 [49; 50; 51; 52; 53; 54; 55; 56; 57] = 0xE3069283.
Proof. split; [exact check_value_spec|exact check_value_model]. Qed.

(* slicing-by-16 with the generated tables = bitwise CRC-32C, every byte list, every 32-bit start value *)
Theorem C08_slice16_eq_bitwise : forall prev buf,
  prev < POW32 -> bytes_ok buf -> crc32c_slice16 prev buf = spec_update prev buf.
Proof. exact slice16_eq_bitwise. Qed.

(* chunking independence: of the specification (unconditionally) and of the model of the code *)
Theorem C08_chunking :
  (forall s a b, spec_update (spec_update s a) b = spec_update s (a ++ b)) /\
  (forall s a b, s < POW32 -> bytes_ok a -> bytes_ok b ->
     crc32c_slice16 (crc32c_slice16 s a) b = crc32c_slice16 s (a ++ b)).
Proof. split; [exact spec_update_app|exact model_update_app]. Qed.

(* whatever sequence of chunks the CountingWriter saw, the footer value is the masked bitwise
   CRC-32C of their concatenation *)
Theorem C08_footer_chunking_independent : forall chunks, Forall (fun c => bytes_ok c) chunks ->
  summer_masked (summer_feed summer_new chunks) = spec_masked_crc32c (concat chunks).
Proof. exact footer_value. Qed.

(* the code's masked() is rotate-right-15 plus the Snappy constant, and is injective on u32 *)
Theorem C08_mask_eq_spec : forall s, cs_sum s < POW32 -> summer_masked s = spec_masked (cs_sum s).
Proof. exact masked_eq_spec. Qed.
Theorem C08_mask_injective : forall s t,
  cs_sum s < POW32 -> cs_sum t < POW32 -> summer_masked s = summer_masked t -> cs_sum s = cs_sum t.
Proof. exact masked_injective. Qed.

(* any single-byte change changes the CRC: specification, model, and masked model value *)
Theorem C08_single_byte : forall bs i x,
  bytes_ok bs -> (i < length bs)%nat -> x < 256 -> x <> nth i bs 0 ->
  spec_crc32c (set_nth bs i x) <> spec_crc32c bs /\
  crc32c_slice16 0 (set_nth bs i x) <> crc32c_slice16 0 bs /\
  model_masked_crc32c (set_nth bs i x) <> model_masked_crc32c bs.
Proof.
  intros bs i x HB Hi Hx Hne. repeat split.
  - apply single_byte_spec; auto. reflexivity.
  - apply single_byte_model; auto. reflexivity.
  - apply single_byte_masked; auto.
Qed.

(* any change confined to four consecutive bytes (burst of at most 32 bits) changes the CRC *)
Theorem C08_burst4 : forall prev pre w w' suf,
  prev < POW32 -> bytes_ok (pre ++ w ++ suf) -> bytes_ok w' ->
  length w = 4%nat -> length w' = 4%nat -> w <> w' ->
  spec_update prev (pre ++ w' ++ suf) <> spec_update prev (pre ++ w ++ suf).
Proof. exact burst4_spec. Qed.

(* a file finished the way raw::Builder::into_inner finishes it (body through the CountingWriter in
   any chunking, then the masked checksum little-endian) verifies whenever it opens as a version with a checksum *)
Theorem C08_writer_footer_verifies : forall chunks m,
  Forall (fun c => bytes_ok c) chunks ->
  fst_new (writer_finish chunks) = Ok m -> m_checksum m <> None ->
  verify (writer_finish chunks) m = Ok tt.
Proof. exact writer_footer_verifies. Qed.

(* corruption is never certified: after any single-byte change of a file that opened and verified,
   open returns an error, or it succeeds and verify returns an error — never Ok, never a panic *)
Theorem C08_corruption_never_certified : forall bs m i x,
  bytes_ok bs -> fst_new bs = Ok m -> verify bs m = Ok tt ->
  (i < length bs)%nat -> x < 256 -> x <> nth i bs 0 ->
  (exists e, fst_new (set_nth bs i x) = Err e) \/
  (exists m' e, fst_new (set_nth bs i x) = Ok m' /\ verify (set_nth bs i x) m' = Err e).
Proof. exact corruption_never_certified. Qed.

(* ---------- every FST produced by a builder passes verify() ----------
   [build_map summer ty rows cols kvs] is the model of raw::Builder / MapBuilder (Builder.v) with the
   checksum function as a parameter; here it is the model of the real CheckSummer.  [rows cols] is the
   node-cache geometry: every geometry is covered.  [input_ok]: keys strictly increasing, keys are
   byte strings, values < 2^64, and the size bound that keeps the file below 2^64 bytes.
   The model of Fst::new opens the produced bytes (length >= 36, version 3, the root-address test
   passes), the model of verify() answers Ok, and len / fst_type / version are what was asked for. *)
Theorem C08_built_verifies : forall ty rows cols kvs,
  input_ok kvs -> ty < U64 ->
  exists bs m, build_map model_masked_crc32c ty rows cols kvs = Ok bs /\
               fst_new bs = Ok m /\ verify bs m = Ok tt /\
               Open.m_len m = len kvs /\ Open.m_ty m = ty /\ Open.m_version m = 3 /\ bytes_ok bs.
Proof. exact built_map_verifies. Qed.

(* sets: repeated keys allowed, len is the number of distinct keys *)
Theorem C08_built_set_verifies : forall ty rows cols ks,
  sorted_weak ks = true -> Forall (Forall (fun b => b < 256)) ks -> size_ok_keys ks -> ty < U64 ->
  exists bs m, build_set model_masked_crc32c ty rows cols ks = Ok bs /\
               fst_new bs = Ok m /\ verify bs m = Ok tt /\
               Open.m_len m = len (dedup ks) /\ Open.m_ty m = ty /\ Open.m_version m = 3 /\ bytes_ok bs.
Proof. exact built_set_verifies. Qed.

(* any sequence of insert / add calls that the call specification accepts *)
Theorem C08_built_ops_verifies : forall ty rows cols ops,
  Forall (fun r => r = Ok tt) (spec_calls None ops) ->
  Forall (fun o => Forall (fun b => b < 256) (op_key o) /\ op_val o < U64) ops ->
  size_ok_ops ops -> ty < U64 ->
  exists bs m, build_ops model_masked_crc32c ty rows cols ops = Ok bs /\
               fst_new bs = Ok m /\ verify bs m = Ok tt /\
               Open.m_len m = len (spec_content None ops []) /\ Open.m_ty m = ty /\
               Open.m_version m = 3 /\ bytes_ok bs.
Proof. exact built_ops_verifies. Qed.

(* ... and after any single-byte change of a built file, open fails or verify fails: never Ok, never a panic *)
Theorem C08_built_then_corrupted : forall ty rows cols kvs,
  input_ok kvs -> ty < U64 ->
  exists bs, build_map model_masked_crc32c ty rows cols kvs = Ok bs /\
    forall i x, (i < length bs)%nat -> x < 256 -> x <> nth i bs 0 ->
      (exists e, fst_new (set_nth bs i x) = Err e) \/
      (exists m' e, fst_new (set_nth bs i x) = Ok m' /\ verify (set_nth bs i x) m' = Err e).
Proof. exact built_map_then_corrupted. Qed.
Theorem C08_built_set_then_corrupted : forall ty rows cols ks,
  sorted_weak ks = true -> Forall (Forall (fun b => b < 256)) ks -> size_ok_keys ks -> ty < U64 ->
  exists bs, build_set model_masked_crc32c ty rows cols ks = Ok bs /\
    forall i x, (i < length bs)%nat -> x < 256 -> x <> nth i bs 0 ->
      (exists e, fst_new (set_nth bs i x) = Err e) \/
      (exists m' e, fst_new (set_nth bs i x) = Ok m' /\ verify (set_nth bs i x) m' = Err e).
Proof. exact built_set_then_corrupted. Qed.

(* non-vacuity: the 49 bytes the map builder writes for {"ab" -> 300, "b" -> 1} open and verify in the
   model; their footer is the masked bitwise CRC of the first 45 bytes; version byte 4 gives Version, version
   byte 2 opens as an old file and verify says ChecksumMissing, a changed node byte and a changed
   checksum byte give ChecksumMismatch *)
Definition C08_example_fst : list N := [3; 0; 0; 0; 0; 0; 0; 0; 0; 0; 0; 0; 0; 0; 0; 0; 0; 16; 154; 1; 0; 44; 1; 0; 1; 98; 97; 18; 2; 2; 0; 0; 0; 0; 0; 0; 0; 28; 0; 0; 0; 0; 0; 0; 0; 132; 38; 78; 94].
Example C08_nonvacuous :
  let bs := C08_example_fst in
  bytes_ok bs /\
  (exists m, fst_new bs = Ok m /\ verify bs m = Ok tt /\
             m_checksum m = Some (spec_masked_crc32c (firstn 45 bs))) /\
  fst_new (set_nth bs 0 4) = Err (EVersion 3 4) /\
  (exists m', fst_new (set_nth bs 0 2) = Ok m' /\ verify (set_nth bs 0 2) m' = Err EChecksumMissing) /\
  (exists m', fst_new (set_nth bs 20 255) = Ok m' /\
              verify (set_nth bs 20 255) m' = Err (EChecksumMismatch 1582179972 3970746073)) /\
  (exists m', fst_new (set_nth bs 48 0) = Ok m' /\
              verify (set_nth bs 48 0) m' = Err (EChecksumMismatch 5121668 1582179972)).
Proof.
  cbv zeta. split; [unfold C08_example_fst; repeat constructor|].
  split; [eexists; split; [vm_compute; reflexivity|split; vm_compute; reflexivity]|].
  split; [vm_compute; reflexivity|].
  repeat split; eexists; (split; [vm_compute; reflexivity|vm_compute; reflexivity]).
Qed.

(* the hypotheses of C08_built_verifies hold for {"ab" -> 300, "b" -> 1}, and the builder model (with a
   2 x 2 node cache) writes exactly the 49 bytes above, which are the bytes the Rust MapBuilder wrote *)
Example C08_built_nonvacuous :
  let kvs := [([97; 98], 300); ([98], 1)] in
  input_ok kvs /\ build_map model_masked_crc32c 0 2 2 kvs = Ok C08_example_fst.
Proof.
  cbv zeta. split; [|vm_compute; reflexivity].
  split; [reflexivity|]. split; [|vm_compute; reflexivity].
  repeat constructor.
Qed.

Check C08_slice16_eq_bitwise : forall prev buf,
  prev < POW32 -> bytes_ok buf -> crc32c_slice16 prev buf = spec_update prev buf.
Check C08_corruption_never_certified : forall bs m i x,
  bytes_ok bs -> fst_new bs = Ok m -> verify bs m = Ok tt ->
  (i < length bs)%nat -> x < 256 -> x <> nth i bs 0 ->
  (exists e, fst_new (set_nth bs i x) = Err e) \/
  (exists m' e, fst_new (set_nth bs i x) = Ok m' /\ verify (set_nth bs i x) m' = Err e).
Print Assumptions C08_check_value.
Print Assumptions C08_slice16_eq_bitwise.
Print Assumptions C08_chunking.
Print Assumptions C08_footer_chunking_independent.
Print Assumptions C08_mask_eq_spec.
Print Assumptions C08_mask_injective.
Print Assumptions C08_single_byte.
Print Assumptions C08_burst4.
Print Assumptions C08_writer_footer_verifies.
Print Assumptions C08_corruption_never_certified.
Print Assumptions C08_built_verifies.
Print Assumptions C08_built_set_verifies.
Print Assumptions C08_built_ops_verifies.
Print Assumptions C08_built_then_corrupted.
Print Assumptions C08_built_set_then_corrupted.
Print Assumptions C08_nonvacuous.
Print Assumptions C08_built_nonvacuous.
