(* C16 — get_key / get_key_into invert a map whose values strictly increase in key order.
   Statements only; proofs live in proofs/ReaderProofs.v.

   The statements are about the model of FstRef::get_key_into (Reader.get_key_into, the loop
   `while !(node.is_final() && value == final_output)` of src/raw/mod.rs) and of get_key, over
   any node-access function presenting a well-formed graph g.  Hypotheses:
     * values_increasing (L g root): the values of the denoted map strictly increase in key order
       (the precondition in the property text and in the crate documentation);
     * canonical_outputs g (GraphSem.v): below every transition the smallest residual value is 0,
       i.e. outputs are pushed towards the root as far as possible - this is what the builder
       produces (proved for built files with C01/C09, not here).  Without it the statement is
       false: the loop picks the LAST transition with out <= value, which is the right one only if
       every value below an earlier transition is smaller than the next transition's output.
       Only the nodes reachable from the root matter (C16_get_key_reachable);
     * root < 2^64: addresses are u64, so the 2^64 iterations of binary fuel in the model suffice
       (each iteration moves to a strictly smaller address).
   [spec_get_key m v] is the key of the first pair of m with value v; C16_membership restates
   the result with list membership (under values_increasing there is at most one such pair).
   When get_key_into answers false the bytes it has appended are unspecified (the Rust code
   leaves a partial key in the caller's buffer); the model result carries them and the theorems
   quantify them existentially.
   Link to files: CodecSpec.parse_views_statement (bytes -> graph), C01/C09 (builder -> bytes). *)
Require Import FstV.Base FstV.Node FstV.Reader FstV.GraphSem FstV.Fst.
Require Import FstV.proofs.GraphProofs FstV.proofs.ReaderProofs.

Theorem C16_get_key : forall (g : graph) (node_at : N -> res nview) (root : N),
  wf_graph g -> views g node_at -> (exists r, gget g root = Some r) ->
  canonical_outputs g -> root < 2 ^ 64 -> values_increasing (L g root) = true ->
  forall v : N,
    get_key node_at root v = Ok (spec_get_key (L g root) v) /\
    (forall k, get_key_into node_at root v = Ok (true, k) <-> spec_get_key (L g root) v = Some k) /\
    (exists ks, get_key_into node_at root v =
                Ok (match spec_get_key (L g root) v with Some _ => true | None => false end, ks)).
Proof.
  intros g node_at root WF V Hr HC Hroot Hinc v. split; [|split].
  - exact (get_key_correct g node_at WF V root v Hr HC Hroot Hinc).
  - exact (get_key_into_correct g node_at WF V root v Hr HC Hroot Hinc).
  - exact (get_key_into_total g node_at WF V root v Hr HC Hroot Hinc).
Qed.

(* as in the property text: some key has value v (the empty key included) / no key has *)
Theorem C16_membership : forall (g : graph) (node_at : N -> res nview) (root : N),
  wf_graph g -> views g node_at -> (exists r, gget g root = Some r) ->
  canonical_outputs g -> root < 2 ^ 64 -> values_increasing (L g root) = true ->
  forall v : N,
  (forall k, In (k, v) (L g root) ->
     get_key node_at root v = Ok (Some k) /\ get_key_into node_at root v = Ok (true, k)) /\
  ((forall k, ~ In (k, v) (L g root)) ->
     get_key node_at root v = Ok None /\ exists ks, get_key_into node_at root v = Ok (false, ks)).
Proof. intros g node_at root WF V Hr HC Hroot Hinc v. exact (get_key_membership g node_at WF V root v Hr HC Hroot Hinc). Qed.

(* canonical outputs are needed only at the nodes reachable from the root *)
Theorem C16_get_key_reachable : forall (g : graph) (node_at : N -> res nview) (root : N),
  wf_graph g -> views g node_at -> (exists r, gget g root = Some r) ->
  canonical_from g root -> root < 2 ^ 64 -> values_increasing (L g root) = true ->
  forall v : N,
    get_key node_at root v = Ok (spec_get_key (L g root) v) /\
    (forall k, get_key_into node_at root v = Ok (true, k) <-> spec_get_key (L g root) v = Some k).
Proof.
  intros g node_at root WF V Hr HC Hroot Hinc v. split.
  - exact (get_key_correct' g node_at WF V root v Hr HC Hroot Hinc).
  - exact (get_key_into_correct' g node_at WF V root v Hr HC Hroot Hinc).
Qed.

(* what spec_get_key means when values strictly increase *)
Theorem C16_spec_membership : forall (m : kmap) (v : N) (k : key),
  values_increasing m = true -> (spec_get_key m v = Some k <-> In (k, v) m).
Proof. exact spec_get_key_In. Qed.

(* non-vacuity: {"a" -> 5, "ab" -> 7, "b" -> 9} (ReaderProofs.ex_graph) satisfies every
   hypothesis; values present, absent, below, between and above are answered *)
Example C16_nonvacuous :
  wf_graph ex_graph /\ views ex_graph (view_of_graph ex_graph) /\ canonical_outputs ex_graph /\
  ex_root < 2 ^ 64 /\ values_increasing (L ex_graph ex_root) = true /\
  get_key (view_of_graph ex_graph) ex_root 5 = Ok (Some [97]) /\
  get_key (view_of_graph ex_graph) ex_root 7 = Ok (Some [97; 98]) /\
  get_key (view_of_graph ex_graph) ex_root 9 = Ok (Some [98]) /\
  get_key (view_of_graph ex_graph) ex_root 0 = Ok None /\
  get_key (view_of_graph ex_graph) ex_root 6 = Ok None /\
  get_key (view_of_graph ex_graph) ex_root 8 = Ok None /\
  get_key (view_of_graph ex_graph) ex_root 10 = Ok None /\
  get_key_into (view_of_graph ex_graph) ex_root 7 = Ok (true, [97; 98]) /\
  get_key_into (view_of_graph ex_graph) ex_root 6 = Ok (false, [97]).
Proof.
  split; [exact ex_wf|]. split; [apply view_of_graph_views|]. split; [exact ex_canonical|].
  split; [reflexivity|]. rewrite ex_L. split; [reflexivity|].
  vm_compute. repeat split.
Qed.

Check C16_get_key : forall (g : graph) (node_at : N -> res nview) (root : N),
  wf_graph g -> views g node_at -> (exists r, gget g root = Some r) ->
  canonical_outputs g -> root < 2 ^ 64 -> values_increasing (L g root) = true ->
  forall v : N,
    get_key node_at root v = Ok (spec_get_key (L g root) v) /\
    (forall k, get_key_into node_at root v = Ok (true, k) <-> spec_get_key (L g root) v = Some k) /\
    (exists ks, get_key_into node_at root v =
                Ok (match spec_get_key (L g root) v with Some _ => true | None => false end, ks)).
Check C16_membership : forall (g : graph) (node_at : N -> res nview) (root : N),
  wf_graph g -> views g node_at -> (exists r, gget g root = Some r) ->
  canonical_outputs g -> root < 2 ^ 64 -> values_increasing (L g root) = true ->
  forall v : N,
  (forall k, In (k, v) (L g root) ->
     get_key node_at root v = Ok (Some k) /\ get_key_into node_at root v = Ok (true, k)) /\
  ((forall k, ~ In (k, v) (L g root)) ->
     get_key node_at root v = Ok None /\ exists ks, get_key_into node_at root v = Ok (false, ks)).
Print Assumptions C16_get_key.
Print Assumptions C16_membership.
Print Assumptions C16_get_key_reachable.
Print Assumptions C16_spec_membership.
Print Assumptions C16_nonvacuous.

(* ---------- composition with the builder and codec theorems ---------- *)
Require Import FstV.Builder FstV.Fst FstV.CodecSpec FstV.proofs.Closed FstV.proofs.StreamProofs FstV.proofs.ReaderProofs.

(* end to end: on the bytes a builder writes for ANY key list with strictly increasing values *)
Theorem C16_on_built_maps : forall summer ty rows cols kvs,
  input_ok kvs -> ty < U64 -> (forall l, summer l < 4294967296) ->
  values_increasing kvs = true ->
  exists bs, build_map summer ty rows cols kvs = Ok bs /\
    forall v, api_get_key bs v = Ok (spec_get_key kvs v).
Proof. exact C16_closed. Qed.
Print Assumptions C16_on_built_maps.
