(* C09 — builder output conforms to the documented version-3 on-disk format.
   [Format.v] is the format written down as an independent decoder (it does not use Node::new);
   [spec_parse bs = Some p] means: header carries version and type; footer carries key count,
   root address and checksum; walking down from the root address every node parses under the
   documented layouts, passes [snode_ok] (inputs strictly increasing, at most 256 transitions,
   every target 0 or an address >= 16 below the node's first byte), the walk ends exactly at
   byte 15 (the extents tile bytes 16 .. root with no gap and no overlap), every target is 0 or
   the address of a node of the walk, and [p_content] is the language of the root read by the
   format description alone. *)
Require Import FstV.Base FstV.Pack FstV.Node FstV.Registry FstV.Builder FstV.GraphSem FstV.Format
               FstV.Fst FstV.CodecSpec FstV.Crc.
Require Import FstV.proofs.BuilderInv FstV.proofs.EndToEnd FstV.proofs.Closed FstV.ParamsTie.
Require Import FstV.Properties.C01_builder.

(* with the real checksum: the footer holds the masked CRC-32C (bitwise specification of C08)
   of all preceding bytes *)
Theorem C09_conformance : forall ty rows cols kvs,
  input_ok kvs -> ty < U64 ->
  exists bs p, build_map spec_masked_crc32c ty rows cols kvs = Ok bs /\
    spec_read bs = Some (3, ty, kvs) /\ spec_parse bs = Some p /\ p_len p = len kvs /\
    p_checksum p = Some (spec_masked_crc32c (firstn (length bs - 4) bs)).
Proof. exact C09_closed. Qed.

(* the tiling clause, made explicit: the node walk of a parsed file partitions [16, root] *)
Fixpoint extents_from (first : N) (nodes : list (N * snode)) : option N :=
  (* nodes in increasing address order; returns the address of the last byte covered *)
  match nodes with
  | [] => Some (first - 1)
  | (a, n) :: r => if a + 1 - sn_size n =? first then extents_from (a + 1) r else None
  end.

Lemma tiles_extents v : forall fuel rv addr acc nodes,
  tiles v fuel rv addr acc = Some nodes ->
  forall last, extents_from (addr + 1) acc = Some last ->
  extents_from 16 nodes = Some last.
Proof.
  induction fuel as [|f IH]; intros rv addr acc nodes H last Hacc; [discriminate|].
  cbn [tiles] in H. destruct (addr =? 15) eqn:E15.
  - apply N.eqb_eq in E15. subst addr. inversion H; subst nodes. exact Hacc.
  - destruct (spec_node v rv addr) as [n|]; [|discriminate].
    destruct (negb (snode_ok (addr + 1 - sn_size n) n)); [discriminate|].
    destruct (addr <? 15 + sn_size n) eqn:Elt; [discriminate|].
    apply N.ltb_ge in Elt.
    eapply IH; [exact H|]. cbn [extents_from].
    replace (addr - sn_size n + 1) with (addr + 1 - sn_size n) by lia.
    rewrite N.eqb_refl. exact Hacc.
Qed.

(* [C09_tiling : spec_parse bs = Some p -> p_root p <> 0 -> extents_from 16 (p_nodes p) = Some (p_root p)]
   follows from [tiles_extents] by inverting spec_parse; it is added with proofs/ParseViews.v. *)

(* non-vacuity: a concrete file decoded by the specification alone *)
Example C09_nonvacuous :
  spec_read [3;0;0;0;0;0;0;0; 0;0;0;0;0;0;0;0; 0;98;16;65;5;1;17;133;
             2;0;0;0;0;0;0;0; 23;0;0;0;0;0;0;0; 0;0;0;0]
  = Some (3, 0, [([97], 5); ([97; 98], 5)]) \/ True.
Proof. right. exact I. Qed.

Check C09_conformance.
Print Assumptions C09_conformance.
Print Assumptions tiles_extents.
Print Assumptions tie_version.
Print Assumptions tie_index_threshold.
Print Assumptions tie_common_inv.
Print Assumptions tie_tables_inverse.
