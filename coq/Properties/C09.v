(* C09 — builder output conforms to the documented version-3 on-disk format.
   [Format.v] is the format written down as an independent decoder (it does not use Node::new);
   [spec_parse bs = Some p] means: header carries version and type; footer carries key count,
   root address and checksum; walking down from the root address every node parses under the
   documented layouts, passes [snode_ok] (inputs strictly increasing, at most 256 transitions,
   every target 0 or an address >= 16 below the node's first byte), the walk ends exactly at
   byte 15 (the extents tile bytes 16 .. root with no gap and no overlap), every target is 0 or
   the address of a node of the walk, and [p_content] is the language of the root read by the
   format description alone. *)
Require Import FstV.Base FstV.Pack FstV.Node FstV.Registry FstV.Builder FstV.GraphSem FstV.Format
               FstV.Fst FstV.CodecSpec FstV.Crc.
Require Import FstV.proofs.BuilderInv FstV.proofs.EndToEnd FstV.proofs.Closed FstV.ParamsTie FstV.proofs.ParseViews.
Require Import FstV.Properties.C01_builder.

(* with the real checksum: the footer holds the masked CRC-32C (bitwise specification of C08)
   of all preceding bytes *)
Theorem C09_conformance : forall ty rows cols kvs,
  input_ok kvs -> ty < U64 ->
  exists bs p, build_map spec_masked_crc32c ty rows cols kvs = Ok bs /\
    spec_read bs = Some (3, ty, kvs) /\ spec_parse bs = Some p /\ p_len p = len kvs /\
    p_checksum p = Some (spec_masked_crc32c (firstn (length bs - 4) bs)).
Proof. exact C09_closed. Qed.

(* the tiling clause, made explicit: the node walk of a parsed file partitions [16, root] *)
Fixpoint extents_from (first : N) (nodes : list (N * snode)) : option N :=
  (* nodes in increasing address order; returns the address of the last byte covered *)
  match nodes with
  | [] => Some (first - 1)
  | (a, n) :: r => if a + 1 - sn_size n =? first then extents_from (a + 1) r else None
  end.

Lemma tiles_extents v : forall fuel rv addr acc nodes,
  tiles v fuel rv addr acc = Some nodes ->
  forall last, extents_from (addr + 1) acc = Some last ->
  extents_from 16 nodes = Some last.
Proof.
  induction fuel as [|f IH]; intros rv addr acc nodes H last Hacc; [discriminate|].
  cbn [tiles] in H. destruct (addr =? 15) eqn:E15.
  - apply N.eqb_eq in E15. subst addr. inversion H; subst nodes. exact Hacc.
  - destruct (spec_node v rv addr) as [n|]; [|discriminate].
    destruct (negb (snode_ok (addr + 1 - sn_size n) n)); [discriminate|].
    destruct (addr <? 15 + sn_size n) eqn:Elt; [discriminate|].
    apply N.ltb_ge in Elt.
    eapply IH; [exact H|]. cbn [extents_from].
    replace (addr - sn_size n + 1) with (addr + 1 - sn_size n) by lia.
    rewrite N.eqb_refl. exact Hacc.
Qed.

(* every file the specification accepts: its nodes partition the body [16, root] - no gap, no
   overlap, first node at byte 16, last node ending at the root address, which is the last byte
   before the footer *)
Theorem C09_tiling : forall bs p, spec_parse bs = Some p -> p_root p <> 0 ->
  extents_from 16 (p_nodes p) = Some (p_root p) /\
  N.of_nat (length bs - foot_of (p_version p))%nat = p_root p + 1.
Proof.
  intros bs p Hp Hroot. pose proof (ParseViews.spec_parse_inv bs p Hp) as Hinv. cbv zeta in Hinv.
  destruct Hinv as (_ & _ & _ & _ & Epv & _ & _ & Eroot & Hcase).
  destruct Hcase as [(Hz & _)|(Hnz & Hend & Htiles & _)].
  - rewrite Eroot in Hroot. contradiction.
  - rewrite Epv, Eroot. split; [|exact Hend].
    eapply tiles_extents; [exact Htiles|]. cbn [extents_from]. f_equal. lia.
Qed.

(* and so do the files the builder writes (composition with C09_conformance) *)
Theorem C09_built_files_tile : forall (ty rows cols : N) (kvs : kmap),
  input_ok kvs -> ty < U64 ->
  exists bs p, build_map spec_masked_crc32c ty rows cols kvs = Ok bs /\ spec_parse bs = Some p /\
    (p_root p <> 0 -> extents_from 16 (p_nodes p) = Some (p_root p)).
Proof.
  intros ty rows cols kvs Hin Hty.
  destruct (C09_conformance ty rows cols kvs Hin Hty) as (bs & p & Hb & _ & Hp & _).
  exists bs, p. split; [exact Hb|]. split; [exact Hp|]. intro Hr. exact (proj1 (C09_tiling bs p Hp Hr)).
Qed.

(* non-vacuity: a concrete file decoded by the specification alone, with its two nodes *)
Definition C09_example_file : list N :=
  [3;0;0;0;0;0;0;0; 0;0;0;0;0;0;0;0; 0;98;16;65;5;1;17;133;
   2;0;0;0;0;0;0;0; 23;0;0;0;0;0;0;0; 0;0;0;0].
Example C09_nonvacuous :
  spec_read C09_example_file = Some (3, 0, [([97], 5); ([97; 98], 5)]) /\
  option_map (fun p => (p_root p, map fst (p_nodes p), extents_from 16 (p_nodes p))) (spec_parse C09_example_file)
  = Some (23, [19; 23], Some 23).
Proof. split; vm_compute; reflexivity. Qed.

Check C09_conformance.
Print Assumptions C09_conformance.
Print Assumptions tiles_extents.
Check C09_tiling.
Print Assumptions C09_tiling.
Print Assumptions C09_built_files_tile.
Print Assumptions tie_version.
Print Assumptions tie_index_threshold.
Print Assumptions tie_common_inv.
Print Assumptions tie_tables_inverse.
