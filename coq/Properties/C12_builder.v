(* C12, language level — the clause left open in C12.v ([C12_minimal_full_statement]): when the
   (non-degenerate) node cache has not evicted an entry,
     (1) no two nodes of the file have the same right language — for maps too, with weighted
         languages: key/value pairs reachable from the node (the shared empty final node 0, whose
         language is {"" -> 0}, included);
     (2) every written node is reachable from the root, its language is non-empty (the root's is
         the content) and is not the language of node 0;
     (3) for a set, the written nodes are in bijection with the residual languages
         { s | w ++ s in keys } (w a prefix of a key) other than the empty one and {""}: the file is
         the minimal acyclic DFA of its keys ([residuals] is the duplicate-free list of these
         languages; the bijection is  node |-> keys of its language, see BuilderMinimal.node_residual,
         residual_node, min_distinct).
   The statements are about the graph the format specification reads from the produced bytes
   (g = graph_of (node_table (p_nodes p))), not about a ghost log.  No premises.
   Statements only; proofs in proofs/BuilderMinimal.v (on top of BuilderProofs1..5 and the cache
   completeness lemmas of BuilderBasics.v). *)
Require Import FstV.Base FstV.Pack FstV.Node FstV.Registry FstV.Builder FstV.Reader FstV.GraphSem FstV.Format
               FstV.CodecSpec FstV.Fst.
Require Import FstV.proofs.BuilderInv FstV.proofs.BuilderSpecLemmas FstV.proofs.BuilderProofs5
               FstV.proofs.BuilderMinimal FstV.proofs.NodeCodec.
Require FstV.proofs.BuilderBasics.

Definition file_graph (p : parsed) : graph := graph_of (node_table (p_nodes p)).

(* (1) + (2) for every accepted call sequence (maps, sets, mixed) *)
Theorem C12_distinct_languages :
  forall (summer : list N -> N) (ty rows cols : N) (ops : list op) b bytes stats,
    rows * cols <> 0 ->
    Forall (fun r => r = Ok tt) (spec_calls None ops) ->
    Forall (fun o => Forall (fun b => b < 256) (op_key o) /\ op_val o < U64) ops ->
    ty < U64 -> (forall l, summer l < 4294967296) -> size_ok_ops ops ->
    run_extend (new_builder ty rows cols) ops = (b, Ok tt) ->
    b_finish_full summer b = Ok (bytes, stats) ->
    BuilderBasics.stats_evictions stats = 0 ->
    exists p, spec_parse bytes = Some p /\ p_content p = spec_content None ops [] /\
      let g := file_graph p in
      (forall a1 a2, In a1 (0 :: map fst (p_nodes p)) -> In a2 (0 :: map fst (p_nodes p)) ->
                     L g a1 = L g a2 -> a1 = a2) /\
      (forall a, In a (map fst (p_nodes p)) ->
                 greach g (p_root p) a /\ (a <> p_root p -> L g a <> []) /\ L g a <> [([], 0)]) /\
      L g (p_root p) = p_content p.
Proof.
  intros summer ty rows cols ops b bytes stats Hg Hcalls Hops Hty Hsum Hsize Hrun Hfin Hev.
  assert (Hv : 1 <= 3 <= 3) by lia.
  destruct (build_ops_v_master codec_holds compile_total_holds summer 3 ty rows cols ops Hv Hcalls Hops Hty Hsum Hsize)
    as (b' & bs' & stats' & p & E2 & Hrun' & Hfin' & Hfacts & Hstore).
  change (new_builder_v 3 ty rows cols) with (new_builder ty rows cols) in Hrun'.
  rewrite Hrun in Hrun'. inversion Hrun'; subst b'. rewrite Hfin in Hfin'. inversion Hfin'; subst bs' stats'.
  rewrite Hev in Hstore. replace (rows * cols =? 0) with false in Hstore by (symmetry; apply N.eqb_neq; exact Hg).
  destruct Hfacts as (Hp & _ & _ & _ & Hc & _).
  exists p. split; [exact Hp|]. split; [exact Hc|]. cbv zeta. unfold file_graph. split; [|split].
  - intros a1 a2. apply (min_distinct p E2 Hstore).
  - intros a. apply (min_reachable p E2 Hstore).
  - destruct Hstore as (Hn & HE & Ht & _ & _ & _ & _ & _ & _ & Hcont).
    rewrite Hn, (BuilderGraphFacts.L_store E2 HE _ Ht). exact Hcont.
Qed.

(* (3) sets: as many nodes as residual languages *)
Theorem C12_set_minimal :
  forall (summer : list N -> N) (ty rows cols : N) (ks : list key) b bytes stats,
    rows * cols <> 0 ->
    sorted_weak ks = true -> Forall (Forall (fun b => b < 256)) ks -> ks <> [] ->
    ty < U64 -> (forall l, summer l < 4294967296) -> size_ok_keys ks ->
    run_extend (new_builder ty rows cols) (map OpAdd ks) = (b, Ok tt) ->
    b_finish_full summer b = Ok (bytes, stats) ->
    BuilderBasics.stats_evictions stats = 0 ->
    exists p, spec_parse bytes = Some p /\ keys_of (p_content p) = dedup ks /\
      let g := file_graph p in
      (forall a1 a2, In a1 (0 :: map fst (p_nodes p)) -> In a2 (0 :: map fst (p_nodes p)) ->
                     L g a1 = L g a2 -> a1 = a2) /\
      (forall a, In a (map fst (p_nodes p)) -> In (keys_of (L g a)) (residuals (dedup ks))) /\
      (forall x, In x (residuals (dedup ks)) -> exists a, In a (map fst (p_nodes p)) /\ keys_of (L g a) = x) /\
      length (p_nodes p) = length (residuals (dedup ks)).
Proof.
  intros summer ty rows cols ks b bytes stats Hg Hk Hb Hne Hty Hsum Hsize Hrun Hfin Hev.
  assert (Hv : 1 <= 3 <= 3) by lia.
  destruct (build_ops_v_master codec_holds compile_total_holds summer 3 ty rows cols (map OpAdd ks) Hv)
    as (b' & bs' & stats' & p & E2 & Hrun' & Hfin' & Hfacts & Hstore); auto.
  { apply calls_ok_set. exact Hk. }
  { apply Forall_map. eapply Forall_impl; [|exact Hb]. intros k H. split; [exact H|]. cbn. unfold U64. lia. }
  { unfold size_ok_ops. rewrite map_map. cbn [op_key]. rewrite map_id. exact Hsize. }
  change (new_builder_v 3 ty rows cols) with (new_builder ty rows cols) in Hrun'.
  rewrite Hrun in Hrun'. inversion Hrun'; subst b'. rewrite Hfin in Hfin'. inversion Hfin'; subst bs' stats'.
  rewrite Hev in Hstore. replace (rows * cols =? 0) with false in Hstore by (symmetry; apply N.eqb_neq; exact Hg).
  destruct Hfacts as (Hp & _ & _ & _ & Hc & _). rewrite (spec_content_set ks Hk) in Hc.
  assert (HK : keys_of (p_content p) = dedup ks).
  { rewrite Hc. unfold keys_of. rewrite map_map. cbn [fst]. apply map_id. }
  assert (Hz : Forall (fun kv => snd kv = 0) (p_content p)).
  { rewrite Hc. apply Forall_map. apply Forall_forall. intros k _. reflexivity. }
  assert (Hcne : p_content p <> []).
  { rewrite Hc. destruct ks as [|k0 ks0]; [congruence|]. clear. revert k0.
    induction ks0 as [|k1 ks0 IH]; intros k0; [discriminate|]. cbn [dedup].
    destruct (key_eqb k0 k1); [apply IH|discriminate]. }
  exists p. split; [exact Hp|]. split; [exact HK|]. cbv zeta. unfold file_graph. rewrite <- HK.
  split; [intros a1 a2; apply (min_distinct p E2 Hstore)|].
  split; [intros a; eapply node_residual; eauto|].
  split; [intros x; eapply residual_node; eauto|].
  eapply min_count; eauto.
Qed.

(* non-vacuity: the C12.v example {ab, cb, cd, eb} under a 4 x 2 cache: no eviction, 3 nodes,
   3 residual languages ({b}, {b, d} and the whole set) *)
Example C12_builder_nonvacuous :
  let ks := [[97; 98]; [99; 98]; [99; 100]; [101; 98]] in
  match run_extend (new_builder 0 4 2) (map OpAdd ks) with
  | (b, Ok _) => match b_finish_full (fun _ => 0) b with
                 | Ok (bytes, stats) =>
                   BuilderBasics.stats_evictions stats = 0 /\
                   match spec_parse bytes with
                   | Some p => length (p_nodes p) = 3%nat /\ length (residuals (dedup ks)) = 3%nat
                   | None => False end
                 | _ => False end
  | _ => False end.
Proof. vm_compute. repeat split. Qed.

Check C12_distinct_languages.
Check C12_set_minimal.
Print Assumptions C12_distinct_languages.
Print Assumptions C12_set_minimal.
