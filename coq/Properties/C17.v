(* C17 — the Levenshtein automaton accepts exactly the keys within the edit distance, counted
   in Unicode scalar values; a construction that would exceed the state limit returns
   TooManyStates instead.  Statements only; proofs live in proofs/Lev{Proofs,Dfa,Utf8,Build,Limit}.v.

   Reading guide: [lev] is the specification (edit distance on lists of scalar values),
   [utf8_bytes] the UTF-8 encoding, [lev_new_with_limit q dist limit] the model of
   Levenshtein::new_with_limit, [lev_aut d] the model of the Automaton impl on the built DFA,
   [Some (Ok d)] / [Some (Err e)] its two outcomes ([None] = the model's 2^64 iterations of
   fuel ran out; C17_terminates shows that this cannot happen). *)
Require Import FstV.Base FstV.Loop FstV.Automaton FstV.Levenshtein.
Require Import FstV.proofs.LevProofs FstV.proofs.LevDfa FstV.proofs.LevUtf8 FstV.proofs.LevBuild FstV.proofs.LevLimit.
Open Scope nat_scope.

(* ---------- the property ---------- *)
(* for every query, distance, limit under which the construction succeeds, and every key that is
   valid UTF-8 (= the encoding of scalar values): accepted iff within the distance *)
Theorem C17_lev_correct : forall q dist limit d,
  forallb is_scalar q = true -> lev_new_with_limit q dist limit = Some (Ok d) ->
  forall k, forallb is_scalar k = true ->
  (accepts (lev_aut d) (utf8_bytes k) = true <-> lev q k <= dist).
Proof. exact lev_correct. Qed.

(* searching a set or map: the keys selected by the automaton are those selected by the distance *)
Theorem C17_search_filter : forall q dist limit d,
  forallb is_scalar q = true -> lev_new_with_limit q dist limit = Some (Ok d) ->
  forall keys, Forall (fun k => forallb is_scalar k = true) keys ->
  filter (fun k => accepts (lev_aut d) (utf8_bytes k)) keys = filter (spec_match q dist) keys.
Proof. exact search_filter. Qed.

(* the state limit: success under one limit fixes the outcome under every limit — the result has
   at most `limit` states, any limit of at least that many states gives the same automaton, any
   smaller limit gives TooManyStates(that limit).  (The test runs at the end of every iteration
   including the last one and the number of states never shrinks, so nothing slips under it.) *)
Theorem C17_too_many_states : forall q dist lim d,
  lev_new_with_limit q dist lim = Some (Ok d) ->
  (N.of_nat (length d) <= lim)%N /\
  forall lim', lev_new_with_limit q dist lim' =
               Some (if (lim' <? N.of_nat (length d))%N then Err (ETooManyStates lim') else Ok d).
Proof. exact new_too_many_states. Qed.

(* as in the code: an error is TooManyStates(limit) and is raised by the first iteration of the
   worklist that ends with more than `limit` states; conversely such an iteration raises it *)
Theorem C17_too_many_states_where : forall q dist lim e,
  lev_new_with_limit q dist lim = Some (Err e) ->
  e = ETooManyStates lim /\
  exists m S1 S2, iter (build_step {| dl_query := q; dl_dist := dist |} lim) m (build_init {| dl_query := q; dl_dist := dist |}) = inl S1 /\
                  build_body {| dl_query := q; dl_dist := dist |} S1 = inl S2 /\
                  (lim < N.of_nat (states_of S2))%N.
Proof. exact new_too_many_states_where. Qed.

Theorem C17_too_many_states_when : forall q dist lim m S1 S2,
  let L := {| dl_query := q; dl_dist := dist |} in
  iter (build_step L lim) m (build_init L) = inl S1 -> build_body L S1 = inl S2 ->
  (lim < N.of_nat (states_of S2))%N -> Datatypes.S m <= 2 ^ psize build_fuel ->
  lev_new_with_limit q dist lim = Some (Err (ETooManyStates lim)).
Proof. exact new_too_many_states_when. Qed.

(* the `.unwrap()` in build_with_limit never panics *)
Theorem C17_no_panic : forall q dist limit,
  forallb is_scalar q = true -> lev_new_with_limit q dist limit <> Some Panic.
Proof. exact new_no_panic. Qed.

(* ---------- how it works: the DP row ---------- *)
(* the row after reading the scalar values w: element 0 is |w|, element i >= 1 is the distance
   between the first i characters of the query and w, capped at dist+1.  (For w = [] the start
   row 0,1,..,|q| is not capped; it agrees with the capped row up to the cap, which is all that
   later steps and the match tests look at: C17_row_sim.) *)
Theorem C17_row_spec : forall L w i, w <> [] -> 1 <= i <= length (dl_query L) ->
  nth 0 (dyn_run L w) 0 = length w /\
  nth i (dyn_run L w) 0 = Nat.min (dl_dist L + 1) (lev (firstn i (dl_query L)) w).
Proof.
  intros L w i Hw Hi. rewrite (row_exact_run L w Hw). split; [reflexivity|]. now apply nth_row_of.
Qed.

Theorem C17_row_sim : forall L w i, i <= length (dl_query L) ->
  length (dyn_run L w) = length (dl_query L) + 1 /\
  Nat.min (dl_dist L + 1) (nth i (dyn_run L w) 0) = Nat.min (dl_dist L + 1) (lev (firstn i (dl_query L)) w).
Proof.
  intros L w i Hi. pose proof (row_sim_run L w) as H. split.
  - exact (row_sim_length _ _ _ _ H).
  - exact (nth_row_sim _ _ _ _ i H Hi).
Qed.

Theorem C17_dyn_is_match : forall L w,
  dl_is_match L (dyn_run L w) = true <-> lev (dl_query L) w <= dl_dist L.
Proof. exact dyn_is_match_iff. Qed.

(* can_match false: no extension matches *)
Theorem C17_dyn_can_match_sound : forall L w,
  dl_can_match L (dyn_run L w) = false -> forall u, dl_dist L < lev (dl_query L) (w ++ u).
Proof. exact dyn_can_match_sound. Qed.

(* ---------- how it works: the character step of the finished DFA ---------- *)
(* there is a map from rows to DFA states (None for rows that cannot match) such that: the start
   row has state 0; after the UTF-8 bytes of any scalar values w the DFA is in the state of the
   row reached by w (and every reachable row that can match has a state); and from the state of a
   row s, the UTF-8 bytes of ANY scalar value c lead to the state of the next row, where c counts
   as itself if it occurs in the query and as a mismatch otherwise; is_match of that state is the
   row's.  This is where the inheritance of the replaced intermediate state matters. *)
Theorem C17_dfa_char_step : forall q dist limit d,
  forallb is_scalar q = true -> lev_new_with_limit q dist limit = Some (Ok d) ->
  let L := {| dl_query := q; dl_dist := dist |} in
  exists state_of : row -> option nat,
    state_of (dl_start L) = Some 0 /\
    (forall s, dl_can_match L s = false -> state_of s = None) /\
    (forall w, forallb is_scalar w = true ->
       walk d (Some 0) (utf8_bytes w) = state_of (dyn_run L w) /\
       (dl_can_match L (dyn_run L w) = true -> state_of (dyn_run L w) <> None)) /\
    (forall s i c, state_of s = Some i -> is_scalar c = true ->
       i < length d /\
       option_map st_match (nth_error d i) = Some (dl_is_match L s) /\
       walk d (Some i) (utf8_encode c) = state_of (dl_accept L s (if existsb (N.eqb c) q then Some c else None))).
Proof. exact dfa_char_step. Qed.

(* the automaton's can_match hint (state is not None) is sound *)
Theorem C17_none_is_dead : forall d w, is_match (lev_aut d) (run (lev_aut d) None w) = false.
Proof. exact lev_aut_none. Qed.

(* ---------- facts about the specification's UTF-8 ---------- *)
Theorem C17_utf8_roundtrip : forall k, forallb is_scalar k = true -> utf8_decode (utf8_bytes k) = Some k.
Proof. exact decode_bytes. Qed.

(* ---------- totality ---------- *)
(* the model's fuel (2^64 iterations) always suffices: every iteration finishes a distinct cached
   row, whose state index is below states.len() <= limit *)
Theorem C17_terminates : forall q dist limit,
  forallb is_scalar q = true -> (limit < 2 ^ 64 - 1)%N -> lev_new_with_limit q dist limit <> None.
Proof. exact new_terminates. Qed.

(* so new_with_limit returns an automaton (to which C17_lev_correct applies) or TooManyStates(limit) *)
Theorem C17_outcome : forall q dist limit,
  forallb is_scalar q = true -> (limit < 2 ^ 64 - 1)%N ->
  (exists d, lev_new_with_limit q dist limit = Some (Ok d)) \/
  lev_new_with_limit q dist limit = Some (Err (ETooManyStates limit)).
Proof. exact new_outcome. Qed.

(* ---------- non-vacuity: the historical witness q = "é", d = 1, k = "ê" ---------- *)
Example C17_nonvacuous :
  exists d, lev_new_with_limit [0xE9%N] 1 10000%N = Some (Ok d) /\ length d = 43 /\
            utf8_bytes [0xEA%N] = [0xC3%N; 0xAA%N] /\
            accepts (lev_aut d) [0xC3%N; 0xAA%N] = true /\ lev [0xE9%N] [0xEA%N] = 1 /\
            accepts (lev_aut d) (utf8_bytes [0x61%N; 0x62%N]) = false /\ lev [0xE9%N] [0x61%N; 0x62%N] = 2.
Proof.
  eexists. split; [vm_compute; reflexivity|]. vm_compute. repeat split.
Qed.

Check C17_lev_correct : forall q dist limit d,
  forallb is_scalar q = true -> lev_new_with_limit q dist limit = Some (Ok d) ->
  forall k, forallb is_scalar k = true ->
  (accepts (lev_aut d) (utf8_bytes k) = true <-> lev q k <= dist).
Check C17_too_many_states : forall q dist lim d,
  lev_new_with_limit q dist lim = Some (Ok d) ->
  (N.of_nat (length d) <= lim)%N /\
  forall lim', lev_new_with_limit q dist lim' =
               Some (if (lim' <? N.of_nat (length d))%N then Err (ETooManyStates lim') else Ok d).
Print Assumptions C17_lev_correct.
Print Assumptions C17_search_filter.
Print Assumptions C17_too_many_states.
Print Assumptions C17_too_many_states_where.
Print Assumptions C17_too_many_states_when.
Print Assumptions C17_no_panic.
Print Assumptions C17_terminates.
Print Assumptions C17_outcome.
Print Assumptions C17_row_spec.
Print Assumptions C17_row_sim.
Print Assumptions C17_dyn_is_match.
Print Assumptions C17_dyn_can_match_sound.
Print Assumptions C17_dfa_char_step.
Print Assumptions C17_none_is_dead.
Print Assumptions C17_utf8_roundtrip.
Print Assumptions C17_nonvacuous.
