(* C10 — readers accept every supported format version and previously written files.
   Statements only.
   (1) classification by Fst::new (model: Open.fst_new), for every byte string;
   (2) verify() on files without a checksum;
   (3) the reader theorems are generic in the version: a file of version 1, 2 or 3 accepted by the
       format specification answers every query according to its content (Compose.v over
       CodecSpec.parse_views, which is stated and proved for 1 <= version <= 3);
   (4) the reference encoder of the older versions is the builder model run with version 1 / 2
       (Builder.build_map_v: no transition index for version 1, no checksum for versions 1-2); the
       files it writes are given to the IMPLEMENTATION on every run of the check.
   Container genericity (Vec, &[u8], Cow, Arc<[u8]>, Mmap) is erased in the model and covered by
   the correspondence only. *)
Require Import FstV.Base FstV.Pack FstV.Generated.SrcParams FstV.Crc FstV.Reader FstV.Automaton FstV.GraphSem
               FstV.Format FstV.CodecSpec FstV.Fst FstV.Open.
Require Import FstV.proofs.OpenProofs FstV.proofs.OpenClassify FstV.proofs.StreamProofs
               FstV.proofs.Compose FstV.proofs.NodeProofs FstV.proofs.DataGet.

(* shorter than the smallest well-formed file of any version: Format, carrying the length *)
Theorem C10_too_short : forall bs, len bs < 32 -> fst_new bs = Err (EFormat (len bs)).
Proof. exact open_short. Qed.

(* version 0 or newer than supported: Version, carrying (3, version found) *)
Theorem C10_unsupported_version : forall bs, 32 <= len bs -> (u64_at bs = 0 \/ 3 < u64_at bs) ->
  fst_new bs = Err (EVersion 3 (u64_at bs)).
Proof. exact open_bad_version. Qed.

(* a version-3 header on 32..35 bytes: Format *)
Theorem C10_v3_too_short : forall bs, 32 <= len bs -> len bs < 36 -> u64_at bs = 3 ->
  fst_new bs = Err (EFormat (len bs)).
Proof. exact open_v3_short. Qed.

(* what an opened file records; and verify() = ChecksumMissing exactly when there is no checksum *)
Theorem C10_meta : forall bs m, fst_new bs = Ok m ->
  Open.m_version m = u64_at bs /\ 1 <= Open.m_version m <= 3 /\
  (Open.m_version m <= 2 -> m_checksum m = None) /\ (3 <= Open.m_version m -> exists c, m_checksum m = Some c).
Proof. exact open_meta. Qed.
Theorem C10_checksum_missing : forall bs m, fst_new bs = Ok m -> Open.m_version m <= 2 ->
  verify bs m = Err EChecksumMissing.
Proof. exact verify_missing. Qed.

(* every outcome of Fst::new, by length and version field *)
Theorem C10_classification : forall bs,
  match spec_open_class (len bs) (if len bs <? 8 then 0 else u64_at bs), fst_new bs with
  | 1, r => r = Err (EVersion 3 (u64_at bs))
  | 2, r => r = Err (EFormat (len bs))
  | 3, r => r = Err (EFormat (len bs)) \/ r = Err (EVersion 3 (u64_at bs))
  | 4, r => (exists m, r = Ok m) \/ r = Err (EFormat (len bs))
  | _, _ => False
  end.
Proof. exact spec_open_class_sound. Qed.

(* a file of ANY supported version accepted by the format specification answers every query
   according to its content *)
Theorem C10_any_version_answers : forall bs p,
  Forall (fun b => b < 256) bs -> spec_parse bs = Some p ->
  1 <= p_version p <= 3 /\
  (forall k, Forall (fun b => b < 256) k ->
     api_get bs k = Ok (lookup (p_content p) k) /\
     api_contains bs k = Ok (match lookup (p_content p) k with Some _ => true | None => false end)) /\
  (fuel_ok (graph_of (node_table (p_nodes p))) (p_root p) ->
     api_stream bs = Ok (p_content p) /\
     (forall cs, calls_bytes cs -> api_range bs cs = Ok (spec_range (p_content p) cs)) /\
     (forall A cs, can_match_sound A -> no_eof_hook A -> calls_bytes cs ->
        api_search_with_state bs A cs = Ok (spec_search (p_content p) A cs))).
Proof.
  intros bs p Hb Hp. split.
  - unfold spec_parse in Hp.
    destruct (Nat.ltb (length bs) 32); [discriminate|].
    destruct ((le_value (firstn 8 bs) =? 0) || (3 <? le_value (firstn 8 bs))) eqn:Ev; [discriminate|].
    apply orb_false_iff in Ev as [E0 E3]. apply N.eqb_neq in E0. apply N.ltb_ge in E3.
    assert (p_version p = le_value (firstn 8 bs)) as ->; [|lia].
    repeat match type of Hp with
           | (if ?c then _ else _) = Some _ => destruct c; try discriminate
           | match ?x with Some _ => _ | None => None end = Some _ => destruct x; try discriminate
           end; inversion Hp; reflexivity.
  - split.
    + intros k Hk. apply (file_get parse_views_holds data_get_holds bs p Hb Hp k Hk).
    + intros Hf. split; [apply (file_stream parse_views_holds data_get_holds bs p Hb Hp Hf)|].
      split; [intros cs Hc; apply (file_range parse_views_holds data_get_holds bs p Hb Hp cs Hf Hc)|].
      intros A cs HA HE Hc. apply (file_search parse_views_holds data_get_holds bs p Hb Hp A cs HA HE Hf Hc).
Qed.

(* non-vacuity: the 32-byte version-2 file holding only the empty key opens (the case the pinned
   revision rejected), a 33-byte all-zero version-1 probe is Format, version 4 is Version *)
Example C10_nonvacuous :
  (exists m, fst_new ([2;0;0;0;0;0;0;0] ++ repeatN 0 8 ++ [1;0;0;0;0;0;0;0] ++ repeatN 0 8) = Ok m) /\
  fst_new ([1;0;0;0;0;0;0;0] ++ repeatN 0 25) = Err (EFormat 33) /\
  fst_new ([4;0;0;0;0;0;0;0] ++ repeatN 0 28) = Err (EVersion 3 4).
Proof. split; [eexists; vm_compute; reflexivity|split; vm_compute; reflexivity]. Qed.

Check C10_classification.
Print Assumptions C10_too_short.
Print Assumptions C10_unsupported_version.
Print Assumptions C10_v3_too_short.
Print Assumptions C10_meta.
Print Assumptions C10_checksum_missing.
Print Assumptions C10_classification.
Print Assumptions C10_any_version_answers.
Print Assumptions C10_nonvacuous.
