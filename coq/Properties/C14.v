(* C14 — "Enumerating, range-scanning or automaton-searching an FST needs heap proportional to
   the longest key only, and a set operation over k streams needs heap proportional to k and the
   longest key; none of them grows with the number of keys stored or emitted.  Opening an FST
   over borrowed or mapped bytes and point lookups on it allocate nothing."

   Proved here, about the MODELS (FstV.Reader, FstV.Ops): for every reachable stream state the
   stack and the input buffer move in lock-step and are never deeper than the graph (its rank
   at the root = its longest key for a trimmed FST); for every reachable state of a set
   operation over k streams the heap holds at most k slots (k - 1 for difference) and `outs` at
   most k entries, each slot's key no longer than the longest input key.  None of these bounds
   mentions the number of keys stored or the number of `next` calls made.
   NOT proved: heap BYTES.  The model has no allocator, no Vec capacity, no Box; point lookups
   and `Fst::new` have no state at all in the model ([get_from] is a fold over the key), so "they
   allocate nothing" is a statement about the Rust code only.  Both are MEASURED by the harness
   (counting allocator): allocation count 0 for open/get/contains_key, peak heap of full
   traversals against [mem_bound_bytes_stream] / [mem_bound_bytes_ops], flatness in N.
   Statements only; proofs live in proofs/MemProofs.v. *)
Require Import FstV.Base FstV.Node FstV.Automaton FstV.Reader FstV.Mem FstV.proofs.MemProofs.
Require Import FstV.Ops.

Definition C14_full_statement (stream_heap_bytes : forall A, stream A -> N) (ops_heap_bytes : opstate -> N) : Prop :=
  (forall (maxkey : nat) (A : automaton), exists C, forall node_at root_addr (rank : N -> nat) (s : stream A),
     (forall a nd, node_at a = Ok nd -> nv_addr nd = a) ->
     (forall a nd t, node_at a = Ok nd -> In t (nv_trans nd) -> t_addr t <> root_addr) ->
     (forall a nd t, node_at a = Ok nd -> In t (nv_trans nd) -> (rank (t_addr t) < rank a)%nat) ->
     (rank root_addr <= maxkey)%nat ->
     sreach node_at root_addr A s -> stream_heap_bytes A s <= C) /\
  (forall (k maxkey : nat), exists C, forall pop_min ss st,
     admissible pop_min -> length ss = k -> Forall (stream_le maxkey) ss -> opreach pop_min ss st ->
     ops_heap_bytes st <= C).

(* ---------- streams (stream / range / search, with or without automaton state) ---------- *)
Section Streams.
Variable node_at : N -> res nview.
Variable root_addr : N.
Variable A : automaton.
(* the graph is well formed: a view carries its address, nothing points to the root, and some
   ranking decreases along every transition (acyclic) *)
Hypothesis addr_ok : forall a nd, node_at a = Ok nd -> nv_addr nd = a.
Hypothesis no_root_target : forall a nd t, node_at a = Ok nd -> In t (nv_trans nd) -> t_addr t <> root_addr.
Variable rank : N -> nat.
Hypothesis rank_dec : forall a nd t, node_at a = Ok nd -> In t (nv_trans nd) -> (rank (t_addr t) < rank a)%nat.

(* after seek_min (any bounds), any number of next calls and any number of inner loop steps *)
Theorem C14_stream_lockstep : forall s, sreach node_at root_addr A s ->
  (length (s_inp A s) <= rank root_addr)%nat /\
  (s_stack A s = [] \/ length (s_stack A s) = S (length (s_inp A s))).
Proof.
  intros s Hs. destruct (sreach_inv node_at root_addr A addr_ok no_root_target rank rank_dec s Hs) as [H1 H2].
  split; [exact H1|]. destruct H2 as [H2|[H2 _]]; auto.
Qed.

Theorem C14_stream_size_partial : forall statesz s, sreach node_at root_addr A s ->
  stream_logical_size A statesz s <= stream_bound statesz (N.of_nat (rank root_addr)).
Proof.
  intros statesz s Hs. apply (stream_inv_size node_at root_addr A addr_ok no_root_target rank rank_dec).
  now apply sreach_inv.
Qed.
End Streams.

(* ---------- set operations ---------- *)
(* union / intersection / symmetric difference: any heap tie-break, any input streams (sorted or
   not, inert after their None or not: [stream_le maxkey] bounds every key a stream yields, also
   when it is polled again after its None), any number of next calls that return *)
Theorem C14_ops_slots_bounded_partial : forall pop_min, admissible pop_min ->
  forall (maxkey : nat) ss st, Forall (stream_le maxkey) ss -> opreach pop_min ss st ->
  (length (heap (o_heap st)) + length (cur_slots (o_cur st)) <= length ss)%nat /\
  (length (o_outs st) <= length ss)%nat /\
  ops_logical_size st <= ops_bound (N.of_nat (length ss)) (N.of_nat maxkey).
Proof.
  intros pop_min Ha maxkey ss st Hs Hr.
  pose proof (opreach_inv pop_min Ha maxkey (length ss) ss st eq_refl Hs Hr) as Hi.
  split; [apply Hi|]. split; [apply Hi|]. now apply op_inv_size.
Qed.

Theorem C14_difference_bounded_partial : forall pop_min, admissible pop_min ->
  forall (maxkey : nat) ss st, Forall (stream_le maxkey) ss -> dreach pop_min ss st ->
  (S (length (heap (d_heap st))) <= length ss)%nat /\ (length (d_outs st) <= 1)%nat /\
  (length (d_key st) <= maxkey)%nat /\
  diff_logical_size st <= ops_bound (N.of_nat (length ss)) (N.of_nat maxkey).
Proof.
  intros pop_min Ha maxkey ss st Hs Hr.
  pose proof (dreach_inv pop_min Ha maxkey (length ss) ss st eq_refl Hs Hr) as Hi.
  split; [apply Hi|]. split; [apply Hi|]. split; [apply Hi|]. now apply diff_inv_size.
Qed.

(* the byte formulas the harness compares the measured peaks with are at least the logical bounds *)
Theorem C14_bytes_formulas_dominate : forall statesz k K,
  stream_bound statesz K <= mem_bound_bytes_stream K statesz /\ ops_bound k K <= mem_bound_bytes_ops k K.
Proof. intros. split; [apply stream_bound_le_bytes|apply ops_bound_le_bytes]. Qed.

(* ---------- non-vacuity ---------- *)
(* a graph with the keys a, ab, b: root 30 --a--> 20 (final) --b--> 10 (final), 30 --b--> 10 *)
Definition ex_view (a : N) (fin : bool) (ts : list trans) (find : N -> res (option N)) : nview :=
  mkView a fin 0 ts find.
Definition ex_root : nview :=
  ex_view 30 false [mkTrans 97 0 20; mkTrans 98 0 10]
          (fun b => Ok (match b with 97 => Some 0 | 98 => Some 1 | _ => None end)).
Definition ex_mid : nview := ex_view 20 true [mkTrans 98 0 10] (fun b => Ok (match b with 98 => Some 0 | _ => None end)).
Definition ex_leaf : nview := ex_view 10 true [] (fun _ => Ok None).
Definition ex_node_at (a : N) : res nview :=
  if a =? 30 then Ok ex_root else if a =? 20 then Ok ex_mid else if a =? 10 then Ok ex_leaf else Panic.

(* seek_min with no bounds, then two calls of next: the stream has yielded "a" and "ab" *)
Definition ex_run : option (stream always_aut) :=
  match seek_min ex_node_at 30 always_aut Unbounded Unbounded with
  | Ok s0 => match next_with ex_node_at 30 always_aut s0 with
             | Ok (s1, _) => match next_with ex_node_at 30 always_aut s1 with
                             | Ok (s2, _) => Some s2 | _ => None end
             | _ => None end
  | _ => None end.

Example C14_nonvacuous_stream :
  (forall a nd, ex_node_at a = Ok nd -> nv_addr nd = a) /\
  (forall a nd t, ex_node_at a = Ok nd -> In t (nv_trans nd) -> t_addr t <> 30) /\
  (forall a nd t, ex_node_at a = Ok nd -> In t (nv_trans nd) -> (N.to_nat (t_addr t) < N.to_nat a)%nat) /\
  exists s, sreach ex_node_at 30 always_aut s /\ length (s_stack always_aut s) = 3%nat /\ s_inp always_aut s = [98; 97].
Proof.
  assert (Hcases : forall a nd, ex_node_at a = Ok nd ->
            (a = 30 /\ nd = ex_root) \/ (a = 20 /\ nd = ex_mid) \/ (a = 10 /\ nd = ex_leaf)).
  { intros a nd. unfold ex_node_at.
    destruct (N.eqb_spec a 30); [intros H; inversion H; auto|].
    destruct (N.eqb_spec a 20); [intros H; inversion H; auto|].
    destruct (N.eqb_spec a 10); [intros H; inversion H; auto|discriminate]. }
  split; [|split; [|split]].
  - intros a nd H. destruct (Hcases a nd H) as [[-> ->]|[[-> ->]|[-> ->]]]; reflexivity.
  - intros a nd t H Hin. destruct (Hcases a nd H) as [[-> ->]|[[-> ->]|[-> ->]]]; cbn in Hin;
      intuition (subst; cbn; discriminate).
  - intros a nd t H Hin. destruct (Hcases a nd H) as [[-> ->]|[[-> ->]|[-> ->]]]; cbn in Hin;
      intuition (subst; cbn; lia).
  - assert (Hreach : match ex_run with Some s => sreach ex_node_at 30 always_aut s | None => True end).
    { unfold ex_run. destruct (seek_min _ _ _ _ _) as [s0| |] eqn:E0; try exact I.
      destruct (next_with _ _ _ s0) as [[s1 i1]| |] eqn:E1; try exact I.
      destruct (next_with _ _ _ s1) as [[s2 i2]| |] eqn:E2; try exact I.
      eapply sr_next; [eapply sr_next; [eapply sr_seek; exact E0|exact E1]|exact E2]. }
    assert (Hval : match ex_run with
                   | Some s => length (s_stack always_aut s) = 3%nat /\ s_inp always_aut s = [98; 97]
                   | None => False end) by (vm_compute; split; reflexivity).
    destruct ex_run as [s|]; [|contradiction]. exists s. tauto.
Qed.

(* a union of three overlapping streams with the leftmost-minimum heap: after the first key the
   heap holds 1 slot (stream 1 is exhausted), one is held as current, outs has 2 entries *)
Definition ex_ss : list instream := map inert [[([97], 1); ([98], 2)]; [([97], 3)]; [([99], 4)]].
Example C14_nonvacuous_ops :
  match op_new ex_ss with
  | Ok st0 =>
    match union_next pop_min_left st0 with
    | Some (Ok (it, st)) =>
      opreach pop_min_left ex_ss st /\ Forall (stream_le 1) ex_ss /\
      it = Some ([97], [(0%nat, 1); (1%nat, 3)]) /\
      length (heap (o_heap st)) = 1%nat /\ length (cur_slots (o_cur st)) = 1%nat /\ length (o_outs st) = 2%nat /\
      ops_logical_size st = 114 /\ ops_bound 3 1 = 171
    | _ => False end
  | _ => False end.
Proof.
  destruct (op_new ex_ss) as [st0| |] eqn:E0; [|vm_compute in E0; discriminate..].
  destruct (union_next pop_min_left st0) as [[[it st]| |]|] eqn:E1.
  - split; [eapply or_union; [apply or_new; exact E0|exact E1]|].
    split; [repeat (apply Forall_cons; [split; [repeat (apply Forall_cons; [cbv; lia|]); apply Forall_nil|discriminate]|]); apply Forall_nil|].
    vm_compute in E0. inversion E0; subst st0. vm_compute in E1. inversion E1; subst. vm_compute. repeat split.
  - vm_compute in E0. inversion E0; subst st0. vm_compute in E1. discriminate.
  - vm_compute in E0. inversion E0; subst st0. vm_compute in E1. discriminate.
  - vm_compute in E0. inversion E0; subst st0. vm_compute in E1. discriminate.
Qed.

Check C14_stream_lockstep : forall node_at root_addr A,
  (forall a nd, node_at a = Ok nd -> nv_addr nd = a) ->
  (forall a nd t, node_at a = Ok nd -> In t (nv_trans nd) -> t_addr t <> root_addr) ->
  forall rank : N -> nat,
  (forall a nd t, node_at a = Ok nd -> In t (nv_trans nd) -> (rank (t_addr t) < rank a)%nat) ->
  forall s, sreach node_at root_addr A s ->
  (length (s_inp A s) <= rank root_addr)%nat /\
  (s_stack A s = [] \/ length (s_stack A s) = S (length (s_inp A s))).
Check C14_ops_slots_bounded_partial : forall pop_min, admissible pop_min ->
  forall (maxkey : nat) ss st, Forall (stream_le maxkey) ss -> opreach pop_min ss st ->
  (length (heap (o_heap st)) + length (cur_slots (o_cur st)) <= length ss)%nat /\
  (length (o_outs st) <= length ss)%nat /\
  ops_logical_size st <= ops_bound (N.of_nat (length ss)) (N.of_nat maxkey).
Print Assumptions C14_stream_lockstep.
Print Assumptions C14_stream_size_partial.
Print Assumptions C14_ops_slots_bounded_partial.
Print Assumptions C14_difference_bounded_partial.
Print Assumptions C14_bytes_formulas_dominate.
