(* C13 — "While streaming to a sink, the heap held by a builder is bounded by a constant
   determined by the cache geometry, the largest node fan-out and the longest key; it does
   not grow with the number of keys inserted or the number of bytes emitted."

   What is proved here is about the MODEL (FstV.Builder, FstV.Registry): the LOGICAL size of
   the builder state — table entries, transitions held by cells, unfinished nodes, their
   transitions, the last key — is bounded, for every state reachable by any sequence of
   add/insert calls of any length, by [builder_bound rows cols |Sigma| maxkey].
   What is NOT proved (and cannot be, in a model without an allocator): that the heap BYTES of
   the Rust process follow that element count.  The byte conversion
   [mem_bound_bytes_builder] adds Vec capacity (amortised doubling, capacity retained by
   `clone_from`) and fixed allowances; the harness measures the real peak heap with a counting
   allocator against it, and against itself for growing n (saturation).  Hence `_partial`.
   Statements only; proofs live in proofs/MemProofs.v. *)
Require Import FstV.Fst FstV.proofs.BuilderInv FstV.proofs.BuilderBasics FstV.proofs.BuilderNoPanic.
Require Import FstV.Base FstV.Node FstV.Registry FstV.Builder FstV.Mem FstV.proofs.MemProofs.
Require Import Coq.FSets.FMapPositive.

(* the property at full strength needs a function the model does not have: the heap bytes the
   real builder holds in a given state *)
Definition C13_full_statement (heap_bytes : builder -> N) : Prop :=
  forall rows cols (Sigma : list N) (maxkey : nat), exists C,
  forall ty ops b' rs,
    run_calls (new_builder ty rows cols) ops = (b', rs) -> Forall (fun r => r <> Panic) rs ->
    keys_in Sigma maxkey ops -> heap_bytes b' <= C.

(* (a) registry: whatever is looked up and inserted, every entry of the table sits at an index
   below rows * cols, so there are at most rows * cols of them — no matter how many operations *)
Theorem C13_registry_cells_bounded : forall rows cols r, reg_reach rows cols r ->
  (forall p c, PositiveMap.find p (r_table r) = Some c -> exists i, p = N.succ_pos i /\ i < rows * cols) /\
  N.of_nat (PositiveMap.cardinal (r_table r)) <= rows * cols.
Proof.
  intros rows cols r H. destruct (reg_reach_inv rows cols r H) as (Hi & Hr & Hc). split.
  - intros p c Hf. rewrite <- Hr, <- Hc. apply (Hi p c Hf).
  - rewrite <- Hr, <- Hc. now apply (reg_inv_cardinal (fun _ => True)).
Qed.
(* the cell `entry` hands out for a new node is one of those indices *)
Theorem C13_registry_notfound_in_table : forall rows cols r n idx, reg_reach rows cols r ->
  snd (reg_entry r n) = NotFound idx -> idx < rows * cols.
Proof.
  intros rows cols r n idx H He. destruct (reg_reach_inv rows cols r H) as (Hi & Hr & Hc).
  destruct (reg_entry_inv (fun _ => True) I r n Hi I) as (_ & _ & _ & H4). rewrite <- Hr, <- Hc. now apply H4.
Qed.

(* (b) every state reachable by single calls (rejected calls included, no panic): the stack of
   unfinished nodes is one deeper than the last accepted key is long; every unfinished node
   and every cell holds at most |Sigma| transitions, Sigma being any list that contains the
   bytes of all keys; the table has at most rows * cols entries *)
Theorem C13_reachable_shape : forall (Sigma : list N) (maxkey : nat) ty rows cols ops b' rs,
  run_calls (new_builder ty rows cols) ops = (b', rs) -> Forall (fun r => r <> Panic) rs ->
  keys_in Sigma maxkey ops ->
  length (b_stack b') = S (length (lastkey b')) /\ (length (lastkey b') <= maxkey)%nat /\
  (stack_max_fan b' <= length Sigma)%nat /\ (reg_max_fan b' <= length Sigma)%nat /\
  reg_cells b' <= rows * cols.
Proof.
  intros Sigma maxkey ty rows cols ops b' rs Hrun Hnp Hk.
  pose proof (run_calls_inv Sigma rows cols maxkey ops _ b' rs (binv_new Sigma rows cols maxkey ty) Hk Hrun Hnp) as Hb.
  split; [exact (binv_depth _ _ _ _ _ Hb)|]. split; [apply Hb|].
  split; [apply max_nat_le; exact (binv_stack_fan _ _ _ _ _ Hb)|].
  destruct (binv_cells _ _ _ _ _ Hb) as [Hc Hf]. split; [apply max_nat_le; exact Hf|exact Hc].
Qed.

(* with no knowledge of the keys but that they are byte strings: at most 256 transitions *)
Theorem C13_fanout_at_most_256 : forall (maxkey : nat) ty rows cols ops b' rs,
  run_calls (new_builder ty rows cols) ops = (b', rs) -> Forall (fun r => r <> Panic) rs ->
  Forall (fun o => Forall (fun x => x < 256) (op_key o) /\ (length (op_key o) <= maxkey)%nat) ops ->
  (stack_max_fan b' <= 256)%nat /\ (reg_max_fan b' <= 256)%nat.
Proof.
  intros maxkey ty rows cols ops b' rs Hrun Hnp Hk.
  set (Sigma := map N.of_nat (seq 0 256)).
  assert (Hk' : keys_in Sigma maxkey ops).
  { eapply Forall_impl; [|exact Hk]. intros o [H1 H2]. split; [|exact H2].
    intros x Hx. rewrite Forall_forall in H1. specialize (H1 x Hx).
    apply in_map_iff. exists (N.to_nat x). split; [apply N2Nat.id|]. apply in_seq. lia. }
  destruct (C13_reachable_shape Sigma maxkey ty rows cols ops b' rs Hrun Hnp Hk') as (_ & _ & H3 & H4 & _).
  unfold Sigma in H3, H4. rewrite map_length, seq_length in H3, H4. auto.
Qed.

(* the combined bound: independent of the number of calls and of the bytes emitted
   ([b_out], [b_count] do not occur in it) *)
Theorem C13_logical_size_bounded_partial : forall (Sigma : list N) (maxkey : nat) ty rows cols ops b' rs,
  run_calls (new_builder ty rows cols) ops = (b', rs) -> Forall (fun r => r <> Panic) rs ->
  keys_in Sigma maxkey ops ->
  builder_logical_size b' <= builder_bound rows cols (N.of_nat (length Sigma)) (N.of_nat maxkey).
Proof.
  intros Sigma maxkey ty rows cols ops b' rs Hrun Hnp Hk. apply (binv_size Sigma).
  exact (run_calls_inv Sigma rows cols maxkey ops _ b' rs (binv_new Sigma rows cols maxkey ty) Hk Hrun Hnp).
Qed.

(* the no-panic premise discharged (BuilderNoPanic.calls_never_panic, itself resting on the full
   builder invariant): for EVERY sequence of calls - valid, duplicate, out of order, empty keys -
   whose keys are bytes, whose values fit in u64 and whose accepted part fits the size budget, the
   state after the calls is within the bound, which does not depend on the number of calls *)
Theorem C13_logical_size_bounded : forall (Sigma : list N) (maxkey : nat) ty rows cols ops,
  Forall op_ok ops -> size_ok_ops (accepted_ops None ops) -> keys_in Sigma maxkey ops ->
  builder_logical_size (fst (run_calls (new_builder ty rows cols) ops))
    <= builder_bound rows cols (N.of_nat (length Sigma)) (N.of_nat maxkey).
Proof.
  intros Sigma maxkey ty rows cols ops Hok Hsz Hk.
  pose proof (calls_never_panic ty rows cols ops Hok Hsz) as Hnp.
  destruct (run_calls (new_builder ty rows cols) ops) as [b' rs] eqn:Hrun. cbn [fst snd] in *.
  exact (C13_logical_size_bounded_partial Sigma maxkey ty rows cols ops b' rs Hrun Hnp Hk).
Qed.

(* the same for extend_iter / extend_stream / from_iter (stop at the first error) *)
Theorem C13_logical_size_bounded_extend_partial : forall (Sigma : list N) (maxkey : nat) ty rows cols ops b',
  run_extend (new_builder ty rows cols) ops = (b', Ok tt) -> keys_in Sigma maxkey ops ->
  builder_logical_size b' <= builder_bound rows cols (N.of_nat (length Sigma)) (N.of_nat maxkey).
Proof.
  intros Sigma maxkey ty rows cols ops b' Hrun Hk. apply (binv_size Sigma).
  exact (run_extend_inv Sigma rows cols maxkey ops _ b' (binv_new Sigma rows cols maxkey ty) Hk Hrun).
Qed.

(* the byte formula the harness compares the measured peak with is at least the logical bound *)
Theorem C13_bytes_formula_dominates : forall rows cols F K,
  builder_bound rows cols F K <= mem_bound_bytes_builder rows cols F K.
Proof. exact builder_bound_le_bytes. Qed.

(* a call that returns an error changed nothing (so rejected keys cost nothing) *)
Theorem C13_rejected_call_keeps_state : forall b o b' e, apply_op b o = (b', Err e) -> b' = b.
Proof. exact apply_op_err. Qed.

(* non-vacuity: a run with shared prefixes, a key that is a prefix of the next one, maps and sets;
   2 x 2 cells; the logical size it reaches and the bound *)
Example C13_nonvacuous :
  let ops := [OpAdd []; OpInsert [97] 5; OpInsert [97; 98] 7; OpAdd [97; 98; 99]; OpInsert [98] 1; OpAdd [98; 97; 97]] in
  keys_in [97; 98; 99] 3 ops /\
  let '(b, rs) := run_calls (new_builder 0 2 2) ops in
  rs = [Ok tt; Ok tt; Ok tt; Ok tt; Ok tt; Ok tt] /\
  length (b_stack b) = 4%nat /\ reg_cells b = 2 /\ reg_trans b = 2 /\ stack_trans b = 4 /\
  builder_logical_size b = 499 /\ builder_bound 2 2 3 3 = 1027.
Proof.
  cbv zeta. split.
  - unfold keys_in.
    repeat (apply Forall_cons; [split; [intros x Hx; cbn in Hx; cbn; intuition|cbn; lia]|]). apply Forall_nil.
  - vm_compute. repeat split.
Qed.

Check C13_registry_cells_bounded : forall rows cols r, reg_reach rows cols r ->
  (forall p c, PositiveMap.find p (r_table r) = Some c -> exists i, p = N.succ_pos i /\ i < rows * cols) /\
  N.of_nat (PositiveMap.cardinal (r_table r)) <= rows * cols.
Check C13_logical_size_bounded_partial : forall (Sigma : list N) (maxkey : nat) ty rows cols ops b' rs,
  run_calls (new_builder ty rows cols) ops = (b', rs) -> Forall (fun r => r <> Panic) rs ->
  keys_in Sigma maxkey ops ->
  builder_logical_size b' <= builder_bound rows cols (N.of_nat (length Sigma)) (N.of_nat maxkey).
Print Assumptions C13_logical_size_bounded.
Print Assumptions C13_registry_cells_bounded.
Print Assumptions C13_registry_notfound_in_table.
Print Assumptions C13_reachable_shape.
Print Assumptions C13_fanout_at_most_256.
Print Assumptions C13_logical_size_bounded_partial.
Print Assumptions C13_logical_size_bounded_extend_partial.
Print Assumptions C13_bytes_formula_dominates.
Print Assumptions C13_rejected_call_keeps_state.
