(* C19 — unsorted `fst set` / `fst map` builds are independent of batching, fd limit, threads and
   worker scheduling.  Statements only; proofs live in proofs/MergeProofs.v.

   Reading guide: [merge_all mg o bs fd threads input] is the model of Merger::merge
   (fst-bin/src/merge.rs) on the parsed rows [input]; the oracle [o] fixes, for every generation,
   the order in which the workers' results are collected (any permutation, may depend on the
   contents) and the order in which a union lists the values of a key.  [spec_merge mg input] is
   the specification: every distinct key once, ascending, with the merger folded over all values
   given for it.  Real thread interleavings are not modelled: their only effect on the data flow
   is the collection order, which the oracle over-approximates. *)
Require Import FstV.Base FstV.Merge FstV.proofs.MergeProofs.
From Coq Require Import Permutation.

(* the mergers of the CLI satisfy the side condition; sum is u64 wrapping addition *)
Theorem C19_mergers_assoc_comm :
  (forall input, merger_ok mg_sum input) /\ (forall input, merger_ok mg_max input) /\
  (forall input, merger_ok mg_min input) /\
  (forall input, Forall (fun x => snd x = 0) input -> merger_ok mg_set input).
Proof.
  split; [intro; apply sum_ac|]. split; [intro; apply max_ac|]. split; [intro; apply min_ac|].
  intros input H. exact H.
Qed.

(* main theorem: every input, every batch size (0 behaves like 1), every fd limit >= 2, every
   thread count >= 1, every schedule: the pipeline terminates within one generation per initial
   batch and returns the specified map *)
Theorem C19_merge_all : forall mg o bs fd threads input,
  merger_ok mg input -> oracle_ok o -> 2 <= fd -> 1 <= threads ->
  merge_all mg o bs fd threads input = Returns (Ok (spec_merge mg input)).
Proof. intros. apply merge_all_correct; auto. lia. Qed.

(* more fuel never changes the answer: the bound is not what makes the theorem true *)
Theorem C19_merge_all_any_fuel : forall mg o bs fd threads input fuel,
  merger_ok mg input -> oracle_ok o -> 2 <= fd -> 1 <= threads ->
  (length (batcher bs input) <= fuel)%nat ->
  merge_all_fuel fuel mg o bs fd threads input = Returns (Ok (spec_merge mg input)).
Proof. intros. apply merge_all_fuel_correct; auto. lia. Qed.

(* corollary: independence of batch size, fd limit, thread count and schedule *)
Corollary C19_independent : forall mg input o1 bs1 fd1 th1 o2 bs2 fd2 th2,
  merger_ok mg input -> oracle_ok o1 -> oracle_ok o2 -> 2 <= fd1 -> 2 <= fd2 -> 1 <= th1 -> 1 <= th2 ->
  merge_all mg o1 bs1 fd1 th1 input = merge_all mg o2 bs2 fd2 th2 input.
Proof. intros. rewrite !C19_merge_all; auto. Qed.

(* the four CLI modes, without side conditions left open *)
Corollary C19_cli_modes : forall o bs fd threads input,
  oracle_ok o -> 2 <= fd -> 1 <= threads ->
  merge_all mg_sum o bs fd threads input = Returns (Ok (spec_merge mg_sum input)) /\
  merge_all mg_max o bs fd threads input = Returns (Ok (spec_merge mg_max input)) /\
  merge_all mg_min o bs fd threads input = Returns (Ok (spec_merge mg_min input)) /\
  (let lines := map (fun kv0 => (fst kv0, 0)) input in      (* cmd/set.rs: `(line, 0)` *)
   merge_all mg_set o bs fd threads lines = Returns (Ok (spec_merge mg_set lines))).
Proof.
  intros. destruct C19_mergers_assoc_comm as [Hs [Hx [Hn Hz]]].
  repeat split; try (apply C19_merge_all; auto).
  apply Hz. apply Forall_forall. intros x Hx'. apply in_map_iff in Hx' as [y [<- _]]. reflexivity.
Qed.

(* the result is a valid map: keys strictly ascending (hence distinct), exactly the distinct input
   keys, each with the merge of all its values *)
Theorem C19_result_content : forall mg input,
  kmap_ok (spec_merge mg input) = true /\
  (forall k, In k (keys_of (spec_merge mg input)) <-> In k (keys_of input)) /\
  (forall k, In k (keys_of input) ->
     lookup (spec_merge mg input) k = Some (merge_outputs mg (values_in k input))) /\
  (forall k, ~ In k (keys_of input) -> lookup (spec_merge mg input) k = None).
Proof.
  intros. split; [apply spec_kmap_ok|]. split; [apply spec_keys_exact|].
  split; [apply lookup_spec_In|apply lookup_spec_notIn].
Qed.

(* generic lemma: for an associative-commutative merger, cutting a multiset of values into
   non-empty groups in any way, folding the groups and folding the partial results in any order
   gives the fold of the whole multiset *)
Theorem C19_fold_any_grouping_any_order : forall f, assoc_comm f ->
  forall (vs : list N) (groups : list (list N)) (order : list N),
  groups <> [] -> Forall (fun g => g <> []) groups ->
  Permutation (concat groups) vs -> Permutation (map (fold1 f) groups) order ->
  fold1 f order = fold1 f vs.
Proof. exact fold1_regroup. Qed.

(* sum: the wrapping fold is the mathematical sum whenever that sum fits into a u64 *)
Theorem C19_sum_exact : forall input k,
  Forall (fun x => snd x < TWO64) input -> nsum (values_in k input) < TWO64 ->
  merge_outputs mg_sum (values_in k input) = nsum (values_in k input).
Proof.
  intros input k HF Hs. cbn [merge_outputs mg_sum]. apply sum_exact; [|assumption].
  unfold values_in. apply Forall_forall. intros v Hv. apply in_map_iff in Hv as [x [<- Hx]].
  apply filter_In in Hx as [Hx _]. rewrite Forall_forall in HF. now apply HF.
Qed.

(* inputs without repeated keys: the result is the input sorted by key, and the sorted-mode build
   (duplicates and disorder are errors there) of that sorted input has the same content; identity
   of the bytes then is determinism of the builder, which the differential run checks *)
Theorem C19_no_repeats_is_sorted_build : forall mg input,
  merger_ok mg input -> NoDup (keys_of input) ->
  spec_merge mg input = kv_sort input /\
  builder_go false None (kv_sort input) = Ok (kv_sort input).
Proof. exact spec_no_repeats. Qed.

(* outside the contract: fd limit 0 or 1 with at least two initial batches never finishes,
   whatever the fuel; no worker at all panics *)
Theorem C19_fd_limit_1_diverges : forall mg o bs fd threads input fuel,
  merger_ok mg input -> oracle_ok o -> fd <= 1 -> 1 <= threads ->
  (2 <= length (batcher bs input))%nat ->
  merge_all_fuel fuel mg o bs fd threads input = Diverges.
Proof. intros. apply merge_all_fd1_diverges; auto. lia. Qed.

Theorem C19_no_threads_panics : forall mg o bs fd input fuel, input <> [] ->
  merge_all_fuel fuel mg o bs fd 0 input = Returns Panic.
Proof. exact merge_all_no_threads. Qed.

(* the oracles the executable model uses are covered by the quantification, and codes reach every permutation *)
Theorem C19_concrete_oracles : forall codes desc, oracle_ok (oracle_of codes desc).
Proof. exact oracle_of_ok. Qed.
Theorem C19_codes_reach_every_permutation : forall (l l' : list (res kmap)),
  Permutation l l' -> exists code, pick_perm code l = l'.
Proof. intros. now apply pick_perm_complete. Qed.

(* `outputs[0]` in UnionBatch::create_fst is in bounds for any inputs *)
Theorem C19_union_outputs_nonempty : forall uo fsts k vs,
  (forall fs k l, Permutation l (uo fs k l)) -> In (k, vs) (union_stream uo fsts) -> vs <> [].
Proof. exact union_outputs_nonempty. Qed.

(* non-vacuity: the first historical witness (`--min`, rows a,1 b,2 c,3, batch size 1) through two
   union generations under a schedule that reverses the first round, and a repeated key inside and
   across batches with `--max`; the hypotheses of C19_merge_all hold for these instances *)
Example C19_nonvacuous :
  let o := oracle_of [[2; 1]; [1]; []] true in
  merge_all mg_min o 1 2 3 [([97], 1); ([98], 2); ([99], 3)]
    = Returns (Ok [([97], 1); ([98], 2); ([99], 3)]) /\
  merge_all mg_max o 2 2 3 [([97], 1); ([97], 2); ([98], 7); ([97], 5); ([], 4)]
    = Returns (Ok [([], 4); ([97], 5); ([98], 7)]) /\
  sched o 0%nat [Ok [([97], 1)]; Ok [([98], 2)]; Ok [([99], 3)]]
    = [Ok [([99], 3)]; Ok [([98], 2)]; Ok [([97], 1)]] /\
  oracle_ok o /\ merger_ok mg_min [([97], 1); ([98], 2); ([99], 3)].
Proof.
  cbv zeta. split; [vm_compute; reflexivity|]. split; [vm_compute; reflexivity|].
  split; [vm_compute; reflexivity|]. split; [apply oracle_of_ok|apply min_ac].
Qed.

(* the repaired defect, for the record: folding from 0 instead of from the first value makes
   `--min` return 0, which is not the minimum of the values given *)
Example C19_old_fold_from_zero_is_wrong :
  fold_left N.min [1; 2] 0 = 0 /\ merge_outputs mg_min [1; 2] = 1.
Proof. split; reflexivity. Qed.

Check C19_merge_all : forall mg o bs fd threads input,
  merger_ok mg input -> oracle_ok o -> 2 <= fd -> 1 <= threads ->
  merge_all mg o bs fd threads input = Returns (Ok (spec_merge mg input)).
Check C19_independent : forall mg input o1 bs1 fd1 th1 o2 bs2 fd2 th2,
  merger_ok mg input -> oracle_ok o1 -> oracle_ok o2 -> 2 <= fd1 -> 2 <= fd2 -> 1 <= th1 -> 1 <= th2 ->
  merge_all mg o1 bs1 fd1 th1 input = merge_all mg o2 bs2 fd2 th2 input.
Print Assumptions C19_mergers_assoc_comm.
Print Assumptions C19_merge_all.
Print Assumptions C19_merge_all_any_fuel.
Print Assumptions C19_independent.
Print Assumptions C19_cli_modes.
Print Assumptions C19_result_content.
Print Assumptions C19_fold_any_grouping_any_order.
Print Assumptions C19_sum_exact.
Print Assumptions C19_no_repeats_is_sorted_build.
Print Assumptions C19_fd_limit_1_diverges.
Print Assumptions C19_no_threads_panics.
Print Assumptions C19_concrete_oracles.
Print Assumptions C19_codes_reach_every_permutation.
Print Assumptions C19_union_outputs_nonempty.
Print Assumptions C19_nonvacuous.
Print Assumptions C19_old_fold_from_zero_is_wrong.
