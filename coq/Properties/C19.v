(* C19 — unsorted `fst set` / `fst map` builds are independent of batching, fd limit, threads and
   worker scheduling.  Statements only; proofs live in proofs/MergeProofs.v (contents) and
   proofs/MergeBytes.v (bytes of the output file, through the builder / format / reader theorems).

   Reading guide: [merge_all mg o bs fd threads input] is the model of Merger::merge
   (fst-bin/src/merge.rs) on the parsed rows [input]; the oracle [o] fixes, for every generation,
   the order in which the workers' results are collected (any permutation, may depend on the
   contents) and the order in which a union lists the values of a key.  [spec_merge mg input] is
   the specification: every distinct key once, ascending, with the merger folded over all values
   given for it.  Real thread interleavings are not modelled: their only effect on the data flow
   is the collection order, which the oracle over-approximates. *)
Require Import FstV.Base FstV.Merge FstV.proofs.MergeProofs.
Require Import FstV.Builder FstV.Format FstV.CodecSpec FstV.Fst FstV.Crc FstV.Open.
Require Import FstV.proofs.BuilderInv FstV.proofs.Closed FstV.proofs.BuiltVerifies FstV.proofs.MergeBytes.
From Coq Require Import Permutation.

(* the mergers of the CLI satisfy the side condition; sum is u64 wrapping addition *)
Theorem C19_mergers_assoc_comm :
  (forall input, merger_ok mg_sum input) /\ (forall input, merger_ok mg_max input) /\
  (forall input, merger_ok mg_min input) /\
  (forall input, Forall (fun x => snd x = 0) input -> merger_ok mg_set input).
Proof.
  split; [intro; apply sum_ac|]. split; [intro; apply max_ac|]. split; [intro; apply min_ac|].
  intros input H. exact H.
Qed.

(* main theorem: every input, every batch size (0 behaves like 1), every fd limit >= 2, every
   thread count >= 1, every schedule: the pipeline terminates within one generation per initial
   batch and returns the specified map *)
Theorem C19_merge_all : forall mg o bs fd threads input,
  merger_ok mg input -> oracle_ok o -> 2 <= fd -> 1 <= threads ->
  merge_all mg o bs fd threads input = Returns (Ok (spec_merge mg input)).
Proof. intros. apply merge_all_correct; auto. lia. Qed.

(* more fuel never changes the answer: the bound is not what makes the theorem true *)
Theorem C19_merge_all_any_fuel : forall mg o bs fd threads input fuel,
  merger_ok mg input -> oracle_ok o -> 2 <= fd -> 1 <= threads ->
  (length (batcher bs input) <= fuel)%nat ->
  merge_all_fuel fuel mg o bs fd threads input = Returns (Ok (spec_merge mg input)).
Proof. intros. apply merge_all_fuel_correct; auto. lia. Qed.

(* corollary: independence of batch size, fd limit, thread count and schedule *)
Corollary C19_independent : forall mg input o1 bs1 fd1 th1 o2 bs2 fd2 th2,
  merger_ok mg input -> oracle_ok o1 -> oracle_ok o2 -> 2 <= fd1 -> 2 <= fd2 -> 1 <= th1 -> 1 <= th2 ->
  merge_all mg o1 bs1 fd1 th1 input = merge_all mg o2 bs2 fd2 th2 input.
Proof. intros. rewrite !C19_merge_all; auto. Qed.

(* the four CLI modes, without side conditions left open *)
Corollary C19_cli_modes : forall o bs fd threads input,
  oracle_ok o -> 2 <= fd -> 1 <= threads ->
  merge_all mg_sum o bs fd threads input = Returns (Ok (spec_merge mg_sum input)) /\
  merge_all mg_max o bs fd threads input = Returns (Ok (spec_merge mg_max input)) /\
  merge_all mg_min o bs fd threads input = Returns (Ok (spec_merge mg_min input)) /\
  (let lines := map (fun kv0 => (fst kv0, 0)) input in      (* cmd/set.rs: `(line, 0)` *)
   merge_all mg_set o bs fd threads lines = Returns (Ok (spec_merge mg_set lines))).
Proof.
  intros. destruct C19_mergers_assoc_comm as [Hs [Hx [Hn Hz]]].
  repeat split; try (apply C19_merge_all; auto).
  apply Hz. apply Forall_forall. intros x Hx'. apply in_map_iff in Hx' as [y [<- _]]. reflexivity.
Qed.

(* the result is a valid map: keys strictly ascending (hence distinct), exactly the distinct input
   keys, each with the merge of all its values *)
Theorem C19_result_content : forall mg input,
  kmap_ok (spec_merge mg input) = true /\
  (forall k, In k (keys_of (spec_merge mg input)) <-> In k (keys_of input)) /\
  (forall k, In k (keys_of input) ->
     lookup (spec_merge mg input) k = Some (merge_outputs mg (values_in k input))) /\
  (forall k, ~ In k (keys_of input) -> lookup (spec_merge mg input) k = None).
Proof.
  intros. split; [apply spec_kmap_ok|]. split; [apply spec_keys_exact|].
  split; [apply lookup_spec_In|apply lookup_spec_notIn].
Qed.

(* generic lemma: for an associative-commutative merger, cutting a multiset of values into
   non-empty groups in any way, folding the groups and folding the partial results in any order
   gives the fold of the whole multiset *)
Theorem C19_fold_any_grouping_any_order : forall f, assoc_comm f ->
  forall (vs : list N) (groups : list (list N)) (order : list N),
  groups <> [] -> Forall (fun g => g <> []) groups ->
  Permutation (concat groups) vs -> Permutation (map (fold1 f) groups) order ->
  fold1 f order = fold1 f vs.
Proof. exact fold1_regroup. Qed.

(* sum: the wrapping fold is the mathematical sum whenever that sum fits into a u64 *)
Theorem C19_sum_exact : forall input k,
  Forall (fun x => snd x < TWO64) input -> nsum (values_in k input) < TWO64 ->
  merge_outputs mg_sum (values_in k input) = nsum (values_in k input).
Proof.
  intros input k HF Hs. cbn [merge_outputs mg_sum]. apply sum_exact; [|assumption].
  unfold values_in. apply Forall_forall. intros v Hv. apply in_map_iff in Hv as [x [<- Hx]].
  apply filter_In in Hx as [Hx _]. rewrite Forall_forall in HF. now apply HF.
Qed.

(* inputs without repeated keys: the result is the input sorted by key, and the sorted-mode build
   (duplicates and disorder are errors there) of that sorted input has the same content; identity
   of the bytes is C19_bytes_identical_to_sorted_build below *)
Theorem C19_no_repeats_is_sorted_build : forall mg input,
  merger_ok mg input -> NoDup (keys_of input) ->
  spec_merge mg input = kv_sort input /\
  builder_go false None (kv_sort input) = Ok (kv_sort input).
Proof. exact spec_no_repeats. Qed.

(* ---------- the bytes of the output file ----------
   Every FST file merge.rs writes, the final one included, comes from a raw::Builder (fst type 0)
   that is given insert(key, value) for the pairs of the content in ascending order and then
   finish(); [build_map summer 0 rows cols content] is the model of exactly that (Builder.v), with
   the checksum function and the node-cache geometry as parameters.
   [rows_ok]: keys are byte strings and values are u64 (what the parsers can deliver);
   [merger_closed]: the merger maps u64 x u64 into u64 (it is a Rust Fn(u64, u64) -> u64);
   [size_ok]: the budget NODE_MAX * (1 + total bytes of the distinct keys) + 100 < 2^64 that keeps
   the file below 2^64 bytes (C19_size_budget_on_rows: the same budget on all rows is enough). *)
Theorem C19_cli_mergers_closed :
  merger_closed mg_sum /\ merger_closed mg_max /\ merger_closed mg_min /\ merger_closed mg_set.
Proof. exact (conj sum_closed (conj max_closed (conj min_closed set_closed))). Qed.

Theorem C19_size_budget_on_rows : forall mg input,
  size_ok_keys (keys_of input) -> size_ok (spec_merge mg input).
Proof. exact size_ok_rows. Qed.

(* maps: for every schedule, batch size, fd limit >= 2, thread count >= 1, every checksum function
   into u32 and every cache geometry, the pipeline returns the specified content, the builder
   writes a file for it, the format specification reads that file back as (version 3, type 0, the
   content), the reader model streams the content and answers every get / contains probe from it;
   with the real checksum the model of Fst::new opens the file and the model of Fst::verify accepts
   it; the content has exactly the distinct input keys, each with the merge of all its values *)
Theorem C19_output_file : forall mg o bs fd threads input summer rows cols,
  merger_ok mg input -> merger_closed mg -> oracle_ok o -> 2 <= fd -> 1 <= threads ->
  rows_ok input -> size_ok (spec_merge mg input) -> (forall l, summer l < 4294967296) ->
  let content := spec_merge mg input in
  merge_all mg o bs fd threads input = Returns (Ok content) /\
  (exists file, build_map summer 0 rows cols content = Ok file /\
     spec_read file = Some (3, 0, content) /\
     api_stream file = Ok content /\ api_len file = len content /\
     (forall k, Forall (fun b => b < 256) k ->
        api_get file k = Ok (lookup content k) /\
        api_contains file k = Ok (match lookup content k with Some _ => true | None => false end))) /\
  (exists file m, build_map model_masked_crc32c 0 rows cols content = Ok file /\
     fst_new file = Ok m /\ verify file m = Ok tt /\
     Open.m_len m = len content /\ Open.m_ty m = 0 /\ Open.m_version m = 3 /\
     spec_read file = Some (3, 0, content) /\ api_stream file = Ok content) /\
  kmap_ok content = true /\
  (forall k, In k (keys_of content) <-> In k (keys_of input)) /\
  (forall k, In k (keys_of input) -> lookup content k = Some (merge_outputs mg (values_in k input))) /\
  (forall k, ~ In k (keys_of input) -> lookup content k = None).
Proof. exact merge_output_file. Qed.

(* the three mergers of `fst map` (--sum wrapping, --max, --min) satisfy both side conditions *)
Theorem C19_output_file_cli_mergers : forall mg, mg = mg_sum \/ mg = mg_max \/ mg = mg_min ->
  forall input, merger_ok mg input /\ merger_closed mg.
Proof. exact cli_mergers_ok. Qed.

(* sets: [set_rows lines] is `(line, 0)` of cmd/set.rs.  The file the merger writes with
   raw::Builder::insert(key, 0) is byte for byte the file a SetBuilder writes for the distinct
   lines in ascending order; contains answers membership in the input lines *)
Theorem C19_output_file_set : forall o bs fd threads lines summer rows cols,
  oracle_ok o -> 2 <= fd -> 1 <= threads ->
  Forall (Forall (fun b => b < 256)) lines -> size_ok_keys (key_set lines) ->
  (forall l, summer l < 4294967296) ->
  let distinct := key_set lines in
  let content := map (fun k => (k, 0)) distinct in
  merge_all mg_set o bs fd threads (set_rows lines) = Returns (Ok content) /\
  (exists file, build_map summer 0 rows cols content = Ok file /\
     build_set summer 0 rows cols distinct = Ok file /\
     spec_read file = Some (3, 0, content) /\
     api_stream file = Ok content /\ api_len file = len distinct /\
     (forall k, Forall (fun b => b < 256) k ->
        api_contains file k = Ok (existsb (key_eqb k) lines))) /\
  (exists file m, build_map model_masked_crc32c 0 rows cols content = Ok file /\
     build_set model_masked_crc32c 0 rows cols distinct = Ok file /\
     fst_new file = Ok m /\ verify file m = Ok tt /\
     Open.m_len m = len distinct /\ Open.m_ty m = 0 /\ Open.m_version m = 3 /\
     spec_read file = Some (3, 0, content) /\ api_stream file = Ok content) /\
  sorted_strict distinct = true /\ (forall k, In k distinct <-> In k lines).
Proof. exact merge_output_file_set. Qed.

(* inputs without repeated keys: for every schedule, batch size, fd limit, thread count, checksum
   function and cache geometry the bytes the unsorted pipeline writes are the bytes of a sorted-mode
   build of the sorted rows, and the sorted-mode builder accepts those rows.  No size or range
   condition: if one build fails, the other fails the same way *)
Theorem C19_bytes_identical_to_sorted_build : forall mg o bs fd threads input summer rows cols,
  merger_ok mg input -> oracle_ok o -> 2 <= fd -> 1 <= threads -> NoDup (keys_of input) ->
  exists m,
    merge_all mg o bs fd threads input = Returns (Ok m) /\
    builder_go false None (kv_sort input) = Ok (kv_sort input) /\
    Permutation input (kv_sort input) /\
    build_map summer 0 rows cols m = build_map summer 0 rows cols (kv_sort input).
Proof. exact merge_bytes_eq_sorted_build. Qed.

(* ... and within the range and size conditions both are one file, which opens, verifies and
   streams the sorted rows *)
Theorem C19_file_identical_to_sorted_build : forall mg o bs fd threads input rows cols,
  merger_ok mg input -> merger_closed mg -> oracle_ok o -> 2 <= fd -> 1 <= threads ->
  NoDup (keys_of input) -> rows_ok input -> size_ok_keys (keys_of input) ->
  exists m file meta,
    merge_all mg o bs fd threads input = Returns (Ok m) /\
    builder_go false None (kv_sort input) = Ok (kv_sort input) /\
    build_map model_masked_crc32c 0 rows cols m = Ok file /\
    build_map model_masked_crc32c 0 rows cols (kv_sort input) = Ok file /\
    fst_new file = Ok meta /\ verify file meta = Ok tt /\
    api_stream file = Ok (kv_sort input) /\ Open.m_len meta = len input.
Proof. exact merge_file_eq_sorted_build. Qed.

(* sets without repeated lines: the bytes of the sorted-mode SetBuilder over the sorted lines *)
Theorem C19_set_bytes_identical_to_sorted_build : forall o bs fd threads lines summer rows cols,
  oracle_ok o -> 2 <= fd -> 1 <= threads -> NoDup lines ->
  exists m,
    merge_all mg_set o bs fd threads (set_rows lines) = Returns (Ok m) /\
    Permutation lines (key_set lines) /\ sorted_strict (key_set lines) = true /\
    build_map summer 0 rows cols m = build_set summer 0 rows cols (key_set lines).
Proof. exact merge_set_bytes_eq_sorted_build. Qed.

(* non-vacuity of C19_output_file: `--sum` over rows with the key "b" three times (inside one
   batch and across batches; the sum wraps: 2 + 5 + (2^64 - 1) = 6 mod 2^64), batch size 2, fd
   limit 2, 3 threads, a schedule that reverses the first round; the hypotheses hold, and the 45
   bytes (real checksum, 2 x 2 node cache) are read back, opened and verified.  They are the bytes
   `fst map --batch-size 2 --fd-limit 2 --threads 3` wrote for the rows b,2 a,1 b,5 "",4 b,2^64-1 *)
Definition C19_rows : list kv := [([98], 2); ([97], 1); ([98], 5); ([], 4); ([98], 18446744073709551615)].
Definition C19_file : list N :=
  [3; 0; 0; 0; 0; 0; 0; 0; 0; 0; 0; 0; 0; 0; 0; 0; 4; 6; 1; 0; 0; 98; 97; 17; 66;
   3; 0; 0; 0; 0; 0; 0; 0; 24; 0; 0; 0; 0; 0; 0; 0; 203; 195; 236; 26].
Example C19_output_file_nonvacuous :
  let o := oracle_of [[2; 1]; [1]; []] true in
  let content := [([], 4); ([97], 1); ([98], 6)] in
  merger_ok mg_sum C19_rows /\ merger_closed mg_sum /\ oracle_ok o /\ rows_ok C19_rows /\
  size_ok (spec_merge mg_sum C19_rows) /\ ~ NoDup (keys_of C19_rows) /\
  merge_all mg_sum o 2 2 3 C19_rows = Returns (Ok content) /\
  build_map model_masked_crc32c 0 2 2 content = Ok C19_file /\
  spec_read C19_file = Some (3, 0, content) /\ api_stream C19_file = Ok content /\
  api_get C19_file [98] = Ok (Some 6) /\
  (exists m, fst_new C19_file = Ok m /\ verify C19_file m = Ok tt) /\
  (* the same bytes up to the checksum with a trivial checksum function *)
  build_map (fun _ => 0) 0 2 2 content = Ok (firstn 41 C19_file ++ [0; 0; 0; 0]).
Proof.
  cbv zeta. split; [apply sum_ac|]. split; [apply sum_closed|]. split; [apply oracle_of_ok|].
  split; [unfold rows_ok, C19_rows; repeat constructor|].
  split; [vm_compute; reflexivity|].
  split; [intro H; inversion H as [|? ? Hn _]; apply Hn; cbn; auto|].
  split; [vm_compute; reflexivity|]. split; [vm_compute; reflexivity|].
  split; [vm_compute; reflexivity|]. split; [vm_compute; reflexivity|].
  split; [vm_compute; reflexivity|].
  split; [eexists; split; vm_compute; reflexivity|]. vm_compute; reflexivity.
Qed.

(* non-vacuity of C19_output_file_set: the line "b" twice (batch size 2, fd limit 2, 3 threads).
   The 46 bytes are the bytes `fst set --batch-size 2 --fd-limit 2 --threads 3` wrote for the lines
   b, a, b, ab *)
Definition C19_lines : list key := [[98]; [97]; [98]; [97; 98]].
Definition C19_set_file : list N :=
  [3; 0; 0; 0; 0; 0; 0; 0; 0; 0; 0; 0; 0; 0; 0; 0; 0; 98; 16; 65; 0; 1; 98; 97; 16; 2;
   3; 0; 0; 0; 0; 0; 0; 0; 25; 0; 0; 0; 0; 0; 0; 0; 209; 251; 28; 184].
Example C19_output_file_set_nonvacuous :
  let o := oracle_of [[2; 1]; [1]; []] true in
  let distinct := [[97]; [97; 98]; [98]] in
  let content := [([97], 0); ([97; 98], 0); ([98], 0)] in
  oracle_ok o /\ Forall (Forall (fun b => b < 256)) C19_lines /\ size_ok_keys (key_set C19_lines) /\
  ~ NoDup C19_lines /\ key_set C19_lines = distinct /\
  merge_all mg_set o 2 2 3 (set_rows C19_lines) = Returns (Ok content) /\
  build_map model_masked_crc32c 0 2 2 content = Ok C19_set_file /\
  build_set model_masked_crc32c 0 2 2 distinct = Ok C19_set_file /\
  spec_read C19_set_file = Some (3, 0, content) /\ api_stream C19_set_file = Ok content /\
  api_contains C19_set_file [98] = Ok true /\ api_contains C19_set_file [99] = Ok false /\
  (exists m, fst_new C19_set_file = Ok m /\ verify C19_set_file m = Ok tt).
Proof.
  cbv zeta. split; [apply oracle_of_ok|].
  split; [unfold C19_lines; repeat constructor|].
  split; [vm_compute; reflexivity|].
  split; [intro H; inversion H as [|? ? Hn _]; apply Hn; cbn; auto|].
  split; [vm_compute; reflexivity|]. split; [vm_compute; reflexivity|].
  split; [vm_compute; reflexivity|]. split; [vm_compute; reflexivity|].
  split; [vm_compute; reflexivity|]. split; [vm_compute; reflexivity|].
  split; [vm_compute; reflexivity|]. split; [vm_compute; reflexivity|].
  eexists; split; vm_compute; reflexivity.
Qed.

(* non-vacuity of C19_bytes_identical_to_sorted_build: four distinct keys out of order, batch size
   1 (four initial FSTs, two union generations); the 53 bytes of the unsorted pipeline are the 53
   bytes of the sorted build (and of `fst map --max --batch-size 1 --fd-limit 2 --threads 3` and
   `fst map --sorted` on these rows); with a repeated key the hypothesis fails and so does the
   sorted build *)
Definition C19_rows_distinct : list kv := [([98], 2); ([97], 1); ([], 4); ([97; 98], 300)].
Definition C19_sorted_file : list N :=
  [3; 0; 0; 0; 0; 0; 0; 0; 0; 0; 0; 0; 0; 0; 0; 0; 0; 0; 43; 1; 0; 98; 18; 65; 4; 2; 1; 0; 1;
   98; 97; 17; 66; 4; 0; 0; 0; 0; 0; 0; 0; 32; 0; 0; 0; 0; 0; 0; 0; 184; 98; 43; 33].
Example C19_bytes_identical_nonvacuous :
  let o := oracle_of [[3; 1; 1]; [1]; []] true in
  let sorted := [([], 4); ([97], 1); ([97; 98], 300); ([98], 2)] in
  merger_ok mg_max C19_rows_distinct /\ oracle_ok o /\ NoDup (keys_of C19_rows_distinct) /\
  kv_sort C19_rows_distinct = sorted /\
  merge_all mg_max o 1 2 3 C19_rows_distinct = Returns (Ok sorted) /\
  builder_go false None sorted = Ok sorted /\
  build_map model_masked_crc32c 0 2 2 sorted = Ok C19_sorted_file /\
  (exists m, fst_new C19_sorted_file = Ok m /\ verify C19_sorted_file m = Ok tt) /\
  builder_go false None (kv_sort C19_rows) = Err (EDuplicateKey [98]).
Proof.
  cbv zeta. split; [apply max_ac|]. split; [apply oracle_of_ok|].
  split; [unfold C19_rows_distinct; cbn; repeat constructor; cbn; intuition discriminate|].
  split; [vm_compute; reflexivity|]. split; [vm_compute; reflexivity|].
  split; [vm_compute; reflexivity|]. split; [vm_compute; reflexivity|].
  split; [eexists; split; vm_compute; reflexivity|]. vm_compute; reflexivity.
Qed.

(* outside the contract: fd limit 0 or 1 with at least two initial batches never finishes,
   whatever the fuel; no worker at all panics *)
Theorem C19_fd_limit_1_diverges : forall mg o bs fd threads input fuel,
  merger_ok mg input -> oracle_ok o -> fd <= 1 -> 1 <= threads ->
  (2 <= length (batcher bs input))%nat ->
  merge_all_fuel fuel mg o bs fd threads input = Diverges.
Proof. intros. apply merge_all_fd1_diverges; auto. lia. Qed.

Theorem C19_no_threads_panics : forall mg o bs fd input fuel, input <> [] ->
  merge_all_fuel fuel mg o bs fd 0 input = Returns Panic.
Proof. exact merge_all_no_threads. Qed.

(* the oracles the executable model uses are covered by the quantification, and codes reach every permutation *)
Theorem C19_concrete_oracles : forall codes desc, oracle_ok (oracle_of codes desc).
Proof. exact oracle_of_ok. Qed.
Theorem C19_codes_reach_every_permutation : forall (l l' : list (res kmap)),
  Permutation l l' -> exists code, pick_perm code l = l'.
Proof. intros. now apply pick_perm_complete. Qed.

(* `outputs[0]` in UnionBatch::create_fst is in bounds for any inputs *)
Theorem C19_union_outputs_nonempty : forall uo fsts k vs,
  (forall fs k l, Permutation l (uo fs k l)) -> In (k, vs) (union_stream uo fsts) -> vs <> [].
Proof. exact union_outputs_nonempty. Qed.

(* non-vacuity: the first historical witness (`--min`, rows a,1 b,2 c,3, batch size 1) through two
   union generations under a schedule that reverses the first round, and a repeated key inside and
   across batches with `--max`; the hypotheses of C19_merge_all hold for these instances *)
Example C19_nonvacuous :
  let o := oracle_of [[2; 1]; [1]; []] true in
  merge_all mg_min o 1 2 3 [([97], 1); ([98], 2); ([99], 3)]
    = Returns (Ok [([97], 1); ([98], 2); ([99], 3)]) /\
  merge_all mg_max o 2 2 3 [([97], 1); ([97], 2); ([98], 7); ([97], 5); ([], 4)]
    = Returns (Ok [([], 4); ([97], 5); ([98], 7)]) /\
  sched o 0%nat [Ok [([97], 1)]; Ok [([98], 2)]; Ok [([99], 3)]]
    = [Ok [([99], 3)]; Ok [([98], 2)]; Ok [([97], 1)]] /\
  oracle_ok o /\ merger_ok mg_min [([97], 1); ([98], 2); ([99], 3)].
Proof.
  cbv zeta. split; [vm_compute; reflexivity|]. split; [vm_compute; reflexivity|].
  split; [vm_compute; reflexivity|]. split; [apply oracle_of_ok|apply min_ac].
Qed.

(* the repaired defect, for the record: folding from 0 instead of from the first value makes
   `--min` return 0, which is not the minimum of the values given *)
Example C19_old_fold_from_zero_is_wrong :
  fold_left N.min [1; 2] 0 = 0 /\ merge_outputs mg_min [1; 2] = 1.
Proof. split; reflexivity. Qed.

Check C19_merge_all : forall mg o bs fd threads input,
  merger_ok mg input -> oracle_ok o -> 2 <= fd -> 1 <= threads ->
  merge_all mg o bs fd threads input = Returns (Ok (spec_merge mg input)).
Check C19_independent : forall mg input o1 bs1 fd1 th1 o2 bs2 fd2 th2,
  merger_ok mg input -> oracle_ok o1 -> oracle_ok o2 -> 2 <= fd1 -> 2 <= fd2 -> 1 <= th1 -> 1 <= th2 ->
  merge_all mg o1 bs1 fd1 th1 input = merge_all mg o2 bs2 fd2 th2 input.
Print Assumptions C19_mergers_assoc_comm.
Print Assumptions C19_merge_all.
Print Assumptions C19_merge_all_any_fuel.
Print Assumptions C19_independent.
Print Assumptions C19_cli_modes.
Print Assumptions C19_result_content.
Print Assumptions C19_fold_any_grouping_any_order.
Print Assumptions C19_sum_exact.
Print Assumptions C19_no_repeats_is_sorted_build.
Print Assumptions C19_fd_limit_1_diverges.
Print Assumptions C19_no_threads_panics.
Print Assumptions C19_concrete_oracles.
Print Assumptions C19_codes_reach_every_permutation.
Print Assumptions C19_union_outputs_nonempty.
Print Assumptions C19_nonvacuous.
Print Assumptions C19_old_fold_from_zero_is_wrong.
Check C19_output_file : forall mg o bs fd threads input summer rows cols,
  merger_ok mg input -> merger_closed mg -> oracle_ok o -> 2 <= fd -> 1 <= threads ->
  rows_ok input -> size_ok (spec_merge mg input) -> (forall l, summer l < 4294967296) ->
  let content := spec_merge mg input in
  merge_all mg o bs fd threads input = Returns (Ok content) /\
  (exists file, build_map summer 0 rows cols content = Ok file /\
     spec_read file = Some (3, 0, content) /\
     api_stream file = Ok content /\ api_len file = len content /\
     (forall k, Forall (fun b => b < 256) k ->
        api_get file k = Ok (lookup content k) /\
        api_contains file k = Ok (match lookup content k with Some _ => true | None => false end))) /\
  (exists file m, build_map model_masked_crc32c 0 rows cols content = Ok file /\
     fst_new file = Ok m /\ verify file m = Ok tt /\
     Open.m_len m = len content /\ Open.m_ty m = 0 /\ Open.m_version m = 3 /\
     spec_read file = Some (3, 0, content) /\ api_stream file = Ok content) /\
  kmap_ok content = true /\
  (forall k, In k (keys_of content) <-> In k (keys_of input)) /\
  (forall k, In k (keys_of input) -> lookup content k = Some (merge_outputs mg (values_in k input))) /\
  (forall k, ~ In k (keys_of input) -> lookup content k = None).
Check C19_bytes_identical_to_sorted_build : forall mg o bs fd threads input summer rows cols,
  merger_ok mg input -> oracle_ok o -> 2 <= fd -> 1 <= threads -> NoDup (keys_of input) ->
  exists m,
    merge_all mg o bs fd threads input = Returns (Ok m) /\
    builder_go false None (kv_sort input) = Ok (kv_sort input) /\
    Permutation input (kv_sort input) /\
    build_map summer 0 rows cols m = build_map summer 0 rows cols (kv_sort input).
Print Assumptions C19_cli_mergers_closed.
Print Assumptions C19_size_budget_on_rows.
Print Assumptions C19_output_file.
Print Assumptions C19_output_file_cli_mergers.
Print Assumptions C19_output_file_set.
Print Assumptions C19_bytes_identical_to_sorted_build.
Print Assumptions C19_file_identical_to_sorted_build.
Print Assumptions C19_set_bytes_identical_to_sorted_build.
Print Assumptions C19_output_file_nonvacuous.
Print Assumptions C19_output_file_set_nonvacuous.
Print Assumptions C19_bytes_identical_nonvacuous.
