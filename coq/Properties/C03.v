(* C03 — range queries: "For any built map or set and any combination of lower bound (none, ge, gt)
   and upper bound (none, le, lt) over arbitrary byte strings - present or absent keys, prefixes,
   extensions, the empty string, inverted ranges - the range stream yields exactly the entries
   whose keys satisfy both bounds, in ascending order with their correct values, and then ends.
   Setting the same kind of bound twice uses the last setting."
   Statements only; proofs live in proofs/StreamProofs.v (the stack machine), proofs/StreamGraphLemmas.v,
   proofs/StreamSorted.v (the language of a graph) and proofs/StreamSpecProofs.v (the specification).

   Vocabulary.  The reader model (FstV.Reader: seek_min, next_with, collect, range — a function by
   function transcription of StreamBuilder / StreamWithState in src/raw/mod.rs) runs against a
   node-access function [node_at].  [views g node_at] says that node_at presents the graph [g]
   (GraphSem), [L g root] is the list of (key, value) pairs of the graph in key order.  The link from
   the bytes of a built file to a graph — wf_graph g, views g (concrete_node_at bytes version),
   content = L g root — is [CodecSpec.parse_views_statement] (proved elsewhere); nothing here looks
   at bytes.  A query is the list [cs] of builder calls ge/gt/le/lt in the order they were made.
   [fuel_ok g root] says that the traversal needs fewer than 2^64 loop iterations (2 * number of
   paths of the unfolded graph + 2 <= 2^64): the model's loops carry 2^64 units of fuel.
   [calls_bytes cs]: every element of every bound key is a byte (< 256). *)
Require Import FstV.Base FstV.Loop FstV.Node FstV.Automaton FstV.Reader FstV.GraphSem FstV.Fst.
Require Import FstV.proofs.StreamGraphLemmas FstV.proofs.StreamSorted FstV.proofs.StreamProofs
               FstV.proofs.StreamSpecProofs.

(* ---------- the stream yields exactly the specified list, then ends ---------- *)
(* [range] drains the stream (next until None), so equality with the list says: these items, in this
   order, with these values, and after the last one the stream answers None; no panic, no error. *)
Theorem C03_range :
  forall (g : graph) (node_at : N -> res nview) (root : N),
    wf_graph g -> views g node_at -> (exists r, gget g root = Some r) -> fuel_ok g root ->
    forall cs : list bcall, calls_bytes cs ->
      range node_at root cs = Ok (spec_range (L g root) cs).
Proof. exact range_correct. Qed.

(* no bounds at all: the whole content *)
Theorem C03_stream_all :
  forall (g : graph) (node_at : N -> res nview) (root : N),
    wf_graph g -> views g node_at -> (exists r, gget g root = Some r) -> fuel_ok g root ->
    stream_all node_at root = Ok (L g root).
Proof. exact stream_all_correct. Qed.

(* once the stream has answered None it keeps answering None (for every stream state, no hypotheses) *)
Theorem C03_ends :
  forall (node_at : N -> res nview) (root : N) (A : automaton) (s s' : stream A),
    next_with node_at root A s = Ok (s', None) -> next_with node_at root A s' = Ok (s', None).
Proof. exact ends_after_none. Qed.

(* ---------- what the specified list is ---------- *)
(* exactly the entries of the map whose keys satisfy both bounds, with their values *)
Theorem C03_spec_exact : forall (m : kmap) (cs : list bcall) (k : key) (v : N),
  In (k, v) (spec_range m cs) <->
  In (k, v) m /\ in_bounds (fst (bounds_of cs)) (snd (bounds_of cs)) k = true.
Proof. exact spec_range_in. Qed.

(* the two bounds as comparisons of byte strings: ge v: v <= k, gt v: v < k, le v: k <= v, lt v: k < v *)
Theorem C03_in_bounds : forall (mn mx : bound) (k : key),
  in_bounds mn mx k =
  (match mn with Included v => key_leb v k | Excluded v => key_ltb v k | Unbounded => true end) &&
  (match mx with Included v => key_leb k v | Excluded v => key_ltb k v | Unbounded => true end).
Proof. exact in_bounds_meaning. Qed.

(* in ascending order (strictly: no key twice); also for the whole content *)
Theorem C03_spec_sorted : forall (g : graph) (a : N) (cs : list bcall), wf_graph g ->
  sorted_strict (keys_of (spec_range (L g a) cs)) = true.
Proof. exact spec_range_sorted. Qed.
Theorem C03_content_sorted : forall (g : graph), wf_graph g -> forall a, sorted_strict (keys_of (L g a)) = true.
Proof. exact L_sorted. Qed.

(* ---------- the last setting of a bound wins ---------- *)
(* the bounds in force: the last ge/gt call and the last le/lt call *)
Theorem C03_bounds_of_last : forall cs : list bcall,
  bounds_of cs =
  (match find is_lower (rev cs) with Some (BGe k) => Included k | Some (BGt k) => Excluded k | _ => Unbounded end,
   match find (fun c => negb (is_lower c)) (rev cs) with
   | Some (BLe k) => Included k | Some (BLt k) => Excluded k | _ => Unbounded end).
Proof. exact bounds_of_last. Qed.
(* an earlier call of the same kind (lower: ge/gt, upper: le/lt) can be dropped *)
Theorem C03_bounds_last_wins : forall cs1 c cs2 c' cs3, is_lower c = is_lower c' ->
  bounds_of (cs1 ++ c :: cs2 ++ c' :: cs3) = bounds_of (cs1 ++ cs2 ++ c' :: cs3).
Proof. exact bounds_last_wins. Qed.
Theorem C03_range_last_wins : forall node_at root cs1 c cs2 c' cs3, is_lower c = is_lower c' ->
  range node_at root (cs1 ++ c :: cs2 ++ c' :: cs3) = range node_at root (cs1 ++ cs2 ++ c' :: cs3).
Proof. exact range_last_wins. Qed.

(* ---------- non-vacuity: the map {"a" -> 5, "ab" -> 7, "b" -> 9} as a graph ---------- *)
Example C03_example :
  wf_graph ex_graph /\ views ex_graph ex_node_at /\ (exists r, gget ex_graph ex_root = Some r) /\
  fuel_ok ex_graph ex_root /\
  L ex_graph ex_root = [([97], 5); ([97; 98], 7); ([98], 9)] /\
  stream_all ex_node_at ex_root = Ok [([97], 5); ([97; 98], 7); ([98], 9)] /\
  range ex_node_at ex_root [BGt [97]; BLe [98]] = Ok [([97; 98], 7); ([98], 9)] /\
  range ex_node_at ex_root [BGe [97]; BLt [97; 98]] = Ok [([97], 5)] /\
  range ex_node_at ex_root [BGe []; BLe [97; 97]] = Ok [([97], 5)] /\            (* absent upper key *)
  range ex_node_at ex_root [BGe [98]; BLe [97]] = Ok [] /\                       (* inverted *)
  range ex_node_at ex_root [BLt []] = Ok [] /\
  range ex_node_at ex_root [BGe [98; 0]; BGt [97]; BLt [97]; BLe [97; 98; 0]] = Ok [([97; 98], 7)]. (* last wins *)
Proof.
  split; [exact ex_wf|]. split; [exact ex_views|]. split; [exact ex_root_ok|]. split; [exact ex_fuel|].
  repeat split; vm_compute; reflexivity.
Qed.

Check C03_range :
  forall (g : graph) (node_at : N -> res nview) (root : N),
    wf_graph g -> views g node_at -> (exists r, gget g root = Some r) -> fuel_ok g root ->
    forall cs : list bcall, calls_bytes cs ->
      range node_at root cs = Ok (spec_range (L g root) cs).
Check C03_stream_all :
  forall (g : graph) (node_at : N -> res nview) (root : N),
    wf_graph g -> views g node_at -> (exists r, gget g root = Some r) -> fuel_ok g root ->
    stream_all node_at root = Ok (L g root).
Check C03_ends :
  forall (node_at : N -> res nview) (root : N) (A : automaton) (s s' : stream A),
    next_with node_at root A s = Ok (s', None) -> next_with node_at root A s' = Ok (s', None).
Check C03_spec_exact : forall (m : kmap) (cs : list bcall) (k : key) (v : N),
  In (k, v) (spec_range m cs) <->
  In (k, v) m /\ in_bounds (fst (bounds_of cs)) (snd (bounds_of cs)) k = true.
Check C03_spec_sorted : forall (g : graph) (a : N) (cs : list bcall), wf_graph g ->
  sorted_strict (keys_of (spec_range (L g a) cs)) = true.
Check C03_range_last_wins : forall node_at root cs1 c cs2 c' cs3, is_lower c = is_lower c' ->
  range node_at root (cs1 ++ c :: cs2 ++ c' :: cs3) = range node_at root (cs1 ++ cs2 ++ c' :: cs3).

Print Assumptions C03_range.
Print Assumptions C03_stream_all.
Print Assumptions C03_ends.
Print Assumptions C03_spec_exact.
Print Assumptions C03_in_bounds.
Print Assumptions C03_spec_sorted.
Print Assumptions C03_content_sorted.
Print Assumptions C03_bounds_of_last.
Print Assumptions C03_bounds_last_wins.
Print Assumptions C03_range_last_wins.
Print Assumptions C03_example.

(* ---------- composition with the builder and codec theorems ---------- *)
Require Import FstV.Builder FstV.Fst FstV.CodecSpec FstV.proofs.Closed FstV.proofs.StreamProofs FstV.proofs.ReaderProofs.

(* end to end: on the bytes a builder writes for ANY key list, values, type and cache geometry *)
Theorem C03_on_built_maps : forall summer ty rows cols kvs,
  input_ok kvs -> ty < U64 -> (forall l, summer l < 4294967296) ->
  exists bs, build_map summer ty rows cols kvs = Ok bs /\
    forall cs, calls_bytes cs -> api_range bs cs = Ok (spec_range kvs cs).
Proof. exact C03_closed. Qed.
Print Assumptions C03_on_built_maps.
