(* C20 — "open, then verify" is a total integrity gate.  Statements only; proofs in proofs/OpenProofs.v.
   In Open.v every slice, index, subtraction and addition of Fst::new / Fst::verify is a checked
   operation yielding [Panic] where Rust would panic, so "<> Panic" says no such check can fire.
   The clause "the library contains no unsafe code" is not a theorem: it is a token scan of /repo/src
   plus `cargo rustc -- -F unsafe_code`, reported as measurements by harness/src/c20.rs. *)
Require Import FstV.Base FstV.Generated.SrcParams FstV.Crc FstV.Open FstV.proofs.OpenProofs.

(* every list of numbers (in particular every byte string): no hypothesis at all *)
Theorem C20_open_total : forall bs : list N, fst_new bs <> Panic.
Proof. exact open_total. Qed.

(* on anything that opens, verify() returns; len/is_empty/size/fst_type/as_bytes are plain field
   reads (fst_len, fst_is_empty, fst_size, fst_type, fst_as_bytes are total functions into N / bool /
   list N, not into [res]), so they are total by construction *)
Theorem C20_accessors_total : forall bs m, fst_new bs = Ok m -> verify bs m <> Panic.
Proof. exact verify_total. Qed.

Theorem C20_gate_total : forall bs : list N, open_verify bs <> Panic.
Proof. exact open_verify_total. Qed.

(* what the gate can answer *)
Theorem C20_open_errors : forall bs e, fst_new bs = Err e ->
  e = EFormat (len bs) \/ exists v, e = EVersion src_VERSION v.
Proof. exact open_errors. Qed.
Theorem C20_verify_errors : forall bs m e, fst_new bs = Ok m -> verify bs m = Err e ->
  e = EChecksumMissing \/ exists expected got, e = EChecksumMismatch expected got /\ expected <> got.
Proof. exact verify_errors. Qed.

(* non-vacuity: inputs that reach each exit of Fst::new, including the two where a slice bound or a
   subtraction is closest to failing (length exactly 32 for version 1, exactly 36 for version 3) *)
Definition C20_example_fst : list N := [3; 0; 0; 0; 0; 0; 0; 0; 0; 0; 0; 0; 0; 0; 0; 0; 0; 16; 154; 1; 0; 44; 1; 0; 1; 98; 97; 18; 2; 2; 0; 0; 0; 0; 0; 0; 0; 28; 0; 0; 0; 0; 0; 0; 0; 132; 38; 78; 94].
Example C20_nonvacuous :
  fst_new [] = Err (EFormat 0) /\
  fst_new (firstn 31 C20_example_fst) = Err (EFormat 31) /\
  fst_new (firstn 35 C20_example_fst) = Err (EFormat 35) /\
  fst_new (repeatN 0 40) = Err (EVersion 3 0) /\
  fst_new (1 :: repeatN 0 31) =
    Ok {| m_version := 1; m_root_addr := 0; m_ty := 0; m_len := 0; m_checksum := None |} /\
  fst_new (1 :: repeatN 0 32) = Err (EFormat 33) /\
  fst_new (3 :: repeatN 0 35) =
    Ok {| m_version := 3; m_root_addr := 0; m_ty := 0; m_len := 0; m_checksum := Some 0 |} /\
  verify (3 :: repeatN 0 35) {| m_version := 3; m_root_addr := 0; m_ty := 0; m_len := 0; m_checksum := Some 0 |}
    = Err (EChecksumMismatch 0 846365644) /\
  open_verify C20_example_fst =
    Ok {| m_version := 3; m_root_addr := 28; m_ty := 0; m_len := 2; m_checksum := Some 1582179972 |}.
Proof. vm_compute. repeat split. Qed.

Check C20_open_total : forall bs : list N, fst_new bs <> Panic.
Check C20_accessors_total : forall bs m, fst_new bs = Ok m -> verify bs m <> Panic.
Print Assumptions C20_open_total.
Print Assumptions C20_accessors_total.
Print Assumptions C20_gate_total.
Print Assumptions C20_open_errors.
Print Assumptions C20_verify_errors.
Print Assumptions C20_nonvacuous.
