(* C02 — get and contains_key answer exactly for the inserted keys.
   Statements only; proofs live in proofs/GraphProofs.v and proofs/ReaderProofs.v.

   The statements are about the model of Fst::get / contains_key (Reader.fst_get, fst_contains,
   following FstRef::get and contains_key of src/raw/mod.rs) running over ANY node-access function
   [node_at] that presents a well-formed graph g (GraphSem.views), for EVERY probe whose elements
   are bytes.  The map denoted by the graph is [L g root] (pairs in key order).
   The two links that make this a statement about built files are proved elsewhere:
     * bytes -> graph: CodecSpec.parse_views_statement (decoding a file gives a node_at that
       presents a well-formed graph);
     * builder calls -> bytes, and L of that graph = the inserted pairs: C01 / C09. *)
Require Import FstV.Base FstV.Node FstV.Reader FstV.GraphSem.
Require Import FstV.proofs.GraphProofs FstV.proofs.ReaderProofs.

(* get returns the value bound to the probe in the denoted map, contains whether there is one;
   neither panics nor errs.  [lookup] compares whole keys (Base.lex_cmp), so prefixes,
   extensions, probes diverging at any position and the empty key are all covered. *)
Theorem C02_get_contains : forall (g : graph) (node_at : N -> res nview) (root : N),
  wf_graph g -> views g node_at -> (exists r, gget g root = Some r) ->
  forall k, Forall (fun b => b < 256) k ->
    fst_get node_at root k = Ok (lookup (L g root) k) /\
    fst_contains node_at root k = Ok (match lookup (L g root) k with Some _ => true | None => false end).
Proof.
  intros g node_at root WF V Hr k HF. split.
  - exact (get_correct g node_at WF V root Hr k HF).
  - exact (contains_correct g node_at WF V root Hr k HF).
Qed.

(* the denoted map has strictly increasing, hence pairwise distinct, keys: lookup is membership *)
Theorem C02_language_sorted : forall (g : graph) (root : N) (r : gnode),
  wf_graph g -> gget g root = Some r ->
  kmap_ok (L g root) = true /\ NoDup (keys_of (L g root)) /\
  forall k v, lookup (L g root) k = Some v <-> In (k, v) (L g root).
Proof.
  intros g root r WF Hr. split; [exact (L_sorted g WF root r Hr)|]. split.
  - exact (L_keys_NoDup g WF root r Hr).
  - intros k v. exact (L_lookup_In g WF root r k v Hr).
Qed.

(* the same as C02_get_contains, read as in the property text *)
Theorem C02_membership : forall (g : graph) (node_at : N -> res nview) (root : N),
  wf_graph g -> views g node_at -> (exists r, gget g root = Some r) ->
  forall k, Forall (fun b => b < 256) k ->
  (forall v, fst_get node_at root k = Ok (Some v) <-> In (k, v) (L g root)) /\
  (fst_get node_at root k = Ok None <-> ~ In k (keys_of (L g root))) /\
  (fst_contains node_at root k = Ok true <-> In k (keys_of (L g root))) /\
  (fst_contains node_at root k = Ok false <-> ~ In k (keys_of (L g root))).
Proof. intros g node_at root WF V. exact (get_contains_membership g node_at WF V root). Qed.

(* the structure of the denoted map, one node at a time *)
Theorem C02_language_unfold : forall (g : graph) (a : N) (n : gnode),
  wf_graph g -> gget g a = Some n ->
  L g a = (if g_final n then [([], g_fout n)] else []) ++
          flat_map (fun t => map (fun kv => (t_inp t :: fst kv, t_out t + snd kv)) (L g (t_addr t))) (g_trans n).
Proof. intros g a n WF. exact (L_unfold g WF a n). Qed.

(* non-vacuity: the graph of {"a" -> 5, "ab" -> 7, "b" -> 9} (ReaderProofs.ex_graph) is well
   formed, is presented by view_of_graph, denotes that map, and the model answers on keys, a
   proper prefix (the empty key), an extension, a diverging probe and an absent first byte *)
Example C02_nonvacuous :
  wf_graph ex_graph /\ views ex_graph (view_of_graph ex_graph) /\
  L ex_graph ex_root = [([97], 5); ([97; 98], 7); ([98], 9)] /\
  fst_get (view_of_graph ex_graph) ex_root [97] = Ok (Some 5) /\
  fst_get (view_of_graph ex_graph) ex_root [97; 98] = Ok (Some 7) /\
  fst_get (view_of_graph ex_graph) ex_root [98] = Ok (Some 9) /\
  fst_get (view_of_graph ex_graph) ex_root [] = Ok None /\
  fst_get (view_of_graph ex_graph) ex_root [97; 98; 99] = Ok None /\
  fst_get (view_of_graph ex_graph) ex_root [97; 99] = Ok None /\
  fst_get (view_of_graph ex_graph) ex_root [99] = Ok None /\
  fst_contains (view_of_graph ex_graph) ex_root [97; 98] = Ok true /\
  fst_contains (view_of_graph ex_graph) ex_root [98; 98] = Ok false.
Proof.
  split; [exact ex_wf|]. split; [apply view_of_graph_views|]. split; [exact ex_L|].
  vm_compute. repeat split.
Qed.

Check C02_get_contains : forall (g : graph) (node_at : N -> res nview) (root : N),
  wf_graph g -> views g node_at -> (exists r, gget g root = Some r) ->
  forall k, Forall (fun b => b < 256) k ->
    fst_get node_at root k = Ok (lookup (L g root) k) /\
    fst_contains node_at root k = Ok (match lookup (L g root) k with Some _ => true | None => false end).
Check C02_membership : forall (g : graph) (node_at : N -> res nview) (root : N),
  wf_graph g -> views g node_at -> (exists r, gget g root = Some r) ->
  forall k, Forall (fun b => b < 256) k ->
  (forall v, fst_get node_at root k = Ok (Some v) <-> In (k, v) (L g root)) /\
  (fst_get node_at root k = Ok None <-> ~ In k (keys_of (L g root))) /\
  (fst_contains node_at root k = Ok true <-> In k (keys_of (L g root))) /\
  (fst_contains node_at root k = Ok false <-> ~ In k (keys_of (L g root))).
Print Assumptions C02_get_contains.
Print Assumptions C02_language_sorted.
Print Assumptions C02_membership.
Print Assumptions C02_language_unfold.
Print Assumptions C02_nonvacuous.

(* ---------- composition with the builder and codec theorems ---------- *)
Require Import FstV.Builder FstV.Fst FstV.CodecSpec FstV.proofs.Closed FstV.proofs.StreamProofs FstV.proofs.ReaderProofs.

(* end to end: on the bytes a builder writes for ANY key list, values, type and cache geometry *)
Theorem C02_on_built_maps : forall summer ty rows cols kvs,
  input_ok kvs -> ty < U64 -> (forall l, summer l < 4294967296) ->
  exists bs, build_map summer ty rows cols kvs = Ok bs /\
    forall k, Forall (fun b => b < 256) k ->
      api_get bs k = Ok (lookup kvs k) /\
      api_contains bs k = Ok (match lookup kvs k with Some _ => true | None => false end).
Proof. exact C02_closed. Qed.
Print Assumptions C02_on_built_maps.
