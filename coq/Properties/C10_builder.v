(* C10 (builder side) — the reference encoders of the older formats: Builder.build_map_v runs the
   same builder with b_version = 1, 2 or 3 (no transition index for version 1, no checksum for
   versions 1 and 2).  Its output is accepted by the format specification as a file of that version
   with exactly the given content.  No premises: the codec laws are proofs/NodeCodec.v.
   Statements only; proofs live in proofs/BuilderProofs1..5.v. *)
Require Import FstV.Base FstV.Pack FstV.Node FstV.Registry FstV.Builder FstV.GraphSem FstV.Format
               FstV.CodecSpec FstV.Fst.
Require Import FstV.proofs.BuilderInv FstV.proofs.BuilderProofs5 FstV.proofs.NodeCodec.
Require Import FstV.Properties.C01_builder.

Theorem build_map_v_correct :
  forall (summer : list N -> N) (version ty : N) (kvs : kmap),
    1 <= version <= 3 ->
    kmap_ok kvs = true ->
    Forall (fun kv => Forall (fun b => b < 256) (fst kv) /\ snd kv < U64) kvs ->
    ty < U64 -> (forall l, summer l < 4294967296) ->
    size_ok kvs ->
    exists bs p,
      build_map_v summer version ty kvs = Ok bs /\
      spec_parse bs = Some p /\
      p_version p = version /\ p_ty p = ty /\ p_len p = len kvs /\ p_content p = kvs /\
      wf_fst_b bs = true /\
      (version <= 2 -> p_checksum p = None) /\
      (version = 3 -> p_checksum p = Some (summer (firstn (length bs - 4) bs))) /\
      built_extras bs p.
Proof.
  intros summer version ty kvs Hv H1 H2 H3 H4 H5.
  destruct (build_map_v_correct_proof codec_holds compile_total_holds summer version ty kvs Hv H1 H2 H3 H4 H5)
    as (bs & Hb & p & A1 & A2 & A3 & A4 & A5 & A6 & A7 & A8 & A9 & A10 & A11).
  exists bs, p. unfold built_extras. change (2 ^ 64) with U64.
  repeat split; auto.
  - intros Hle. rewrite A6. destruct (N.leb_spec 3 version); [lia|reflexivity].
  - intros ->. exact A6.
Qed.

(* non-vacuity: versions 1 and 2 on a map with 40 transitions at the root (above the index
   threshold: version 1 writes no index, version 2 does) *)
Definition C10_kvs : kmap := map (fun i => ([N.of_nat i], N.of_nat i)) (seq 0 40).
Example C10_builder_nonvacuous :
  kmap_ok C10_kvs = true /\ size_ok C10_kvs /\
  forall v, In v [1; 2; 3] ->
    match build_map_v C01_summer v 5 C10_kvs with
    | Ok bs => match spec_parse bs with
               | Some p => p_version p = v /\ p_content p = C10_kvs /\ wf_fst_b bs = true /\
                           len bs = (if v =? 1 then 154 else if v =? 2 then 410 else 414)
               | None => False end
    | _ => False end.
Proof.
  split; [reflexivity|]. split; [reflexivity|].
  intros v [<-|[<-|[<-|[]]]]; vm_compute; repeat split.
Qed.

Check build_map_v_correct.
Print Assumptions build_map_v_correct.
