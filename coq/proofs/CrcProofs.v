(* CrcProofs.v — C08: the table-driven slicing-by-16 CRC of src/raw/crc32.rs (with the tables of
   build.rs) equals the bit-by-bit CRC-32C for every byte list; chunking independence; the
   Snappy mask is injective; every single-byte change (and every change inside a 4-byte window)
   changes the CRC.  Everything is algebra over GF(2): the bit step is XOR-linear and injective
   on 32-bit values; no fact is established by enumeration except the check value. *)
Require Import FstV.Base FstV.Generated.SrcParams FstV.Crc.
From Coq Require Import ZArith Btauto ZifyN ZifyBool ZifyNat.
Ltac Zify.zify_post_hook ::= Z.div_mod_to_equations.

Local Infix "^^" := N.lxor (at level 50, left associativity).

(* ---------- XOR identities up to associativity/commutativity, bit by bit ---------- *)
Ltac xor_ac :=
  apply N.bits_inj; intro;
  repeat first [rewrite N.lxor_spec | rewrite N.lor_spec | rewrite N.land_spec
               | rewrite N.ldiff_spec | rewrite N.bits_0];
  repeat match goal with |- context [N.testbit ?a ?n] => generalize (N.testbit a n); intro end;
  btauto.

(* ---------- 32-bit range as "nothing above bit 31" ---------- *)
Lemma u32_iff x : x < POW32 <-> N.shiftr x 32 = 0.
Proof.
  rewrite N.shiftr_div_pow2. replace (2 ^ 32) with POW32 by reflexivity.
  symmetry. apply N.div_small_iff. discriminate.
Qed.
Lemma byte_shiftr8 b : b < 256 -> N.shiftr b 8 = 0.
Proof.
  intros H. rewrite N.shiftr_div_pow2. replace (2 ^ 8) with 256 by reflexivity.
  apply N.div_small_iff; [discriminate|exact H].
Qed.
Lemma byte_u32 b : b < 256 -> b < POW32.
Proof. unfold POW32. lia. Qed.
Lemma u32_lxor a b : a < POW32 -> b < POW32 -> a ^^ b < POW32.
Proof. rewrite !u32_iff. intros Ha Hb. now rewrite N.shiftr_lxor, Ha, Hb. Qed.
Lemma u8_small b : b < 256 -> u8 b = b.
Proof.
  intros H. unfold u8. change 255 with (N.ones 8). rewrite N.land_ones.
  apply N.mod_small. exact H.
Qed.
Lemma u8_lt x : u8 x < 256.
Proof.
  unfold u8. change 255 with (N.ones 8). rewrite N.land_ones.
  replace (2 ^ 8) with 256 by reflexivity. apply N.mod_lt. discriminate.
Qed.

(* ---------- the bit step in shift/testbit form ---------- *)
Definition pz (b : bool) : N := if b then spec_poly else 0.
Lemma bit_step_alt c : spec_bit_step c = N.shiftr c 1 ^^ pz (N.testbit c 0).
Proof.
  unfold spec_bit_step, pz. rewrite N.bit0_odd, N.div2_spec.
  destruct (N.odd c); [reflexivity|now rewrite N.lxor_0_r].
Qed.

Lemma bit_step_lin x y : spec_bit_step (x ^^ y) = spec_bit_step x ^^ spec_bit_step y.
Proof.
  rewrite !bit_step_alt, N.shiftr_lxor, N.lxor_spec. unfold pz.
  destruct (N.testbit x 0), (N.testbit y 0); cbn [xorb]; xor_ac.
Qed.
Lemma spec_bits_lin n : forall x y, spec_bits n (x ^^ y) = spec_bits n x ^^ spec_bits n y.
Proof. induction n as [|n IH]; intros x y; cbn [spec_bits]; [reflexivity|]. now rewrite bit_step_lin, IH. Qed.
Lemma spec_bits_0 n : spec_bits n 0 = 0.
Proof. induction n as [|n IH]; cbn [spec_bits]; [reflexivity|]. exact IH. Qed.
Lemma spec_bits_add n m x : spec_bits (n + m) x = spec_bits m (spec_bits n x).
Proof. revert x; induction n as [|n IH]; intros x; cbn [spec_bits Nat.add]; [reflexivity|apply IH]. Qed.

(* dividing x^k * w by x, k times, gives w back: no reduction happens *)
Lemma bit_step_shiftl w k : spec_bit_step (N.shiftl w (N.succ k)) = N.shiftl w k.
Proof.
  rewrite bit_step_alt. rewrite N.shiftl_spec_low by lia. cbn [pz].
  rewrite N.lxor_0_r, N.shiftr_shiftl_l by lia. f_equal. lia.
Qed.
Lemma spec_bits_shiftl k w : spec_bits k (N.shiftl w (N.of_nat k)) = w.
Proof.
  induction k as [|k IH]; cbn [spec_bits].
  - apply N.shiftl_0_r.
  - rewrite Nat2N.inj_succ, bit_step_shiftl. exact IH.
Qed.

(* range and injectivity of the bit step on 32-bit values *)
Lemma poly_u32 : spec_poly < POW32.
Proof. reflexivity. Qed.
Lemma poly_top : N.testbit spec_poly 31 = true.
Proof. reflexivity. Qed.
Lemma bit_step_u32 c : c < POW32 -> spec_bit_step c < POW32.
Proof.
  intros H. rewrite bit_step_alt. apply u32_lxor.
  - apply u32_iff. rewrite N.shiftr_shiftr. replace (1 + 32) with (32 + 1) by reflexivity.
    rewrite <- N.shiftr_shiftr. apply u32_iff in H. rewrite H. reflexivity.
  - destruct (N.testbit c 0); [exact poly_u32|reflexivity].
Qed.
Lemma spec_bits_u32 n : forall c, c < POW32 -> spec_bits n c < POW32.
Proof. induction n as [|n IH]; intros c H; cbn [spec_bits]; [exact H|]. apply IH, bit_step_u32, H. Qed.

Lemma bit_step_top c : c < POW32 -> N.testbit (spec_bit_step c) 31 = N.testbit c 0.
Proof.
  intros H. rewrite bit_step_alt, N.lxor_spec, N.shiftr_spec'.
  replace (31 + 1) with (0 + 32) by reflexivity. rewrite <- N.shiftr_spec'.
  apply u32_iff in H. rewrite H, N.bits_0. unfold pz.
  destruct (N.testbit c 0); [rewrite poly_top|rewrite N.bits_0]; reflexivity.
Qed.
Lemma shiftr1_bit0_inj x y : N.shiftr x 1 = N.shiftr y 1 -> N.testbit x 0 = N.testbit y 0 -> x = y.
Proof.
  intros Hs H0. apply N.bits_inj. intro n. destruct (N.eq_dec n 0) as [->|Hn]; [exact H0|].
  replace n with (n - 1 + 1) by lia. rewrite <- !N.shiftr_spec'. now rewrite Hs.
Qed.
Lemma bit_step_inj x y : x < POW32 -> y < POW32 -> spec_bit_step x = spec_bit_step y -> x = y.
Proof.
  intros Hx Hy E.
  assert (H0 : N.testbit x 0 = N.testbit y 0).
  { rewrite <- (bit_step_top x Hx), <- (bit_step_top y Hy). now rewrite E. }
  apply shiftr1_bit0_inj; [|exact H0].
  rewrite !bit_step_alt, H0 in E.
  apply N.lxor_eq.
  transitivity ((N.shiftr x 1 ^^ pz (N.testbit y 0)) ^^ (N.shiftr y 1 ^^ pz (N.testbit y 0))); [xor_ac|].
  rewrite E. apply N.lxor_nilpotent.
Qed.
Lemma spec_bits_inj n : forall x y, x < POW32 -> y < POW32 -> spec_bits n x = spec_bits n y -> x = y.
Proof.
  induction n as [|n IH]; intros x y Hx Hy E; cbn [spec_bits] in E; [exact E|].
  apply bit_step_inj; auto. apply IH; auto using bit_step_u32.
Qed.

(* ---------- the byte step B = eight bit steps ---------- *)
Definition B (x : N) : N := spec_bits 8 x.
Lemma B_lin x y : B (x ^^ y) = B x ^^ B y.
Proof. apply spec_bits_lin. Qed.
Lemma B_shiftl8 w : B (N.shiftl w 8) = w.
Proof. exact (spec_bits_shiftl 8 w). Qed.

Lemma split_low8 y : y = u8 y ^^ N.shiftl (N.shiftr y 8) 8.
Proof.
  unfold u8. change 255 with (N.ones 8). rewrite <- N.ldiff_ones_r. xor_ac.
Qed.
(* B y = B (low byte) xor the remaining bytes *)
Lemma B_peel y : B y = B (u8 y) ^^ N.shiftr y 8.
Proof. rewrite (split_low8 y) at 1. now rewrite B_lin, B_shiftl8. Qed.

Lemma spec_byte_B c b : spec_byte c b = B (c ^^ b).
Proof. reflexivity. Qed.
Lemma spec_byte_u32 c b : c < POW32 -> b < 256 -> spec_byte c b < POW32.
Proof. intros Hc Hb. apply spec_bits_u32, u32_lxor; auto using byte_u32. Qed.

(* k byte steps *)
Definition Bk (k : nat) (x : N) : N := spec_bits (8 * k) x.
Lemma Bk_0 x : Bk 0 x = x.
Proof. reflexivity. Qed.
Lemma Bk_S k x : Bk (S k) x = Bk k (B x).
Proof. unfold Bk, B. replace (8 * S k)%nat with (8 + 8 * k)%nat by lia. apply spec_bits_add. Qed.
Lemma Bk_lin k x y : Bk k (x ^^ y) = Bk k x ^^ Bk k y.
Proof. apply spec_bits_lin. Qed.
Lemma Bk_zero k : Bk k 0 = 0.
Proof. apply spec_bits_0. Qed.
Lemma Bk_peel k y : Bk (S k) y = Bk (S k) (u8 y) ^^ Bk k (N.shiftr y 8).
Proof. rewrite !Bk_S, (B_peel y), Bk_lin. reflexivity. Qed.
Lemma Bk_u32 k x : x < POW32 -> Bk k x < POW32.
Proof. apply spec_bits_u32. Qed.
Lemma Bk_inj k x y : x < POW32 -> y < POW32 -> Bk k x = Bk k y -> x = y.
Proof. apply spec_bits_inj. Qed.

(* a 32-bit value split into its four bytes *)
Lemma Bk_split4 k x : x < POW32 ->
  Bk (4 + k) x = Bk (4 + k) (u8 x) ^^ Bk (3 + k) (u8 (N.shiftr x 8))
                 ^^ Bk (2 + k) (u8 (N.shiftr x 16)) ^^ Bk (1 + k) (u8 (N.shiftr x 24)).
Proof.
  intros H. apply u32_iff in H. cbn [Nat.add].
  rewrite (Bk_peel (S (S (S k))) x), (Bk_peel (S (S k)) (N.shiftr x 8)).
  rewrite (Bk_peel (S k) (N.shiftr (N.shiftr x 8) 8)), (Bk_peel k (N.shiftr (N.shiftr (N.shiftr x 8) 8) 8)).
  rewrite !N.shiftr_shiftr.
  change (8 + 8) with 16. change (16 + 8) with 24. change (24 + 8) with 32.
  rewrite H, Bk_zero. xor_ac.
Qed.

(* ---------- little-endian words ---------- *)
Lemma low_lor a r : a < 256 -> u8 (N.lor a (N.shiftl r 8)) = a.
Proof.
  intros H. unfold u8. rewrite N.land_lor_distr_l. fold (u8 a). rewrite (u8_small a H).
  change 255 with (N.ones 8). rewrite N.land_ones, N.shiftl_mul_pow2, N.mod_mul by discriminate.
  apply N.lor_0_r.
Qed.
Lemma high_lor a r : a < 256 -> N.shiftr (N.lor a (N.shiftl r 8)) 8 = r.
Proof.
  intros H. rewrite N.shiftr_lor, (byte_shiftr8 a H), N.shiftr_shiftl_l by lia.
  rewrite N.lor_0_l. change (8 - 8) with 0. apply N.shiftl_0_r.
Qed.
Lemma le32_nested b0 b1 b2 b3 :
  le32 b0 b1 b2 b3 = N.lor b0 (N.shiftl (N.lor b1 (N.shiftl (N.lor b2 (N.shiftl b3 8)) 8)) 8).
Proof. unfold le32. rewrite !N.shiftl_lor, !N.shiftl_shiftl. reflexivity. Qed.

Section Le32.
Variables b0 b1 b2 b3 : N.
Hypothesis (H0 : b0 < 256) (H1 : b1 < 256) (H2 : b2 < 256) (H3 : b3 < 256).
Let y := le32 b0 b1 b2 b3.
Lemma le32_byte0 : u8 y = b0.
Proof. unfold y. rewrite le32_nested. now apply low_lor. Qed.
Lemma le32_shr8 : N.shiftr y 8 = N.lor b1 (N.shiftl (N.lor b2 (N.shiftl b3 8)) 8).
Proof. unfold y. rewrite le32_nested. now apply high_lor. Qed.
Lemma le32_byte1 : u8 (N.shiftr y 8) = b1.
Proof. rewrite le32_shr8. now apply low_lor. Qed.
Lemma le32_shr16 : N.shiftr y 16 = N.lor b2 (N.shiftl b3 8).
Proof. change 16 with (8 + 8). rewrite <- N.shiftr_shiftr, le32_shr8. now apply high_lor. Qed.
Lemma le32_byte2 : u8 (N.shiftr y 16) = b2.
Proof. rewrite le32_shr16. now apply low_lor. Qed.
Lemma le32_shr24 : N.shiftr y 24 = b3.
Proof. change 24 with (16 + 8). rewrite <- N.shiftr_shiftr, le32_shr16. now apply high_lor. Qed.
Lemma le32_byte3 : u8 (N.shiftr y 24) = b3.
Proof. rewrite le32_shr24. now apply u8_small. Qed.
Lemma le32_u32 : y < POW32.
Proof.
  apply u32_iff. change 32 with (24 + 8). rewrite <- N.shiftr_shiftr, le32_shr24.
  now apply byte_shiftr8.
Qed.
End Le32.

Lemma le32_inj a0 a1 a2 a3 b0 b1 b2 b3 :
  a0 < 256 -> a1 < 256 -> a2 < 256 -> a3 < 256 -> b0 < 256 -> b1 < 256 -> b2 < 256 -> b3 < 256 ->
  le32 a0 a1 a2 a3 = le32 b0 b1 b2 b3 -> a0 = b0 /\ a1 = b1 /\ a2 = b2 /\ a3 = b3.
Proof.
  intros A0 A1 A2 A3 B0 B1 B2 B3 E. repeat split.
  - rewrite <- (le32_byte0 a0 a1 a2 a3), <- (le32_byte0 b0 b1 b2 b3) by assumption. now rewrite E.
  - rewrite <- (le32_byte1 a0 a1 a2 a3), <- (le32_byte1 b0 b1 b2 b3) by assumption. now rewrite E.
  - rewrite <- (le32_byte2 a0 a1 a2 a3), <- (le32_byte2 b0 b1 b2 b3) by assumption. now rewrite E.
  - rewrite <- (le32_byte3 a0 a1 a2 a3), <- (le32_byte3 b0 b1 b2 b3) by assumption. now rewrite E.
Qed.

(* ---------- build.rs tables ---------- *)
Lemma poly_tie : src_CASTAGNOLI_POLY = spec_poly.
Proof. reflexivity. Qed.

Lemma table_loop_spec k c : table_entry_loop k src_CASTAGNOLI_POLY c = spec_bits k c.
Proof.
  revert c; induction k as [|k IH]; intros c; cbn [table_entry_loop spec_bits]; [reflexivity|].
  rewrite IH. f_equal. rewrite bit_step_alt, poly_tie.
  change 1 with (N.ones 1) at 1. rewrite N.land_ones. change (2 ^ 1) with 2.
  rewrite (N.bit0_eqb c). destruct (c mod 2 =? 1); [reflexivity|now rewrite N.lxor_0_r].
Qed.

Lemma nth_map_seq (f : nat -> N) n i : (i < n)%nat -> nth i (map f (seq 0 n)) 0 = f i.
Proof.
  intros H. rewrite (nth_indep _ 0 (f O)) by (rewrite map_length, seq_length; exact H).
  rewrite map_nth, seq_nth by exact H. reflexivity.
Qed.
Lemma TABLE_length : length TABLE = 256%nat.
Proof. unfold TABLE, make_table. now rewrite map_length, seq_length. Qed.
(* table entry = eight bit steps of the index *)
Lemma T_spec i : i < 256 -> T i = B i.
Proof.
  intros H. unfold T, idx, TABLE, make_table. rewrite nth_map_seq by lia.
  rewrite N2Nat.id. apply table_loop_spec.
Qed.

Lemma tab16_next_spec c : tab16_next TABLE c = B c.
Proof.
  unfold tab16_next. fold (T (u8 c)). rewrite (T_spec (u8 c) (u8_lt c)), (B_peel c). apply N.lxor_comm.
Qed.
Lemma tab16_rows_nth n : forall j row, (j < n)%nat ->
  nth j (tab16_rows n TABLE row) [] = map (Bk j) row.
Proof.
  induction n as [|n IH]; intros j row H; [lia|]. cbn [tab16_rows]. destruct j as [|j]; cbn [nth].
  - rewrite <- (map_id row) at 1. apply map_ext. intros; now rewrite Bk_0.
  - rewrite IH by lia. rewrite map_map. apply map_ext. intros c. now rewrite tab16_next_spec, Bk_S.
Qed.
(* TABLE16[j][i] = (j+1) byte steps of i *)
Lemma T16_spec j i : (j < 16)%nat -> i < 256 -> T16 j i = Bk (S j) i.
Proof.
  intros Hj Hi. unfold T16, TABLE16, make_table16. fold TABLE. rewrite tab16_rows_nth by exact Hj.
  unfold idx. rewrite (nth_indep _ 0 (Bk j 0)) by (rewrite map_length, TABLE_length; lia).
  rewrite map_nth. fold (idx TABLE i). fold (T i). now rewrite (T_spec i Hi), Bk_S.
Qed.

(* ---------- the bytewise tail loop ---------- *)
Lemma tail_step_spec c b : b < 256 -> tail_step c b = spec_byte c b.
Proof.
  intros Hb. unfold tail_step. rewrite spec_byte_B, (B_peel (c ^^ b)).
  assert (E : u8 c ^^ b = u8 (c ^^ b)).
  { rewrite <- (u8_small b Hb) at 1. unfold u8. xor_ac. }
  rewrite E, (T_spec _ (u8_lt _)), N.shiftr_lxor, (byte_shiftr8 b Hb), N.lxor_0_r. reflexivity.
Qed.
Lemma fold_tail_spec buf : Forall (fun b => b < 256) buf -> forall c,
  fold_left tail_step buf c = fold_left spec_byte buf c.
Proof.
  induction 1 as [|b buf Hb _ IH]; intros c; cbn [fold_left]; [reflexivity|].
  now rewrite tail_step_spec, IH.
Qed.

(* ---------- linear structure of a run of byte steps ---------- *)
Lemma fold_spec_lin l : forall x y,
  fold_left spec_byte l (x ^^ y) = fold_left spec_byte l x ^^ Bk (length l) y.
Proof.
  induction l as [|b l IH]; intros x y; cbn [fold_left length]; [now rewrite Bk_0|].
  rewrite !spec_byte_B, Bk_S.
  replace (x ^^ y ^^ b) with ((x ^^ b) ^^ y) by xor_ac.
  now rewrite B_lin, IH.
Qed.
Lemma fold_spec_from c l : fold_left spec_byte l c = fold_left spec_byte l 0 ^^ Bk (length l) c.
Proof. rewrite <- fold_spec_lin. now rewrite N.lxor_0_l. Qed.
Lemma fold_spec_cons0 b l :
  fold_left spec_byte (b :: l) 0 = fold_left spec_byte l 0 ^^ Bk (S (length l)) b.
Proof.
  cbn [fold_left]. rewrite spec_byte_B, N.lxor_0_l, (fold_spec_from (B b)), Bk_S. reflexivity.
Qed.
Lemma fold_spec_u32 l : Forall (fun b => b < 256) l -> forall c, c < POW32 ->
  fold_left spec_byte l c < POW32.
Proof.
  induction 1 as [|b l Hb _ IH]; intros c Hc; cbn [fold_left]; [exact Hc|].
  apply IH, spec_byte_u32; assumption.
Qed.

(* conversion hint only: never unfold Bk 16 x into 128 nested bit steps when comparing terms *)
Strategy opaque [Bk].

(* ---------- one 16-byte block of the fast path = sixteen byte steps ---------- *)
Lemma slice16_step_spec c b0 b1 b2 b3 b4 b5 b6 b7 b8 b9 b10 b11 b12 b13 b14 b15 :
  c < POW32 ->
  Forall (fun b => b < 256) [b0; b1; b2; b3; b4; b5; b6; b7; b8; b9; b10; b11; b12; b13; b14; b15] ->
  slice16_step c b0 b1 b2 b3 b4 b5 b6 b7 b8 b9 b10 b11 b12 b13 b14 b15
  = fold_left spec_byte [b0; b1; b2; b3; b4; b5; b6; b7; b8; b9; b10; b11; b12; b13; b14; b15] c.
Proof.
  intros Hc HB.
  repeat match goal with H : Forall _ (_ :: _) |- _ => inversion H; clear H; subst end.
  unfold slice16_step.
  rewrite !T16_spec by (first [lia | assumption | apply u8_lt]).
  set (y := le32 b0 b1 b2 b3).
  assert (Hy : y < POW32) by (apply le32_u32; assumption).
  assert (Hx : c ^^ y < POW32) by (apply u32_lxor; assumption).
  rewrite (fold_spec_from c). rewrite !fold_spec_cons0. cbn [fold_left length].
  pose proof (Bk_split4 12 (c ^^ y) Hx) as Ex. cbn [Nat.add] in Ex.
  pose proof (Bk_split4 12 y Hy) as Ey. cbn [Nat.add] in Ey.
  unfold y in Ey at 2 3 4 5.
  rewrite le32_byte0, le32_byte1, le32_byte2, le32_byte3 in Ey by assumption.
  rewrite Bk_lin in Ex.
  (* both sides are XORs of the same terms once Bk 16 (c ^ y) is expanded both ways *)
  transitivity (Bk 1 b15 ^^ Bk 2 b14 ^^ Bk 3 b13 ^^ Bk 4 b12 ^^ Bk 5 b11 ^^ Bk 6 b10 ^^ Bk 7 b9
                ^^ Bk 8 b8 ^^ Bk 9 b7 ^^ Bk 10 b6 ^^ Bk 11 b5 ^^ Bk 12 b4 ^^ (Bk 16 c ^^ Bk 16 y)).
  - rewrite Ex. xor_ac.
  - rewrite Ey. xor_ac.
Qed.

(* ---------- the whole function ---------- *)
Lemma slice16_loop_block c b0 b1 b2 b3 b4 b5 b6 b7 b8 b9 b10 b11 b12 b13 b14 b15 rest :
  slice16_loop c (b0 :: b1 :: b2 :: b3 :: b4 :: b5 :: b6 :: b7 :: b8 :: b9 :: b10 :: b11 :: b12 :: b13 :: b14 :: b15 :: rest)
  = slice16_loop (slice16_step c b0 b1 b2 b3 b4 b5 b6 b7 b8 b9 b10 b11 b12 b13 b14 b15) rest.
Proof. reflexivity. Qed.
Lemma slice16_loop_short c buf : (length buf < 16)%nat -> slice16_loop c buf = fold_left tail_step buf c.
Proof.
  intros H.
  do 16 (destruct buf as [|? buf]; [reflexivity|]). cbn [length] in H. lia.
Qed.

Lemma slice16_loop_spec n : forall buf c, (length buf <= n)%nat ->
  Forall (fun b => b < 256) buf -> c < POW32 ->
  slice16_loop c buf = fold_left spec_byte buf c.
Proof.
  induction n as [|n IH]; intros buf c Hn HB Hc.
  - destruct buf; [reflexivity|cbn [length] in Hn; lia].
  - destruct (Nat.lt_ge_cases (length buf) 16) as [Hs|Hl].
    + rewrite slice16_loop_short by exact Hs. apply fold_tail_spec, HB.
    + do 16 (destruct buf as [|? buf]; [cbn [length] in Hl; lia|]).
      rewrite slice16_loop_block.
      match goal with |- _ = fold_left _ (?a0 :: ?a1 :: ?a2 :: ?a3 :: ?a4 :: ?a5 :: ?a6 :: ?a7 :: ?a8 :: ?a9 :: ?a10 :: ?a11 :: ?a12 :: ?a13 :: ?a14 :: ?a15 :: buf) c =>
        change (a0 :: a1 :: a2 :: a3 :: a4 :: a5 :: a6 :: a7 :: a8 :: a9 :: a10 :: a11 :: a12 :: a13 :: a14 :: a15 :: buf)
          with ([a0; a1; a2; a3; a4; a5; a6; a7; a8; a9; a10; a11; a12; a13; a14; a15] ++ buf) in *
      end.
      apply Forall_app in HB as [HB1 HB2].
      rewrite fold_left_app, <- slice16_step_spec by assumption.
      apply IH.
      * rewrite app_length in Hn. cbn [length] in Hn. lia.
      * exact HB2.
      * rewrite slice16_step_spec by assumption. apply fold_spec_u32; assumption.
Qed.

Lemma not32_u32 x : x < POW32 -> not32 x < POW32.
Proof. intros H. apply u32_lxor; [exact H|reflexivity]. Qed.
Lemma not32_invol x : not32 (not32 x) = x.
Proof. unfold not32. rewrite N.lxor_assoc, N.lxor_nilpotent. apply N.lxor_0_r. Qed.

(* C08: the model of crc32c_slice16 is the bitwise CRC continued from prev, for every byte list *)
Theorem slice16_eq_bitwise prev buf :
  prev < POW32 -> Forall (fun b => b < 256) buf -> crc32c_slice16 prev buf = spec_update prev buf.
Proof.
  intros Hp HB. unfold crc32c_slice16, spec_update. fold (not32 prev).
  rewrite (slice16_loop_spec (length buf)) by auto using not32_u32. reflexivity.
Qed.

Lemma spec_update_u32 prev buf :
  prev < POW32 -> Forall (fun b => b < 256) buf -> spec_update prev buf < POW32.
Proof.
  intros Hp HB. unfold spec_update. fold (not32 prev).
  apply not32_u32, fold_spec_u32; auto using not32_u32.
Qed.

(* ---------- check value ---------- *)
Lemma check_value_spec : spec_crc32c [49; 50; 51; 52; 53; 54; 55; 56; 57] = 0xE3069283.
Proof. vm_compute. reflexivity. Qed.
Lemma check_value_model : crc32c_slice16 0 [49; 50; 51; 52; 53; 54; 55; 56; 57] = 0xE3069283.
Proof. vm_compute. reflexivity. Qed.
(* 32 bytes of zeros / ones / ascending (RFC 3720 B.4 test vectors), through the fast path *)
Lemma check_value_rfc3720 :
  crc32c_slice16 0 (repeatN 0 32) = 0x8A9136AA /\
  crc32c_slice16 0 (repeatN 255 32) = 0x62A8AB43 /\
  crc32c_slice16 0 (map N.of_nat (seq 0 32)) = 0x46DD794E.
Proof. vm_compute. repeat split. Qed.

(* ---------- chunking independence ---------- *)
Theorem spec_update_app s a b : spec_update (spec_update s a) b = spec_update s (a ++ b).
Proof.
  unfold spec_update. rewrite fold_left_app. f_equal. f_equal.
  rewrite N.lxor_assoc, N.lxor_nilpotent. apply N.lxor_0_r.
Qed.
Theorem model_update_app s a b :
  s < POW32 -> Forall (fun x => x < 256) a -> Forall (fun x => x < 256) b ->
  crc32c_slice16 (crc32c_slice16 s a) b = crc32c_slice16 s (a ++ b).
Proof.
  intros Hs Ha Hb.
  rewrite (slice16_eq_bitwise s a), (slice16_eq_bitwise _ b), (slice16_eq_bitwise s (a ++ b));
    auto using spec_update_u32, spec_update_app.
  apply Forall_app; auto.
Qed.
(* any sequence of chunks = one update with their concatenation *)
Theorem summer_feed_concat chunks : Forall (Forall (fun x => x < 256)) chunks ->
  forall s, cs_sum s < POW32 ->
  cs_sum (summer_feed s chunks) = spec_update (cs_sum s) (concat chunks).
Proof.
  unfold summer_feed.
  induction 1 as [|c chunks Hc _ IH]; intros s Hs; cbn [fold_left concat].
  - unfold spec_update. cbn [fold_left]. symmetry. apply not32_invol.
  - rewrite IH; cbn [summer_update cs_sum].
    + rewrite slice16_eq_bitwise by assumption. apply spec_update_app.
    + rewrite slice16_eq_bitwise by assumption. now apply spec_update_u32.
Qed.

(* ---------- masking ---------- *)
Lemma land_mask32 x : N.land x MASK32 = x mod POW32.
Proof. change MASK32 with (N.ones 32). rewrite N.land_ones. reflexivity. Qed.

Lemma lor_disjoint_add a r : a < 131072 -> N.lor a (N.shiftl r 17) = a + r * 131072.
Proof.
  intros H.
  assert (D : N.land a (N.shiftl r 17) = 0).
  { apply N.bits_inj. intro n. rewrite N.land_spec, N.bits_0.
    destruct (N.lt_ge_cases n 17) as [L|G].
    - rewrite N.shiftl_spec_low by exact L. apply andb_false_r.
    - assert (N.testbit a n = false) as ->; [|reflexivity].
      destruct (N.eq_dec a 0) as [->|Ha]; [apply N.bits_0|].
      apply N.bits_above_log2. apply N.log2_lt_pow2; [lia|].
      apply N.lt_le_trans with (2 ^ 17); [exact H|]. apply N.pow_le_mono_r; [discriminate|exact G]. }
  rewrite <- N.lxor_lor by exact D. rewrite <- N.add_nocarry_lxor by exact D.
  rewrite N.shiftl_mul_pow2. reflexivity.
Qed.

(* the model's masked() is the arithmetic rotate-and-add *)
Theorem masked_eq_spec s : cs_sum s < POW32 -> summer_masked s = spec_masked (cs_sum s).
Proof.
  intros H. unfold summer_masked, spec_masked, spec_rotr15.
  change src_mask_shr with 15. change src_mask_shl with 17. change src_mask_add with 0xA282EAD8.
  set (x := cs_sum s) in *.
  rewrite !land_mask32. f_equal. f_equal.
  rewrite N.shiftl_mul_pow2. change (2 ^ 17) with 131072.
  change POW32 with (32768 * 131072).
  rewrite N.mul_mod_distr_r by discriminate.
  rewrite <- (N.shiftl_mul_pow2 _ 17). rewrite N.shiftr_div_pow2. change (2 ^ 15) with 32768.
  rewrite lor_disjoint_add; [now rewrite N.shiftl_mul_pow2|].
  unfold POW32 in H. apply N.div_lt_upper_bound; [discriminate|]. exact H.
Qed.

Lemma spec_masked_inj a b : a < POW32 -> b < POW32 -> spec_masked a = spec_masked b -> a = b.
Proof. unfold spec_masked, spec_rotr15, POW32. intros Ha Hb E. lia. Qed.
Lemma spec_masked_u32 a : spec_masked a < POW32.
Proof. unfold spec_masked. apply N.mod_lt. discriminate. Qed.

Theorem masked_injective s t :
  cs_sum s < POW32 -> cs_sum t < POW32 -> summer_masked s = summer_masked t -> cs_sum s = cs_sum t.
Proof. intros Hs Ht. rewrite !masked_eq_spec by assumption. now apply spec_masked_inj. Qed.

(* ---------- error detection ---------- *)
Lemma spec_byte_inj_state b c c' : b < 256 -> c < POW32 -> c' < POW32 ->
  spec_byte c b = spec_byte c' b -> c = c'.
Proof.
  intros Hb Hc Hc' E. rewrite !spec_byte_B in E.
  apply spec_bits_inj in E; auto using u32_lxor, byte_u32.
  apply N.lxor_eq. replace (c ^^ c') with ((c ^^ b) ^^ (c' ^^ b)) by xor_ac.
  rewrite E. apply N.lxor_nilpotent.
Qed.
Lemma spec_byte_inj_byte c b b' : b < 256 -> b' < 256 -> c < POW32 ->
  spec_byte c b = spec_byte c b' -> b = b'.
Proof.
  intros Hb Hb' Hc E. rewrite !spec_byte_B in E.
  apply spec_bits_inj in E; auto using u32_lxor, byte_u32.
  apply N.lxor_eq. replace (b ^^ b') with ((c ^^ b) ^^ (c ^^ b')) by xor_ac.
  rewrite E. apply N.lxor_nilpotent.
Qed.
Lemma fold_spec_inj l : Forall (fun b => b < 256) l -> forall c c', c < POW32 -> c' < POW32 ->
  fold_left spec_byte l c = fold_left spec_byte l c' -> c = c'.
Proof.
  induction 1 as [|b l Hb _ IH]; intros c c' Hc Hc' E; cbn [fold_left] in E; [exact E|].
  apply IH in E; auto using spec_byte_u32. eapply spec_byte_inj_state; eauto.
Qed.

Lemma Forall_set_nth {A} (P : A -> Prop) l : Forall P l -> forall i x, P x -> Forall P (set_nth l i x).
Proof.
  induction 1 as [|y l Hy Hl IH]; intros i x Hx; [constructor|].
  destruct i; cbn [set_nth]; constructor; auto.
Qed.
Lemma set_nth_length {A} (l : list A) : forall i x, length (set_nth l i x) = length l.
Proof. induction l as [|y l IH]; intros [|i] x; cbn [set_nth length]; auto. Qed.

Lemma fold_spec_set_nth l : Forall (fun b => b < 256) l -> forall i x c,
  (i < length l)%nat -> x < 256 -> x <> nth i l 0 -> c < POW32 ->
  fold_left spec_byte (set_nth l i x) c <> fold_left spec_byte l c.
Proof.
  induction 1 as [|b l Hb Hl IH]; intros i x c Hi Hx Hne Hc; [cbn [length] in Hi; lia|].
  destruct i as [|i]; cbn [set_nth fold_left nth length] in *.
  - intros E. apply fold_spec_inj in E; auto using spec_byte_u32.
    apply spec_byte_inj_byte in E; auto.
  - apply IH; auto using spec_byte_u32. lia.
Qed.

(* every single-byte change changes the CRC, at every position of every byte list *)
Theorem single_byte_spec prev bs i x :
  prev < POW32 -> Forall (fun b => b < 256) bs -> (i < length bs)%nat -> x < 256 -> x <> nth i bs 0 ->
  spec_update prev (set_nth bs i x) <> spec_update prev bs.
Proof.
  intros Hp HB Hi Hx Hne E. unfold spec_update in E.
  apply (fold_spec_set_nth bs HB i x (N.lxor prev MASK32) Hi Hx Hne (not32_u32 prev Hp)).
  apply N.lxor_eq. rewrite <- (N.lxor_nilpotent MASK32).
  match goal with |- ?a ^^ ?b = _ => transitivity ((a ^^ MASK32) ^^ (b ^^ MASK32)); [xor_ac|] end.
  rewrite E, N.lxor_nilpotent. symmetry. apply N.lxor_nilpotent.
Qed.
Theorem single_byte_model prev bs i x :
  prev < POW32 -> Forall (fun b => b < 256) bs -> (i < length bs)%nat -> x < 256 -> x <> nth i bs 0 ->
  crc32c_slice16 prev (set_nth bs i x) <> crc32c_slice16 prev bs.
Proof.
  intros Hp HB Hi Hx Hne. rewrite !slice16_eq_bitwise; auto using Forall_set_nth.
  now apply single_byte_spec.
Qed.
Theorem single_byte_masked bs i x :
  Forall (fun b => b < 256) bs -> (i < length bs)%nat -> x < 256 -> x <> nth i bs 0 ->
  model_masked_crc32c (set_nth bs i x) <> model_masked_crc32c bs.
Proof.
  intros HB Hi Hx Hne E. unfold model_masked_crc32c in E.
  apply masked_injective in E; cbn [summer_update summer_new cs_sum] in *.
  - revert E. apply single_byte_model; auto. reflexivity.
  - rewrite slice16_eq_bitwise; auto using Forall_set_nth. apply spec_update_u32; auto using Forall_set_nth. reflexivity. reflexivity.
  - rewrite slice16_eq_bitwise; auto. apply spec_update_u32; auto. reflexivity. reflexivity.
Qed.

(* every change confined to four consecutive bytes (a burst of at most 32 bits) changes the CRC *)
Lemma fold4_spec c b0 b1 b2 b3 : b0 < 256 -> b1 < 256 -> b2 < 256 -> b3 < 256 ->
  fold_left spec_byte [b0; b1; b2; b3] c = Bk 4 (c ^^ le32 b0 b1 b2 b3).
Proof.
  intros H0 H1 H2 H3. rewrite (fold_spec_from c), !fold_spec_cons0. cbn [fold_left length].
  pose proof (Bk_split4 0 _ (le32_u32 b0 b1 b2 b3 H0 H1 H2 H3)) as Ey. cbn [Nat.add] in Ey.
  rewrite le32_byte0, le32_byte1, le32_byte2, le32_byte3 in Ey by assumption.
  rewrite Bk_lin, Ey. xor_ac.
Qed.
Theorem burst4_spec prev pre w w' suf :
  prev < POW32 -> Forall (fun b => b < 256) (pre ++ w ++ suf) -> Forall (fun b => b < 256) w' ->
  length w = 4%nat -> length w' = 4%nat -> w <> w' ->
  spec_update prev (pre ++ w' ++ suf) <> spec_update prev (pre ++ w ++ suf).
Proof.
  intros Hp HB HW' L L' Hne E.
  apply Forall_app in HB as [Hpre HB]. apply Forall_app in HB as [HW Hsuf].
  unfold spec_update in E. fold (not32 prev) in E.
  assert (E1 : fold_left spec_byte (pre ++ w' ++ suf) (not32 prev)
             = fold_left spec_byte (pre ++ w ++ suf) (not32 prev)).
  { apply N.lxor_eq. rewrite <- (N.lxor_nilpotent MASK32).
    match goal with |- ?a ^^ ?b = _ => transitivity ((a ^^ MASK32) ^^ (b ^^ MASK32)); [xor_ac|] end.
    rewrite E, N.lxor_nilpotent. symmetry. apply N.lxor_nilpotent. }
  rewrite !fold_left_app in E1.
  set (c := fold_left spec_byte pre (not32 prev)) in *.
  assert (Hc : c < POW32) by (apply fold_spec_u32; auto using not32_u32).
  apply fold_spec_inj in E1; auto using fold_spec_u32.
  destruct w as [|a0 [|a1 [|a2 [|a3 [|]]]]]; try discriminate L.
  destruct w' as [|d0 [|d1 [|d2 [|d3 [|]]]]]; try discriminate L'.
  repeat match goal with H : Forall _ (_ :: _) |- _ => inversion H; clear H; subst end.
  rewrite !fold4_spec in E1 by assumption.
  apply Bk_inj in E1; auto using u32_lxor, le32_u32.
  assert (E2 : le32 d0 d1 d2 d3 = le32 a0 a1 a2 a3).
  { apply N.lxor_eq.
    match goal with |- ?a ^^ ?b = _ => transitivity ((c ^^ a) ^^ (c ^^ b)); [xor_ac|] end.
    rewrite E1. apply N.lxor_nilpotent. }
  apply le32_inj in E2; auto. destruct E2 as (-> & -> & -> & ->). now apply Hne.
Qed.

(* ---------- to_le_bytes / from_le_bytes round trip ---------- *)
Lemma join_low8 y : N.lor (u8 y) (N.shiftl (N.shiftr y 8) 8) = y.
Proof. unfold u8. change 255 with (N.ones 8). rewrite <- N.ldiff_ones_r. xor_ac. Qed.
Lemma le32_of_le x : x < POW32 ->
  le32 (u8 x) (u8 (N.shiftr x 8)) (u8 (N.shiftr x 16)) (u8 (N.shiftr x 24)) = x.
Proof.
  intros H. apply u32_iff in H. rewrite le32_nested.
  assert (E3 : u8 (N.shiftr x 24) = N.shiftr x 24).
  { rewrite <- (join_low8 (N.shiftr x 24)) at 2. rewrite N.shiftr_shiftr. change (24 + 8) with 32.
    rewrite H, N.shiftl_0_l. symmetry. apply N.lor_0_r. }
  rewrite E3. change 24 with (16 + 8). rewrite <- N.shiftr_shiftr, join_low8.
  change 16 with (8 + 8). rewrite <- N.shiftr_shiftr, join_low8. apply join_low8.
Qed.
Lemma u32_to_le_bytes x : Forall (fun b => b < 256) (u32_to_le x).
Proof. unfold u32_to_le. repeat constructor; apply u8_lt. Qed.

(* the footer value does not depend on how the body was chunked: it is the masked bitwise CRC of the body *)
Theorem footer_value chunks : Forall (Forall (fun x => x < 256)) chunks ->
  summer_masked (summer_feed summer_new chunks) = spec_masked_crc32c (concat chunks).
Proof.
  intros H. rewrite masked_eq_spec.
  - rewrite summer_feed_concat by (auto; reflexivity). reflexivity.
  - rewrite summer_feed_concat by (auto; reflexivity). apply spec_update_u32; [reflexivity|].
    clear -H. induction H; cbn [concat]; [constructor|]. apply Forall_app; auto.
Qed.
Lemma model_masked_eq_spec buf : Forall (fun x => x < 256) buf ->
  model_masked_crc32c buf = spec_masked_crc32c buf.
Proof.
  intros H. unfold model_masked_crc32c. rewrite masked_eq_spec; cbn [summer_update summer_new cs_sum].
  - now rewrite slice16_eq_bitwise by (auto; reflexivity).
  - rewrite slice16_eq_bitwise by (auto; reflexivity). apply spec_update_u32; [reflexivity|exact H].
Qed.
