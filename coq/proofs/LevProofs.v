(* LevProofs.v — C17: the Levenshtein automaton of src/automaton/levenshtein.rs.
   Part 1: the specification [lev] (edit distance) and its recurrence at the end of both strings.
   Part 2: DynamicLevenshtein: the row after reading w holds the capped prefix distances.
   Part 3: the DFA builder. *)
Require Import FstV.Base FstV.Loop FstV.Automaton FstV.Levenshtein.
Require Import Lia.
Open Scope nat_scope.

(* ================= Part 1: edit distance ================= *)
Definition cost (a b : N) : nat := if N.eqb a b then 0 else 1.

Lemma lev_nil_l w : lev [] w = length w.
Proof. reflexivity. Qed.
Lemma lev_nil_r q : lev q [] = length q.
Proof. destruct q; reflexivity. Qed.
Lemma lev_cons a q b w :
  lev (a :: q) (b :: w) = Nat.min (Nat.min (lev q (b :: w) + 1) (lev (a :: q) w + 1)) (lev q w + cost a b).
Proof. reflexivity. Qed.

Lemma cost_le1 a b : cost a b <= 1.
Proof. unfold cost. destruct (N.eqb a b); lia. Qed.

Opaque lev.

(* the same recurrence peeling the LAST characters: this is the step of the DP row *)
Lemma lev_snoc q : forall w a b,
  lev (q ++ [a]) (w ++ [b]) =
  Nat.min (Nat.min (lev q (w ++ [b]) + 1) (lev (q ++ [a]) w + 1)) (lev q w + cost a b).
Proof.
  induction q as [|x q IHq]; intros w a b.
  - induction w as [|y w IHw].
    + cbn [app]. rewrite lev_cons, !lev_nil_l, !lev_nil_r. reflexivity.
    + cbn [app] in *. rewrite !lev_cons, IHw, !lev_nil_l. rewrite app_length. cbn [length].
      generalize (cost a y) (cost a b) (lev [a] w). intros. lia.
  - induction w as [|y w IHw].
    + cbn [app]. rewrite !lev_cons. specialize (IHq [] a b). cbn [app] in IHq. rewrite IHq.
      rewrite !lev_nil_r. cbn [length]. rewrite app_length. cbn [length].
      generalize (cost x b) (cost a b) (lev q [b]). intros. lia.
    + cbn [app] in *. rewrite !lev_cons. rewrite IHw.
      pose proof (IHq (y :: w) a b) as H1. cbn [app] in H1. rewrite H1.
      rewrite (IHq w a b). rewrite <- !Nat.add_min_distr_r.
      apply Nat.le_antisymm; repeat apply Nat.min_glb; rewrite ?Nat.min_le_iff; lia.
Qed.

(* ================= Part 2: DynamicLevenshtein ================= *)
(* two entries are interchangeable when they agree after capping at dist+1 *)
Definition capeq (d a b : nat) : Prop := Nat.min (d + 1) a = Nat.min (d + 1) b.

(* entries 1.. of the ideal row: capped distances of the prefixes q1++[x], q1++[x;y], ... of q1++q2 *)
Fixpoint tail_row (d : nat) (q1 q2 w : list N) : row :=
  match q2 with
  | [] => []
  | x :: q2' => Nat.min (d + 1) (lev (q1 ++ [x]) w) :: tail_row d (q1 ++ [x]) q2' w
  end.
Definition row_of (q : list N) (d : nat) (w : list N) : row := length w :: tail_row d [] q w.

Fixpoint tail_sim (d : nat) (q1 q2 w : list N) (t : row) : Prop :=
  match q2, t with
  | [], [] => True
  | x :: q2', e :: t' => capeq d e (lev (q1 ++ [x]) w) /\ tail_sim d (q1 ++ [x]) q2' w t'
  | _, _ => False
  end.
(* a row that stands for "w has been read": element 0 is |w| exactly, the others up to the cap *)
Definition row_sim (q : list N) (d : nat) (w : list N) (s : row) : Prop :=
  exists t, s = length w :: t /\ tail_sim d [] q w t.

(* the class of an input character: the DFA distinguishes the characters of the query, all others are alike *)
Definition cls (q : list N) (c : N) : option N := if existsb (N.eqb c) q then Some c else None.
Definition cls_ok (q : list N) (chr : option N) (c : N) : Prop :=
  forall x, In x q -> chr_eqb x chr = N.eqb x c.

Lemma cls_ok_some q c : cls_ok q (Some c) c.
Proof. intros x _. reflexivity. Qed.
Lemma cls_ok_cls q c : cls_ok q (cls q c) c.
Proof.
  intros x Hx. unfold cls. destruct (existsb (N.eqb c) q) eqn:E; [reflexivity|].
  cbn. symmetry. apply N.eqb_neq. intros ->.
  assert (existsb (N.eqb c) q = true) by (apply existsb_exists; exists c; split; [exact Hx|apply N.eqb_refl]).
  congruence.
Qed.
Lemma cls_ok_none q c : existsb (N.eqb c) q = false -> cls_ok q None c.
Proof. intros E. pose proof (cls_ok_cls q c) as H. unfold cls in H. now rewrite E in H. Qed.

Lemma tail_row_length d q2 : forall q1 w, length (tail_row d q1 q2 w) = length q2.
Proof. induction q2 as [|x q2 IH]; intros; cbn; [reflexivity|]. now rewrite IH. Qed.

Lemma tail_sim_length d q2 : forall q1 w t, tail_sim d q1 q2 w t -> length t = length q2.
Proof.
  induction q2 as [|x q2 IH]; intros q1 w [|e t] H; cbn in *; try tauto.
  destruct H as [_ H]. now rewrite (IH _ _ _ H).
Qed.

Lemma tail_sim_refl d q2 : forall q1 w, tail_sim d q1 q2 w (tail_row d q1 q2 w).
Proof.
  induction q2 as [|x q2 IH]; intros; cbn; [exact I|]. split; [|apply IH]. unfold capeq. lia.
Qed.

Lemma tail_sim_start d q2 : forall q1, tail_sim d q1 q2 [] (seq (length q1 + 1) (length q2)).
Proof.
  induction q2 as [|x q2 IH]; intros q1; cbn; [exact I|]. split.
  - unfold capeq. rewrite lev_nil_r, app_length. cbn. reflexivity.
  - specialize (IH (q1 ++ [x])). rewrite app_length in IH. cbn [length] in IH.
    replace (S (length q1 + 1)) with (length q1 + 1 + 1) by lia. exact IH.
Qed.

Lemma dl_start_sim L : row_sim (dl_query L) (dl_dist L) [] (dl_start L).
Proof.
  unfold dl_start. rewrite Nat.add_1_r. cbn [seq]. eexists. split; [reflexivity|].
  exact (tail_sim_start (dl_dist L) (dl_query L) []).
Qed.

Lemma accept_go_spec d chr c w q2 : forall q1 prev h t,
  capeq d prev (lev q1 (w ++ [c])) -> capeq d h (lev q1 w) ->
  (forall x, In x q2 -> chr_eqb x chr = N.eqb x c) ->
  tail_sim d q1 q2 w t ->
  dl_accept_go d chr q2 prev (h :: t) = tail_row d q1 q2 (w ++ [c]).
Proof.
  induction q2 as [|x q2 IH]; intros q1 prev h t Hp Hh Hc Ht.
  - reflexivity.
  - destruct t as [|e t]; [destruct Ht|]. destruct Ht as [He Ht].
    cbn [dl_accept_go tail_row].
    rewrite (Hc x (or_introl eq_refl)). fold (cost x c).
    assert (Nat.min (Nat.min (Nat.min (prev + 1) (e + 1)) (h + cost x c)) (d + 1)
            = Nat.min (d + 1) (lev (q1 ++ [x]) (w ++ [c]))) as Hv.
    { rewrite lev_snoc. unfold capeq in *. pose proof (cost_le1 x c). lia. }
    rewrite Hv. f_equal.
    apply IH.
    + unfold capeq. lia.
    + exact He.
    + intros y Hy. apply Hc. now right.
    + exact Ht.
Qed.

(* one step of the DP: from any row standing for w, on a character classified correctly,
   the next row is exactly the ideal row of w++[c] *)
Theorem accept_spec L w s chr c :
  row_sim (dl_query L) (dl_dist L) w s -> cls_ok (dl_query L) chr c ->
  dl_accept L s chr = row_of (dl_query L) (dl_dist L) (w ++ [c]).
Proof.
  intros (t & -> & Ht) Hc. unfold dl_accept, row_of. rewrite app_length. cbn [length]. f_equal.
  apply accept_go_spec; try assumption.
  - unfold capeq. rewrite lev_nil_l, app_length. reflexivity.
  - unfold capeq. now rewrite lev_nil_l.
Qed.

Lemma row_of_sim q d w : row_sim q d w (row_of q d w).
Proof. eexists. split; [reflexivity|apply tail_sim_refl]. Qed.

(* the rows the automaton goes through when it reads the scalar values of w *)
Definition dyn_run (L : dynlev) (w : list N) : row :=
  fold_left (fun s c => dl_accept L s (cls (dl_query L) c)) w (dl_start L).

Lemma dyn_run_snoc L w c : dyn_run L (w ++ [c]) = dl_accept L (dyn_run L w) (cls (dl_query L) c).
Proof. unfold dyn_run. now rewrite fold_left_app. Qed.

Theorem row_sim_run L w : row_sim (dl_query L) (dl_dist L) w (dyn_run L w).
Proof.
  induction w as [|c w IH] using rev_ind; [apply dl_start_sim|].
  rewrite dyn_run_snoc, (accept_spec L w _ _ c IH (cls_ok_cls _ c)). apply row_of_sim.
Qed.

Theorem row_exact_run L w : w <> [] -> dyn_run L w = row_of (dl_query L) (dl_dist L) w.
Proof.
  destruct w as [|c w] using rev_ind; [congruence|]. intros _.
  rewrite dyn_run_snoc. apply accept_spec; [apply row_sim_run|apply cls_ok_cls].
Qed.

(* entry i of the ideal row, in the words of the property *)
Lemma nth_tail_row d w q2 : forall q1 i, i < length q2 ->
  nth i (tail_row d q1 q2 w) 0 = Nat.min (d + 1) (lev (q1 ++ firstn (S i) q2) w).
Proof.
  induction q2 as [|x q2 IH]; intros q1 i Hi; cbn [length] in Hi; [lia|].
  destruct i as [|i]; cbn [tail_row nth].
  - destruct q2; reflexivity.
  - rewrite IH by lia. rewrite <- app_assoc. reflexivity.
Qed.

Lemma nth_row_of q d w i : 1 <= i <= length q ->
  nth i (row_of q d w) 0 = Nat.min (d + 1) (lev (firstn i q) w).
Proof.
  intros Hi. destruct i as [|i]; [lia|]. unfold row_of. cbn [nth].
  rewrite nth_tail_row by lia. reflexivity.
Qed.

Lemma nth_tail_sim d w q2 : forall q1 t i, tail_sim d q1 q2 w t -> i < length q2 ->
  capeq d (nth i t 0) (lev (q1 ++ firstn (S i) q2) w).
Proof.
  induction q2 as [|x q2 IH]; intros q1 t i Ht Hi; cbn [length] in Hi; [lia|].
  destruct t as [|e t]; [destruct Ht|]. destruct Ht as [He Ht].
  destruct i as [|i]; cbn [nth].
  - destruct q2; exact He.
  - specialize (IH _ _ i Ht). rewrite <- app_assoc in IH. apply IH. lia.
Qed.

Lemma nth_row_sim q d w s i : row_sim q d w s -> i <= length q ->
  capeq d (nth i s 0) (lev (firstn i q) w).
Proof.
  intros (t & -> & Ht) Hi. destruct i as [|i]; cbn [nth firstn].
  - now rewrite lev_nil_l.
  - apply (nth_tail_sim d w q [] t i Ht). lia.
Qed.

Lemma row_sim_length q d w s : row_sim q d w s -> length s = length q + 1.
Proof. intros (t & -> & Ht). cbn. rewrite (tail_sim_length _ _ _ _ _ Ht). lia. Qed.

(* ---- is_match ---- *)
Lemma last_opt_nth {A} (l : list A) (dflt : A) : l <> [] -> last_opt l = Some (nth (length l - 1) l dflt).
Proof.
  induction l as [|x l IH]; [congruence|]. intros _. destruct l as [|y l]; [reflexivity|].
  change (last_opt (x :: y :: l)) with (last_opt (y :: l)). rewrite IH by congruence.
  cbn [length]. replace (S (S (length l)) - 1) with (S (S (length l) - 1)) by lia. reflexivity.
Qed.

Theorem is_match_sim L w s : row_sim (dl_query L) (dl_dist L) w s ->
  dl_is_match L s = (lev (dl_query L) w <=? dl_dist L).
Proof.
  intros Hs. unfold dl_is_match.
  pose proof (row_sim_length _ _ _ _ Hs) as Hl.
  rewrite (last_opt_nth s 0) by (destruct s; cbn in Hl; [lia|congruence]).
  pose proof (nth_row_sim _ _ _ _ (length (dl_query L)) Hs (le_n _)) as H.
  rewrite firstn_all in H. rewrite Hl. replace (length (dl_query L) + 1 - 1) with (length (dl_query L)) by lia.
  unfold capeq in H.
  destruct (Nat.leb_spec (nth (length (dl_query L)) s 0) (dl_dist L)),
           (Nat.leb_spec (lev (dl_query L) w) (dl_dist L)); try reflexivity; lia.
Qed.

(* ---- can_match ---- *)
Lemma fold_min_le (r : row) : forall x d, (fold_left Nat.min r x <=? d) = (x <=? d) || existsb (fun e => e <=? d) r.
Proof.
  induction r as [|y r IH]; intros x d; cbn [fold_left existsb]; [now rewrite orb_false_r|].
  rewrite IH. rewrite orb_assoc. f_equal.
  destruct (Nat.leb_spec (Nat.min x y) d), (Nat.leb_spec x d), (Nat.leb_spec y d); cbn; try reflexivity; lia.
Qed.

Lemma can_match_existsb L s : dl_can_match L s = existsb (fun e => e <=? dl_dist L) s.
Proof. unfold dl_can_match, row_min. destruct s as [|x r]; [reflexivity|]. apply fold_min_le. Qed.

Lemma can_match_false L s : dl_can_match L s = false <-> forall e, In e s -> dl_dist L < e.
Proof.
  rewrite can_match_existsb. split.
  - intros H e He. destruct (Nat.leb_spec e (dl_dist L)) as [Hle|]; [|assumption].
    assert (existsb (fun e => e <=? dl_dist L) s = true)
      by (apply existsb_exists; exists e; split; [exact He|now apply Nat.leb_le]).
    congruence.
  - intros H. destruct (existsb _ s) eqn:E; [|reflexivity].
    apply existsb_exists in E as (e & He & Hle). apply Nat.leb_le in Hle. specialize (H e He). lia.
Qed.

(* once every entry exceeds dist, so does every entry of every later row *)
Lemma accept_go_dead d chr q : forall prev st,
  d < prev -> (forall e, In e st -> d < e) ->
  forall e, In e (dl_accept_go d chr q prev st) -> d < e.
Proof.
  induction q as [|x q IH]; intros prev st Hp Hs e He; [destruct He|].
  destruct st as [|si [|si1 st]]; cbn [dl_accept_go] in He; try (destruct He; fail).
  assert (d < si) by (apply Hs; now left).
  assert (d < si1) by (apply Hs; right; now left).
  set (v := Nat.min _ (d + 1)) in He.
  assert (d < v) by (subst v; destruct (chr_eqb x chr); lia).
  destruct He as [<-|He]; [assumption|].
  apply (IH v (si1 :: st)); try assumption. intros e' He'. apply Hs. now right.
Qed.

Theorem accept_dead L s chr : dl_can_match L s = false -> dl_can_match L (dl_accept L s chr) = false.
Proof.
  rewrite !can_match_false. intros H e He. unfold dl_accept in He.
  destruct s as [|s0 s]; [destruct He|].
  assert (dl_dist L < s0) by (apply H; now left).
  destruct He as [<-|He]; [lia|].
  eapply accept_go_dead; [|exact H|exact He]. lia.
Qed.

Lemma is_match_can_match L s : dl_is_match L s = true -> dl_can_match L s = true.
Proof.
  unfold dl_is_match. rewrite can_match_existsb. destruct (last_opt s) as [n|] eqn:E; [|discriminate].
  intros H. apply existsb_exists. exists n. split; [|exact H].
  clear H. induction s as [|x s IH]; [discriminate|]. destruct s as [|y s]; [inversion E; now left|].
  right. apply IH. exact E.
Qed.

(* ---- the two corollaries at the level of strings ---- *)
Theorem dyn_is_match_iff L w :
  dl_is_match L (dyn_run L w) = true <-> lev (dl_query L) w <= dl_dist L.
Proof. rewrite (is_match_sim L w _ (row_sim_run L w)). apply Nat.leb_le. Qed.

Lemma dyn_run_app L w u :
  dyn_run L (w ++ u) = fold_left (fun s c => dl_accept L s (cls (dl_query L) c)) u (dyn_run L w).
Proof. unfold dyn_run. now rewrite fold_left_app. Qed.

Theorem dyn_can_match_sound L w :
  dl_can_match L (dyn_run L w) = false -> forall u, dl_dist L < lev (dl_query L) (w ++ u).
Proof.
  intros H u.
  assert (dl_can_match L (dyn_run L (w ++ u)) = false) as Hd.
  { rewrite dyn_run_app. generalize dependent (dyn_run L w). induction u as [|c u IH]; intros s Hs; [exact Hs|].
    cbn [fold_left]. apply IH. now apply accept_dead. }
  destruct (Nat.le_gt_cases (lev (dl_query L) (w ++ u)) (dl_dist L)) as [Hle|]; [|assumption].
  apply dyn_is_match_iff, is_match_can_match in Hle. congruence.
Qed.
