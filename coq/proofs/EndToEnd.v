(* EndToEnd.v — builder theorem + codec + reader theorems chained: what a builder is given is
   what every reader operation returns. The CodecSpec statements are premises by name. *)
Require Import FstV.Base FstV.Pack FstV.Node FstV.Registry FstV.Builder FstV.Reader FstV.Automaton
               FstV.GraphSem FstV.Format FstV.Fst FstV.CodecSpec FstV.Crc.
Require Import FstV.proofs.BuilderInv FstV.proofs.BuilderProofs5 FstV.proofs.StreamProofs
               FstV.proofs.ReaderProofs FstV.proofs.Compose.
Require Import FstV.Properties.C01_builder.

(* every byte of a parsed file is a byte: needed by the reader theorems. The builder only ever
   writes bytes; we take it from the parse: spec_parse does not check it, so it is a premise here
   and discharged for builder output by [built_bytes_statement] (BuilderProofs). *)
Definition bytes_ok (bs : list N) : Prop := Forall (fun b => b < 256) bs.

Lemma spec_masked_u32 l : spec_masked_crc32c l < 4294967296.
Proof. unfold spec_masked_crc32c, spec_masked. apply N.mod_lt. discriminate. Qed.

Section EndToEnd.
Hypothesis HC : codec_statement.
Hypothesis HT : compile_total_statement.
Hypothesis PV : parse_views_statement.
Hypothesis DG : data_get_statement.

(* C01 for maps, for every cache geometry *)
Theorem map_round_trip :
  forall (summer : list N -> N) (ty rows cols : N) (kvs : kmap),
    kmap_ok kvs = true ->
    Forall (fun kv => Forall (fun b => b < 256) (fst kv) /\ snd kv < U64) kvs ->
    ty < U64 -> (forall l, summer l < 4294967296) -> size_ok kvs ->
    exists bs p,
      build_map summer ty rows cols kvs = Ok bs /\ spec_parse bs = Some p /\ p_content p = kvs /\
      p_len p = len kvs /\
      (bytes_ok bs -> fuel_ok (graph_of (node_table (p_nodes p))) (p_root p) ->
         api_len bs = len kvs /\
         api_stream bs = Ok kvs /\
         (forall k, Forall (fun b => b < 256) k ->
            api_get bs k = Ok (lookup kvs k) /\
            api_contains bs k = Ok (match lookup kvs k with Some _ => true | None => false end)) /\
         (forall cs, calls_bytes cs -> api_range bs cs = Ok (spec_range kvs cs)) /\
         (forall A cs, can_match_sound A -> no_eof_hook A -> calls_bytes cs ->
            api_search_with_state bs A cs = Ok (spec_search kvs A cs))).
Proof.
  intros summer ty rows cols kvs H1 H2 H3 H4 H5.
  destruct (build_map_correct HC HT summer ty rows cols kvs H1 H2 H3 H4 H5)
    as (bs & p & Hb & Hp & Hv & Hty & Hl & Hcont & Hck & Hwf).
  exists bs, p. split; [exact Hb|]. split; [exact Hp|]. split; [exact Hcont|]. split; [exact Hl|].
  intros Hbytes Hfuel. rewrite <- Hcont.
  split; [rewrite (file_len PV bs p Hbytes Hp), Hcont; exact Hl|].
  split; [apply (file_stream PV DG bs p Hbytes Hp Hfuel)|].
  split; [intros k Hk; apply (file_get PV DG bs p Hbytes Hp k Hk)|].
  split; [intros cs Hcs; apply (file_range PV DG bs p Hbytes Hp cs Hfuel Hcs)|].
  intros A cs HA HE Hcs. apply (file_search PV DG bs p Hbytes Hp A cs HA HE Hfuel Hcs).
Qed.
End EndToEnd.
