(* NodeReaderBase.v — generic access lemmas for the reader = spec proof (NodeReader.v):
   a node at address [a] only looks at bytes 0..a; [rv] is that prefix reversed, so position p
   of rv is address a - p.  Every read of Node.v is turned into an [nth_error] on rv. *)
Require Import FstV.Base FstV.Pack FstV.Node FstV.Format FstV.Reader FstV.GraphSem FstV.Fst FstV.proofs.PackProofs.
From Coq Require Import ZArith ZifyN ZifyBool ZifyNat.
Ltac Zify.zify_post_hook ::= Z.div_mod_to_equations.
Local Open Scope N_scope.

(* ---------- list facts ---------- *)
Lemma nth_error_firstn_lt {A} (l : list A) : forall n i, (i < n)%nat ->
  nth_error (firstn n l) i = nth_error l i.
Proof.
  induction l as [|x l IH]; intros n i H; destruct n, i; cbn [firstn nth_error]; try lia; auto.
  apply IH; lia.
Qed.

Lemma nth_error_combine {A B} (l1 : list A) : forall (l2 : list B) j x y,
  nth_error l1 j = Some x -> nth_error l2 j = Some y -> nth_error (combine l1 l2) j = Some (x, y).
Proof.
  induction l1 as [|u l1 IH]; intros [|v l2] [|j] x y H1 H2; cbn [combine nth_error] in *; try discriminate.
  - congruence.
  - eauto.
Qed.

Lemma nth_error_combine_inv {A B} (l1 : list A) : forall (l2 : list B) j x y,
  nth_error (combine l1 l2) j = Some (x, y) -> nth_error l1 j = Some x /\ nth_error l2 j = Some y.
Proof.
  induction l1 as [|u l1 IH]; intros [|v l2] [|j] x y H; cbn [combine nth_error] in *; try discriminate.
  - inversion H; auto.
  - eauto.
Qed.

Lemma map_fst_combine {A B} (l1 : list A) : forall (l2 : list B),
  length l1 = length l2 -> map fst (combine l1 l2) = l1.
Proof.
  induction l1 as [|u l1 IH]; intros [|v l2] H; cbn [combine map length fst] in *; try discriminate; auto.
  f_equal. apply IH. lia.
Qed.

(* ---------- find_index ---------- *)
Lemma find_index_some {A} (p : A -> bool) (l : list A) : forall k, find_index p l = Some k ->
  exists x, nth_error l k = Some x /\ p x = true.
Proof.
  induction l as [|x l IH]; intros k H; cbn [find_index] in H; [discriminate|].
  destruct (p x) eqn:E.
  - inversion H; subst. exists x. auto.
  - destruct (find_index p l) as [k'|]; [|discriminate]. cbn [option_map] in H. inversion H; subst.
    destruct (IH k' eq_refl) as [y [H1 H2]]. exists y. auto.
Qed.

Lemma find_index_none {A} (p : A -> bool) (l : list A) :
  find_index p l = None <-> forall x, In x l -> p x = false.
Proof.
  induction l as [|x l IH]; cbn [find_index In].
  - split; auto. intros _ x [].
  - destruct (p x) eqn:E.
    + split; [discriminate|]. intros H. rewrite (H x) in E by auto. discriminate.
    + destruct (find_index p l) as [k'|]; cbn [option_map].
      * split; [discriminate|]. intros H. assert (Some k' = None); [|discriminate].
        apply IH. intros; apply H; auto.
      * split; auto. intros _ y [<-|Hy]; auto. apply IH; auto.
Qed.

Lemma find_index_lt {A} (p : A -> bool) (l : list A) k : find_index p l = Some k -> (k < length l)%nat.
Proof.
  intros H. apply find_index_some in H. destruct H as [x [H _]]. apply nth_error_Some. congruence.
Qed.

(* ---------- strictly increasing lists have no repeated element ---------- *)
Lemma strictly_increasing_cons x l : strictly_increasing (x :: l) = true ->
  Forall (fun y => x < y) l /\ strictly_increasing l = true.
Proof.
  revert x; induction l as [|y l IH]; intros x H.
  - split; auto.
  - cbn [strictly_increasing] in H. apply andb_true_iff in H. destruct H as [H1 H2].
    apply N.ltb_lt in H1. split; auto. constructor; auto.
    destruct (IH y H2) as [H3 _]. eapply Forall_impl; [|exact H3]. cbn; intros; lia.
Qed.

Lemma strictly_increasing_lt l : strictly_increasing l = true ->
  forall i j x y, (i < j)%nat -> nth_error l i = Some x -> nth_error l j = Some y -> x < y.
Proof.
  induction l as [|u l IH]; intros H i j x y Hij Hi Hj.
  - destruct i; discriminate.
  - apply strictly_increasing_cons in H. destruct H as [H1 H2].
    destruct j as [|j]; [lia|]. cbn [nth_error] in Hj.
    destruct i as [|i]; cbn [nth_error] in Hi.
    + inversion Hi; subst. rewrite Forall_forall in H1. apply H1. eapply nth_error_In; eauto.
    + apply (IH H2 i j x y); auto; lia.
Qed.

Lemma strictly_increasing_inj l : strictly_increasing l = true ->
  forall i j x, nth_error l i = Some x -> nth_error l j = Some x -> i = j.
Proof.
  intros H i j x Hi Hj.
  destruct (Nat.lt_trichotomy i j) as [L|[E|G]]; auto.
  - pose proof (strictly_increasing_lt l H i j x x L Hi Hj). lia.
  - pose proof (strictly_increasing_lt l H j i x x G Hj Hi). lia.
Qed.

(* scanning the reversed list finds the mirror image of the forward position *)
Lemma find_index_rev_inj b (l : list N) : strictly_increasing l = true ->
  match find_index (fun x => x =? b) (rev l) with
  | Some k => (k < length l)%nat /\ find_index (fun x => x =? b) l = Some (length l - 1 - k)%nat
  | None => find_index (fun x => x =? b) l = None
  end.
Proof.
  intros Hs. destruct (find_index (fun x => x =? b) (rev l)) as [k|] eqn:E.
  - pose proof (find_index_lt _ _ _ E) as Hk. rewrite rev_length in Hk. split; auto.
    apply find_index_some in E. destruct E as [x [E1 E2]]. apply N.eqb_eq in E2. subst x.
    rewrite nth_error_rev in E1 by assumption.
    destruct (find_index (fun x => x =? b) l) as [k'|] eqn:F.
    + apply find_index_some in F. destruct F as [x [F1 F2]]. apply N.eqb_eq in F2. subst x.
      f_equal. eapply strictly_increasing_inj; eauto.
    + rewrite find_index_none in F. apply nth_error_In in E1. apply F in E1.
      rewrite N.eqb_refl in E1. discriminate.
  - rewrite find_index_none in *. intros x Hx. apply E. apply in_rev. rewrite rev_involutive. assumption.
Qed.

Lemma find_pos_find_index b ts : forall i,
  find_pos b ts i = option_map (fun j => i + N.of_nat j) (find_index (fun x => x =? b) (map t_inp ts)).
Proof.
  induction ts as [|t ts IH]; intros i; cbn [find_pos map find_index]; auto.
  destruct (t_inp t =? b).
  - cbn [option_map]. f_equal. lia.
  - rewrite IH. destruct (find_index _ _); cbn [option_map]; auto. f_equal. lia.
Qed.

(* ---------- chunks of a concatenation ---------- *)
Lemma concat_chunk k (cs : list (list N)) j c :
  Forall (fun c => length c = k) cs -> nth_error cs j = Some c ->
  exists X R, concat (map (@rev N) cs) = X ++ rev c ++ R /\ length X = (j * k)%nat.
Proof.
  intros HF Hn. apply nth_error_split in Hn. destruct Hn as [l1 [l2 [-> Hl]]].
  exists (concat (map (@rev N) l1)), (concat (map (@rev N) l2)). split.
  - rewrite map_app, concat_app. cbn [map concat]. reflexivity.
  - apply Forall_app in HF. destruct HF as [HF1 _].
    rewrite (length_concat_const k).
    + rewrite map_length. lia.
    + apply Forall_forall. intros x Hx. apply in_map_iff in Hx. destruct Hx as [y [<- Hy]].
      rewrite rev_length. rewrite Forall_forall in HF1. auto.
Qed.

Lemma csub_ok a b : b <= a -> csub a b = Ok (a - b).
Proof. intros. unfold csub. destruct (N.leb_spec b a); [reflexivity|lia]. Qed.

(* ---------- the view of the bytes below an address ---------- *)
Section View.
Variable get : N -> option N.
Variable a : N.
Variable rv : list N.
Hypothesis Hlen : len rv = a + 1.
Hypothesis Hget : forall p, p <= a -> get (a - p) = nth_error rv (N.to_nat p).

Lemma rd_pos i p x : nth_error rv p = Some x -> i + N.of_nat p = a -> rd get a i = Ok x.
Proof.
  intros Hn Hi. unfold rd. destruct (N.leb_spec i a); [|lia].
  replace i with (a - N.of_nat p) by lia. rewrite Hget by lia. rewrite Nat2N.id, Hn. reflexivity.
Qed.

Lemma rd_mid X m R j x i :
  rv = X ++ m ++ R -> nth_error m j = Some x -> i + len X + N.of_nat j = a -> rd get a i = Ok x.
Proof.
  intros Hrv Hn Hi. apply (rd_pos i (length X + j)).
  - rewrite Hrv, nth_error_app2 by lia. replace (length X + j - length X)%nat with j by lia.
    rewrite nth_error_app1; auto. apply nth_error_Some. congruence.
  - unfold len in Hi. lia.
Qed.

Lemma rd_le_chunk X c : forall R i,
  rv = X ++ rev c ++ R -> i + len X + len c = a + 1 -> rd_le get a i (length c) = Ok (le_value c).
Proof.
  induction c as [|x c IH]; intros R i Hrv Hi; cbn [length rd_le le_value]; auto.
  cbn [rev] in Hrv. unfold len in Hi. cbn [length] in Hi.
  rewrite (rd_mid X (rev c ++ [x]) R (length c) x i); auto.
  - cbn [bind]. rewrite (IH ([x] ++ R) (i + 1)).
    + reflexivity.
    + rewrite Hrv. rewrite <- app_assoc. reflexivity.
    + unfold len. lia.
  - rewrite nth_error_app2 by (rewrite rev_length; lia). rewrite rev_length, Nat.sub_diag. reflexivity.
  - unfold len. lia.
Qed.

Lemma unpack_chunk X c R i k :
  rv = X ++ rev c ++ R -> length c = N.to_nat k -> 1 <= k -> k <= 8 -> i + len X + k = a + 1 ->
  unpack_uint get a i k = Ok (le_value c).
Proof.
  intros Hrv Hc H1 H8 Hi. unfold unpack_uint.
  destruct (N.leb_spec 1 k); [|lia]. destruct (N.leb_spec k 8); [|lia]. cbn [andb].
  rewrite <- Hc. apply (rd_le_chunk X c R i Hrv). unfold len in *. lia.
Qed.

(* the j-th number of a run of fixed-width numbers that starts after the prefix X of rv *)
Lemma unpack_nth_chunk X cs R j c i k :
  rv = X ++ concat (map (@rev N) cs) ++ R ->
  Forall (fun c => length c = N.to_nat k) cs -> nth_error cs j = Some c ->
  1 <= k -> k <= 8 -> i + len X + N.of_nat j * k + k = a + 1 ->
  unpack_uint get a i k = Ok (le_value c).
Proof.
  intros Hrv HF Hn H1 H8 Hi.
  destruct (concat_chunk _ _ _ _ HF Hn) as [X' [R' [E L]]].
  apply (unpack_chunk (X ++ X') c (R' ++ R)); auto.
  - rewrite Hrv, E. repeat rewrite <- app_assoc. reflexivity.
  - rewrite Forall_forall in HF. apply HF. eapply nth_error_In; eauto.
  - rewrite len_app. unfold len at 2. rewrite L. lia.
Qed.

(* the same read guarded the way the code guards outputs: width 0 means "no bytes, value 0" *)
Lemma unpack_nth_chunk0 X cs R j c k off :
  rv = X ++ concat (map (@rev N) cs) ++ R ->
  Forall (fun c => length c = N.to_nat k) cs -> nth_error cs j = Some c ->
  k <= 8 -> off + 1 = len X + N.of_nat j * k + k -> off <= a ->
  (if k =? 0 then Ok 0 else do at_ <- csub a off; unpack_uint get a at_ k) = Ok (le_value c).
Proof.
  intros Hrv HF Hn H8 Hoff Ha.
  destruct (N.eqb_spec k 0) as [E|E].
  - rewrite Forall_forall in HF. pose proof (HF c (nth_error_In _ _ Hn)) as Hc.
    destruct c; [reflexivity|]. cbn [length] in Hc. lia.
  - rewrite csub_ok by assumption. cbn [bind].
    eapply unpack_nth_chunk; eauto; lia.
Qed.

Lemma transitions_from_ok nd : forall l i,
  (forall j t, nth_error l j = Some t -> transition get nd (i + N.of_nat j) = Ok t) ->
  transitions_from get nd i (length l) = Ok l.
Proof.
  induction l as [|t l IH]; intros i H; cbn [length transitions_from]; auto.
  pose proof (H 0%nat t eq_refl) as H0. replace (i + N.of_nat 0) with i in H0 by lia.
  rewrite H0. cbn [bind].
  rewrite IH; [reflexivity|].
  intros j t' Hj. replace (i + 1 + N.of_nat j) with (i + N.of_nat (S j)) by lia. apply H. exact Hj.
Qed.

Lemma scan_inputs_ok start b : forall l k0,
  (forall j x, nth_error l j = Some x -> rd get a (start + (k0 + N.of_nat j)) = Ok x) ->
  scan_inputs get a start (length l) k0 b
  = Ok (option_map (fun j => k0 + N.of_nat j) (find_index (fun x => x =? b) l)).
Proof.
  induction l as [|x l IH]; intros k0 H; cbn [length scan_inputs find_index]; auto.
  pose proof (H 0%nat x eq_refl) as H0. replace (start + (k0 + N.of_nat 0)) with (start + k0) in H0 by lia.
  rewrite H0. cbn [bind].
  destruct (x =? b).
  - cbn [option_map]. do 2 f_equal. lia.
  - rewrite IH.
    + destruct (find_index _ l); cbn [option_map]; auto. do 2 f_equal. lia.
    + intros j y Hj. replace (k0 + 1 + N.of_nat j) with (k0 + N.of_nat (S j)) by lia. apply H. exact Hj.
Qed.
End View.

(* the concrete instance: the list view of a file *)
Lemma view_of_list (bs : list N) (a : N) : a < len bs ->
  let rv := rev (firstn (N.to_nat a + 1) bs) in
  len rv = a + 1 /\ forall p, p <= a -> list_get bs (a - p) = nth_error rv (N.to_nat p).
Proof.
  intros Ha rv. unfold len in Ha.
  assert (L : length (firstn (N.to_nat a + 1) bs) = (N.to_nat a + 1)%nat)
    by (rewrite firstn_length; lia).
  split.
  - unfold len, rv. rewrite rev_length, L. lia.
  - intros p Hp. unfold rv, list_get. rewrite nth_error_rev by lia. rewrite L.
    rewrite nth_error_firstn_lt by lia. f_equal. lia.
Qed.
