(* LevUtf8.v — C17, Part 3b: facts about UTF-8 encodings of scalar values used by the DFA proofs:
   decode . encode = id, encodings are prefix-free, and every encoding is matched by exactly the
   modelled list of utf8-ranges sequences. *)
Require Import FstV.Base FstV.Levenshtein FstV.proofs.LevDfa.
Require Import ZArith Lia ZifyN ZifyBool ZifyNat.
Ltac Zify.zify_post_hook ::= Z.div_mod_to_equations.
Open Scope N_scope.

Ltac split_ltb :=
  match goal with
  | |- context [if N.ltb ?a ?b then _ else _] => destruct (N.ltb_spec a b); try lia
  end.

Lemma is_scalar_spec c : is_scalar c = true <-> (c < 0xD800 \/ (0xDFFF < c /\ c < 0x110000)).
Proof. unfold is_scalar. lia. Qed.

Lemma utf8_encode_nonempty c : utf8_encode c <> [].
Proof. unfold utf8_encode. repeat split_ltb; discriminate. Qed.

Lemma decode_encode c rest : is_scalar c = true ->
  utf8_decode (utf8_encode c ++ rest) = option_map (cons c) (utf8_decode rest).
Proof.
  intros Hs. apply is_scalar_spec in Hs. unfold utf8_encode.
  destruct (N.ltb_spec c 0x80); [|destruct (N.ltb_spec c 0x800); [|destruct (N.ltb_spec c 0x10000)]];
    cbn [app utf8_decode]; repeat split_ltb; f_equal; f_equal; lia.
Qed.

Lemma decode_bytes k : forallb is_scalar k = true -> utf8_decode (utf8_bytes k) = Some k.
Proof.
  induction k as [|c k IH]; [reflexivity|]. cbn [forallb utf8_bytes flat_map]. intros H.
  apply andb_true_iff in H as [Hc Hk]. fold (utf8_bytes k). rewrite decode_encode by exact Hc.
  now rewrite IH.
Qed.

Lemma encode_prefix_free c c' r : is_scalar c = true -> is_scalar c' = true ->
  utf8_encode c' = utf8_encode c ++ r -> c = c'.
Proof.
  intros Hc Hc' E.
  pose proof (decode_encode c' [] Hc') as H1. rewrite app_nil_r, E in H1.
  rewrite decode_encode in H1 by exact Hc. cbn in H1.
  destruct (utf8_decode r); cbn in H1; congruence.
Qed.

Lemma diverge_of_no_prefix (a : list N) : forall b,
  (forall r, b <> a ++ r) -> (forall r, a <> b ++ r) -> diverge a b.
Proof.
  induction a as [|x a IH]; intros b H1 H2.
  - exfalso. now apply (H1 b).
  - destruct b as [|y b]; [exfalso; now apply (H2 (x :: a))|].
    destruct (N.eq_dec x y) as [->|Hxy].
    + destruct (IH b) as (p & x' & y' & r & r' & E1 & E2 & Hn).
      * intros r E. apply (H1 r). cbn. now rewrite E.
      * intros r E. apply (H2 r). cbn. now rewrite E.
      * exists (y :: p), x', y', r, r'. subst. auto.
    + exists [], x, y, a, b. auto.
Qed.

Theorem encode_diverge c c' : is_scalar c = true -> is_scalar c' = true -> c <> c' ->
  diverge (utf8_encode c) (utf8_encode c').
Proof.
  intros Hc Hc' Hn. apply diverge_of_no_prefix.
  - intros r E. apply Hn. eapply encode_prefix_free; eauto.
  - intros r E. apply Hn. symmetry. eapply encode_prefix_free; eauto.
Qed.

(* ---- the modelled sequences ---- *)
Lemma in_range_N r b : fst r <= b <= snd r -> in_range r (N.to_nat b) = true.
Proof. intros H. unfold in_range. apply andb_true_iff. split; apply Nat.leb_le; lia. Qed.

Lemma utf8_sequences_char c : utf8_sequences c c = [singles (utf8_encode c)].
Proof. unfold utf8_sequences. now rewrite N.eqb_refl. Qed.
Lemma utf8_sequences_full : utf8_sequences 0 0x10FFFF = utf8_sequences_all.
Proof. reflexivity. Qed.

Ltac in_seq n :=
  match n with
  | O => apply Exists_cons_hd
  | S ?m => apply Exists_cons_tl; in_seq m
  end.
Ltac solve_matches := unfold matches; repeat (apply Forall2_cons; [apply in_range_N; cbn [fst snd]; lia|]); apply Forall2_nil.

Theorem encode_in_sequences c : is_scalar c = true ->
  Exists (fun rs => matches rs (utf8_encode c)) utf8_sequences_all.
Proof.
  intros Hs. apply is_scalar_spec in Hs. unfold utf8_encode, utf8_sequences_all.
  destruct (N.ltb_spec c 0x80); [in_seq 0%nat; solve_matches|].
  destruct (N.ltb_spec c 0x800); [in_seq 1%nat; solve_matches|].
  destruct (N.ltb_spec c 0x10000).
  - destruct (N.ltb_spec c 0x1000); [in_seq 2%nat; solve_matches|].
    destruct (N.ltb_spec c 0xD000); [in_seq 3%nat; solve_matches|].
    destruct (N.ltb_spec c 0xE000); [in_seq 4%nat; solve_matches|].
    in_seq 5%nat; solve_matches.
  - destruct (N.ltb_spec c 0x40000); [in_seq 6%nat; solve_matches|].
    destruct (N.ltb_spec c 0x100000); [in_seq 7%nat; solve_matches|].
    in_seq 8%nat; solve_matches.
Qed.

Lemma sequences_all_ok : Forall (fun rs => rs <> [] /\ Forall range_ok rs) utf8_sequences_all.
Proof.
  unfold utf8_sequences_all, range_ok.
  repeat (apply Forall_cons; [split; [discriminate|repeat (apply Forall_cons; [cbn [fst snd]; lia|]); apply Forall_nil]|]).
  apply Forall_nil.
Qed.

Lemma matches_bytes rs bs : Forall range_ok rs -> matches rs bs -> forall x, In x bs -> x < 256.
Proof.
  intros Hok Hm. induction Hm as [|r b rs bs Hb Hm IH]; intros x Hx; [destruct Hx|].
  inversion Hok as [|? ? [_ Hr] Hok']; subst. destruct Hx as [<-|Hx]; [|now apply IH].
  unfold in_range in Hb. apply andb_true_iff in Hb as [_ Hb]. apply Nat.leb_le in Hb. lia.
Qed.

Theorem encode_bytes c : is_scalar c = true -> forall x, In x (utf8_encode c) -> x < 256.
Proof.
  intros Hs. pose proof (encode_in_sequences c Hs) as H. apply Exists_exists in H as (rs & Hin & Hm).
  pose proof sequences_all_ok as Hok. rewrite Forall_forall in Hok. destruct (Hok rs Hin) as [_ Hr].
  now apply (matches_bytes rs).
Qed.

(* the first ranges of the nine sequences are pairwise disjoint *)
Definition heads_apart (a b : utf8_seq) : Prop :=
  forall x, in_range (hd (0, 0) a) x = true -> in_range (hd (0, 0) b) x = false.

Lemma sequences_all_apart : ForallOrdPairs (fun a b => heads_apart a b /\ heads_apart b a) utf8_sequences_all.
Proof.
  unfold utf8_sequences_all.
  repeat (apply FOP_cons;
          [repeat (apply Forall_cons;
                   [split; intros x; unfold in_range; cbn [hd fst snd]; lia|]); apply Forall_nil|]).
  apply FOP_nil.
Qed.
