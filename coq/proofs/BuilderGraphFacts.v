(* BuilderGraphFacts.v — from the ghost store to the graph the format specification builds:
   well-formedness, languages, the size of the unfolded graph, canonical outputs. *)
Require Import FstV.Base FstV.Pack FstV.Node FstV.Reader FstV.GraphSem FstV.Format FstV.CodecSpec.
Require Import FstV.proofs.BuilderInv FstV.proofs.BuilderGraphLemmas FstV.proofs.BuilderSpecLemmas
               FstV.proofs.StreamGraphLemmas.
Require Import Coq.FSets.FMapPositive Lia ZifyN ZifyBool ZifyNat.

Definition pbytes (l : kmap) : N := key_bytes (keys_of l).

Lemma pbytes_app a b : pbytes (a ++ b) = pbytes a + pbytes b.
Proof. unfold pbytes, keys_of. rewrite map_app. apply key_bytes_app. Qed.
Lemma pbytes_consT t l : pbytes (map (consT t) l) = len l + pbytes l.
Proof.
  unfold pbytes, keys_of, len. induction l as [|[k v] l IH]; [reflexivity|].
  cbn [map fst consT key_bytes fold_right length] in *. unfold key_bytes, len in *. cbn [length]. lia.
Qed.

Lemma fold_min_le l : forall a, fold_left N.min l a <= a /\ Forall (fun x => fold_left N.min l a <= x) l.
Proof.
  induction l as [|x l IH]; intros a; cbn [fold_left]; [split; [lia|constructor]|].
  destruct (IH (N.min a x)) as (H1 & H2). split; [lia|]. constructor; [lia|exact H2].
Qed.
Lemma has0_min l : has0 l -> min_value l = Some 0.
Proof.
  intros (k & Hin). destruct l as [|[k0 v0] r]; [destruct Hin|]. cbn [min_value]. f_equal.
  destruct (fold_min_le (map snd r) v0) as (H1 & H2). destruct Hin as [Hin|Hin].
  - inversion Hin; subst. lia.
  - rewrite Forall_forall in H2. specialize (H2 0). assert (In 0 (map snd r)).
    { apply in_map_iff. exists (k, 0). auto. } apply H2 in H. lia.
Qed.

Section Store.
Variable E : store.
Hypothesis HE : store_ok E.
Let g := graph_of (node_table (rev E)).

Lemma gget_store_inv a n : gget g a = Some n ->
  (a = 0 /\ n = g_empty_final) \/ (a <> 0 /\ exists s, In (a, s) E /\ n = gnode_of s).
Proof.
  unfold gget. destruct (N.eqb_spec a 0) as [->|Hne]; [intros X; inversion X; auto|].
  unfold g, graph_of. rewrite node_table_find_gen. intros H. right. split; [exact Hne|].
  destruct (find (fun x => fst x =? a) E) as [[a0 s0]|] eqn:Hf; [|discriminate].
  apply find_some in Hf. destruct Hf as (Hin & Heq). cbn [fst] in Heq. apply N.eqb_eq in Heq. subst a0.
  cbn [snd] in H. inversion H. eauto.
Qed.

Lemma gget_tgt a : tgt_ok E a -> exists n, gget g a = Some n.
Proof.
  intros [->|Hin]; [eexists; reflexivity|]. apply store_addrs_in in Hin. destruct Hin as (s & Hin).
  eexists. apply gget_store_in; eauto.
Qed.

Lemma wf_store : wf_graph g.
Proof.
  intros a n Hn. destruct (gget_store_inv a n Hn) as [(-> & ->)|(Hne & s & Hin & ->)].
  - split; [reflexivity|]. intros t [].
  - destruct (store_in_node_ok _ _ _ HE Hin) as ((H1 & H2 & _) & Hlt & _). cbn [gnode_of g_trans bn_of n_trans] in *.
    split; [exact H1|]. intros t Ht. rewrite Forall_forall in H2, Hlt. destruct (H2 t Ht) as (A & _ & C).
    split; [exact A|]. split; [apply Hlt; exact Ht|]. apply gget_tgt. exact C.
Qed.

Lemma L_store a : tgt_ok E a -> L g a = elang E a.
Proof. intros Ht. unfold L. unfold g. rewrite (lang_store E HE (S (N.to_nat a)) a Ht); [reflexivity|lia]. Qed.

(* the nodes of [E] other than [r] are trimmed: every address has a non-empty language and the
   unfolded graph below it has at most one node per key byte, plus one *)
Variable r : N.
Hypothesis Htrim : forall a s, In (a, s) E -> a <> r -> trimmed (bn_of s).
Hypothesis Hr : forall a, In a (addrs E) -> a <= r.

Lemma tree_bound : forall f a, (N.to_nat a < f)%nat -> tgt_ok E a ->
  N.of_nat (tree_size g a) <= 1 + pbytes (L g a) /\ (a <> r -> L g a <> []).
Proof.
  induction f as [|f IH]; intros a Hf Ha; [lia|].
  destruct (gget_tgt a Ha) as (n & Hn).
  rewrite (tree_size_unfold g wf_store a n Hn), (L_unfold g wf_store a n Hn).
  destruct (gget_store_inv a n Hn) as [(-> & ->)|(Hne & s & Hin & ->)].
  - cbn. split; [lia|discriminate].
  - destruct (store_in_node_ok _ _ _ HE Hin) as ((_ & H2 & _) & Hlt & _).
    cbn [gnode_of g_trans g_final g_fout bn_of n_trans] in *.
    assert (Hkids : forall ts, Forall (trans_ok E) ts -> Forall (fun t => t_addr t < a) ts ->
              N.of_nat (kids_size g ts) <= pbytes (children g ts) /\ (ts <> [] -> children g ts <> [])).
    { induction ts as [|t ts IHts]; intros F1 F2; [cbn; split; [lia|congruence]|].
      inversion F1 as [|? ? (_ & _ & Ht) F1']; subst. inversion F2 as [|? ? Hta F2']; subst.
      destruct (IHts F1' F2') as (B1 & _).
      assert (Hra : t_addr t <> r).
      { specialize (Hr a (store_in_addrs _ _ _ Hin)). lia. }
      destruct (IH (t_addr t) ltac:(lia) Ht) as (A1 & A2). specialize (A2 Hra).
      rewrite kids_size_cons, children_cons, pbytes_app, pbytes_consT. split.
      - assert (1 <= len (L g (t_addr t))) by (destruct (L g (t_addr t)); [congruence|unfold len; cbn [length]; lia]).
        lia.
      - intros _. destruct (L g (t_addr t)); [congruence|discriminate]. }
    destruct (Hkids (sn_trans s) H2 Hlt) as (K1 & K2). split.
    + rewrite pbytes_app. assert (0 <= pbytes (if sn_final s then [([], sn_fout s)] else [])) by lia. lia.
    + intros Har. destruct (Htrim a s Hin Har) as [Hfin|Hnt]; cbn [bn_of n_final n_trans] in *.
      * rewrite Hfin. discriminate.
      * specialize (K2 Hnt). destruct (sn_final s); [discriminate|]. exact K2.
Qed.

(* canonical outputs *)
Lemma cgood_in : cgood E -> forall a s, In (a, s) E -> Fro (elang E) (bn_of s).
Proof.
  clear Htrim Hr. revert HE. clear g. induction E as [|[a0 s0] E0 IH]; intros HE0 Hc a s Hin; [destruct Hin|].
  cbn [cgood] in Hc. destruct Hc as (Hc1 & Hc2). pose proof HE0 as HE1. cbn [store_ok] in HE1.
  destruct HE1 as (HE1 & Hn0 & _).
  assert (Hext : forall n, node_ok E0 n -> Fro (elang E0) n -> Fro (elang ((a0, s0) :: E0)) n).
  { intros n (_ & Hf & _) HF t Ht. rewrite Forall_forall in Hf. destruct (Hf t Ht) as (_ & _ & Htg).
    rewrite elang_cons; auto. }
  destruct Hin as [Hin|Hin].
  - inversion Hin; subst. apply Hext; auto.
  - apply Hext; [|eapply IH; eauto]. apply (store_in_node_ok _ _ _ HE1 Hin).
Qed.

Lemma canonical_store : cgood E -> canonical_outputs g.
Proof.
  intros Hc a n t Ha Hn Ht. destruct (gget_store_inv a n Hn) as [(-> & _)|(_ & s & Hin & ->)]; [congruence|].
  cbn [gnode_of g_trans] in Ht. destruct (store_in_node_ok _ _ _ HE Hin) as ((_ & H2 & _) & _ & _).
  cbn [bn_of n_trans] in H2. rewrite Forall_forall in H2. destruct (H2 t Ht) as (_ & _ & Htg).
  rewrite (L_store _ Htg). apply has0_min. apply (cgood_in Hc a s Hin). exact Ht.
Qed.
End Store.
