(* MergeBytes.v — C19 at the level of bytes: the content theorems of MergeProofs.v composed with the
   closed builder / format / reader theorems (Closed.v, BuiltVerifies.v, BuilderBasics.v).

   In fst-bin/src/merge.rs every FST file, the final one included, is written by a raw::Builder
   (`raw::Builder::new(wtr)`: fst type 0) that is given `insert(key, value)` for every pair of the
   content in ascending order (KvBatch::create_fst after merging runs, UnionBatch::create_fst over
   the union stream; for sets the value is 0) and then `finish()`; the empty input goes through
   `Builder::new` + `finish` directly.  The bytes of the output file therefore are
   [build_map summer 0 rows cols content] for the content [merge_all] returns. *)
Require Import FstV.Base FstV.Merge FstV.Builder FstV.Format FstV.CodecSpec FstV.Fst FstV.Crc FstV.Open.
Require Import FstV.proofs.MergeProofs FstV.proofs.BuilderInv FstV.proofs.BuilderBasics
               FstV.proofs.Closed FstV.proofs.BuiltVerifies.
From Coq Require Import Permutation.

(* ---------- side conditions on the rows and on the merger ---------- *)
(* what the parsers can deliver: keys are byte strings, values are u64 *)
Definition rows_ok (input : list kv) : Prop :=
  Forall (fun x => Forall (fun b => b < 256) (fst x) /\ snd x < U64) input.
(* the merger maps u64 x u64 into u64 (it is a Rust `Fn(u64, u64) -> u64`) *)
Definition merger_closed (mg : vmerger) : Prop :=
  match mg with Some f => forall a b, a < U64 -> b < U64 -> f a b < U64 | None => True end.

Lemma sum_closed : merger_closed mg_sum.
Proof. intros a b _ _. apply N.mod_lt. discriminate. Qed.
Lemma max_closed : merger_closed mg_max.
Proof. intros a b Ha Hb. cbn. lia. Qed.
Lemma min_closed : merger_closed mg_min.
Proof. intros a b Ha Hb. cbn. lia. Qed.
Lemma set_closed : merger_closed mg_set.
Proof. exact I. Qed.

Lemma fold_left_closed (f : N -> N -> N) :
  (forall a b, a < U64 -> b < U64 -> f a b < U64) ->
  forall vs a, a < U64 -> Forall (fun v => v < U64) vs -> fold_left f vs a < U64.
Proof.
  intros Hf vs. induction vs as [|v r IH]; intros a Ha HF; [exact Ha|].
  inversion HF; subst. cbn [fold_left]. apply IH; auto.
Qed.

Lemma merge_outputs_u64 mg vs :
  merger_closed mg -> Forall (fun v => v < U64) vs -> merge_outputs mg vs < U64.
Proof.
  intros Hc HF. destruct mg as [f|]; cbn [merge_outputs]; [|reflexivity].
  destruct vs as [|v r]; cbn [fold1]; [reflexivity|].
  inversion HF; subst. apply fold_left_closed; auto.
Qed.

Lemma values_in_u64 k input : rows_ok input -> Forall (fun v => v < U64) (values_in k input).
Proof.
  intros HR. unfold values_in. apply Forall_forall. intros v Hv.
  apply in_map_iff in Hv as [x [<- Hx]]. apply filter_In in Hx as [Hx _].
  unfold rows_ok in HR. rewrite Forall_forall in HR. exact (proj2 (HR x Hx)).
Qed.

Lemma spec_rows_ok mg input : merger_closed mg -> rows_ok input -> rows_ok (spec_merge mg input).
Proof.
  intros Hc HR. unfold rows_ok, spec_merge. apply Forall_forall. intros x Hx.
  apply in_map_iff in Hx as [k [<- Hk]]. cbn [fst snd]. split.
  - apply (proj1 (key_set_In _ _)) in Hk. unfold keys_of in Hk. apply in_map_iff in Hk as [y [<- Hy]].
    unfold rows_ok in HR. rewrite Forall_forall in HR. exact (proj1 (HR y Hy)).
  - apply merge_outputs_u64; [exact Hc|]. now apply values_in_u64.
Qed.

(* ---------- the size budget: distinct keys are no longer than all keys ---------- *)
Lemma key_bytes_insert k l : key_bytes (key_insert k l) <= len k + key_bytes l.
Proof.
  induction l as [|x r IH]; cbn [key_insert key_bytes fold_right]; [lia|].
  destruct (lex_cmp k x); cbn [key_bytes fold_right]; fold (key_bytes r); fold (key_bytes (key_insert k r)); lia.
Qed.
Lemma key_bytes_set ks : key_bytes (key_set ks) <= key_bytes ks.
Proof.
  induction ks as [|k r IH]; [cbn; lia|].
  change (key_set (k :: r)) with (key_insert k (key_set r)).
  pose proof (key_bytes_insert k (key_set r)).
  change (key_bytes (k :: r)) with (len k + key_bytes r). lia.
Qed.
(* the budget stated on the raw rows is enough *)
Lemma size_ok_rows mg input : size_ok_keys (keys_of input) -> size_ok (spec_merge mg input).
Proof.
  unfold size_ok, size_ok_keys. rewrite keys_of_spec. pose proof (key_bytes_set (keys_of input)).
  unfold NODE_MAX in *. lia.
Qed.

Theorem spec_input_ok mg input :
  merger_closed mg -> rows_ok input -> size_ok (spec_merge mg input) -> input_ok (spec_merge mg input).
Proof.
  intros Hc HR Hs. split; [apply spec_kmap_ok|]. split; [|exact Hs]. now apply spec_rows_ok.
Qed.

(* ---------- maps: the output file ---------- *)
Definition zero_lt_U64 : 0 < U64 := eq_refl.

Theorem merge_output_file : forall mg o bs fd threads input summer rows cols,
  merger_ok mg input -> merger_closed mg -> oracle_ok o -> 2 <= fd -> 1 <= threads ->
  rows_ok input -> size_ok (spec_merge mg input) -> (forall l, summer l < 4294967296) ->
  let content := spec_merge mg input in
  (* the pipeline returns the specified content, whatever the schedule *)
  merge_all mg o bs fd threads input = Returns (Ok content) /\
  (* the file written from it, for any checksum function and cache geometry *)
  (exists file, build_map summer 0 rows cols content = Ok file /\
     spec_read file = Some (3, 0, content) /\
     api_stream file = Ok content /\ api_len file = len content /\
     (forall k, Forall (fun b => b < 256) k ->
        api_get file k = Ok (lookup content k) /\
        api_contains file k = Ok (match lookup content k with Some _ => true | None => false end))) /\
  (* with the real checksum: Fst::new opens it and Fst::verify accepts it *)
  (exists file m, build_map model_masked_crc32c 0 rows cols content = Ok file /\
     fst_new file = Ok m /\ verify file m = Ok tt /\
     Open.m_len m = len content /\ Open.m_ty m = 0 /\ Open.m_version m = 3 /\
     spec_read file = Some (3, 0, content) /\ api_stream file = Ok content) /\
  (* what the content is *)
  kmap_ok content = true /\
  (forall k, In k (keys_of content) <-> In k (keys_of input)) /\
  (forall k, In k (keys_of input) -> lookup content k = Some (merge_outputs mg (values_in k input))) /\
  (forall k, ~ In k (keys_of input) -> lookup content k = None).
Proof.
  intros mg o bs fd threads input summer rows cols Hm Hc Ho Hfd Hth HR Hs Hsum content.
  pose proof (spec_input_ok mg input Hc HR Hs) as Hi. fold content in Hi.
  split; [apply merge_all_correct; auto; lia|].
  split.
  { destruct (built_map_answers summer 0 rows cols content Hi zero_lt_U64 Hsum)
      as (file & Hb & Hr & _ & Hst & Hl & Hg & _).
    exists file. repeat split; auto; apply Hg; assumption. }
  split.
  { destruct (built_map_verifies 0 rows cols content Hi zero_lt_U64)
      as (file & m & Hb & Hn & Hv & Hl & Ht & Hver & _).
    destruct (built_map_answers model_masked_crc32c 0 rows cols content Hi zero_lt_U64 model_masked_u32)
      as (file' & Hb' & Hr & _ & Hst & _).
    rewrite Hb in Hb'. injection Hb' as <-.
    exists file, m. repeat split; assumption. }
  split; [apply spec_kmap_ok|]. split; [apply spec_keys_exact|].
  split; [apply lookup_spec_In|apply lookup_spec_notIn].
Qed.

(* the three mergers of `fst map` *)
Corollary cli_mergers_ok : forall mg, mg = mg_sum \/ mg = mg_max \/ mg = mg_min ->
  forall input, merger_ok mg input /\ merger_closed mg.
Proof.
  intros mg [->|[->| ->]] input; split;
    first [apply sum_ac|apply max_ac|apply min_ac|apply sum_closed|apply max_closed|apply min_closed].
Qed.

(* ---------- sets ---------- *)
(* cmd/set.rs: `(line, 0)` *)
Definition set_rows (lines : list key) : list kv := map (fun k => (k, 0)) lines.

Lemma set_rows_keys lines : keys_of (set_rows lines) = lines.
Proof. unfold keys_of, set_rows. rewrite map_map. cbn [fst]. apply map_id. Qed.
Lemma set_rows_merger_ok lines : merger_ok mg_set (set_rows lines).
Proof.
  cbn [merger_ok mg_set]. apply Forall_forall. intros x Hx.
  apply in_map_iff in Hx as [k [<- _]]. reflexivity.
Qed.
Lemma set_rows_ok lines : Forall (Forall (fun b => b < 256)) lines -> rows_ok (set_rows lines).
Proof.
  intros H. unfold rows_ok, set_rows. apply Forall_forall. intros x Hx.
  apply in_map_iff in Hx as [k [<- Hk]]. cbn [fst snd]. rewrite Forall_forall in H. split; [now apply H|reflexivity].
Qed.
Lemma spec_set_content lines :
  spec_merge mg_set (set_rows lines) = map (fun k => (k, 0)) (key_set lines).
Proof. unfold spec_merge. rewrite set_rows_keys. reflexivity. Qed.

Lemma key_set_sorted_strict l : sorted_strict (key_set l) = true.
Proof. apply sstrict_sorted_strict, key_set_sstrict. Qed.

Lemma lookup_zero_map ks k :
  lookup (map (fun k => (k, 0)) ks) k = if existsb (key_eqb k) ks then Some 0 else None.
Proof.
  induction ks as [|x r IH]; [reflexivity|]. cbn [map lookup existsb].
  destruct (key_eqb k x); [reflexivity|exact IH].
Qed.

Theorem merge_output_file_set : forall o bs fd threads lines summer rows cols,
  oracle_ok o -> 2 <= fd -> 1 <= threads ->
  Forall (Forall (fun b => b < 256)) lines -> size_ok_keys (key_set lines) ->
  (forall l, summer l < 4294967296) ->
  let distinct := key_set lines in
  let content := map (fun k => (k, 0)) distinct in
  merge_all mg_set o bs fd threads (set_rows lines) = Returns (Ok content) /\
  (* the file the merger writes (raw::Builder::insert(key, 0)) is the file a SetBuilder writes for
     the distinct keys in order *)
  (exists file, build_map summer 0 rows cols content = Ok file /\
     build_set summer 0 rows cols distinct = Ok file /\
     spec_read file = Some (3, 0, content) /\
     api_stream file = Ok content /\ api_len file = len distinct /\
     (forall k, Forall (fun b => b < 256) k ->
        api_contains file k = Ok (existsb (key_eqb k) lines))) /\
  (exists file m, build_map model_masked_crc32c 0 rows cols content = Ok file /\
     build_set model_masked_crc32c 0 rows cols distinct = Ok file /\
     fst_new file = Ok m /\ verify file m = Ok tt /\
     Open.m_len m = len distinct /\ Open.m_ty m = 0 /\ Open.m_version m = 3 /\
     spec_read file = Some (3, 0, content) /\ api_stream file = Ok content) /\
  sorted_strict distinct = true /\ (forall k, In k distinct <-> In k lines).
Proof.
  intros o bs fd threads lines summer rows cols Ho Hfd Hth HB Hs Hsum distinct content.
  assert (Hsz : size_ok (spec_merge mg_set (set_rows lines))).
  { unfold size_ok. rewrite keys_of_spec, set_rows_keys. exact Hs. }
  destruct (merge_output_file mg_set o bs fd threads (set_rows lines) summer rows cols
              (set_rows_merger_ok lines) set_closed Ho Hfd Hth (set_rows_ok lines HB) Hsz Hsum)
    as (Hm & (file & Hb & Hr & Hst & Hl & Hg) & (file2 & m & Hb2 & Hn & Hv & Hml & Hty & Hver & Hr2 & Hst2) & _).
  rewrite spec_set_content in *. fold distinct in Hm, Hb, Hr, Hst, Hl, Hg, Hb2, Hml, Hr2, Hst2.
  fold content in Hm, Hb, Hr, Hst, Hl, Hg, Hb2, Hml, Hr2, Hst2.
  assert (Hlen : len content = len distinct) by (unfold content, len; now rewrite map_length).
  assert (Hex : forall k, existsb (key_eqb k) distinct = existsb (key_eqb k) lines).
  { intros k. apply eq_true_iff_eq. rewrite !existsb_exists. split; intros (x & Hx & E); exists x; split; auto;
      [now apply (proj1 (key_set_In _ _)) in Hx|now apply (proj2 (key_set_In _ _))]. }
  split; [exact Hm|]. split.
  { exists file. split; [exact Hb|]. split.
    { unfold content in Hb. rewrite <- build_set_eq_map0 in Hb by apply key_set_sorted_strict. exact Hb. }
    split; [exact Hr|]. split; [exact Hst|]. split; [rewrite Hl; exact Hlen|].
    intros k Hk. destruct (Hg k Hk) as [_ Hc]. rewrite Hc. unfold content. rewrite lookup_zero_map, Hex.
    now destruct (existsb (key_eqb k) lines). }
  split.
  { exists file2, m. split; [exact Hb2|]. split.
    { unfold content in Hb2. rewrite <- build_set_eq_map0 in Hb2 by apply key_set_sorted_strict. exact Hb2. }
    repeat split; try assumption. rewrite Hml; exact Hlen. }
  split; [apply key_set_sorted_strict|]. intros k. apply key_set_In.
Qed.

(* ---------- inputs without repeated keys: the bytes of a sorted build ---------- *)
Theorem merge_bytes_eq_sorted_build : forall mg o bs fd threads input summer rows cols,
  merger_ok mg input -> oracle_ok o -> 2 <= fd -> 1 <= threads -> NoDup (keys_of input) ->
  exists m,
    merge_all mg o bs fd threads input = Returns (Ok m) /\
    (* the sorted-mode builder (duplicates and disorder are errors) accepts the sorted rows *)
    builder_go false None (kv_sort input) = Ok (kv_sort input) /\
    Permutation input (kv_sort input) /\
    (* and writes the same bytes / fails the same way *)
    build_map summer 0 rows cols m = build_map summer 0 rows cols (kv_sort input).
Proof.
  intros mg o bs fd threads input summer rows cols Hm Ho Hfd Hth Hnd.
  destruct (spec_no_repeats mg input Hm Hnd) as [E Hb].
  exists (spec_merge mg input). split; [apply merge_all_correct; auto; lia|].
  split; [exact Hb|]. split; [apply kv_sort_perm|]. now rewrite E.
Qed.

(* ... and within the size budget both are the same accepted, verifying file *)
Theorem merge_file_eq_sorted_build : forall mg o bs fd threads input rows cols,
  merger_ok mg input -> merger_closed mg -> oracle_ok o -> 2 <= fd -> 1 <= threads ->
  NoDup (keys_of input) -> rows_ok input -> size_ok_keys (keys_of input) ->
  exists m file meta,
    merge_all mg o bs fd threads input = Returns (Ok m) /\
    builder_go false None (kv_sort input) = Ok (kv_sort input) /\
    build_map model_masked_crc32c 0 rows cols m = Ok file /\
    build_map model_masked_crc32c 0 rows cols (kv_sort input) = Ok file /\
    fst_new file = Ok meta /\ verify file meta = Ok tt /\
    api_stream file = Ok (kv_sort input) /\ Open.m_len meta = len input.
Proof.
  intros mg o bs fd threads input rows cols Hm Hc Ho Hfd Hth Hnd HR Hs.
  destruct (spec_no_repeats mg input Hm Hnd) as [E Hb].
  destruct (merge_output_file mg o bs fd threads input model_masked_crc32c rows cols
              Hm Hc Ho Hfd Hth HR (size_ok_rows mg input Hs) model_masked_u32)
    as (Hma & _ & (file & meta & Hbd & Hn & Hv & Hl & _ & _ & _ & Hst) & _).
  exists (spec_merge mg input), file, meta.
  split; [exact Hma|]. split; [exact Hb|]. split; [exact Hbd|].
  rewrite E in Hbd, Hst, Hl. split; [exact Hbd|]. split; [exact Hn|]. split; [exact Hv|].
  split; [exact Hst|]. rewrite Hl. unfold len. now rewrite <- (Permutation_length (kv_sort_perm input)).
Qed.

(* sets without repeated lines: the sorted-mode SetBuilder over the sorted lines writes the same bytes *)
Theorem merge_set_bytes_eq_sorted_build : forall o bs fd threads lines summer rows cols,
  oracle_ok o -> 2 <= fd -> 1 <= threads -> NoDup lines ->
  exists m,
    merge_all mg_set o bs fd threads (set_rows lines) = Returns (Ok m) /\
    Permutation lines (key_set lines) /\ sorted_strict (key_set lines) = true /\
    build_map summer 0 rows cols m = build_set summer 0 rows cols (key_set lines).
Proof.
  intros o bs fd threads lines summer rows cols Ho Hfd Hth Hnd.
  exists (spec_merge mg_set (set_rows lines)).
  split; [apply merge_all_correct; auto using set_rows_merger_ok; lia|].
  split.
  { apply NoDup_Permutation; [exact Hnd|apply sstrict_NoDup, key_set_sstrict|].
    intros x. symmetry. apply key_set_In. }
  split; [apply key_set_sorted_strict|].
  rewrite spec_set_content. symmetry. apply build_set_eq_map0, key_set_sorted_strict.
Qed.
